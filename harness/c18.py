"""C18 — TIFF export round-trips pixels, timestamps and calibration (DESIGN.md 6/C18).

Five kinds of cases:
  stack     a real multi-page camera TIFF (builders_tiff) opened as ImageStack, a selection program (frame slices
            with step, integer indices, crop_by_pixels, tuple indices, from_dataset; nested: every op is relative to
            the selection left by the ops before it), export_tiff, raw re-read with
            tifffile, reopen with ImageStack, export again.           model ops: c18.export (once / twice)
            Exposure per page: constant, arbitrary, jittered (neighbouring pages 0 / 1 ns / tens of ns / a relative
            1e-9..1e-3 apart: every page carries its OWN exposure), absent, legacy.
  confocal  a real Kymo / Scan (builders_confocal), optional derivation (frame slice, pixel crop, time slice,
            crop_by_distance, flip, position down-sampling), export_tiff(dtype, clip), raw re-read, reopen with
            ImageStack, export again.                                  model ops: c18.cast, c18.roundtrip
            Every case is exported three ways: by an untouched twin whose very first operation is export_tiff (nothing
            has evaluated num_frames / shape / timestamps, so nothing reconstructed lazily is cached yet), by that twin
            again, and by the instance that answered all queries first; every file must satisfy the same clauses.
            The 'scan count' of the metadata record is 0 (not stored: reconstructed on demand) or the true count.
  mixin     TiffExport.export_tiff itself, fed by a minimal provider with arbitrary pixel values (negative,
            fractional, at and beyond every dtype limit) and arbitrary timestamp ranges (ops 0-2), AND the same clauses
            through the public API (ops 3-5): the values as the float photon counts of a real Scan exported with
            Scan.export_tiff(dtype, clip); the ranges / exposures as the pages of a camera TIFF written with tifffile,
            opened with ImageStack, exported, read back raw and reopened.
                                                                       model ops: (c18.cast, c18.encode, c18.roundtrip) x 2
  datetime  _get_page_timestamps on arbitrary (also malformed) DateTime strings, called directly and as the tag of a
            TIFF page read through ImageStack(file).frame_timestamp_ranges.          model op: c18.decode x 2
  legacy    _frame_timestamps_from_exposure_timestamps on arbitrary ranges, called directly and as the tags of a
            Pylake < 1.3.2 export read through ImageStack(file).frame_timestamp_ranges.   model op: c18.legacy x 2

Private names of pylake are touched only while they are reachable (see 'reaching pylake' below): an observation that
cannot be made is answered "?" and ignored; the public routes keep every clause tied when a refactoring renames them.
"""
import atexit
import itertools
import json
import math
import os
import re
import shutil
import struct
import tempfile
import warnings
from fractions import Fraction

import numpy as np

import builders_confocal as bc
import builders_tiff as bt
from common import enc_list, enc_opt, enc_bool
from common import errname as _errname


def errname(e):
    return "OverflowError" if isinstance(e, OverflowError) else _errname(e)


# ------------------------------------------------------------------ reaching pylake
# Robustness against harmless refactorings (renamed / moved private helpers must neither raise an alarm nor break the tie):
#  * the export mixin is found through the PUBLIC ImageStack (the base class that defines export_tiff), wherever pylake
#    keeps it and whatever it is called;
#  * its four provider hooks (`_tiff_*`, an anchored mechanism without a public equivalent) are overridden only while the
#    mixin still has them; otherwise the three direct observations of a mixin case are "?" and the same clauses stay
#    tied through the public API (ops 3-5 of a mixin case: Scan.export_tiff on float photon counts, ImageStack re-export);
#  * the private parsing helpers of detail/widefield.py are called only while reachable ("?" otherwise); every datetime /
#    legacy case is ALSO observed through ImageStack(file).frame_timestamp_ranges on a file written with tifffile;
#  * the TiffStack behind an ImageStack (argument of the public ImageStack.from_dataset) is located by what from_dataset
#    does with it, not by the attribute name.
# "?" = an observation that could not be made: ignored by agree / oracle / nontrivial, never an implementation answer.
HOOKS = ("_tiff_frames", "_tiff_image_metadata", "_tiff_timestamp_ranges", "_tiff_writer_kwargs")
_REACH = {}


class Unreachable(Exception):
    """a private member the harness needs for an observation is not reachable (renamed / moved): skip the observation"""


def private(module, name):
    """a private helper of pylake, or None when it cannot be reached under that name any more"""
    key = (module, name)
    if key not in _REACH:
        try:
            import importlib

            _REACH[key] = getattr(importlib.import_module(module), name)
        except (ImportError, AttributeError):
            _REACH[key] = None
    return _REACH[key]


def export_mixin():
    """the class that defines the public export_tiff(filename, *, dtype, clip) - read off the MRO of the public ImageStack -
    or None when it is not reachable or does not have the four `_tiff_*` provider hooks any more"""
    if "mixin" not in _REACH:
        from lumicks.pylake import ImageStack

        cls = next((k for k in ImageStack.__mro__[1:] if "export_tiff" in vars(k)), None)
        if cls is None:
            cls = private("lumicks.pylake.detail.imaging_mixins", "TiffExport")
        if cls is not None and not all(callable(getattr(cls, h, None)) for h in HOOKS):
            cls = None
        _REACH["mixin"] = cls
    return _REACH["mixin"]


def stack_source(st):
    """the object an ImageStack reads its pages from, as taken by the public ImageStack.from_dataset(data, ...): the
    attribute holding it is private bookkeeping, so it is found by what from_dataset does with `data` (a probe object is
    looked up again on the instance from_dataset returns); `_src` as a fallback; Unreachable otherwise"""
    if "src_attr" not in _REACH:
        name = None
        try:
            probe = object()
            made = type(st).from_dataset(probe, "probe", 0, 0, 1)
            name = next((k for k, v in vars(made).items() if v is probe), None)
        except Exception:
            name = None
        _REACH["src_attr"] = name or "_src"
    try:
        return getattr(st, _REACH["src_attr"])
    except AttributeError:
        raise Unreachable(_REACH["src_attr"])


def observed(ia):
    return [a for a in ia if a != "?"]


PROP = "C18"
THEOREMS = [
    "Verif.C18.cast_fits",
    "Verif.C18.cast_refuses",
    "Verif.C18.cast_succeeds_iff",
    "Verif.C18.cast_clips",
    "Verif.C18.clip_spec",
    "Verif.C18.cast_never_wraps",
    "Verif.C18.cast_int_exact",
    "Verif.C18.cast_f32_close",
    "Verif.C18.cast_f32_exact_small_int",
    "Verif.C18.cast_f32_in_range",
    "Verif.C18.f32_relative_error",
    "Verif.C18.datetime_roundtrip",
    "Verif.C18.datetime_negative_refused",
    "Verif.C18.decode_sound",
    "Verif.C18.decode_complete",
    "Verif.C18.datetime_roundtrip_total",
    "Verif.C18.legacy_frame_ranges",
    "Verif.C18.export_selection_frames",
    "Verif.C18.export_selection_index",
    "Verif.C18.export_selection_roi",
    "Verif.C18.export_uniform",
    "Verif.C18.reexport_fixed_point",
    "Verif.C18.reexport_after_export",
    "Verif.C18.export_legacy_tags",
    "Verif.C18.visible_selection",
    "Verif.C18.exposure_roundtrip",
    "Verif.C18.exposure_bound_needed",
    "Verif.C18.exposure_ms_close",
    "Verif.C18.exposure_times_roundtrip",
    "Verif.C18.reexport_fixed_point_float",
    "Verif.C18.reexport_after_export_float",
    "Verif.C18.tuple_index_is_crop_then_frames",
    "Verif.C18.export_selection_tuple",
    "Verif.C18.export_program_selection",
    "Verif.C18.program_establishes_hypotheses",
    "Verif.C18.program_reexport",
    "Verif.C18.program_visible",
    "Verif.C18.legacy_program_tags",
    "Verif.C18.kymo_frame_range",
    "Verif.C18.kymo_frame_range_ordered",
    "Verif.C18.export_tiff_no_images",
    "Verif.C18.export_tiff_all_or_nothing",
    "Verif.C18.export_tiff_page_count",
    "Verif.C18.export_tiff_roundtrip",
    "Verif.C18.export_tiff_pixels",
    "Verif.C18.stack_export_is_mixin_export",
    "Verif.C18.software_tag_fixed_point",
    "Verif.C18.software_tag_keeps_original",
    "Verif.C18.legacy_detection_spec",
    "Verif.C18.exported_file_not_legacy",
    "Verif.C18.exported_alignment_is_applied",
    "Verif.C18.for_export_fixed_point",
]
RULE = (
    "corpus + exhaustive small scope + seeded random + malformed stream. stack: real TIFF stacks written with tifffile "
    "(grey / RGB / two-colour, uint8/uint16, 1-3 files, 1-10 pages, constant / variable / absent exposure, legacy "
    "Pylake<1.3.2 metadata, identity alignment matrices, pixel calibration) with every frame slice a:b:c over bounds in "
    "[-n-1, n+1] or None and steps None,1,2,3 (plus -1, 0) on n=5 and on a legacy and a variable-exposure stack of 4 pages, a sample of second-level programs, all "
    "ROIs of a 3x4 image with bounds in [-h-1, h+1] or None, ROIs of ROIs (first crop with origin 0 / not 0 on either axis, then every one-axis ROI with bounds in "
    "[-m-1, m+1] or None of the CROPPED extent m, as crop_by_pixels and as tuple index, a sample of third-level crops), every slice of a 6-page stack "
    "whose exposure jitters from page to page (0, +-1 ns, tens of ns, relative 1e-5, 1e-3) and jittered exposures around 1 us / 1 ms / 1 s, "
    "integer indices, tuple indices, from_dataset incl. empty; random programs draw every op against the extent left by the ops before it and are "
    "mostly valid (an emptied / refused selection is redrawn in 85% of the cases), random stacks have constant / arbitrary / jittered / absent / legacy exposure; "
    "each exported, re-read raw, reopened, exported again. confocal: kymographs and scans from generated info waves "
    "(both axis orders, 1-5 frames, dead time, lead-in) with photon counts below / at / above each dtype limit, all "
    "dtype x clip combinations, derived objects (frame slices, pixel crops incl. down to one pixel, time slices, "
    "crop_by_distance, flip, position down-sampling with mean -> fractional values, calibrate_to_kbp) and derivations of derivations: every ordered "
    "pair of the six kymograph operations, triples around binning, random chains of up to three steps - the pixel size in the resolution tags is "
    "judged against the acquisition record x the binning factors of the whole chain, line time and centre point against the record, and the export "
    "after a final flip / calibrate_to_kbp against the export of the object before that step (all tags and description entries equal, pixels "
    "mirrored / equal); camera TIFFs without JSON metadata (text / empty description, '{}'); the stack's own start / stop before and after the "
    "round trip; metadata 'scan count' 0 (not stored) or the true "
    "count; every object exported by an untouched twin as its very first operation, by that twin again, and after all queries "
    "(image, num_frames, frame ranges, pixel size) were answered - all files judged by the same clauses on every page. mixin: export_tiff driven "
    "directly with values from the boundary set of every dtype (negative, fractional, 255/256, 65535/65536, 2^24+-1, "
    "float32 max and beyond, subnormal, float32 ties) and timestamp ranges at 0, 1, 10^k, 2^63-1 and negative, multi-page exports whose "
    "exposure differs from page to page by 0 / 1 ns / tens of ns / a relative 1e-9..1e-3; every such case also through the public API "
    "(the values as float photon counts of a real Scan -> Scan.export_tiff(dtype, clip), whenever the scan presents exactly these values; the "
    "ranges / exposures as pages of a tifffile-written camera TIFF -> ImageStack -> export_tiff -> raw re-read -> reopen). datetime: "
    "strings from the grammar, with leading zeros, final newline, and malformed ones, parsed by the direct call and as the tag of a TIFF page "
    "read through ImageStack (strings that tifffile hands back unchanged); legacy ranges by the direct call and as a legacy file read through ImageStack. "
    "An observation whose private helper is not reachable (renamed by a refactoring) or that has no public route is '?': not compared, not counted. Non-trivial: a stack export with a "
    "non-empty selection program or a legacy / variable-exposure / multi-file stack; every confocal case (a complete "
    "export -> raw re-read -> reopen -> re-export x2 of a real object with a dtype cast); a mixin cast with a value "
    "outside the range, a fractional value or float32 rounding; every DateTime string and legacy range list."
)
TRUSTED = [
    "tifffile (writing and reading pages, tags, descriptions) and json are not modelled; the raw re-read goes through tifffile as well",
    "DateTime strings: ASCII only (Python's \\d also accepts other Unicode digits; outside the model)",
    "alignment / tether warps (skimage) are outside the model: generated stacks carry identity alignment matrices only",
    "numpy's float64->float32 conversion is assumed to be IEEE round-to-nearest-even (compared bit-exactly with the model's rational rounding on every float32 case)",
]
ASSUMPTIONS = [
    "kymographs have at least 2 pixels per line when built (pylake squeezes singleton axes of the image)",
    "'Exposure time (ms)' survives the float round trip round(1e6*(ns*1e-6)) (asserted on every page; exact below ~1e15 ns)",
    "scan-axes metadata written for a cropped / down-sampled confocal object is that of the source object (pylake writes self._metadata.scan_axes unchanged); the TIFF resolution tags follow the derived pixel size: acquisition pixel size x every position binning factor of the derivation chain (selections, mirroring, another position unit leave it alone)",
    "ImageStack.start is the start of the first frame, ImageStack.stop the stop of the last frame - with or without dead time is not fixed by the text, either is accepted",
    "scans have at least 2 pixels along both axes when built (pylake squeezes singleton axes)",
    "pixel values of generated confocal images stay below 2^53 (exact in float64)",
    "public route of a mixin cast: low_level.create_confocal_object accepts float photon counts; the route is used only when get_image() of that scan returns exactly the case's values (otherwise '?')",
    "public route of a DateTime string: only strings that tifffile writes and reads back unchanged as tag 306 (it strips white space / NULs at the ends)",
]

_TMP = None
_STACKS = None
_N = [0]


def tmpdir():
    global _TMP
    if _TMP is None:
        _TMP = tempfile.mkdtemp(prefix="verif_c18_")
        atexit.register(lambda: shutil.rmtree(_TMP, ignore_errors=True))
    return _TMP


def stacks():
    global _STACKS
    if _STACKS is None:
        _STACKS = bt.TiffStacks(max_open=16)
        atexit.register(_STACKS.close)
    return _STACKS


def fresh(name):
    _N[0] += 1
    return os.path.join(tmpdir(), f"{name}_{_N[0]}.tiff")


def rm(*paths):
    for p in paths:
        try:
            os.remove(p)
        except OSError:
            pass


# ------------------------------------------------------------------ raw reading


def read_raw(path):
    import tifffile

    out = []
    with tifffile.TiffFile(path) as t:
        for p in t.pages:
            tg = p.tags
            out.append(
                {
                    "dt": tg["DateTime"].value if "DateTime" in tg else None,
                    "desc": p.description,
                    "img": p.asarray(),
                    "software": tg["Software"].value if "Software" in tg else None,
                    "xres": tg["XResolution"].value if "XResolution" in tg else None,
                    "yres": tg["YResolution"].value if "YResolution" in tg else None,
                    "unit": int(tg["ResolutionUnit"].value) if "ResolutionUnit" in tg else None,
                    "photometric": p.photometric.name,
                }
            )
    return out


def parse_tag(s):
    m = re.fullmatch(r"([0-9]+):([0-9]+)", s or "")
    return (int(m.group(1)), int(m.group(2))) if m else None


def exposure_ns(page):
    d = json.loads(page["desc"])
    return int(round(1e6 * d["Exposure time (ms)"])) if "Exposure time (ms)" in d else None


def enc_ratlist(vals):
    return "[" + ",".join(v if isinstance(v, str) else f"{Fraction(v).numerator}/{Fraction(v).denominator}" for v in vals) + "]"


def arr_rats(a):
    """exact rationals of an array's values (non-finite values, which no dtype cast may produce, as tokens)"""
    out = []
    for x in np.asarray(a).ravel().tolist():
        if isinstance(x, int):
            out.append(Fraction(x))
        elif math.isfinite(x):
            out.append(Fraction(float(x)))
        else:
            out.append("nan" if math.isnan(x) else ("inf" if x > 0 else "-inf"))
    return out


# ------------------------------------------------------------------ stack kind


def apply_stack_op(st, op):
    from lumicks.pylake import ImageStack

    k = op[0]
    if k == "s":
        return st[slice(op[1], op[2], op[3])]
    if k == "i":
        return st[op[1]]
    if k == "c":
        return st.crop_by_pixels(op[1], op[2], op[3], op[4])
    if k == "g":
        return st[tuple(it if isinstance(it, int) else slice(*it) for it in op[1:])]
    if k == "z":
        return ImageStack.from_dataset(stack_source(st), st.name, op[1], op[2], op[3])
    raise ValueError(k)


def prog_tokens(prog):
    toks = []
    for op in prog:
        k = op[0]
        if k in ("s", "c"):
            toks.append(k + "," + ",".join(enc_opt(v) for v in op[1:]))
        elif k in ("i", "z"):
            toks.append(k + "," + ",".join(str(int(v)) for v in op[1:]))
        elif k == "g":
            items = []
            for it in op[1:]:
                items.append(str(it) if isinstance(it, int) else ":".join(enc_opt(v) for v in it))
            toks.append("g," + ",".join(items))
        else:
            raise ValueError(k)
    return " ".join(toks)


def spec_legacy(spec):
    return "Pylake" in spec["software"] and spec["exposure"] is None


def show_pages(spec, raw):
    """canonical form of a raw re-read: [start:stop:exposure:HxW:ids;...] (pixel identifiers from the first channel)"""
    c = bt.n_samples(spec)
    out = []
    for p in raw:
        tag = parse_tag(p["dt"])
        if tag is None:
            return f"bad-tag {p['dt']!r}"
        e = exposure_ns(p)
        img = np.asarray(p["img"])
        if spec["colour"] == "two":
            order = [i for i, col in enumerate(("Red", "Green", "Blue")) if col in spec["two_channels"]]
            first = img[..., order[0]]
        elif c == 3:
            first = img[..., 0]
        else:
            first = img
        ids = ((np.asarray(first, dtype=np.int64) - 1) // c).ravel().tolist()
        out.append(f"{tag[0]}:{tag[1]}:{e}:{first.shape[0]}x{first.shape[1]}:" + ",".join(str(i) for i in ids))
    return "[" + ";".join(out) + "]"


def impl_stack(case):
    from lumicks.pylake import ImageStack

    spec = case["spec"]
    obs = case["_obs"] = {}
    p1, p2 = fresh("s1"), fresh("s2")
    try:
        with warnings.catch_warnings():
            warnings.simplefilter("ignore")
            stack, full, table = stacks().get(spec)
            try:
                cur = stack
                for op in case["prog"]:
                    cur = apply_stack_op(cur, op)
                obs["src_pixelsize"] = cur.pixelsize_um
                try:  # the selection's own start / stop (a selection that cannot be exported may have none: judged only after a successful export)
                    obs["src_bounds"] = (int(cur.start), int(cur.stop))
                except Exception as e:
                    obs["src_bounds"] = repr(e)
                cur.export_tiff(p1)
            except Unreachable as e:
                obs["unreachable"] = str(e)
                return ["?", "?"]
            except Exception as e:
                obs["error"] = repr(e)
                return [errname(e), errname(e)]
            raw1 = read_raw(p1)
            obs["raw1"] = raw1
            a1 = show_pages(spec, raw1)
            try:
                re1 = ImageStack(p1)
                try:
                    obs["re_image"] = np.array(re1.get_image())
                    obs["re_dead"] = [(int(a), int(b)) for a, b in re1.frame_timestamp_ranges(include_dead_time=True)]
                    obs["re_exp"] = [(int(a), int(b)) for a, b in re1.frame_timestamp_ranges(include_dead_time=False)]
                    obs["re_pixelsize"] = re1.pixelsize_um
                    obs["re_frames"] = int(re1.num_frames)
                    obs["re_bounds"] = (int(re1.start), int(re1.stop))
                    re1.export_tiff(p2)
                finally:
                    re1.close()
                raw2 = read_raw(p2)
                obs["raw2"] = raw2
                a2 = show_pages(spec, raw2)
            except Exception as e:
                obs["error2"] = repr(e)
                a2 = errname(e)
            return [a1, a2]
    finally:
        rm(p1, p2)


def ops_stack(case):
    spec = case["spec"]
    table = bt.page_table(spec)
    head = (
        f"{spec['h']} {spec['w']} {enc_list([t[0] for t in table])} {enc_list([t[1] for t in table])} "
        f"{enc_list([t[2] for t in table])} {enc_bool(spec_legacy(spec))}"
    )
    prog = prog_tokens(case["prog"])
    return [f"c18.export {head} F {prog}".rstrip(), f"c18.export {head} T {prog}".rstrip()]


class Expect(Exception):
    pass


def reference_selection(spec, prog):
    """plain Python: which pages / rows / columns the program selects (lists of indices), or the expected error name"""
    n, h, w = sum(spec["files"]), spec["h"], spec["w"]
    pages, rows, cols = list(range(n)), list(range(h)), list(range(w))

    def frames(pages, it):
        if isinstance(it, int):
            try:
                return [pages[it]]
            except IndexError:
                raise Expect("IndexError")
        a, b, c = it
        if c == 0:
            raise Expect("ValueError")
        sel = pages[a:b:c]
        if not sel or (c is not None and c < 0):
            raise Expect("NotImplementedError")
        return sel

    def crop(rows, cols, x0, x1, y0, y1):
        r2, c2 = rows[y0:y1], cols[x0:x1]
        if not r2 or not c2:
            raise Expect("ValueError")
        return r2, c2

    for op in prog:
        k = op[0]
        if k == "s":
            pages = frames(pages, (op[1], op[2], op[3]))
        elif k == "i":
            pages = frames(pages, op[1])
        elif k == "c":
            rows, cols = crop(rows, cols, op[1], op[2], op[3], op[4])
        elif k == "g":
            items = list(op[1:])
            if len(items) > 3:
                raise Expect("IndexError")
            sp = []
            for it in items[1:]:
                if isinstance(it, int):
                    sp.append((it, it + 1))
                else:
                    if len(it) > 2 and it[2] is not None:
                        raise Expect("IndexError")
                    sp.append((it[0], it[1]))
            while len(sp) < 2:
                sp.append((None, None))
            rows, cols = crop(rows, cols, sp[1][0], sp[1][1], sp[0][0], sp[0][1])
            it = items[0]
            pages = frames(pages, it if isinstance(it, int) else (tuple(it) + (None, None, None))[:3])
        elif k == "z":
            pages = list(range(n))[op[1] : op[2] : op[3]] if op[2] > op[1] else []
    return pages, rows, cols


def expected_pages(spec, pages):
    """(start, stop, exposure) written for every selected page, from the page table (plain Python)"""
    table = bt.page_table(spec)
    sel = [table[p] for p in pages]
    if spec_legacy(spec):
        if not sel:
            raise Expect("IndexError")
        out = []
        for i, (a, b, e) in enumerate(sel):
            if i + 1 < len(sel):
                stop = sel[i + 1][0]
            elif len(sel) >= 2:
                stop = a + (a - sel[i - 1][0])
            else:
                stop = b
            out.append((a, stop, e - a))
        return out
    if not sel:
        raise Expect("RuntimeError")
    return [(a, b, e - a) for a, b, e in sel]


def oracle_stack(case, ia):
    spec, obs = case["spec"], case.get("_obs", {})
    if not observed(ia):
        return None  # from_dataset could not be handed the stack's source (private bookkeeping, not reachable)
    try:
        pages, rows, cols = reference_selection(spec, case["prog"])
        exp = expected_pages(spec, pages)
    except Expect as e:
        want = str(e)
        if ia[0] != want:
            return f"selection-error: program {case['prog']} must raise {want}, export gave {ia[0][:120]}"
        return None
    if "raw1" not in obs:
        return f"export-refused: program {case['prog']} selects pages {pages} rows {rows} cols {cols} but export raised {ia[0]} ({obs.get('error')})"
    raw1 = obs["raw1"]
    full = bt.full_array(spec)
    want_img = full[pages][:, rows][:, :, cols]
    if len(raw1) != len(pages):
        return f"selection: {len(raw1)} pages written, selection has {len(pages)} ({pages})"
    d0 = bt.description(spec, 0)
    for i, (p, (a, b, e)) in enumerate(zip(raw1, exp)):
        if p["dt"] != f"{a}:{b}":
            return f"timestamps: page {i} carries DateTime {p['dt']!r}, the selected frame {pages[i]} spans {a}:{b}"
        if exposure_ns(p) != e:
            return f"exposure: page {i} carries {exposure_ns(p)} ns, frame {pages[i]} was exposed {e} ns"
        img = np.asarray(p["img"])
        if img.shape != want_img[i].shape or not np.array_equal(img, want_img[i]):
            return f"pixels: page {i} differs from frame {pages[i]} rows {rows} cols {cols} of the source"
        if img.dtype != want_img.dtype:
            return f"pixels: page {i} has dtype {img.dtype}, the source frames have {want_img.dtype}"
        d = json.loads(p["desc"])
        for k, v in d0.items():
            if k == "Exposure time (ms)":
                continue
            k2 = re.sub(r"^Channel (\d) alignment$", r"Applied channel \1 alignment", k) if spec["align"] else k
            if d.get(k2) != v:
                return f"metadata: key {k2!r} is {d.get(k2)!r} in the exported page {i}, {v!r} in the source"
        if "Pylake" not in d or "Pylake" not in (p["software"] or ""):
            return f"metadata: Pylake marker missing on page {i}"
    # reopened with ImageStack
    if "re_image" not in obs:
        return f"reopen: ImageStack could not read the exported file: {obs.get('error2')}"
    got = obs["re_image"]
    if got.shape != np.squeeze(want_img).shape or not np.array_equal(got, np.squeeze(want_img)):
        return "reopen: ImageStack(file).get_image() differs from the exported selection"
    if obs["re_dead"] != [(a, b) for a, b, _ in exp]:
        return f"reopen: frame ranges with dead time {obs['re_dead'][:3]} != exported {[(a, b) for a, b, _ in exp][:3]}"
    if obs["re_exp"] != [(a, a + e) for a, _, e in exp]:
        return f"reopen: exposure ranges {obs['re_exp'][:3]} != exported {[(a, a + e) for a, _, e in exp][:3]}"
    # the stack's own start / stop: start of the first, stop of the last selected frame (the text does not say whether with or
    # without dead time: either), the same before and after the round trip
    for who, key in (("the exported selection", "src_bounds"), ("the reopened file", "re_bounds")):
        b = obs.get(key)
        if not isinstance(b, tuple) or b[0] != exp[0][0] or b[1] not in (exp[-1][1], exp[-1][0] + exp[-1][2]):
            return f"timestamps: {who} reports start / stop {b}, its frames span {exp[0][0]} .. {exp[-1][0] + exp[-1][2]} (exposure) / {exp[-1][1]} (with dead time)"
    if obs["src_bounds"] != obs["re_bounds"]:
        return f"timestamps: start / stop {obs['src_bounds']} before, {obs['re_bounds']} after the round trip"
    want_px = None if spec["pixelsize_nm"] is None else [spec["pixelsize_nm"] / 1000] * 2
    if not same_sizes(obs["re_pixelsize"], want_px) or not same_sizes(obs["src_pixelsize"], want_px):
        return f"calibration: pixel size {obs['re_pixelsize']} after the round trip, {want_px} in the source"
    # exported again
    if "raw2" not in obs:
        return f"re-export: exporting the reopened file raised {obs.get('error2')}"
    raw2 = obs["raw2"]
    if len(raw2) != len(raw1):
        return f"re-export: {len(raw2)} pages instead of {len(raw1)}"
    for i, (p, q) in enumerate(zip(raw1, raw2)):
        if p["dt"] != q["dt"] or json.loads(p["desc"]) != json.loads(q["desc"]) or p["software"] != q["software"]:
            return f"re-export: tags/description of page {i} changed ({p['dt']} -> {q['dt']})"
        if p["img"].dtype != q["img"].dtype or not np.array_equal(p["img"], q["img"]):
            return f"re-export: pixels of page {i} changed"
    return None


# ------------------------------------------------------------------ confocal kind

DT_NP = {"u8": np.uint8, "u16": np.uint16, "f32": np.float32}
# the centre point of the acquisition record that builders_confocal writes (read off the record itself)
CENTER_POINT_UM = json.loads(bc.confocal_json([(0, 2, 100.0)]))["value0"]["scan volume"]["center point (um)"]
LIMITS = {"u8": (0, 255), "u16": (0, 65535), "f32": (-Fraction((2**24 - 1) * 2**104), Fraction((2**24 - 1) * 2**104))}


def clip_kw(case):
    """clipping as the user asks for it: `clip=True` when requested, and NO argument at all otherwise ("refusing ... unless
    clipping is requested": the default of the public call must refuse); the explicit clip=False is passed by the other exports"""
    return {"clip": True} if case["clip"] else {}


def build_confocal(case):
    lay = case["layout"]
    iw = bc.layout_infowave(lay)
    if case["kind"] == "kymo":
        return bc.make_kymo(iw, lay["P"], case["channels"], axis=case.get("fast", 0), pixel_size_nm=case["pixel_nm"][0], dt=case["dt"])
    return bc.make_scan(
        iw, lay["P"], lay["L"], case["channels"], fast_axis=case["fast"], slow_axis=case["slow"],
        scan_count=case.get("scan_count", 0), pixel_size_nm=tuple(case["pixel_nm"]), dt=case["dt"],
    )


def apply_derive(obj, op):
    k = op[0]
    if k == "frames":  # scan[a:b]
        return obj[slice(op[1], op[2])]
    if k == "frame":  # scan[i]
        return obj[op[1]]
    if k == "cropxy":  # scan.crop_by_pixels
        return obj.crop_by_pixels(op[1], op[2], op[3], op[4])
    if k == "tuple":  # scan[a:b, y0:y1, x0:x1]
        return obj[slice(op[1], op[2]), slice(op[3], op[4]), slice(op[5], op[6])]
    if k == "lines":  # kymo[t0:t1] in ns relative to start
        return obj[slice(None if op[1] is None else obj.start + op[1], None if op[2] is None else obj.start + op[2])]
    if k == "crop":  # kymo.crop_by_distance (um, given as rationals)
        return obj.crop_by_distance(float(Fraction(op[1])), float(Fraction(op[2])))
    if k == "flip":
        return obj.flip()
    if k == "down":  # kymo.downsampled_by(position_factor, reduce)
        return obj.downsampled_by(position_factor=op[1], reduce=np.mean if op[2] == "mean" else np.sum)
    if k == "kbp":  # kymo.calibrate_to_kbp(length): another unit for positions, the same pixels of the same size
        return obj.calibrate_to_kbp(float(Fraction(op[1])))
    raise ValueError(k)


def reference_pixelsize(case):
    """the size of one exported pixel in um per scan axis (ordered by spatial axis, as pixelsize_um lists them), from the case
    alone: the 'pixel size (nm)' of the scan-axes record; selecting frames / lines / pixels, mirroring and re-calibrating
    positions leave the size of a pixel alone, binning n pixels along the position axis makes every pixel n times as large.
    Walks the WHOLE chain of derivations: what an earlier step established must survive every later one."""
    axes = [(case.get("fast", 0), Fraction(case["pixel_nm"][0]) / 1000)]
    if case["kind"] == "scan":
        axes.append((case["slow"], Fraction(case["pixel_nm"][1]) / 1000))
    sizes = [sz for _, sz in sorted(axes)]
    for op in case["derive"]:
        if op[0] == "down":
            sizes[0] *= op[1]
    return [float(x) for x in sizes]


def pixel_table(case, colour):
    """per pixel (acquisition order): (value, t_first, t_last) from a plain walk over the info wave"""
    iw = bc.layout_infowave(case["layout"])
    cnt = case["channels"].get(colour)
    start, dt = bc.START, case["dt"]
    pix = []
    v, first, last = 0, None, None
    for i, code in enumerate(iw):
        if code == bc.DISCARD:
            continue
        t = start + i * dt
        if cnt is not None and i < len(cnt):
            v += cnt[i]
        first = t if first is None else first
        last = t
        if code == bc.BOUNDARY:
            pix.append((v, first, last))
            v, first, last = 0, None, None
    return pix


def reference_confocal(case):
    """independent reconstruction of the un-derived object: image [frames][H][W][3] (kymo: one frame [P][lines][3]),
    per-frame (start, exposure stop, stop with dead time)"""
    lay = case["layout"]
    P = lay["P"]
    tabs = [pixel_table(case, c) for c in bc.COLORS]
    npx = len(tabs[0])
    dt = case["dt"]
    if case["kind"] == "kymo":
        L = npx // P
        img = np.zeros((P, L, 3))
        for ci, tab in enumerate(tabs):
            for l in range(L):
                for r in range(P):
                    img[r, l, ci] = tab[l * P + r][0]
        line_starts = [tabs[0][l * P][1] for l in range(L)]
        last_used = max(p[2] for p in tabs[0][: L * P])
        start = line_starts[0]
        dead_stop = line_starts[-1] + (line_starts[1] - line_starts[0]) if L >= 2 else None
        return img[None], [(start, last_used + dt, dead_stop)]
    Ln = lay["L"]
    nf = npx // (P * Ln)
    frames, times = [], []
    for f in range(nf):
        arr = np.zeros((Ln, P, 3))
        for ci, tab in enumerate(tabs):
            fp = tab[f * P * Ln : (f + 1) * P * Ln]
            for s in range(Ln):
                for q in range(P):
                    arr[s, q, ci] = fp[s * P + q][0]
        if not case["fast"] < case["slow"]:
            arr = arr.transpose(1, 0, 2)
        frames.append(arr)
        fp = tabs[0][f * P * Ln : (f + 1) * P * Ln]
        times.append((fp[0][1], max(p[2] for p in fp) + dt))
    out = []
    for f, (a, b) in enumerate(times):
        if nf == 1:
            out.append((a, b, b))
        else:
            out.append((a, b, a + (times[1][0] - times[0][0])))
    return np.array(frames), out


def _impl_confocal(case):
    from lumicks.pylake import ImageStack

    obs = case["_obs"] = {}
    p1, p2, p3, p0, p0b = fresh("c1"), fresh("c2"), fresh("c3"), fresh("c0"), fresh("c0b")
    try:
        with bc.quiet():
            try:
                obj = build_confocal(case)
                obs["base_image"] = np.array(obj.get_image())
            except Exception as e:
                obs["query_error"] = "building the object / get_image(): " + repr(e)
                return [errname(e), "not-written"]
            try:
                for op in case["derive"]:
                    obj = apply_derive(obj, op)
                    if not obj or int(obj.pixels_per_line) == 0:
                        raise IndexError("empty object")  # nothing left (C06: 'degenerate'); nothing to export
            except Exception as e:
                obs["derive_error"] = repr(e)
                return [errname(e), errname(e)]
            try:
                img = np.array(obj.get_image())
                obs["image"] = img
                obs["kind_frames"] = int(obj.num_frames) if case["kind"] == "scan" else 1
                if case["kind"] == "scan":
                    obs["dead"] = [(int(a), int(b)) for a, b in obj.frame_timestamp_ranges(include_dead_time=True)]
                    obs["exp"] = [(int(a), int(b)) for a, b in obj.frame_timestamp_ranges(include_dead_time=False)]
                else:
                    obs["lines"] = int(img.shape[1]) if img.ndim == 3 else None
                    try:
                        d = obj.line_timestamp_ranges(include_dead_time=True)
                        obs["dead_lines"] = [(int(a), int(b)) for a, b in d]
                        obs["dead"] = [(min(int(a) for a, _ in d), max(int(b) for _, b in d))]
                    except Exception as e:
                        obs["dead_error"] = repr(e)
                    e_ = obj.line_timestamp_ranges(include_dead_time=False)
                    obs["exp_lines"] = [(int(a), int(b)) for a, b in e_]
                    obs["exp"] = [(min(int(a) for a, _ in e_), max(int(b) for _, b in e_))]
                obs["pixelsize_um"] = list(obj.pixelsize_um)
                obs["fast_pixels"] = int(obj.pixels_per_line)
            except Exception as e:
                obs["query_error"] = "get_image() / timestamp ranges / pixel size of the (derived) object: " + repr(e)
                return [errname(e), "not-written"]
            # an untouched twin of the same object: export_tiff() is the FIRST thing ever asked of it (nothing has evaluated
            # num_frames / shape / timestamps yet, so nothing lazily reconstructed is cached), then once more from the same
            # object; the file must not depend on what was queried before
            try:
                twin = build_confocal(case)
                for op in case["derive"]:
                    twin = apply_derive(twin, op)
                twin.export_tiff(p0, dtype=DT_NP[case["dtype"]], **clip_kw(case))
                obs["raw0"] = read_raw(p0)
                twin.export_tiff(p0b, dtype=DT_NP[case["dtype"]], clip=case["clip"])
                obs["raw0b"] = read_raw(p0b)
            except Exception as e:
                obs["outcome0"] = errname(e)
                obs["error0"] = repr(e)
            # a derivation chain that ends in a step which only re-presents the same acquisition (mirror image, another position
            # unit): the object BEFORE that step is exported as well - everything but the order of the pixels must be the same
            if case["derive"] and case["derive"][-1][0] in SAME_DATA_STEPS:
                pp = fresh("cp")
                try:
                    prev = build_confocal(case)
                    for op in case["derive"][:-1]:
                        prev = apply_derive(prev, op)
                    prev.export_tiff(pp, dtype=DT_NP[case["dtype"]], clip=case["clip"])
                    obs["raw_prev"] = read_raw(pp)
                except Exception as e:
                    obs["error_prev"] = repr(e)
                finally:
                    rm(pp)
            try:
                obj.export_tiff(p1, dtype=DT_NP[case["dtype"]], clip=case["clip"])
            except Exception as e:
                obs["error"] = repr(e)
                import traceback

                tb = traceback.extract_tb(e.__traceback__)[-1]
                obs["error_at"] = f"{os.path.basename(tb.filename)}:{tb.name}"
                return [errname(e), "not-written"]
            raw1 = read_raw(p1)
            obs["raw1"] = raw1
            a1 = "ok " + enc_ratlist([x for p in raw1 for x in arr_rats(p["img"])])
            try:
                re1 = ImageStack(p1)
                try:
                    obs["re_image"] = np.array(re1.get_image())
                    obs["re_dead"] = [(int(a), int(b)) for a, b in re1.frame_timestamp_ranges(include_dead_time=True)]
                    obs["re_exp"] = [(int(a), int(b)) for a, b in re1.frame_timestamp_ranges(include_dead_time=False)]
                    obs["re_start"], obs["re_stop"] = int(re1.start), int(re1.stop)
                    re1.export_tiff(p2)
                finally:
                    re1.close()
                obs["raw2"] = read_raw(p2)
                re2 = ImageStack(p2)
                try:
                    re2.export_tiff(p3)
                finally:
                    re2.close()
                obs["raw3"] = read_raw(p3)
                a2 = f"{obs['re_dead'][-1][0]}:{obs['re_dead'][-1][1]}"
            except Exception as e:
                obs["error2"] = repr(e)
                a2 = errname(e)
            return [a1, a2]
    finally:
        rm(p1, p2, p3, p0, p0b)


def written_ms(raw):
    return [json.loads(pg["desc"]).get("Exposure time (ms)") for pg in raw]


def impl_confocal(case):
    """answers 0-1: the cast of all pixels and the DateTime of the last page read back (see _impl_confocal); 2: the DateTime tag
    of the FIRST page as written; 3: the doubles behind "Exposure time (ms)" of all pages as written (raw re-read)"""
    r = _impl_confocal(case)
    obs = case.get("_obs", {})
    if "raw1" not in obs:
        return r + ["not-written"] * (5 - len(r))
    raw = obs["raw1"]
    if not raw:  # export_tiff returned without writing a single page: an answer (judged by the oracle), not a crash of the harness
        return r + ["no-pages"] * (5 - len(r))
    dt = raw[0]["dt"]
    a2 = dt if case["kind"] == "kymo" else enc_list([ord(ch) for ch in dt])
    ms = written_ms(raw)
    a3 = enc_ratlist([Fraction(float(x)) for x in ms]) if all(isinstance(x, float) for x in ms) else f"no-exposure-key:{ms!r}"
    return r + [a2, a3, glue_answer(raw)]


def enc_ranges2(rr):
    return f"{enc_list([a for a, _ in rr])} {enc_list([b for _, b in rr])}"


def ops_confocal(case):
    return _ops_confocal(case) + _ops_confocal_tags(case) + [_op_confocal_whole(case)]


def _op_confocal_whole(case):
    """op 4: the whole export_tiff on what the confocal hooks return - the image of the (derived) object cut into frames
    (ConfocalImage._tiff_frames: one frame for a kymograph / single-frame scan), its frame ranges with and without dead time"""
    obs = case.get("_obs", {})
    if "image" not in obs or not obs.get("dead") or not obs.get("exp"):
        return "c18.exporttiff none F [] [] [] [] []"
    img = np.asarray(obs["image"])
    frames = img if (case["kind"] == "scan" and img.ndim >= 4) else img[None]
    fr = "[" + ";".join(",".join(v if isinstance(v, str) else f"{v.numerator}/{v.denominator}" for v in arr_rats(f)) for f in frames) + "]"
    return f"c18.exporttiff {case['dtype']} {enc_bool(case['clip'])} {fr} {enc_ranges2(obs['dead'])} {enc_ranges2(obs['exp'])}"


def _ops_confocal_tags(case):
    """ops 2-3: what the provider hooks make of the object's own line / frame ranges (Kymo._tiff_timestamp_ranges: min / max over
    all line starts and stops; Scan: the frame ranges) and the float64 millisecond key of every page"""
    obs = case.get("_obs", {})
    if case["kind"] == "kymo":
        if "dead_lines" in obs and "exp_lines" in obs:
            return [f"c18.kymorange {enc_ranges2(obs['dead_lines'])}", f"c18.kymoexp {enc_ranges2(obs['exp_lines'])}"]
        return ["c18.kymorange [] []", "c18.kymoexp [] []"]
    if obs.get("dead") and obs.get("exp"):
        a, b = obs["dead"][0]
        return [f"c18.encode {a} {b}", f"c18.expms {enc_list([y - x for x, y in obs['exp']])}"]
    return ["c18.encode -1 -1", "c18.expms []"]


def _ops_confocal(case):
    obs = case.get("_obs", {})
    if "image" in obs:
        vals = enc_ratlist(arr_rats(obs["image"]))
    else:
        vals = "[]"
    cast = f"c18.cast {case['dtype']} {enc_bool(case['clip'])} {vals}"
    if obs.get("dead"):
        a, b = obs["dead"][-1]
        rt = f"c18.roundtrip {a} {b}"
    else:
        rt = "c18.roundtrip -1 -1"
    return [cast, rt]


def f32_round(x):
    """float64 -> float32 -> exact rational, without NumPy (struct 'f' rounds to nearest even; overflow raises)"""
    return Fraction(struct.unpack("<f", struct.pack("<f", float(x)))[0])


def cast_reference(vals, dtype, clip):
    """the property text: values that do not fit are refused unless clipping is requested; never wrapped"""
    lo, hi = LIMITS[dtype]
    vals = [Fraction(v) for v in vals]
    if any(v < lo or v > hi for v in vals):
        if not clip:
            return "RuntimeError"
        vals = [min(max(v, lo), hi) for v in vals]
    if dtype == "f32":
        return [f32_round(v) for v in vals]
    return [Fraction(math.floor(v)) for v in vals]  # in range => non-negative: truncation = floor


def same_page(p, q):
    return (p["dt"] == q["dt"] and json.loads(p["desc"]) == json.loads(q["desc"]) and p["img"].dtype == q["img"].dtype
            and p["img"].shape == q["img"].shape and np.array_equal(p["img"], q["img"]) and p["software"] == q["software"]
            and p["xres"] == q["xres"] and p["yres"] == q["yres"] and p["unit"] == q["unit"] and p["photometric"] == q["photometric"])


def same_size(a, b):
    """pixel sizes in um are quotients nm/1000 taken by the code: compared within the rel 1e-9 of the number policy (a
    last-bit difference, e.g. nm*1e-3, is the same pixel size)"""
    if a is None or b is None:
        return a is None and b is None
    return isinstance(a, (int, float)) and isinstance(b, (int, float)) and math.isclose(a, b, rel_tol=1e-9, abs_tol=0.0)


def same_axes(got, want):
    if not isinstance(got, list) or len(got) != len(want) or not all(isinstance(g, dict) for g in got):
        return False
    for g, w in zip(got, want):
        if set(g) != set(w) or any(g[k] != w[k] for k in w if k != "Pixel size (um)") or not same_size(g["Pixel size (um)"], w["Pixel size (um)"]):
            return False
    return True


def same_sizes(a, b):
    if a is None or b is None:
        return a is None and b is None
    return len(a) == len(b) and all(same_size(x, y) for x, y in zip(a, b))


def check_written(case, obs, raw1, want, ref_times):
    """the property clauses on ONE written file (raw re-read `raw1`) of the (derived) object: pixels = cast image,
    DateTime / exposure per page, scan metadata, calibration. Expectations come from the case and from the answers of
    the queried instance (obs); the file may have been written by that instance or by an untouched twin."""
    img = obs["image"]
    frames = img if img.ndim == 4 else img[None]
    if len(raw1) != frames.shape[0]:
        return f"frames: {len(raw1)} pages written for {frames.shape[0]} frames"
    got = [x for p in raw1 for x in arr_rats(p["img"])]
    if got != want:
        bad = next(i for i, (g, w) in enumerate(zip(got, want)) if g != w) if len(got) == len(want) else -1
        return f"pixels: value #{bad} read back as {got[bad] if bad >= 0 else len(got)}, expected {want[bad] if bad >= 0 else len(want)} (dtype {case['dtype']}, clip {case['clip']})"
    for i, p in enumerate(raw1):
        if p["img"].dtype != np.dtype(DT_NP[case["dtype"]]) or p["img"].shape != frames[i].shape:
            return f"pixels: page {i} is {p['img'].dtype}{p['img'].shape}, expected {case['dtype']}{frames[i].shape}"
        if p["photometric"] != "RGB":
            return f"metadata: page {i} photometric {p['photometric']}"
    # timestamps: against the object's own answers, and (un-derived) against the info wave
    if "dead" not in obs:
        return f"timestamps: pages carry DateTime {raw1[0]['dt']!r} but the object cannot report its range with dead time ({obs.get('dead_error')})"
    dead, exp = obs["dead"], obs["exp"]
    if len(dead) != len(raw1) or len(exp) != len(raw1):
        return f"frames: {len(raw1)} pages written, the object reports {len(dead)} / {len(exp)} frame ranges"
    for i, p in enumerate(raw1):
        if p["dt"] != f"{dead[i][0]}:{dead[i][1]}":
            return f"timestamps: page {i} carries {p['dt']!r}, the object reports {dead[i]} with dead time"
        if exposure_ns(p) != exp[i][1] - exp[i][0]:
            return f"exposure: page {i} carries {exposure_ns(p)} ns, the object reports {exp[i][1] - exp[i][0]} ns"
        if dead[i][0] != exp[i][0]:
            return f"timestamps: frame {i} starts at {dead[i][0]} with and {exp[i][0]} without dead time"
    if not case["derive"]:
        for i, (a, b, c) in enumerate(ref_times):
            if (dead[i][0], exp[i][1]) != (a, b) or (c is not None and dead[i][1] != c):
                return f"timestamps: frame {i} is {dead[i]} / {exp[i]}, the info wave gives start {a}, exposure end {b}, next start {c}"
    # metadata: every page carries the scan metadata
    lay = case["layout"]
    axes = [(case.get("fast", 0), lay["P"], case["pixel_nm"][0])]
    if case["kind"] == "scan":
        axes.append((case["slow"], lay["L"], case["pixel_nm"][1]))
    want_axes = [{"Axis": a, "Label": "xyz"[a], "Number of pixels": n, "Pixel size (um)": nm / 1000} for a, n, nm in axes]
    if case["kind"] == "scan" and obs["kind_frames"] != frames.shape[0]:
        return f"metadata: the object reports num_frames {obs['kind_frames']}, its image has {frames.shape[0]} frames"
    for i, p in enumerate(raw1):
        d = json.loads(p["desc"])
        if not same_axes(d.get("Scan axes"), want_axes):
            return f"metadata: scan axes {d.get('Scan axes')} != {want_axes} (page {i})"
        if d.get("Camera") != ("ConfocalKymo" if case["kind"] == "kymo" else "ConfocalScan") or d.get("Fast axis") != "xyz"[axes[0][0]]:
            return f"metadata: camera/fast axis {d.get('Camera')}/{d.get('Fast axis')} (page {i})"
        if case["kind"] == "scan" and d.get("Number of frames") != frames.shape[0]:
            return f"metadata: Number of frames {d.get('Number of frames')} != {frames.shape[0]} (page {i}; {len(raw1)} pages written, metadata scan count {case.get('scan_count', 0)})"
        if case["kind"] == "kymo":
            if d.get("Start pixel timestamp (ns)") != exp[0][0] or d.get("Stop pixel timestamp (ns)") != exp[0][1]:
                return "metadata: start/stop pixel timestamps differ from the line ranges"
            # the line time is a property of the acquisition (start-to-start distance of scan lines): no derivation used here
            # (time slices, position crops / bins, mirroring, another position unit) changes it while two lines are left
            if (obs.get("lines") or 0) >= 2 and lay["lines"] >= 2:
                lt_want = (lay["P"] * lay["k"] + lay["dead"]) * case["dt"] * 1e-9
                if not isinstance(d.get("Line time (s)"), float) or not math.isclose(d["Line time (s)"], lt_want, rel_tol=1e-9):
                    return f"metadata: line time {d.get('Line time (s)')} != {lt_want} (page {i}, derivation {case['derive']})"
        # where the scan was taken: never changed by a selection
        if d.get("Center point (um)") != CENTER_POINT_UM:
            return f"metadata: centre point {d.get('Center point (um)')} != {CENTER_POINT_UM} of the acquisition record (page {i})"
        # the pixel dwell time is a property of the acquisition: frame slices and pixel crops of a scan do not change it
        # (a scan left with a single pixel along the fast axis has none: finding F18a, export refused before this point)
        dwell_kept = case["kind"] == "scan" and all(o[0] in ("frames", "frame", "cropxy", "tuple") for o in case["derive"]) and obs.get("fast_pixels", 0) >= 2
        if not case["derive"] or dwell_kept:
            k = lay["k"]
            if not math.isclose(d.get("Pixel time (s)") or 0.0, k * case["dt"] * 1e-9, rel_tol=1e-9):
                return f"metadata: pixel time {d.get('Pixel time (s)')} != {k * case['dt'] * 1e-9} (page {i})"
    px = obs["pixelsize_um"]
    pxx, pxy = px[0], (px[1] if len(px) == 2 else px[0])
    # ... and the pixel size of the pixels that were written, from the case alone (acquisition record x binning factors of the
    # whole derivation chain): the object's own answer is not the only witness
    ref = reference_pixelsize(case)
    rx, ry = ref[0], (ref[1] if len(ref) == 2 else ref[0])
    for i, p in enumerate(raw1):
        xr, yr = p["xres"], p["yres"]
        if xr is None or yr is None or p["unit"] != 3:
            return f"calibration: resolution tags missing (page {i})"
        if not math.isclose(xr[0] / xr[1], 1e4 / pxx, rel_tol=1e-6) or not math.isclose(yr[0] / yr[1], 1e4 / pxy, rel_tol=1e-6):
            return f"calibration: resolution {xr}/{yr} does not match pixel size {px} um (page {i})"
        if not math.isclose(xr[0] / xr[1], 1e4 / rx, rel_tol=1e-6) or not math.isclose(yr[0] / yr[1], 1e4 / ry, rel_tol=1e-6):
            return (f"calibration: resolution tags {xr}/{yr} (page {i}) encode {1e4 * xr[1] / xr[0]:.9g} x {1e4 * yr[1] / yr[0]:.9g} um per pixel, the exported "
                    f"pixels are {ref} um (acquired at {case['pixel_nm'][:len(ref)]} nm, derivation {case['derive']})")
    if not same_sizes(list(px), ref):
        return f"calibration: the exported object reports pixel size {list(px)} um, its pixels are {ref} um (acquired at {case['pixel_nm'][:len(ref)]} nm, derivation {case['derive']})"
    return None


FIRST = " [export_tiff() as the first operation on a freshly built object]"
SAME_DATA_STEPS = ("flip", "kbp")


def same_but_pixel_order(case, raw_prev, raw1):
    """the last step of the derivation mirrored the image / changed the position unit: timestamps, exposure, every description
    entry and the calibration tags of the export are those of the export before that step; the pixels are mirrored / the same"""
    step = case["derive"][-1][0]
    if len(raw_prev) != len(raw1):
        return f"{len(raw_prev)} pages before, {len(raw1)} after"
    for i, (p, q) in enumerate(zip(raw_prev, raw1)):
        for key in ("dt", "software", "xres", "yres", "unit", "photometric"):
            if p[key] != q[key]:
                return f"page {i}: {key} {p[key]!r} before, {q[key]!r} after"
        dp, dq = json.loads(p["desc"]), json.loads(q["desc"])
        for key in sorted(set(dp) | set(dq)):
            a, b = dp.get(key), dq.get(key)
            if a != b and not (isinstance(a, float) and isinstance(b, float) and math.isclose(a, b, rel_tol=1e-9)):
                return f"page {i}: description entry {key!r} is {a!r} before, {b!r} after"
        want = p["img"][::-1] if step == "flip" else p["img"]
        if q["img"].dtype != want.dtype or q["img"].shape != want.shape or not np.array_equal(q["img"], want):
            return f"page {i}: pixels are not the {'mirrored ' if step == 'flip' else ''}pixels of the export before"
    return None


def oracle_confocal(case, ia):
    obs = case.get("_obs", {})
    if "derive_error" in obs:
        # deriving the object is the business of C06; only documented refusals are expected here
        return None
    if "query_error" in obs:
        return f"object-unusable: {obs['query_error']}"
    img = obs["image"]
    # (0) the un-derived image against the independent reconstruction from the info wave
    ref_img, ref_times = reference_confocal(case)
    ref_cmp = ref_img[0] if (case["kind"] == "kymo" or ref_img.shape[0] == 1) else ref_img
    if ref_cmp.shape != obs["base_image"].shape or not np.array_equal(ref_cmp, obs["base_image"]):
        return "source-image: get_image() of the generated object differs from the plain reconstruction (C02 territory)"
    want = cast_reference(arr_rats(img), case["dtype"], case["clip"])
    if want == "RuntimeError":
        if ia[0] != "RuntimeError":
            return f"cast-refusal: a value does not fit {case['dtype']} and clip=False, but export gave {ia[0][:80]}"
        if obs.get("outcome0") != "RuntimeError":
            return f"cast-refusal: a value does not fit {case['dtype']} and clip=False, but export gave {obs.get('outcome0', 'a file')}" + FIRST
        return None
    if "raw1" not in obs:
        return (f"export-refused: exporting a valid {case['kind']} (derive {case['derive']}, image shape {img.shape}) "
                f"raised {ia[0]} at {obs.get('error_at')}: {obs.get('error')}")
    raw1 = obs["raw1"]
    bad = check_written(case, obs, raw1, want, ref_times)
    if bad:
        return bad
    if case["derive"] and case["derive"][-1][0] in SAME_DATA_STEPS:
        if "raw_prev" not in obs:
            return f"export-refused: the object exports after {case['derive'][-1]} but not before it: {obs.get('error_prev')}"
        bad = same_but_pixel_order(case, obs["raw_prev"], raw1)
        if bad:
            return f"derived-metadata: {case['derive'][-1][0]} changes only the {'order of the pixels' if case['derive'][-1][0] == 'flip' else 'position unit'}, but the export differs from the export of the object before it (derivation {case['derive']}): {bad}"
    # the same clauses on the file written by an untouched twin (export first, queries never), and written again by it
    if "raw0" not in obs or "raw0b" not in obs:
        return f"export-refused: the queried object exports fine, but export raised {obs.get('error0')}" + FIRST
    bad = check_written(case, obs, obs["raw0"], want, ref_times)
    if bad:
        return bad + FIRST
    if len(obs["raw0b"]) != len(obs["raw0"]) or not all(same_page(p, q) for p, q in zip(obs["raw0"], obs["raw0b"])):
        return "repeat-export: exporting the same object twice in a row wrote two different files"
    dead, exp = obs["dead"], obs["exp"]
    # reopened
    if "re_image" not in obs:
        return f"reopen: ImageStack could not read the exported file: {obs.get('error2')}"
    stacked = np.stack([p["img"] for p in raw1]).squeeze()
    if obs["re_image"].shape != stacked.shape or not np.array_equal(obs["re_image"], stacked):
        return "reopen: ImageStack(file).get_image() differs from the written pages"
    if obs["re_dead"] != dead or obs["re_exp"] != exp:
        return f"reopen: frame ranges {obs['re_dead'][:2]} / {obs['re_exp'][:2]} != {dead[:2]} / {exp[:2]}"
    bad = stack_bounds_clause(obs, "re_", "the reopened export")
    if bad:
        return "reopen: " + bad
    if "raw3" not in obs:
        return f"re-export: {obs.get('error2')}"
    raw2, raw3 = obs["raw2"], obs["raw3"]
    if not (len(raw1) == len(raw2) == len(raw3)):
        return "re-export: page count changed"
    for i, (p, q, r) in enumerate(zip(raw1, raw2, raw3)):
        dp, dq, dr = json.loads(p["desc"]), json.loads(q["desc"]), json.loads(r["desc"])
        dq2 = {k: v for k, v in dq.items() if k != "Pylake"}
        if p["dt"] != q["dt"] or dq2 != dp or not np.array_equal(p["img"], q["img"]) or p["img"].dtype != q["img"].dtype:
            return f"re-export: page {i} changed between the first and the second export"
        if q["dt"] != r["dt"] or dq != dr or not np.array_equal(q["img"], r["img"]) or q["software"] != r["software"]:
            return f"re-export: page {i} changed between the second and the third export"
    return None


# ------------------------------------------------------------------ mixin kind: TiffExport.export_tiff driven directly


def write_pages(path, datetimes, software, descriptions, shape=(1, 2)):
    """a grey uint8 camera TIFF written with tifffile: one page per DateTime string (tag 306, as Bluelake writes it)"""
    import tifffile

    with tifffile.TiffWriter(path) as tif:
        for dt, d in zip(datetimes, descriptions):
            tif.write(
                np.ones(shape, dtype=np.uint8), description=d if isinstance(d, str) else json.dumps(d, indent=4), software=software, metadata=None,
                contiguous=False, photometric="minisblack", extratags=((306, "s", len(dt), dt, False),),
            )


def last_range_reopened(path):
    """'start:stop' of the last page as ImageStack(file) reports it (TiffFrame.frame_timestamp_range), or the error name; a
    first page whose tag cannot be parsed is refused on opening with a RuntimeError - the public face of the ValueError"""
    from lumicks.pylake import ImageStack

    try:
        st = ImageStack(path)
    except RuntimeError:
        return "ValueError"
    try:
        s, e = st.frame_timestamp_ranges(include_dead_time=True)[-1]
        return f"{int(s)}:{int(e)}"
    finally:
        st.close()


def mixin_direct(case, obs):
    """TiffExport.export_tiff fed by a minimal provider (ops 0-2); "?" when the mixin / its hooks are not reachable"""
    import tifffile

    TiffExport = export_mixin()
    if TiffExport is None:
        obs["direct_unreachable"] = True
        return ["?", "?", "?"]
    n, h, w, c = case["shape"]
    vals = [Fraction(v) for v in case["values"]]
    if case.get("int_input"):
        arr = np.array([int(v) for v in vals], dtype=np.int64)
    else:
        arr = np.array([float(v) for v in vals], dtype=np.float64)
    arr = arr.reshape((n, h, w, c) if c > 1 else (n, h, w))
    dead, exp = [tuple(x) for x in case["dead"]], [tuple(x) for x in case["exp"]]

    class Provider(TiffExport):
        def _tiff_frames(self, iterator=False):
            return iter(arr) if iterator else arr

        def _tiff_image_metadata(self):
            return {"Camera": "verif"}

        def _tiff_timestamp_ranges(self, include_dead_time):
            return dead if include_dead_time else exp

        def _tiff_writer_kwargs(self):
            return {"software": "verif", "photometric": "rgb" if c == 3 else "minisblack"}

    p1 = fresh("m1")
    try:
        try:
            Provider().export_tiff(p1, dtype=DT_NP[case["dtype"]], clip=case["clip"])
        except Exception as e:
            obs["error"] = repr(e)
            return [errname(e), "not-written", "not-written"]
        raw = read_raw(p1)
        obs["raw"] = raw
        a1 = "ok " + enc_ratlist([x for p in raw for x in arr_rats(p["img"])])
        a2 = enc_list([ord(ch) for ch in raw[0]["dt"]]) if raw else "no-pages"
        try:
            parse = private("lumicks.pylake.detail.widefield", "_get_page_timestamps")
            if parse is not None:
                with tifffile.TiffFile(p1) as t:
                    s, e = parse(t.pages[len(raw) - 1])
                a3 = f"{int(s)}:{int(e)}"
            else:  # the same reading through the public ImageStack
                a3 = last_range_reopened(p1)
        except Exception as e:
            a3 = errname(e)
        return [a1, a2, a3]
    finally:
        rm(p1)


def mixin_public_cast(case, obs):
    """the cast clause through the public API (op 3): a real one-channel-per-value Scan whose (float) photon counts ARE
    the case's values - value j is the count of colour j%3 in pixel j//3, one sample per pixel, 2x2 pixels per frame, the
    rest 0 - exported with Scan.export_tiff(dtype, clip) and read back raw.  "?" when the scan does not present exactly
    these values (pylake reconstructs pixels from running sums, so magnitudes far apart do not survive side by side:
    C02's business) or when integer input is asked for (the confocal kind exports integer counts)."""
    if case.get("int_input"):
        return "?"
    from lumicks.pylake.low_level import create_confocal_object

    vals = [float(Fraction(v)) for v in case["values"]]
    m = len(vals)
    pixels = -(-m // 3)
    frames = max(1, -(-pixels // 4))
    iw = bc.infowave(2, 2 * frames, 1, lead_in=1, dead=1, L=2)
    chans = {col: [] for col in bc.COLORS}
    q = 0
    for code in iw:
        for ci, col in enumerate(bc.COLORS):
            j = 3 * q + ci
            chans[col].append(vals[j] if (code == bc.BOUNDARY and j < m) else 0.0)
        q += code == bc.BOUNDARY
    p = fresh("mp")
    try:
        try:
            obj = create_confocal_object(
                "pub", bc.continuous(iw, bc.START, bc.DT, dtype=np.uint8), bc.confocal_json([(0, 2, 100.0), (1, 2, 150.0)], 0),
                **{f"{col}_channel": bc.continuous(chans[col], bc.START, bc.DT, dtype=np.float64) for col in bc.COLORS},
            )
            img = np.asarray(obj.get_image(), dtype=np.float64).ravel().tolist()
        except Exception as e:
            obs["pub_build_error"] = repr(e)
            return "?"
        if len(img) != 12 * frames or img[:m] != vals or any(x != 0 for x in img[m:]):
            return "?"
        try:
            obj.export_tiff(p, dtype=DT_NP[case["dtype"]], **clip_kw(case))
        except Exception as e:
            obs["pub_error"] = repr(e)
            return errname(e)
        flat = [x for pg in read_raw(p) for x in arr_rats(pg["img"])]
        obs["pub_flat"] = flat
        return "ok " + enc_ratlist(flat[:m])
    finally:
        rm(p)


def mixin_public_ranges(case, obs):
    """the DateTime / exposure clauses through the public API (ops 4, 5): a camera TIFF written with tifffile whose pages
    carry the case's ranges and exposures, opened with ImageStack, exported, read back raw and reopened.  "?" when a range
    cannot be written as a tag that ImageStack reads (negative / beyond int64: the datetime kind's business)."""
    from lumicks.pylake import ImageStack

    n = case["shape"][0]
    dead, exp = case["dead"][:n], case["exp"][:n]
    if not all(0 <= a < 2**63 and 0 <= b < 2**63 for a, b in dead):
        return ["?", "?"]
    descs, written = [], []
    for (a, _), (e0, e1) in zip(dead, exp):
        e = e1 - e0
        d = {"Camera": "verif"}
        if 0 <= e < 10**15 and a + e < 2**63:
            d["Exposure time (ms)"] = e * 1e-6
            written.append(e)
        else:
            written.append(None)
        descs.append(d)
    obs["pub_exposures"] = written
    p1, p2 = fresh("mt1"), fresh("mt2")
    try:
        write_pages(p1, [f"{a}:{b}" for a, b in dead], "Bluelake verif", descs)
        try:
            st = ImageStack(p1)
            try:
                st.export_tiff(p2)
            finally:
                st.close()
            raw = read_raw(p2)
            obs["pub_raw"] = raw
            return [enc_list([ord(ch) for ch in raw[0]["dt"]]), last_range_reopened(p2)]
        except Exception as e:
            obs["pub_ranges_error"] = repr(e)
            return [errname(e), errname(e)]
    finally:
        rm(p1, p2)


def impl_mixin(case):
    obs = case["_obs"] = {}
    with warnings.catch_warnings():
        warnings.simplefilter("ignore")
        return mixin_direct(case, obs) + [mixin_public_cast(case, obs)] + mixin_public_ranges(case, obs)


def ops_mixin(case):
    vals = enc_ratlist([Fraction(v) for v in case["values"]])
    a, b = case["dead"][0]
    la, lb = case["dead"][case["shape"][0] - 1]
    three = [
        f"c18.cast {case['dtype']} {enc_bool(case['clip'])} {vals}",
        f"c18.encode {a} {b}",
        f"c18.roundtrip {la} {lb}",
    ]
    return three + three  # ops 0-2: TiffExport driven directly; ops 3-5: the same clauses through the public API


PUBLIC = " [through the public API: {}]"


def oracle_mixin(case, ia):
    obs = case.get("_obs", {})
    vals = [Fraction(v) for v in case["values"]]
    n = case["shape"][0]
    la, lb = case["dead"][n - 1]
    want = cast_reference(vals, case["dtype"], case["clip"])
    # ops 0-2: TiffExport.export_tiff fed by the minimal provider (skipped while the mixin's hooks are not reachable)
    if observed(ia[:3]):
        if want == "RuntimeError":
            if ia[0] != "RuntimeError":
                return f"cast-refusal: values do not fit {case['dtype']} (clip=False) but export gave {ia[0][:80]}"
        else:
            if "raw" not in obs:
                return f"export-refused: all values fit (or clip=True) but export raised {ia[0]}: {obs.get('error')}"
            got = [x for p in obs["raw"] for x in arr_rats(p["img"])]
            if got != want:
                bad = next((i for i, (g, w_) in enumerate(zip(got, want)) if g != w_), -1)
                if bad < 0:
                    return f"pixels: {len(got)} values written for {len(want)} values in {len(obs['raw'])} pages ({case['dtype']} clip={case['clip']})"
                return f"pixels: value #{bad} ({vals[bad]}) written as {got[bad]}, expected {want[bad]} for {case['dtype']} clip={case['clip']}"
            for i, p in enumerate(obs["raw"]):
                a, b = case["dead"][i]
                if p["dt"] != f"{a}:{b}":
                    return f"timestamps: page {i} carries {p['dt']!r} for range {a}:{b}"
                e = case["exp"][i][1] - case["exp"][i][0]
                if 0 <= e < 10**15 and exposure_ns(p) != e:
                    return f"exposure: page {i} carries {exposure_ns(p)} ns for {e} ns"
            if la >= 0 and lb >= 0 and la < 2**63 and lb < 2**63:
                if ia[2] != f"{la}:{lb}":
                    return f"timestamps: last page written for {la}:{lb} is read back as {ia[2]}"
            elif ia[2] not in ("ValueError", "OverflowError"):
                return f"timestamps: range {la}:{lb} cannot be represented, but the reader returned {ia[2]}"
    # op 3: the same cast through Scan.export_tiff on a scan whose photon counts are the values
    if ia[3] != "?":
        via = PUBLIC.format("Scan.export_tiff of a scan with these photon counts")
        if want == "RuntimeError":
            if ia[3] != "RuntimeError":
                return f"cast-refusal: values do not fit {case['dtype']} (clip=False) but export gave {ia[3][:80]}" + via
        elif "pub_flat" not in obs:
            return f"export-refused: all values fit (or clip=True) but export raised {ia[3]}: {obs.get('pub_error')}" + via
        else:
            got = obs["pub_flat"]
            if got[: len(want)] != want:
                bad = next((i for i, (g, w_) in enumerate(zip(got, want)) if g != w_), -1)
                if bad < 0:
                    return f"pixels: {len(got)} values written for {len(want)} values ({case['dtype']} clip={case['clip']})" + via
                return f"pixels: value #{bad} ({vals[bad]}) written as {got[bad]}, expected {want[bad]} for {case['dtype']} clip={case['clip']}" + via
            if any(x != 0 for x in got[len(want):]):
                return f"pixels: an empty pixel (0 photons) was written as a non-zero value for {case['dtype']} clip={case['clip']}" + via
    # ops 4-5: the same ranges / exposures through ImageStack(file written with tifffile).export_tiff
    if observed(ia[4:6]):
        via = PUBLIC.format("ImageStack.export_tiff of a camera TIFF with these page ranges")
        if "pub_raw" not in obs:
            return f"export-refused: a readable camera TIFF could not be opened / exported: {obs.get('pub_ranges_error')}" + via
        raw = obs["pub_raw"]
        if len(raw) != n:
            return f"selection: {len(raw)} pages written for {n} pages" + via
        for i, p in enumerate(raw):
            a, b = case["dead"][i]
            if p["dt"] != f"{a}:{b}":
                return f"timestamps: page {i} carries {p['dt']!r} for range {a}:{b}" + via
            e = obs["pub_exposures"][i]
            if e is not None and exposure_ns(p) != e:
                return f"exposure: page {i} carries {exposure_ns(p)} ns for {e} ns" + via
        if ia[5] != f"{la}:{lb}":
            return f"timestamps: last page written for {la}:{lb} is read back as {ia[5]}" + via
    return None


# ------------------------------------------------------------------ exposure kind ("Exposure time (ms)" float key)


def f64_of(tok):
    """a case's double: a float.hex() string"""
    return float.fromhex(tok)


def exposures_reopened(path, into=None, prefix=""):
    """stop - start of frame_timestamp_ranges(include_dead_time=False) of ImageStack(file): TiffFrame.exposure_timestamp_range;
    `into`: also note the stack's own start / stop (ImageStack.start / .stop: TiffFrame.start / .stop of the first / last frame)
    and the frame ranges with dead time"""
    from lumicks.pylake import ImageStack

    st = ImageStack(path)
    try:
        rr = [(int(a), int(b)) for a, b in st.frame_timestamp_ranges(include_dead_time=False)]
        if into is not None:
            into[prefix + "exp"] = rr
            into[prefix + "dead"] = [(int(a), int(b)) for a, b in st.frame_timestamp_ranges(include_dead_time=True)]
            into[prefix + "start"], into[prefix + "stop"] = int(st.start), int(st.stop)
        return [b - a for a, b in rr]
    finally:
        st.close()


# descriptions of the source pages of an exposure case: Bluelake's JSON, or a file that carries no (JSON) metadata at all - another
# program's TIFF; pylake opens those with "File does not contain metadata. Only raw data is available" and reads the DateTime tags
SOURCE_DESCRIPTIONS = {"json": {"Camera": "verif"}, "text": "acquired with another program; not JSON", "empty": "", "emptyjson": {}}


def stack_bounds_clause(obs, prefix, what):
    """the stack's start is the start of its first frame, its stop the stop of its last frame (the text does not say which of
    the two stops - with or without dead time - so either is accepted)"""
    if prefix + "start" not in obs:
        return None
    dead, exp = obs[prefix + "dead"], obs[prefix + "exp"]
    if obs[prefix + "start"] != dead[0][0] or obs[prefix + "start"] != exp[0][0]:
        return f"timestamps: {what} starts at {obs[prefix + 'start']}, its first frame at {dead[0][0]} / {exp[0][0]}"
    if obs[prefix + "stop"] not in (dead[-1][1], exp[-1][1]):
        return f"timestamps: {what} stops at {obs[prefix + 'stop']}, its last frame at {exp[-1][1]} (exposure) / {dead[-1][1]} (with dead time)"
    return None


def impl_exposure(case):
    """[0] the doubles behind "Exposure time (ms)" that ImageStack.export_tiff WRITES for pages whose exposure is e_i ns
    (a camera TIFF without the key: the exposure is the DateTime span start:start+e_i), read raw with json;
    [1] the exposures the reader reconstructs from that written file (exposure_timestamp_range through ImageStack);
    [2] the exposures the reader reconstructs from a camera TIFF whose key holds the case's own doubles `ms`."""
    from lumicks.pylake import ImageStack

    obs = case["_obs"] = {}
    a0, es, ms = case["start"], case["e"], [f64_of(t) for t in case["ms"]]
    out = []
    p1, p2, p3 = fresh("ex1"), fresh("ex2"), fresh("ex3")
    try:
        with warnings.catch_warnings():
            warnings.simplefilter("ignore")
            if es:
                try:
                    dts = [f"{a0 + 10 * i}:{a0 + 10 * i + e}" for i, e in enumerate(es)]
                    write_pages(p1, dts, "Bluelake verif", [SOURCE_DESCRIPTIONS[case.get("desc", "json")]] * len(es))
                    obs["src_exposures"] = exposures_reopened(p1, obs, "src_")
                    st = ImageStack(p1)
                    try:
                        st.export_tiff(p2)
                    finally:
                        st.close()
                    raw = read_raw(p2)
                    obs["written"] = [json.loads(pg["desc"]).get("Exposure time (ms)") for pg in raw]
                    obs["written_dt"] = [pg["dt"] for pg in raw]
                    out.append(enc_ratlist([Fraction(float(x)) for x in obs["written"]]))
                    try:
                        obs["reread"] = exposures_reopened(p2, obs, "re_")
                        out.append(enc_list(obs["reread"]))
                    except Exception as e:
                        obs["reread_error"] = repr(e)
                        out.append(errname(e))
                except Exception as e:
                    obs["write_error"] = repr(e)
                    out += [errname(e), "not-written"]
            else:
                out += ["?", "?"]
            if ms:
                try:
                    dts = [f"{a0 + 10 * i}:{a0 + 10 * i + 5}" for i in range(len(ms))]
                    write_pages(p3, dts, "Bluelake verif", [{"Camera": "verif", "Exposure time (ms)": x} for x in ms])
                    obs["read"] = exposures_reopened(p3)
                    out.append(enc_list(obs["read"]))
                except Exception as e:
                    obs["read_error"] = repr(e)
                    out.append(errname(e))
            else:
                out.append("?")
        return out
    finally:
        rm(p1, p2, p3)


def ops_exposure(case):
    es = enc_list(case["e"])
    return [f"c18.expms {es}", f"c18.exprt {es}", f"c18.expns {enc_ratlist([Fraction(f64_of(t)) for t in case['ms']])}"]


EXPOSURE_EXACT = 10**15  # the bound of theorem exposure_roundtrip (ns)


def oracle_exposure(case, ia):
    obs = case.get("_obs", {})
    es, ms = case["e"], [f64_of(t) for t in case["ms"]]
    if es:
        if "written" not in obs:
            if "src_exposures" in obs:
                return (f"export-refused: a camera TIFF ({case.get('desc', 'json')} description) that ImageStack opens and reads "
                        f"(exposures {obs['src_exposures'][:4]}) could not be exported: {obs.get('write_error')}")
            return f"export-refused: a readable camera TIFF could not be opened / exported: {obs.get('write_error')}"
        if obs["src_exposures"] != es:
            return f"exposure: source pages spanning {es} ns (no exposure key) are read as {obs['src_exposures']} ns"
        bad = stack_bounds_clause(obs, "src_", "the source stack") or stack_bounds_clause(obs, "re_", "the reopened export")
        if bad:
            return bad
        if "re_start" in obs and all(abs(e) <= EXPOSURE_EXACT for e in es) and (obs["re_start"], obs["re_stop"]) != (obs["src_start"], obs["src_stop"]):
            return f"timestamps: the stack spans {obs['src_start']}..{obs['src_stop']}, the reopened export {obs['re_start']}..{obs['re_stop']}"
        w = obs["written"]
        if len(w) != len(es):
            return f"selection: {len(w)} pages written for {len(es)} pages"
        for i, (e, x) in enumerate(zip(es, w)):
            if x is None:
                return f"exposure: page {i} carries no exposure key"
            if abs(Fraction(float(x)) * 10**6 - e) > abs(e) * Fraction(1, 2**50):
                return f"exposure: page {i} carries {x!r} ms for an exposure of {e} ns"
            if obs["written_dt"][i] != f"{case['start'] + 10 * i}:{case['start'] + 10 * i + e}":
                return f"timestamps: page {i} carries {obs['written_dt'][i]!r}"
        if "reread" not in obs:
            return f"exposure: the exported file cannot be read back: {obs.get('reread_error')}"
        for i, (e, g) in enumerate(zip(es, obs["reread"])):
            if abs(e) <= EXPOSURE_EXACT and g != e:
                return f"exposure: page {i} exported with an exposure of {e} ns is read back with {g} ns"
    if ms:
        if "read" not in obs:
            return f"exposure: a camera TIFF with exposure keys {ms} cannot be read: {obs.get('read_error')}"
        for i, (x, g) in enumerate(zip(ms, obs["read"])):
            exact = Fraction(x) * 10**6
            if abs(g - exact) > Fraction(1, 2) + abs(exact) * Fraction(1, 2**52):
                return f"exposure: key {x!r} ms is read as {g} ns"
    return None


def exposure_case(es, ms=(), start=None, desc="json"):
    c = {"kind": "exposure", "start": bt.T0 if start is None else start, "e": [int(e) for e in es], "ms": [float(x).hex() for x in ms]}
    if desc != "json":
        c["desc"] = desc  # the source pages carry no JSON metadata (SOURCE_DESCRIPTIONS)
    return c


# ------------------------------------------------------------------ glue kind (export_tiff as a whole, hooks of any lengths)


def glue_case(frames, dtype, clip, dead, exp):
    return {"kind": "glue", "frames": [[str(Fraction(v)) for v in fr] for fr in frames], "dtype": dtype, "clip": clip,
            "dead": [list(x) for x in dead], "exp": [list(x) for x in exp]}


def glue_width(case):
    return max([len(fr) for fr in case["frames"]] + [1])


def impl_glue(case):
    """TiffExport.export_tiff fed by a provider whose hooks return n frames (1 x k grey), m ranges with dead time and l
    exposure ranges (n, m, l independent; dtype None / u8 / u16 / f32): `ok [codes|ms|pixels;...]` of the raw re-read, or
    the error name; "?" while the mixin / its hooks are not reachable"""
    obs = case["_obs"] = {}
    TiffExport = export_mixin()
    if TiffExport is None:
        return ["?"]
    k = glue_width(case)
    arr = np.array([[float(Fraction(v)) for v in fr] for fr in case["frames"]], dtype=np.float64).reshape((len(case["frames"]), 1, k))
    dead, exp = [tuple(x) for x in case["dead"]], [tuple(x) for x in case["exp"]]

    class Provider(TiffExport):
        def _tiff_frames(self, iterator=False):
            return iter(arr) if iterator else arr

        def _tiff_image_metadata(self):
            return {"Camera": "verif"}

        def _tiff_timestamp_ranges(self, include_dead_time):
            return dead if include_dead_time else exp

        def _tiff_writer_kwargs(self):
            return {"software": "verif", "photometric": "minisblack"}

    import logging

    logging.getLogger("tifffile").setLevel(logging.CRITICAL)  # "contains no pages" of a page-less file is expected here
    p = fresh("g")
    try:
        with warnings.catch_warnings():
            warnings.simplefilter("ignore")
            try:
                Provider().export_tiff(p, dtype=DT_NP[case["dtype"]] if case["dtype"] != "none" else None, clip=case["clip"])
            except Exception as e:
                obs["error"] = repr(e)
                return [errname(e)]
            try:
                raw = read_raw(p)
            except Exception as e:  # a TIFF without a single page (zip() of an empty iterator): tifffile cannot open it
                if os.path.getsize(p) <= 16:
                    raw = []
                else:
                    obs["error"] = "re-read: " + repr(e)
                    return [errname(e)]
        obs["raw"] = raw
        return [glue_answer(raw)]
    finally:
        rm(p)


def glue_answer(raw):
    pages = []
    for pg in raw:
        ms = json.loads(pg["desc"]).get("Exposure time (ms)")
        pages.append("|".join([",".join(str(ord(ch)) for ch in pg["dt"]), str(Fraction(float(ms))) if isinstance(ms, float) else "nokey",
                               ",".join(v if isinstance(v, str) else f"{v.numerator}/{v.denominator}" for v in arr_rats(pg["img"]))]))
    return "ok [" + ";".join(pages) + "]"


def ops_glue(case):
    fr = "[" + ";".join(",".join(f"{Fraction(v).numerator}/{Fraction(v).denominator}" for v in f) for f in case["frames"]) + "]"
    return [f"c18.exporttiff {case['dtype']} {enc_bool(case['clip'])} {fr} {enc_ranges2(case['dead'])} {enc_ranges2(case['exp'])}"]


def glue_pages(ans):
    inner = ans[4:-1]
    out = []
    for pg in inner.split(";") if inner else []:
        dt, ms, img = pg.split("|")
        out.append((dt, Fraction(ms) if ms != "nokey" else None, img))
    return out


def agree_glue(ia, ma):
    if not (ia.startswith("ok [") and ma.startswith("ok [")):
        return ia == ma
    a, b = glue_pages(ia), glue_pages(ma)
    return len(a) == len(b) and all(
        x[0] == y[0] and x[2] == y[2] and x[1] is not None and abs(x[1] - y[1]) <= abs(y[1]) * Fraction(1, 10**12) for x, y in zip(a, b))


def oracle_glue(case, ia):
    if ia[0] == "?":
        return None
    obs = case.get("_obs", {})
    frames = [[Fraction(v) for v in fr] for fr in case["frames"]]
    dead, exp = case["dead"], case["exp"]
    if not dead:
        return None if ia[0] == "RuntimeError" else f"no-images: no timestamp ranges, but export gave {ia[0][:80]}"
    if not (len(frames) == len(dead) == len(exp)) or not frames or not frames[0]:
        return None  # hooks that disagree about the number of frames / empty images: the property says nothing (model agreement only)
    flat = [v for fr in frames for v in fr]
    want = flat if case["dtype"] == "none" else cast_reference(flat, case["dtype"], case["clip"])
    if want == "RuntimeError":
        return None if ia[0] == "RuntimeError" else f"cast-refusal: a value does not fit {case['dtype']} (clip=False) but export gave {ia[0][:80]}"
    if "raw" not in obs:
        return f"export-refused: all values fit (or clip=True / no dtype) but export raised {ia[0]}: {obs.get('error')}"
    raw = obs["raw"]
    if len(raw) != len(frames):
        return f"selection: {len(raw)} pages written for {len(frames)} frames"
    k = len(frames[0])
    for i, pg in enumerate(raw):
        if arr_rats(pg["img"]) != want[i * k : (i + 1) * k]:
            return f"pixels: page {i} holds {arr_rats(pg['img'])}, expected {want[i * k:(i + 1) * k]} for {case['dtype']} clip={case['clip']}"
        if pg["dt"] != f"{dead[i][0]}:{dead[i][1]}":
            return f"timestamps: page {i} carries {pg['dt']!r} for range {dead[i][0]}:{dead[i][1]}"
        e = exp[i][1] - exp[i][0]
        if abs(e) <= EXPOSURE_EXACT and exposure_ns(pg) != e:
            return f"exposure: page {i} carries {exposure_ns(pg)} ns for {e} ns"
    return None


# ------------------------------------------------------------------ software kind (Software tag, legacy detection)


def pylake_version():
    import lumicks.pylake as lk

    return str(lk.__version__)


def raw_software(path):
    import tifffile

    with tifffile.TiffFile(path) as t:
        tg = t.pages[0].tags
        return tg["Software"].value if "Software" in tg else ""


def impl_software(case):
    """a two-page camera TIFF (DateTime T:T+8, T+10:T+18) whose Software tag is the case's string, with or without the
    exposure key: [0] the Software tag ImageStack.export_tiff writes, [1] the tag after exporting that export again,
    [2] whether pylake reads the file as a legacy export (frame ranges reconstructed start-to-next-start: T:T+10, T+10:T+20).
    "?" when tifffile does not hand the Software string back unchanged."""
    from lumicks.pylake import ImageStack

    obs = case["_obs"] = {}
    sw, key = case["sw"], case["key"]
    T = bt.T0
    p1, p2, p3 = fresh("sw1"), fresh("sw2"), fresh("sw3")
    try:
        with warnings.catch_warnings():
            warnings.simplefilter("ignore")
            d = {"Camera": "verif"}
            if key:
                d["Exposure time (ms)"] = 5e-6
            try:
                write_pages(p1, [f"{T}:{T + 8}", f"{T + 10}:{T + 18}"], sw, [d, d])
                if raw_software(p1) != sw:
                    return ["?", "?", "?"]
            except Exception:
                return ["?", "?", "?"]
            out = []
            try:
                st = ImageStack(p1)
                try:
                    ranges = [(int(a) - T, int(b) - T) for a, b in st.frame_timestamp_ranges(include_dead_time=True)]
                    st.export_tiff(p2)
                finally:
                    st.close()
                obs["sw1"] = raw_software(p2)
                out.append(enc_list([ord(ch) for ch in obs["sw1"]]))
                st = ImageStack(p2)
                try:
                    obs["ranges2"] = [(int(a) - T, int(b) - T) for a, b in st.frame_timestamp_ranges(include_dead_time=True)]
                    st.export_tiff(p3)
                finally:
                    st.close()
                obs["sw2"] = raw_software(p3)
                out.append(enc_list([ord(ch) for ch in obs["sw2"]]))
                obs["ranges"] = ranges
                out.append("T" if ranges == [(0, 10), (10, 20)] else "F" if ranges == [(0, 8), (10, 18)] else f"ranges:{ranges}")
                return out
            except Exception as e:
                obs["error"] = repr(e)
                return (out + [errname(e)] * 3)[:3]
    finally:
        rm(p1, p2, p3)


def ops_software(case):
    sw = enc_list([ord(ch) for ch in case["sw"]])
    ver = enc_list([ord(ch) for ch in pylake_version()])
    return [f"c18.software {sw} {ver} F", f"c18.software {sw} {ver} T", f"c18.islegacy {sw} {enc_bool(case['key'])}"]


def oracle_software(case, ia):
    if ia[0] == "?":
        return None
    obs = case.get("_obs", {})
    if "sw2" not in obs:
        return f"export-refused: a readable camera TIFF could not be opened / exported twice: {obs.get('error')}"
    if obs["sw1"] != obs["sw2"]:
        return f"re-export: Software tag {obs['sw1']!r} becomes {obs['sw2']!r} when the exported file is exported again"
    if not obs["sw1"].startswith(case["sw"]):
        return f"metadata: Software tag {case['sw']!r} was replaced by {obs['sw1']!r}"
    want = obs["ranges"]  # what the stack reported is what its export must say on re-reading (exported files are never legacy)
    if obs["ranges2"] != want:
        return f"timestamps: frame ranges {want} of the stack are read back from its export as {obs['ranges2']}"
    return None


# ------------------------------------------------------------------ align kind (alignment status, for_export keys, no second warp)

ALIGN_VARIANTS = ["ready3", "ready01", "only12", "none", "applied3", "appliedX", "ready+applied", "pylakekey", "shift", "grey"]


def align_description(variant):
    """how the ImageDescription of an RGB stack with (identity) alignment matrices is changed for the variant"""
    def mut(d):
        d = dict(d)
        ck = [f"Channel {j} alignment" for j in range(3)]
        if variant == "ready01":
            d.pop(ck[2])
        elif variant == "only12":
            d.pop(ck[0])
        elif variant == "none":
            for k in ck:
                d.pop(k)
        elif variant == "applied3":
            for j, k in enumerate(ck):
                d[f"Applied channel {j} alignment"] = d.pop(k)
        elif variant == "appliedX":
            for k in ck:
                d.pop(k)
            d["Applied foo channel bar"] = [1.0, 0.0, 0.0, 0.0, 1.0, 0.0]
        elif variant == "ready+applied":
            d["Applied channel 1 alignment"] = d.pop(ck[1])
        elif variant == "pylakekey":
            d["Pylake"] = {"x": 1}
        elif variant == "shift":
            d[ck[0]] = [1.0, 0.0, 1.0, 0.0, 1.0, 0.0]  # the red channel is shifted by one pixel: a second warp would show
        return d
    return mut


def impl_align(case):
    """an RGB (or grey) camera stack whose description carries the variant's alignment keys, opened with align=requested:
    [0] the JSON keys of the exported description (sorted), [1] the keys after opening that export the same way and exporting
    again (sorted).  The oracle also compares the pixels of the two exports (no second warp)."""
    from lumicks.pylake import ImageStack

    obs = case["_obs"] = {}
    grey = case["variant"] == "grey"
    spec = bt.make_spec(files=(2,), h=4, w=5, colour="grey" if grey else "rgb", align=not grey)
    d = tempfile.mkdtemp(prefix="al_", dir=tmpdir())
    orig = bt.description
    try:
        with warnings.catch_warnings():
            warnings.simplefilter("ignore")
            bt.description = lambda s_, p_: align_description(case["variant"])(orig(s_, p_))
            try:
                paths = bt.write_files(spec, d)
            finally:
                bt.description = orig
            obs["keys0"] = list(align_description(case["variant"])(orig(spec, 0)).keys())
            p2, p3 = os.path.join(d, "e1.tiff"), os.path.join(d, "e2.tiff")
            try:
                st = ImageStack(*paths, align=case["requested"])
                try:
                    st.export_tiff(p2)
                finally:
                    st.close()
                raw2 = read_raw(p2)
                st = ImageStack(p2, align=case["requested"])
                try:
                    st.export_tiff(p3)
                finally:
                    st.close()
                raw3 = read_raw(p3)
            except Exception as e:
                obs["error"] = repr(e)
                return [errname(e), errname(e)]
            obs["raw2"], obs["raw3"] = raw2, raw3
            if not raw2 or not raw3:
                obs["error"] = "an export wrote no pages"
                return ["no-pages", "no-pages"]
            k2, k3 = list(json.loads(raw2[0]["desc"]).keys()), list(json.loads(raw3[0]["desc"]).keys())
            obs["k2"], obs["k3"] = k2, k3
            return [enc_keys(k2), enc_keys(k3)]
    finally:
        shutil.rmtree(d, ignore_errors=True)


def enc_keys(keys):
    return "[" + ";".join(",".join(str(ord(ch)) for ch in k) for k in sorted(set(keys))) + "]"


def ops_align(case):
    obs = case.get("_obs", {})
    keys = obs.get("keys0", [])
    rgb = enc_bool(case["variant"] != "grey")
    raw = "[" + ";".join(",".join(str(ord(ch)) for ch in k) for k in keys) + "]"
    return [f"c18.forexport {rgb} {enc_bool(case['requested'])} F {raw}", f"c18.forexport {rgb} {enc_bool(case['requested'])} T {raw}"]


def agree_align(ia, ma):
    def keyset(a):
        inner = a[1:-1]
        return sorted(set(inner.split(";"))) if inner else []
    if not (ia.startswith("[") and ma.startswith("[")):
        return ia == ma
    return keyset(ia) == keyset(ma)  # a dict: the order of the keys means nothing


def oracle_align(case, ia):
    obs = case.get("_obs", {})
    if "raw3" not in obs:
        return f"export-refused: a readable camera TIFF could not be opened / exported twice: {obs.get('error')}"
    if sorted(obs["k2"]) != sorted(obs["k3"]):
        return f"re-export: description keys {sorted(set(obs['k2']) ^ set(obs['k3']))} differ between the export and the export of the export"
    for i, (p, q) in enumerate(zip(obs["raw2"], obs["raw3"])):
        if p["img"].shape != q["img"].shape or not np.array_equal(p["img"], q["img"]):
            return f"re-export: pixels of page {i} change when the exported file is exported again (aligned twice?)"
        if p["dt"] != q["dt"]:
            return f"re-export: DateTime of page {i} changes from {p['dt']!r} to {q['dt']!r}"
    return None


# ------------------------------------------------------------------ datetime / legacy kinds


class _Tag:
    def __init__(self, v):
        self.value = v


class _Page:
    def __init__(self, s):
        self.tags = {"DateTime": _Tag(s)}


def impl_datetime(case):
    """[the private parser called directly ("?" when not reachable), the same string read through the public API]"""
    parse = private("lumicks.pylake.detail.widefield", "_get_page_timestamps")
    if parse is None:
        direct = "?"
    else:
        try:
            a, b = parse(_Page(case["s"]))
            direct = f"{int(a)}:{int(b)}"
        except Exception as e:
            direct = errname(e)
    return [direct, datetime_public(case["s"])]


def datetime_public(s):
    """the string as the DateTime tag of the SECOND page of a camera TIFF written with tifffile (the first page is well
    formed, so that the file opens), read through ImageStack(file).frame_timestamp_ranges(include_dead_time=True), i.e.
    TiffFrame.frame_timestamp_range.  "?" when tifffile does not hand the string back unchanged (it strips white space
    and NULs at the ends of ASCII tags): such strings reach pylake's parser only in the direct call."""
    import tifffile

    p = fresh("dt")
    try:
        with warnings.catch_warnings():
            warnings.simplefilter("ignore")
            try:
                write_pages(p, [f"{bt.T0}:{bt.T0 + 1}", s], "Bluelake verif", [{"Camera": "verif"}] * 2)
                with tifffile.TiffFile(p) as t:
                    tg = t.pages[1].tags
                    back = tg["DateTime"].value if "DateTime" in tg else None
            except Exception:
                return "?"  # tifffile cannot write / read such a tag
            if back != s:
                return "?"
            try:
                return last_range_reopened(p)
            except Exception as e:
                return errname(e)
    finally:
        rm(p)


def oracle_datetime(case, ia):
    s = case["s"]
    m = re.fullmatch(r"([0-9]+):([0-9]+)\n?", s)
    if m and int(m.group(1)) < 2**63 and int(m.group(2)) < 2**63:
        want = f"{int(m.group(1))}:{int(m.group(2))}"
    elif m:
        want = "OverflowError"
    else:
        want = "ValueError"
    if ia[0] not in ("?", want):
        return f"datetime-parse: {s!r} read as {ia[0]}, expected {want}"
    if ia[1] not in ("?", want):
        return f"datetime-parse: {s!r} read as {ia[1]}, expected {want}" + PUBLIC.format("tag of a TIFF page opened with ImageStack")
    return None


def impl_legacy(case):
    """[the private helper called directly ("?" when not reachable), the same ranges through the public API]"""
    f = private("lumicks.pylake.detail.widefield", "_frame_timestamps_from_exposure_timestamps")
    if f is None:
        direct = "?"
    else:
        try:
            r = f([tuple(x) for x in case["ranges"]])
            direct = "[" + ",".join(f"{int(a)}:{int(b)}" for a, b in r) + "]"
        except Exception as e:
            direct = errname(e)
    return [direct, legacy_public(case["ranges"])]


def legacy_public(ranges):
    """the ranges as the DateTime tags of a TIFF exported by Pylake < 1.3.2 (Software tag names Pylake, no exposure metadata:
    the tags hold the exposure ranges), read with ImageStack(file).frame_timestamp_ranges(include_dead_time=True).  "?"
    for no pages (no such file) and for ranges that cannot be written as tags."""
    from lumicks.pylake import ImageStack

    if not ranges or not all(0 <= a < 2**63 and 0 <= b < 2**63 for a, b in ranges):
        return "?"
    p = fresh("lg")
    try:
        with warnings.catch_warnings():
            warnings.simplefilter("ignore")
            write_pages(p, [f"{a}:{b}" for a, b in ranges], "Pylake v1.3.0", [{"Camera": "verif"}] * len(ranges))
            try:
                st = ImageStack(p)
                try:
                    r = st.frame_timestamp_ranges(include_dead_time=True)
                finally:
                    st.close()
                return "[" + ",".join(f"{int(a)}:{int(b)}" for a, b in r) + "]"
            except Exception as e:
                return errname(e)
    finally:
        rm(p)


def oracle_legacy(case, ia):
    r = case["ranges"]
    if not r:
        return None if ia[0] in ("?", "IndexError") else f"legacy: empty input gave {ia[0]}"
    want = []
    for i, (a, b) in enumerate(r):
        if i + 1 < len(r):
            want.append((a, r[i + 1][0]))
        elif len(r) >= 2:
            want.append((a, a + (a - r[i - 1][0])))
        else:
            want.append((a, b))
    w = "[" + ",".join(f"{a}:{b}" for a, b in want) + "]"
    if ia[0] not in ("?", w):
        return f"legacy: ranges {ia[0][:120]} but start-to-next-start gives {w[:120]}"
    if ia[1] not in ("?", w):
        return f"legacy: ranges {ia[1][:120]} but start-to-next-start gives {w[:120]}" + PUBLIC.format("ImageStack on a file exported by Pylake < 1.3.2")
    return None


# ------------------------------------------------------------------ module interface


def impl(case):
    k = case["kind"]
    if k == "stack":
        return impl_stack(case)
    if k in ("kymo", "scan"):
        return impl_confocal(case)
    if k == "mixin":
        return impl_mixin(case)
    if k == "datetime":
        return impl_datetime(case)
    if k == "legacy":
        return impl_legacy(case)
    if k == "exposure":
        return impl_exposure(case)
    if k == "glue":
        return impl_glue(case)
    if k == "software":
        return impl_software(case)
    if k == "align":
        return impl_align(case)
    raise ValueError(k)


def ops(case):
    k = case["kind"]
    if k == "stack":
        return ops_stack(case)
    if k in ("kymo", "scan"):
        return ops_confocal(case)
    if k == "mixin":
        return ops_mixin(case)
    if k == "datetime":  # the direct call of the parser, and the same string as a page tag read through ImageStack
        return [f"c18.decode {enc_list([ord(c) for c in case['s']])}"] * 2
    if k == "legacy":  # the direct call of the helper, and the same ranges as the tags of a legacy file read through ImageStack
        return [f"c18.legacy {enc_list([a for a, _ in case['ranges']])} {enc_list([b for _, b in case['ranges']])}"] * 2
    if k == "exposure":
        return ops_exposure(case)
    if k == "glue":
        return ops_glue(case)
    if k == "software":
        return ops_software(case)
    if k == "align":
        return ops_align(case)
    raise ValueError(k)


def agree(case, i, ia, ma):
    if ia == "?":
        return True  # an observation that could not be made (private name not reachable / no public route for this input)
    if case["kind"] in ("kymo", "scan") and "derive_error" in case.get("_obs", {}):
        return True  # the derivation itself was refused (C06's business): nothing was exported, nothing to compare
    if ia == "not-written" and i > 0:
        return True  # the export was refused (op 0 compares that refusal with the model): there is no tag to read back
    if case["kind"] == "exposure" and i == 1 and ia.startswith("[") and ma.startswith("["):
        # the ns read back: exact inside the bound of exposure_roundtrip; beyond it the last bit of the millisecond double decides
        # (x / 1e6 and x * 1e-6 are both right), so only closeness is demanded there
        a, b = [int(t) for t in ia[1:-1].split(",") if t], [int(t) for t in ma[1:-1].split(",") if t]
        return len(a) == len(b) == len(case["e"]) and all(
            (x == y) if abs(e) <= EXPOSURE_EXACT else abs(x - y) <= max(2, abs(e) >> 50) for e, x, y in zip(case["e"], a, b))
    if case["kind"] == "align":
        return agree_align(ia, ma)
    if case["kind"] == "glue" or case["kind"] in ("kymo", "scan") and i == 4:
        return agree_glue(ia, ma)
    if (case["kind"] == "exposure" and i == 0 or case["kind"] in ("kymo", "scan") and i == 3) and ia.startswith("[") and ma.startswith("["):
        # the millisecond doubles: number policy (a double of the implementation within rel 1e-12 of the model's; `x / 1e6`
        # instead of `x * 1e-6` is the same exposure) - the integers read back (ops 1, 2) are compared exactly
        a, b = [Fraction(t) for t in ia[1:-1].split(",") if t], [Fraction(t) for t in ma[1:-1].split(",") if t]
        return len(a) == len(b) and all(abs(x - y) <= abs(y) * Fraction(1, 10**12) for x, y in zip(a, b))
    return ia == ma


def oracle(case, ia):
    k = case["kind"]
    if k == "stack":
        return oracle_stack(case, ia)
    if k in ("kymo", "scan"):
        return oracle_confocal(case, ia)
    if k == "mixin":
        return oracle_mixin(case, ia)
    if k == "datetime":
        return oracle_datetime(case, ia)
    if k == "legacy":
        return oracle_legacy(case, ia)
    if k == "exposure":
        return oracle_exposure(case, ia)
    if k == "glue":
        return oracle_glue(case, ia)
    if k == "software":
        return oracle_software(case, ia)
    if k == "align":
        return oracle_align(case, ia)
    raise ValueError(k)


def nontrivial(case, ia):
    k = case["kind"]
    if not observed(ia):
        return False
    if k == "stack":
        spec = case["spec"]
        return bool(case["prog"]) or spec_legacy(spec) or isinstance(spec["exposure"], list) or len(spec["files"]) > 1
    if k in ("kymo", "scan"):
        return True
    if k == "mixin":
        lo, hi = LIMITS[case["dtype"]]
        if ia[0] == "?" and ia[3] == "?":
            return False  # only the page ranges were observed
        return any(Fraction(v) < lo or Fraction(v) > hi or Fraction(v).denominator != 1 for v in case["values"]) or case["dtype"] == "f32"
    return True


def tags(case, r):
    k = case["kind"]
    t = {"kind": k}
    ans = r["impl"][0] if r.get("impl") else ""
    obs = case.get("_obs", {})
    if k in ("kymo", "scan"):
        t["outcome"] = ans if not ans.startswith("ok") else "ok"
        t["error_at"] = obs.get("error_at")
        t["derived"] = bool(case["derive"])
        t["one_fast_pixel"] = obs.get("fast_pixels") == 1
        t["one_line"] = k == "kymo" and obs.get("lines") == 1
        at = obs.get("error_at") or ""
        if ans == "IndexError" and at.endswith(":pixel_time_seconds") and t["one_fast_pixel"] and t["derived"]:
            t["finding_class"] = "pixel_time_one_fast_pixel"
        elif ans == "IndexError" and at == "kymo.py:_default_line_timestamp_ranges_factory" and t["one_line"]:
            t["finding_class"] = "line_ranges_one_line_kymo"
    elif k == "stack":
        t["outcome"] = ans if not ans.startswith("[") else "ok"
    elif k == "exposure":
        t["desc"] = case.get("desc", "json")
        t["outcome"] = ans if not ans.startswith("[") else "ok"
        if t["desc"] != "json" and "src_exposures" in obs and "written" not in obs and "channel_order" in obs.get("write_error", ""):
            t["finding_class"] = "export_without_metadata"
    return t


def shrink(case):
    k = case["kind"]
    if k == "stack":
        prog = case["prog"]
        for i in range(len(prog)):
            yield dict(case, prog=prog[:i] + prog[i + 1 :])
    elif k in ("kymo", "scan"):
        d = case["derive"]
        for i in range(len(d)):
            yield dict(case, derive=d[:i] + d[i + 1 :])
    elif k == "mixin":
        n, h, w, c = case["shape"]
        if n > 1:
            per = h * w * c
            yield dict(case, shape=[n - 1, h, w, c], values=case["values"][: (n - 1) * per], dead=case["dead"][: n - 1], exp=case["exp"][: n - 1])


# ------------------------------------------------------------------ generators


def det_counts(n, hi, salt=0):
    return [((i * 7 + 3 + salt) % 5) * hi // 4 + (1 if i % 3 == 0 else 0) for i in range(n)]


def confocal_case(kind, P, L, frames_or_lines, k, lead, dead, frame_dead, fast, slow, level, dtype, clip, derive=(), dt=12800, salt=0, absent=("blue",), pixel_nm=(100.0, 150.0), scan_count=0):
    """`level`: magnitude of the photon counts per sample (chosen against the dtype limits); `scan_count`: the 'scan count'
    field of the metadata record: 0 = not stored (pylake reconstructs the number of frames from the info wave on demand),
    "stored" = the true number of frames"""
    if kind == "kymo":
        lay = {"P": P, "lines": frames_or_lines, "k": k, "lead_in": lead, "dead": dead}
    else:
        lay = {"P": P, "L": L, "lines": L * frames_or_lines, "k": k, "lead_in": lead, "dead": dead, "frame_dead": frame_dead}
    n = len(bc.layout_infowave(lay))
    ch = {}
    for ci, col in enumerate(bc.COLORS):
        ch[col] = None if col in absent else det_counts(n, level if ci == 0 else max(level // 3, 1), salt + ci)
    return {"kind": kind, "layout": lay, "channels": ch, "fast": fast, "slow": slow, "pixel_nm": list(pixel_nm), "dt": dt,
            "dtype": dtype, "clip": clip, "derive": [list(d) for d in derive],
            "scan_count": frames_or_lines if (scan_count == "stored" and kind == "scan") else 0}


BOUNDARY_VALUES = {
    "u8": ["0", "1", "254", "255", "256", "257", "-1", "1/2", "-1/2", "509/2", "511/2", "1023/4", "65536", "300", "-0"],
    "u16": ["0", "1", "65534", "65535", "65536", "65537", "-1", "1/2", "-1/4", "131071/2", "131069/2", "4294967296", "70000"],
    "f32": ["0", "1", "-1", "1/2", "1/3", "16777215", "16777216", "16777217", "16777218", "16777219", "-16777217", "33554433",
            "33554434", "33554435", "1/10", str(Fraction(2) ** -126), str(Fraction(2) ** -149), str(Fraction(2) ** -150),
            str(3 * Fraction(2) ** -150), str(Fraction(2) ** -127 + Fraction(2) ** -150), str((2**24 - 1) * 2**104),
            str((2**24 - 1) * 2**104 + 2**103 - 2**75), str(-(2**24 - 1) * 2**104), str(2**128), str(-(2**128)), str(10**39),
            "9007199254740993", "123456789", "4611686018427387904"],
}


def f64_exact(s):
    f = Fraction(s)
    try:
        return Fraction(float(f)) == f
    except OverflowError:
        return False


def mixin_case(values, dtype, clip, shape=None, dead=None, exp=None, int_input=False):
    n = len(values)
    shape = shape or [1, 1, n, 1]
    nf = shape[0]
    dead = dead or [[bt.T0 + i * 1000, bt.T0 + (i + 1) * 1000] for i in range(nf)]
    exp = exp or [[a, a + 700] for a, _ in dead]
    return {"kind": "mixin", "values": [str(Fraction(v)) for v in values], "dtype": dtype, "clip": clip, "shape": list(shape),
            "dead": [list(x) for x in dead], "exp": [list(x) for x in exp], "int_input": int_input}


TS_BOUNDARY = [0, 1, 9, 10, 99, 100, 10**9, bt.FIRST_TIMESTAMP, bt.T0, 2**62, 2**63 - 2, 2**63 - 1]


def slice_alphabet(n, steps):
    bs = [None] + list(range(-n - 1, n + 2))
    return [["s", a, b, c] for a, b, c in itertools.product(bs, bs, steps)]


def roi_alphabet(h, w):
    ys = [None] + list(range(-h - 1, h + 2))
    xs = [None] + list(range(-w - 1, w + 2))
    out = []
    for y0, y1 in itertools.product(ys, ys):
        out.append(["c", None, None, y0, y1])
    for x0, x1 in itertools.product(xs, xs):
        out.append(["c", x0, x1, None, None])
    return out


def corpus_cases():
    d = os.path.join(os.path.dirname(os.path.dirname(os.path.abspath(__file__))), "corpus", PROP)
    if os.path.isdir(d):
        for f in sorted(os.listdir(d)):
            if f.endswith(".json"):
                c = json.load(open(os.path.join(d, f)))
                c = c.get("case", c)
                c["stream"] = "corpus"
                yield c


JITTER_REL = [0, 0, 1e-9, 1e-8, 1e-7, 1e-6, 5e-6, 1e-5, 2e-5, 1e-4, 1e-3]


def jittered(r, base, n, top):
    """n exposure times (ns) in [1, top] scattered around `base` the way camera timestamps are: consecutive values equal,
    1 ns apart, a few (tens of) ns apart, or apart by a relative 1e-9 .. 1e-3 of the exposure - every page's exposure is
    its own, however little it differs from its neighbours'"""
    out = []
    for _ in range(n):
        t = r.randint(0, 3)
        if t == 0:
            d = r.choice([0, 1, -1, 2, -2])
        elif t == 1:
            d = r.randint(-200, 200)
        else:
            d = int(base * r.choice(JITTER_REL)) * r.choice([1, -1]) + r.choice([0, 0, 1, -1])
        out.append(min(max(base + d, 1), top))
    return out


def random_spec(r, max_pages=10):
    colour = r.choice(["grey", "grey", "rgb", "rgb", "two"])
    nfiles = r.choice([1, 1, 1, 2, 3])
    n = r.randint(nfiles, max(nfiles, max_pages))
    cuts = sorted(r.sample(range(1, n), nfiles - 1)) if nfiles > 1 else []
    files = [b - a for a, b in zip([0] + cuts, cuts + [n])]
    h, w = r.randint(1, 5), r.randint(1, 6)
    period = r.choice([100_000_000, 33_333_333, 1_000, 12_345_678])
    mode = r.choice(["const", "const", "var", "jitter", "none", "legacy", "legacy"])
    software = "Bluelake 2.5.1"
    frame_len = r.choice([period, period, period - r.randint(1, period // 2)])
    if mode == "const":
        exposure = r.randint(1, frame_len)
    elif mode == "var":
        exposure = [r.randint(1, frame_len) for _ in range(n)]
    elif mode == "jitter":
        exposure = jittered(r, r.choice([frame_len, frame_len // 2, r.randint(1, frame_len)]), n, frame_len)
    else:
        exposure = None
        if mode == "legacy":
            software = r.choice(["Pylake v1.3.0", "Bluelake 2.1, Pylake v1.2.1"])
    dtype = "uint8" if n * h * w * bt.n_samples({"colour": colour}) < 250 and r.chance(0.4) else "uint16"
    two = r.choice([("Red", "Green"), ("Red", "Blue"), ("Green", "Blue")])
    return bt.make_spec(
        files=files, h=h, w=w, colour=colour, period=period, frame_len=frame_len, exposure=exposure,
        gap=r.choice([0, 0, 5 * period]), software=software, pixelsize_nm=r.choice([None, 100.0, 72.5, 86.66]),
        align=(colour == "rgb" and r.chance(0.5)), two_channels=two, dtype=dtype,
    )


def random_op(r, n, h, w):
    """one selection op with bounds drawn against an extent of n pages, h rows, w columns"""
    t = r.randint(0, 9)
    b = lambda m: r.choice([None, None, 0, 1, -1, m, m - 1, -m, m + 1, r.randint(-m - 1, m + 1)])  # noqa: E731
    if t <= 3:
        return ["s", b(n), b(n), r.choice([None, None, 1, 2, 2, 3, r.randint(1, max(n, 1))])]
    if t == 4:
        return ["i", r.randint(-n - 1, n)]
    # ROI bounds: a lower and an upper one per axis (None, from the front, from the back, at / one beyond the end), so that
    # most ROIs keep some pixels; any pair of integers in [-m-1, m+1] now and then
    lo = lambda m: r.choice([None, None, 0, 1, 1, -m, 1 - m, -1, m - 1, r.randint(-m - 1, m + 1)])  # noqa: E731
    hi = lambda m: r.choice([None, None, m, m + 1, m - 1, -1, -1, 1, 2 - m, r.randint(-m - 1, m + 1)])  # noqa: E731
    if t <= 6:
        return ["c", lo(w), hi(w), lo(h), hi(h)]
    if t <= 8:
        items = [r.choice([[b(n), b(n), r.choice([None, None, 2])], r.randint(-n, n - 1)])]
        if r.chance(0.8):
            items.append([lo(h), hi(h)])
            if r.chance(0.7):
                items.append([lo(w), hi(w)])
        return ["g"] + items
    return ["s", b(n), b(n), r.choice([-1, 0, -2])]


def random_prog(r, spec, length):
    """a selection program whose every op is drawn against what the ops before it left over (pages, rows, columns of the
    CURRENT selection, which is what pylake resolves None / negative / over-the-end bounds against), mostly valid: an op
    that empties the selection or is refused is redrawn (up to 5 times) in 85% of the cases, so that second- and
    third-level selections of selections are actually exported and not only refused at the first step"""
    prog = []
    n, h, w = sum(spec["files"]), spec["h"], spec["w"]
    for _ in range(length):
        try:
            pages, rows, cols = reference_selection(spec, prog)
            n, h, w = len(pages), len(rows), len(cols)
        except Expect:
            pass  # the program is already refused: whatever follows is never reached
        keep_valid = r.chance(0.85)
        for _attempt in range(5):
            op = random_op(r, n, h, w)
            if not keep_valid or reference_ok(spec, prog + [op]):
                break
        prog.append(op)
    return prog


def cases(tier, rng):
    quick = tier == "quick"
    yield from corpus_cases()

    # ---------------- stack: exhaustive small scope
    base = bt.make_spec(files=(5,), h=3, w=4, colour="grey", exposure=40_000_000, pixelsize_nm=100.0)
    n = sum(base["files"])
    yield {"stream": "small-scope", "kind": "stack", "spec": base, "prog": []}
    alpha = slice_alphabet(n, [None, 1, 2, 3]) + [["s", None, None, c] for c in (-1, 0)]
    alpha += [["s", 1, n, -1], ["s", n, 0, -1]]
    for o in alpha:
        yield {"stream": "small-scope", "kind": "stack", "spec": base, "prog": [o]}
    for i in range(-n - 1, n + 1):
        yield {"stream": "small-scope", "kind": "stack", "spec": base, "prog": [["i", i]]}
    rois = roi_alphabet(base["h"], base["w"])
    for o in rois:
        yield {"stream": "small-scope", "kind": "stack", "spec": base, "prog": [o]}
    r2 = rng.fork("stack2")
    ok_slices = [o for o in alpha if reference_ok(base, [o])]
    ok_rois = [o for o in rois if reference_ok(base, [o])]
    second = []
    for o1 in (ok_slices if not quick else r2.sample(ok_slices, 25)):
        m = len(reference_selection(base, [o1])[0])
        for o2 in r2.sample(slice_alphabet(m, [None, 2]), 6 if quick else 20):
            second.append([o1, o2])
        second.append([o1, r2.choice(ok_rois)])
        second.append([r2.choice(ok_rois), o1])  # F2 territory: crop of a stepped stack and the other way round
    for o1 in (ok_rois if not quick else r2.sample(ok_rois, 15)):
        second.append([o1, r2.choice(rois)])
    for prog in second:
        yield {"stream": "small-scope", "kind": "stack", "spec": base, "prog": prog}
    # ROI of a ROI: the second crop's None / negative / over-the-end bounds refer to the EXTENT of the first crop, wherever
    # its origin lies in the full image (origin 0 and not 0 on either axis, full and reduced extent); every one-axis ROI
    # with bounds in [-m-1, m+1] or None of the cropped extent m, through crop_by_pixels and through a tuple index; a
    # sample of third-level crops
    r3 = rng.fork("stack-roi-roi")
    firsts = [["c", 1, None, 1, None], ["c", 1, 3, None, None], ["c", None, None, 1, 3], ["c", 2, None, None, 2], ["c", None, 3, None, 2]]
    for o1 in firsts:
        _, rows1, cols1 = reference_selection(base, [o1])
        inner = roi_alphabet(len(rows1), len(cols1))
        if quick and o1 is not firsts[0]:
            inner = r3.sample(inner, 40)
        for o2 in inner:
            yield {"stream": "small-scope", "kind": "stack", "spec": base, "prog": [o1, o2]}
        as_tuple = lambda o: ["g", [None, None], [o[3], o[4]], [o[1], o[2]]]  # noqa: E731
        for o2 in r3.sample(inner, 12 if quick else 60):
            yield {"stream": "small-scope", "kind": "stack", "spec": base, "prog": [as_tuple(o1), as_tuple(o2)]}
        for o2 in r3.sample([o for o in inner if reference_ok(base, [o1, o])], 6 if quick else 30):
            _, rows2, cols2 = reference_selection(base, [o1, o2])
            yield {"stream": "small-scope", "kind": "stack", "spec": base, "prog": [o1, o2, r3.choice(roi_alphabet(len(rows2), len(cols2)))]}
    # every slice of a legacy stack and of a variable-exposure RGB stack in two files (the written frame ranges of a
    # legacy selection depend on the neighbours inside the selection); and of a stack whose exposure jitters from page to
    # page by 1 ns .. 1e-3 of the exposure (every page carries its own exposure, however close to its neighbours')
    leg = bt.make_spec(files=(4,), h=2, w=2, colour="grey", exposure=None, frame_len=40_000_000, software="Pylake v1.3.0", period=100_000_000)
    var = bt.make_spec(files=(2, 2), h=2, w=2, colour="rgb", exposure=[10_000_000, 20_000_000, 30_000_000, 25_000_000], gap=300_000_000)
    for spec in (leg, var):
        for o in slice_alphabet(4, [None, 2] if quick else [None, 1, 2, 3]):
            yield {"stream": "small-scope", "kind": "stack", "spec": spec, "prog": [o]}
    e0 = 20_000_000
    jit = bt.make_spec(files=(3, 3), h=2, w=2, colour="grey", exposure=[e0, e0 + 1, e0 - 1, e0 + 40, e0 + 199, e0 + 20_000], period=100_000_000)
    yield {"stream": "small-scope", "kind": "stack", "spec": jit, "prog": []}
    for o in slice_alphabet(6, [None, 2] if quick else [None, 1, 2, 3]):
        yield {"stream": "small-scope", "kind": "stack", "spec": jit, "prog": [o]}
    for e1, steps in ((1_000, (0, 1, -1, 3)), (1_000_000, (0, 1, -7, 9, 11)), (999_999_937, (0, -1, 1, 63, -9_000, 10_001))):
        spec = bt.make_spec(files=(len(steps),), h=1, w=2, colour="rgb", exposure=[e1 + d for d in steps], period=2_000_000_000, dtype="uint8")
        for prog in ([], [["s", 1, None, None]], [["s", None, None, 2]]):
            yield {"stream": "small-scope", "kind": "stack", "spec": spec, "prog": prog}
    # from_dataset incl. the empty stack (RuntimeError; legacy: IndexError)
    for s0, s1, st in [(0, 0, 1), (2, 2, 1), (1, n, 2), (0, n, 3), (n - 1, n, 1)]:
        yield {"stream": "small-scope", "kind": "stack", "spec": base, "prog": [["z", s0, s1, st]]}
    # the same small programs on the other stack flavours
    flavours = [
        bt.make_spec(files=(2, 2), h=2, w=3, colour="rgb", exposure=[10_000_000, 20_000_000, 30_000_000, 25_000_000], gap=500_000_000),
        bt.make_spec(files=(3,), h=2, w=3, colour="rgb", exposure=40_000_000, align=True, pixelsize_nm=72.5, dtype="uint8"),
        bt.make_spec(files=(4,), h=2, w=2, colour="two", exposure=None, frame_len=60_000_000),
        bt.make_spec(files=(4,), h=2, w=3, colour="grey", exposure=None, frame_len=40_000_000, software="Pylake v1.3.0"),
        bt.make_spec(files=(1,), h=2, w=3, colour="grey", exposure=None, frame_len=40_000_000, software="Pylake v1.3.0"),
        bt.make_spec(files=(1, 2), h=1, w=1, colour="grey", exposure=1, period=1000, dtype="uint8"),
    ]
    for spec in flavours:
        m = sum(spec["files"])
        progs = [[], [["s", None, None, 2]], [["s", 1, None, None]], [["s", 1, None, 2], ["c", 1, None, None, -1]], [["i", -1]],
                 [["g", [None, None, 2], [0, 1], [1, None]]], [["g", 0, [None, None], [None, -1]]], [["c", 1, None, None, None], ["s", None, None, 2]],
                 [["s", None, None, 2], ["s", 1, None, None]], [["z", 0, 0, 1]], [["s", m, None, None]], [["c", 1, 1, None, None]],
                 [["c", 1, None, None, None], ["c", None, -1, None, None]], [["c", 1, None, None, None], ["c", -1, None, None, None]],
                 [["c", 1, None, None, None], ["c", None, 9, None, 9]], [["g", [None, None], [None, None], [1, None]], ["g", [None, None, 2], [None, None], [-2, -1]]]]
        for prog in progs:
            yield {"stream": "small-scope", "kind": "stack", "spec": spec, "prog": prog}

    # ---------------- mixin: every boundary value of every dtype, alone and mixed, with and without clip
    for dtype, vals in BOUNDARY_VALUES.items():
        vals = [v for v in vals if f64_exact(v)]
        for v in vals:
            for clip in (False, True):
                yield dict(mixin_case([v], dtype, clip), stream="small-scope")
                yield dict(mixin_case(["1", v, "2"], dtype, clip), stream="small-scope")
        lo, hi = LIMITS[dtype]
        inside = [v for v in vals if lo <= Fraction(v) <= hi]
        for clip in (False, True):
            yield dict(mixin_case(inside, dtype, clip, shape=[1, 1, len(inside), 1]), stream="small-scope")
            yield dict(mixin_case(vals, dtype, clip, shape=[1, 1, len(vals), 1]), stream="small-scope")
        ints = [v for v in vals if Fraction(v).denominator == 1 and abs(Fraction(v)) < 2**62]
        for v in ints:
            yield dict(mixin_case([v, "3"], dtype, True, int_input=True), stream="small-scope")
            yield dict(mixin_case([v, "3"], dtype, False, int_input=True), stream="small-scope")
    for a, b in itertools.product(TS_BOUNDARY, TS_BOUNDARY):
        if quick and (a + b) % 3 == 1:
            continue
        yield dict(mixin_case(["1"], "u8", False, dead=[[a, b]], exp=[[min(a, 2**62), min(a, 2**62) + 5]]), stream="small-scope")
    for a, b in [(-1, 5), (5, -1), (-10, -3), (2**63, 5), (5, 2**63), (2**64, 2**64 + 1)]:
        yield dict(mixin_case(["1"], "u8", False, dead=[[a, b]], exp=[[0, 5]]), stream="small-scope")
    # per-page exposure: consecutive pages exposed equally long, 1 ns / tens of ns / a relative 1e-5 / 1e-3 apart, on exposures
    # of 1 us .. 1 s - every page carries its own exposure
    for e1 in (1_000, 1_000_000, 20_000_000, 10**9):
        steps = [0, 1, -1, 40, 40, 199, -150, e1 // 100_000 + 2, e1 // 1000, 0]
        dead = [[bt.T0 + j * 2 * 10**9, bt.T0 + (j + 1) * 2 * 10**9] for j in range(len(steps))]
        exp = [[a, a + e1 + d] for (a, _), d in zip(dead, steps)]
        yield dict(mixin_case(["1", "2"] * len(steps), "u8", False, shape=[len(steps), 1, 2, 1], dead=dead, exp=exp), stream="small-scope")
    yield dict(mixin_case(["1", "2", "3", "4", "5", "6"] * 2, "u16", False, shape=[2, 1, 2, 3]), stream="small-scope")
    yield dict(mixin_case(["1", "2", "3", "4", "5", "6"] * 2, "f32", False, shape=[3, 2, 2, 1]), stream="small-scope")

    # ---------------- datetime strings
    for s in ["12:34", "0:0", "007:0012", "12:34\n", "12:34\n\n", "12:", ":34", "12", "", ":", "12:34:56", " 12:34", "12 :34", "12: 34",
              "12:34 ", "-12:34", "12:-34", "+12:34", "1.5:2", "1e3:2", "12;34", "\n12:34", "12\n:34", "a12:34", "12:34a", "0x1:2",
              "9223372036854775807:9223372036854775807", "9223372036854775808:1", "1:9223372036854775808", "1:99999999999999999999999",
              "1600000000000012800:1600000000000256000", "12:34\r", "12:34\t", "1_000:2"]:
        yield {"stream": "small-scope" if re.fullmatch(r"[0-9]+:[0-9]+\n?", s) else "malformed", "kind": "datetime", "s": s}

    # ---------------- legacy ranges
    for n_ in range(0, 5):
        for variant in range(3):
            rr = [[10 + 10 * i + (i * i if variant == 1 else 0), 18 + 10 * i + (variant == 2) * 7] for i in range(n_)]
            yield {"stream": "small-scope", "kind": "legacy", "ranges": rr}

    # ---------------- exposure key: ns -> float64 ms -> ns
    exp_bound = sorted(set(
        list(range(0, 21)) + [10**k + d for k in range(2, 16) for d in (-1, 0, 1)] + [2**k + d for k in (10, 24, 31, 32, 40, 49, 50) for d in (-1, 0, 1)]
        + [40_000_000, 12_800, 999_999, 1_000_001, 123_456_789, 86_400 * 10**9, EXPOSURE_EXACT - 2, EXPOSURE_EXACT - 1, EXPOSURE_EXACT]))
    exp_bound = [e for e in exp_bound if e <= EXPOSURE_EXACT]
    for i in range(0, len(exp_bound), 4):  # every boundary exposure, 1-4 pages per file (1 page: the squeeze()/atleast_1d path)
        yield dict(exposure_case(exp_bound[i : i + 4], ms=[(k + 0.5) / 1e6 for k in range(i, i + 4)]), stream="small-scope")
    for e in (0, 1, 7, 12_800, 10**15):
        yield dict(exposure_case([e]), stream="small-scope")
    yield dict(exposure_case([-1, -5, -40_000_000, -(10**15)], ms=[-0.5e-6, -1.5e-6, -2.5e-6, -1.0]), stream="small-scope")
    # beyond the bound of the theorem: model and code must still agree (the oracle asserts nothing on the read-back there)
    yield dict(exposure_case([2252445244112521, 10**15 + 1, 2**53 - 1, 2**53 + 1], ms=[2**-20, 2**-30, 0.1, 1 / 3]), stream="small-scope")
    yield dict(exposure_case([2**62, 2**62 + 2**61 - 12345, 2**60 + 1], ms=[1e9, 123456.789, 5e-7], start=0), stream="small-scope")
    yield dict(exposure_case([], ms=[0.0, 5e-7, 1.5e-6, 2.5e-6, 40.0, 0.0128, 1e-7, 4.9999999e-7]), stream="small-scope")
    # source files without (JSON) metadata: text / empty description, empty JSON object; 1 and several pages
    for desc in ("text", "empty", "emptyjson"):
        for es_ in ([40_000_000], [12_800, 12_801, 999_999]):
            yield dict(exposure_case(es_, desc=desc), stream="small-scope")

    # ---------------- glue: export_tiff as a whole; hooks returning n frames, m ranges, l exposure ranges
    # (the hooks of one object agree about the number of frames: n frames, n ranges, n exposure ranges - what export_tiff does
    # with hooks that disagree is modelled and proved (export_tiff_page_count) but not tied: an equivalent refactoring may index
    # instead of zip, or raise a differently named error for an empty exposure list)
    for nf in range(0, 4):
        nd = ne = nf
        frames = [[10 * j + 1, 10 * j + 2] for j in range(nf)]
        dead = [[bt.T0 + 100 * j, bt.T0 + 100 * j + 100] for j in range(nd)]
        exp = [[bt.T0 + 100 * j, bt.T0 + 100 * j + 40 + j] for j in range(ne)]
        for dtype in ("none", "u8"):
            yield dict(glue_case(frames, dtype, False, dead, exp), stream="small-scope")
    for dtype, bad in (("u8", ["256", "-1", "511/2"]), ("u16", ["65536", "-1/4"]), ("f32", [str(2**128), "1/3"]), ("none", ["-7/2", "70000"])):
        for b in bad:
            for pos in range(6):  # the offending / fractional value in every position of every frame
                flat = ["1", "2", "3", "4", "5", "6"]
                flat[pos] = b
                frames = [flat[0:2], flat[2:4], flat[4:6]]
                dead = [[1000 * j, 1000 * j + 1000] for j in range(3)]
                exp = [[1000 * j, 1000 * j + 700 + j] for j in range(3)]
                for clip in (False, True):
                    yield dict(glue_case(frames, dtype, clip, dead, exp), stream="small-scope")

    # ---------------- Software tag / legacy detection
    for sw in ["", "Bluelake", "Bluelake 2.5.1", "Pylake v1.3.0", "Pylake", "pylake", "PYLAKE 1.0", "PyLaKe", "Bluelake 2.1, Pylake v1.2.1", "Pylak", "Pylak e",
               "xPylakex", "ylake", "Py lake", "P", "Bluelake, pylake", "pyPylake", "PylakPylake", "Pylake,", "tifffile.py", "B, Pylake v9, Pylake v10"]:
        for key in (False, True):
            yield {"stream": "small-scope", "kind": "software", "sw": sw, "key": key}

    # ---------------- alignment status / for_export keys / no second warp: every variant x align requested or not
    for variant in ALIGN_VARIANTS:
        for req in (True, False):
            yield {"stream": "small-scope", "kind": "align", "variant": variant, "requested": req}

    # ---------------- confocal: small scope
    conf = []
    levels = {"u8": [3, 60, 400], "u16": [3, 20000, 90000], "f32": [3, 2**22, 2**25]}
    for dtype in ("u8", "u16", "f32"):
        for li, level in enumerate(levels[dtype]):
            for clip in (False, True):
                conf.append(confocal_case("kymo", 3, None, 4, 2, 1, 2, 0, 0, None, level, dtype, clip, salt=li))
                conf.append(confocal_case("scan", 3, 2, 3, 1, 1, 1, 2, 0, 1, level, dtype, clip, salt=li))
                if not quick or (li == 1 and clip):
                    conf.append(confocal_case("scan", 2, 3, 2, 2, 0, 1, 0, 1, 0, level, dtype, clip, salt=li, absent=()))
                    conf.append(confocal_case("scan", 3, 3, 1, 1, 0, 1, 1, 2, 1, level, dtype, clip, salt=li))
    for c in conf:
        yield dict(c, stream="small-scope")
    scan_derives = [[["frames", 1, None]], [["frames", None, -1]], [["frame", 1]], [["frame", -1]], [["cropxy", 1, None, None, None]],
                    [["cropxy", None, None, 1, None]], [["cropxy", None, -1, None, -1]], [["tuple", 1, 3, None, None, 1, None]],
                    [["tuple", None, None, 0, 1, None, None]], [["tuple", None, None, None, None, 0, 1]], [["cropxy", 0, 1, None, None]],
                    [["cropxy", None, None, 0, 1]], [["frame", 0], ["cropxy", 1, None, None, None]], [["frames", 0, 2], ["frames", 1, None]]]
    # the frame count of the metadata record: not stored (0, reconstructed lazily) / stored, 1 and several frames, both orders
    for fast, slow in ((0, 1), (1, 0)):
        for nf in (1, 2, 5):
            for sc in (0, "stored"):
                yield dict(confocal_case("scan", 2, 2, nf, 1, 1, 1, 1, fast, slow, 40, "u8", False, scan_count=sc, salt=nf), stream="small-scope")
        for d in ([["cropxy", 1, None, None, None]], [["frames", 1, None]], [["frame", 0]]):
            yield dict(confocal_case("scan", 3, 2, 3, 1, 1, 1, 2, fast, slow, 50, "u16", False, derive=d, scan_count="stored"), stream="small-scope")
    for fast, slow in ((0, 1), (1, 0)):
        for d in scan_derives:
            yield dict(confocal_case("scan", 3, 2, 3, 1, 1, 1, 2, fast, slow, 50, "f32", False, derive=d), stream="small-scope")
            if not quick:
                yield dict(confocal_case("scan", 2, 3, 4, 2, 0, 2, 1, fast, slow, 50, "u8", True, derive=d, absent=()), stream="small-scope")
    # a selection of a selection (bounds relative to the first one, whose origin is not the scan's)
    nested = [[["cropxy", 1, None, 1, None], ["cropxy", None, -1, None, -1]], [["cropxy", 1, None, 1, None], ["cropxy", -2, None, -2, None]],
              [["cropxy", 1, None, 1, None], ["cropxy", None, 9, None, 9]], [["tuple", None, None, 1, None, 1, None], ["tuple", 1, None, None, -1, None, -1]],
              [["frames", 1, None], ["frames", None, -1]], [["frames", 1, None], ["frame", -1]]]
    for fast, slow in ((0, 1), (1, 0)):
        for d in nested:
            yield dict(confocal_case("scan", 4, 4, 3, 1, 1, 1, 2, fast, slow, 50, "u16", False, derive=d), stream="small-scope")
    line = (3 * 2 + 2) * 12800
    kymo_derives = [[["lines", line, None]], [["lines", None, 2 * line]], [["lines", line, 3 * line]], [["lines", line, 2 * line]],
                    [["crop", "1/10", "3/10"]], [["crop", "0", "1/10"]], [["crop", "1/5", "1"]], [["flip"]], [["down", 2, "mean"]], [["down", 2, "sum"]],
                    [["down", 3, "mean"]], [["crop", "1/10", "3/10"], ["flip"]], [["lines", line, None], ["crop", "1/10", "3/10"]]]
    kymo_derives += [[["lines", line, None], ["lines", line, None]], [["lines", line, None], ["lines", None, 2 * line]],
                     [["crop", "1/10", "1"], ["crop", "1/10", "1"]]]
    for d in kymo_derives:
        yield dict(confocal_case("kymo", 4, None, 4, 2, 1, 2, 0, 0, None, 50, "f32", False, derive=d), stream="small-scope")
        yield dict(confocal_case("kymo", 4, None, 4, 2, 1, 2, 0, 1, None, 90, "u8", True, derive=d), stream="small-scope")
    for lines in (1, 2):
        yield dict(confocal_case("kymo", 3, None, lines, 2, 1, 2, 0, 0, None, 5, "f32", False), stream="small-scope")
    # derivations of derivations: every ordered pair of the kymograph operations (what the first one established - binned pixel
    # size, cropped extent, mirrored image, position unit - must survive the second, which rebuilds the object through a copy),
    # and the triples around binning; 6 pixels per line so that crop -> bin and bin -> crop both leave >= 2 pixels
    line6 = (6 * 2 + 2) * 12800
    kymo_alphabet = [["lines", line6, None], ["crop", "1/10", "1/2"], ["flip"], ["down", 2, "mean"], ["down", 3, "sum"], ["kbp", "12"]]
    chains = [[a, b] for a in kymo_alphabet for b in kymo_alphabet]
    chains += [[["kbp", "12"]], [["down", 2, "sum"], ["flip"], ["flip"]], [["down", 2, "sum"], ["flip"], ["crop", "0", "2/5"]],
               [["crop", "1/10", "1/2"], ["down", 2, "mean"], ["flip"]], [["down", 3, "mean"], ["kbp", "12"], ["flip"]],
               [["lines", line6, None], ["down", 2, "sum"], ["flip"]], [["flip"], ["down", 2, "mean"], ["down", 1, "sum"], ["flip"]]]
    for ci, d in enumerate(chains):
        fast, dtype, level, clip = ((0, "f32", 50, False), (1, "u16", 90, True))[ci % 2]
        yield dict(confocal_case("kymo", 6, None, 4, 2, 1, 2, 0, fast, None, level, dtype, clip, derive=d, pixel_nm=((100.0, 125.0, 80.0)[ci % 3], 0.0)), stream="small-scope")

    # ---------------- seeded random
    r = rng.fork("c18-random")
    N = 500 if quick else 8000
    for i in range(N):
        sub = r.fork(i)
        spec = random_spec(sub, max_pages=6 if quick else 10)
        n = sum(spec["files"])
        prog = random_prog(sub, spec, sub.choice([0, 1, 1, 2, 2, 3]))
        yield {"stream": "random", "kind": "stack", "spec": spec, "prog": prog, "subseed": i}
    r = rng.fork("c18-random-confocal")
    N = 250 if quick else 4000
    for i in range(N):
        sub = r.fork(i)
        dtype = sub.choice(["u8", "u16", "f32"])
        level = sub.choice({"u8": [2, 30, 60, 64, 70, 300], "u16": [2, 9000, 16000, 16500, 40000], "f32": [2, 2**21, 2**22, 2**23, 2**26, 2**40]}[dtype])
        clip = sub.chance(0.5)
        absent = tuple(c for c in bc.COLORS if sub.chance(0.25))
        if len(absent) == 3:
            absent = absent[:2]
        if sub.chance(0.45):
            P, lines, k = sub.randint(2, 6), sub.randint(2, 8), sub.randint(1, 3)
            dead = sub.randint(0, 3)
            c = confocal_case("kymo", P, None, lines, k, sub.randint(0, 3), dead, 0, sub.choice([0, 1]), None, level, dtype, clip,
                              dt=sub.choice([12800, 1000]), salt=i, absent=absent, pixel_nm=(sub.choice([100.0, 125.0, 80.0]), 0.0))
            lt = (P * k + dead) * c["dt"]
            ders = [[], [], [["lines", lt * sub.randint(0, lines - 1), None]], [["lines", None, lt * sub.randint(1, lines)]],
                    [["crop", str(Fraction(sub.randint(0, P), 10)), str(Fraction(sub.randint(1, P + 1), 10))]] if c["pixel_nm"][0] == 100.0 else [["flip"]],
                    [["flip"]], [["down", sub.randint(1, 3), sub.choice(["mean", "sum"])]]]
            c["derive"] = sub.choice(ders)
            # a derivation of a derivation (each step goes through a copy of the object before it): up to three steps
            more = sub.randint(0, 9)
            for _ in range(0 if (not c["derive"] or more < 5) else 1 if more < 8 else 2):
                c["derive"] = c["derive"] + [sub.choice([["flip"], ["flip"], ["down", sub.randint(1, 3), sub.choice(["mean", "sum"])], ["kbp", str(sub.randint(1, 40))],
                                                         ["crop", str(Fraction(sub.randint(0, 2), 10)), str(Fraction(sub.randint(3, 2 * P), 10))],
                                                         ["lines", lt * sub.randint(0, lines - 1), None]])]
        else:
            fast, slow = sub.choice([(0, 1), (1, 0), (0, 2), (1, 2), (2, 1)])
            frames = sub.randint(1, 5)
            P, L = sub.randint(2, 4), sub.randint(2, 4)
            c = confocal_case("scan", P, L, frames, sub.randint(1, 2), sub.randint(0, 2), sub.randint(0, 2), sub.randint(0, 3), fast, slow,
                              level, dtype, clip, dt=sub.choice([12800, 1000]), salt=i, absent=absent,
                              pixel_nm=(sub.choice([100.0, 125.0]), sub.choice([150.0, 80.0])))
            b = lambda m: sub.choice([None, None, 0, 1, -1, m - 1])  # noqa: E731
            ders = [[], [], [["frames", b(frames), b(frames)]], [["frame", sub.randint(-frames, frames - 1)]],
                    [["cropxy", b(4), b(4), b(4), b(4)]], [["tuple", b(frames), b(frames), b(4), b(4), b(4), b(4)]]]
            c["derive"] = sub.choice(ders)
            if c["derive"] and sub.chance(0.3):  # a selection of a selection
                c["derive"] = c["derive"] + sub.choice(ders[2:])
            if sub.chance(0.3):
                c["scan_count"] = frames  # the metadata record stores the true count (otherwise 0: reconstructed on demand)
        yield dict(c, stream="random", subseed=i)
    r = rng.fork("c18-random-mixin")
    N = 500 if quick else 10000
    for i in range(N):
        sub = r.fork(i)
        dtype = sub.choice(["u8", "u16", "f32"])
        pool = [v for v in BOUNDARY_VALUES[dtype] if f64_exact(v)]
        nv = sub.choice([1, 2, 3, 6, 12])
        vals = []
        for _ in range(nv):
            t = sub.randint(0, 5)
            if t == 0:
                vals.append(sub.choice(pool))
            elif t == 1:
                vals.append(str(sub.randint(0, {"u8": 255, "u16": 65535, "f32": 2**25}[dtype])))
            elif t == 2:
                vals.append(str(Fraction(sub.randint(-4, 4 * {"u8": 256, "u16": 65536, "f32": 2**26}[dtype]), 4)))
            elif t == 3 and dtype == "f32":
                e = sub.randint(-160, 130)
                m = sub.randint(2**52, 2**53 - 1)
                f = Fraction(m) * Fraction(2) ** (e - 52)
                vals.append(str(f if sub.chance(0.5) else -f))
            elif t == 4 and dtype == "f32":
                # halfway cases between two float32 neighbours (ties to even) and their float64 neighbours
                e = sub.randint(-130, 120)
                m = sub.randint(2**23, 2**24 - 1)
                f = (Fraction(2 * m + 1) + sub.choice([0, 0, Fraction(1, 2**28), -Fraction(1, 2**28)])) * Fraction(2) ** (e - 24)
                vals.append(str(f))
            else:
                vals.append(str(sub.randint(0, 40)))
        vals = [v for v in vals if f64_exact(v)] or ["1"]
        shape = [1, 1, len(vals), 1]
        if len(vals) in (6, 12):
            shape = sub.choice([[len(vals) // 3, 1, 1, 3], [len(vals) // 6, 1, 2, 3], [len(vals) // 2, 2, 1, 1], [len(vals), 1, 1, 1]])
        nf = shape[0]
        t0 = sub.choice(TS_BOUNDARY[:-3] + [sub.randint(0, 2**62)])
        per = sub.choice([1, 10, 1000, 10**9, sub.randint(1, 10**12)])
        dead = [[t0 + j * per, t0 + (j + 1) * per] for j in range(nf)]
        if per > 1 and sub.chance(0.5):
            exp = [[a, a + e] for (a, _), e in zip(dead, jittered(sub, sub.randint(1, per), nf, per))]
        else:
            exp = [[a, a + sub.randint(0, per)] for a, _ in dead]
        yield dict(mixin_case(vals, dtype, sub.chance(0.5), shape=shape, dead=dead, exp=exp, int_input=False), stream="random", subseed=i)
    # malformed / random DateTime strings
    r = rng.fork("c18-strings")
    alphabet = "0123456789:: \n-+.a"
    for i in range(200 if quick else 5000):
        sub = r.fork(i)
        if sub.chance(0.5):
            a, b = sub.choice(TS_BOUNDARY + [sub.randint(0, 2**64)]), sub.choice(TS_BOUNDARY + [sub.randint(0, 2**64)])
            s = f"{a}:{b}"
            if sub.chance(0.3):
                pos = sub.randint(0, len(s))
                s = s[:pos] + sub.choice(list(alphabet)) + s[pos + sub.choice([0, 1]):]
            if sub.chance(0.1):
                s = "0" * sub.randint(1, 3) + s
        else:
            s = "".join(sub.choice(list(alphabet)) for _ in range(sub.randint(0, 8)))
        ok = re.fullmatch(r"[0-9]+:[0-9]+\n?", s)
        yield {"stream": "random" if ok else "malformed", "kind": "datetime", "s": s, "subseed": i}
    r = rng.fork("c18-legacy")
    for i in range(50 if quick else 1000):
        sub = r.fork(i)
        n_ = sub.randint(0, 8)
        t = sub.randint(0, 2**40)
        rr = []
        for _ in range(n_):
            rr.append([t, t + sub.randint(0, 10**6)])
            t += sub.randint(0, 10**7)
        yield {"stream": "random", "kind": "legacy", "ranges": rr, "subseed": i}
    r = rng.fork("c18-glue")
    for i in range(60 if quick else 2000):
        sub = r.fork(i)
        dtype = sub.choice(["none", "u8", "u16", "f32"])
        pool = [v for v in BOUNDARY_VALUES[dtype if dtype != "none" else "u16"] if f64_exact(v)]
        nf, k = sub.randint(1, 4), sub.randint(1, 3)
        frames = [[sub.choice(pool) if sub.chance(0.15) else str(sub.randint(0, 200)) for _ in range(k)] for _ in range(nf)]
        nd = ne = nf
        t0 = sub.choice(TS_BOUNDARY[:-3] + [sub.randint(0, 2**62)])
        per = sub.choice([1, 10, 1000, 10**9, sub.randint(1, 10**12)])
        dead = [[t0 + j * per, t0 + (j + 1) * per] for j in range(nd)]
        exp = [[t0 + j * per, t0 + j * per + sub.choice([0, 1, per, sub.randint(0, per), int(sub.loguniform(1, EXPOSURE_EXACT))])] for j in range(ne)]
        yield dict(glue_case(frames, dtype, sub.chance(0.5), dead, exp), stream="random", subseed=i)
    r = rng.fork("c18-software")
    for i in range(30 if quick else 1000):
        sub = r.fork(i)
        parts = [sub.choice(["Pylake", "pylake", "PYLAKE", "Pylak", "ylake", "Bluelake", "v1.2", ", ", " ", "P", "y", "l", "a", "k", "e", "E", "x"]) for _ in range(sub.randint(0, 6))]
        sw = "".join(parts).strip()
        yield {"stream": "random", "kind": "software", "sw": sw, "key": sub.chance(0.5), "subseed": i}
    r = rng.fork("c18-exposure")
    for i in range(40 if quick else 1500):
        sub = r.fork(i)
        n_ = sub.randint(1, 4)
        es, ms = [], []
        for _ in range(n_):
            mode = sub.randint(0, 9)
            if mode <= 4:
                e = int(sub.loguniform(1, EXPOSURE_EXACT))
            elif mode == 5:
                e = EXPOSURE_EXACT - sub.randint(0, 10**6)
            elif mode == 6:
                e = sub.randint(0, 10**4)
            elif mode == 7:
                e = -int(sub.loguniform(1, EXPOSURE_EXACT))
            else:
                e = sub.randint(EXPOSURE_EXACT, 2**53)  # beyond the theorem's bound: agreement only
            es.append(e)
            k = int(sub.loguniform(1, 10**12))
            ms.append(sub.choice([(k + 0.5) / 1e6, (k + 0.5) * 1e-6, k / 1e6, k * 1e-6, sub.loguniform(1e-7, 1e6), k / 1e6 + sub.uniform(-1e-9, 1e-9)]))
        yield dict(exposure_case(es, ms=ms, start=bt.T0 + sub.randint(0, 10**12)), stream="random", subseed=i)


def reference_ok(spec, prog):
    try:
        reference_selection(spec, prog)
        return True
    except Expect:
        return False


def extra_coverage(results):
    kinds, outcomes, dtypes, ops_n, colours, exposure_modes, sizes = {}, {}, {}, {}, {}, {}, {}
    derived, expo = {}, {}

    def bump(d, key, n=1):
        d[key] = d.get(key, 0) + n
    for r in results:
        c = r["case"]
        k = c["kind"]
        kinds[k] = kinds.get(k, 0) + 1
        a = next((x for x in r["impl"] if x != "?"), "?")
        key = "ok" if (a.startswith("ok") or a.startswith("[") or re.fullmatch(r"\d+:\d+", a)) else a
        outcomes[f"{k}:{key}"] = outcomes.get(f"{k}:{key}", 0) + 1
        if "dtype" in c:
            dk = f"{c['dtype']}/{'clip' if c['clip'] else 'noclip'}"
            dtypes[dk] = dtypes.get(dk, 0) + 1
        if k == "stack":
            s = c["spec"]
            colours[s["colour"]] = colours.get(s["colour"], 0) + 1
            m = "legacy" if spec_legacy(s) else "absent" if s["exposure"] is None else "variable" if isinstance(s["exposure"], list) else "constant"
            exposure_modes[m] = exposure_modes.get(m, 0) + 1
            n = sum(s["files"])
            sizes[n] = sizes.get(n, 0) + 1
            for o in c["prog"]:
                ops_n[o[0]] = ops_n.get(o[0], 0) + 1
        if k == "exposure":
            bump(expo, f"pages_per_file:{len(c['e'])}")
            bump(expo, f"source_description:{c.get('desc', 'json')}")
            for e in c["e"]:
                cls = ("zero" if e == 0 else "negative" if e < 0 else "1..1e4" if e <= 10**4 else "..1e9" if e <= 10**9 else "..1e15-1e6" if e < EXPOSURE_EXACT - 10**6
                       else "within 1e6 of the bound 1e15" if e <= EXPOSURE_EXACT else "beyond the bound, < 2^53" if e < 2**53 else ">= 2^53 (int64 -> float64 rounds)")
                bump(expo, "written:" + cls)
            got = c.get("_obs", {}).get("reread")
            if got:
                bump(expo, "read_back_differs_beyond_bound", sum(1 for e, g in zip(c["e"], got) if e != g))
            for t in c["ms"]:
                y = 1e6 * f64_of(t)
                bump(expo, "read:" + ("product is an exact tie k+1/2 (half-even decides)" if y % 1 == 0.5 else "product is integral" if y % 1 == 0 else "product is fractional"))
        if k == "kymo" and "dead_lines" in c.get("_obs", {}):
            for key in ("dead_lines", "exp_lines"):
                ll = c["_obs"].get(key) or []
                ordered = all(a <= b for a, b in ll) and all(x[0] <= y[0] and x[1] <= y[1] for x, y in zip(ll, ll[1:]))
                bump(expo, f"kymo_{key}:" + ("in time order, start <= stop (hypothesis of kymo_frame_range_ordered met)" if ordered else "NOT ordered"))
                bump(expo, f"kymo_{key}:n_lines={len(ll)}")
        if k in ("kymo", "scan"):
            for o in c["derive"]:
                derived[o[0]] = derived.get(o[0], 0) + 1
            bump(derived, f"chain_length:{len(c['derive'])}")
            if "raw1" in c.get("_obs", {}):
                for o1, o2 in zip(c["derive"], c["derive"][1:]):
                    bump(derived, f"exported after {o1[0]} -> {o2[0]}")
                if "raw_prev" in c["_obs"]:
                    bump(derived, "compared with the export before the last step (flip / kbp)")
            if "derive_error" in c.get("_obs", {}):
                derived["(derivation refused, nothing exported)"] = derived.get("(derivation refused, nothing exported)", 0) + 1
    unobserved = sum(1 for r in results for a in r["impl"] if a == "?")
    return {
        "observations_not_made": {
            "count": unobserved,
            "note": "answers '?': a private helper is not reachable under its name (then every direct observation of the mixin / datetime / legacy kinds), "
                    "or an input has no public route (white space at the ends of a DateTime tag, an empty legacy file, magnitudes that a scan's "
                    "running sums do not carry side by side, ranges that cannot be written as tags); ignored by agree / oracle",
        },
        "case_kinds": kinds, "outcomes": outcomes, "dtype_clip": dtypes, "stack_program_ops": ops_n, "stack_colours": colours,
        "stack_exposure_modes": exposure_modes, "stack_pages": {str(k): v for k, v in sorted(sizes.items())},
        "confocal_derivations": derived, "exposure_key_branches": expo,
        "notes": "stack: 1-10 pages in 1-3 files, 1x1 to 5x6 pixels; confocal: P<=6, <=8 lines / 2-4 x 2-4 pixels x 1-5 frames; "
                 "mixin: 1-12 values per image in grey/RGB layouts of 1-4 frames",
    }
