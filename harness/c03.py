"""C03 — pixel timestamps and line/frame time ranges index the raw sample stream:
correspondence + oracle (see DESIGN.md 6/C03)."""
import copy as _copy
import itertools
import json
import os
import warnings

from fractions import Fraction

import numpy as np

from common import VERIF, Rng, dec_float, enc_bool, enc_float, enc_list, errname

PROP = "C03"
THEOREMS = [
    "Verif.C03.lineRangesInclFixed_spec",
    "Verif.C03.couldSumOverflow_length",
    "Verif.C03.tsMean_no_overflow",
    "Verif.C03.tsMean_mem",
    "Verif.C03.tsMean_floor",
    "Verif.C03.tsMean_floor_split",
    "Verif.C03.split_floor_witness",
    "Verif.C03.pixel_ts_spec",
    "Verif.C03.kymo_ts_placement",
    "Verif.C03.line_range_exact",
    "Verif.C03.line_range_bounds",
    "Verif.C03.line_range_exact_raw",
    "Verif.C03.line_ranges_ordered",
    "Verif.C03.frame_range_exact",
    "Verif.C03.frame_single_complete",
    "Verif.C03.F9_witness",
    "Verif.C03.dead_time_contiguous",
    "Verif.C03.line_time_spec",
    "Verif.C03.pixel_time_spec",
    "Verif.C03.duration_spec",
    "Verif.C03.sum_over_ranges_eq_image",
    "Verif.C03.tsMeanRows_split_bounds",
    "Verif.C03.tsMeanRows_no_overflow",
    "Verif.C03.rows_below_min_witness",
    "Verif.C03.pixel_ts_general",
    "Verif.C03.pixel_ts_no_overflow",
    "Verif.C03.deltaTs_bounds",
    "Verif.C03.deltaTs_values",
    "Verif.C03.line_range_exact_code",
    "Verif.C03.frame_range_exact_code",
    "Verif.C03.sum_over_ranges_eq_image_code",
    "Verif.C03.sum_over_ranges_eq_image_zero",
    "Verif.C03.sum_over_frame_ranges_eq_image",
    "Verif.C03.line_ranges_covered",
    "Verif.C03.sum_over_ranges_longer_channel",
    "Verif.C03.frame_dead_time_contiguous",
    "Verif.C03.duration_lines",
    "Verif.C03.pixel_ts_spec_duration",
    "Verif.C03.pixel_time_seconds_spec",
    "Verif.C03.line_time_seconds_spec",
    "Verif.C03.duration_seconds_spec",
    "Verif.C03.tsMean_no_overflow_span",
    "Verif.C03.span_necessary_witness",
    "Verif.C03.tsMean_floor_split_n",
    "Verif.C03.line_range_exact_raw_shape",
    "Verif.C03.kymo_geometry_ranges",
    "Verif.C03.scan_ts_placement",
    "Verif.C03.incl_range_exact_inner",
    "Verif.C03.frame_incl_range_exact_inner",
    "Verif.C03.lineRangesRows_full",
    "Verif.C03.lineRangesRows_full_incl",
    "Verif.C03.dk_untouched_timestamps",
]
RULE = (
    "corpus (F11 input, split-mode mean witness) + malformed stream (empty wave, nothing used, no boundary, interior "
    "discards, non-constant pixel size / line period / dead time: compared with the model only) + exhaustive small "
    "scope [kymographs: P<=3 pixels/line, <=3 lines, k<=2 samples/pixel (thorough: P,lines<=4, k<=3), per-line dead "
    "time <=2, lead-in <=1, the stream truncated at every sample after the first complete pixel (quick: every 2nd/3rd), "
    "dt in {1,55} (thorough {1,7,55,110}; 55 and 110 are periods where int(1e9/(1e9/dt)) = dt-1; the dt=7 cases start "
    "at 2^62); scans: P,L in {2,3}, <=3 frames, k<=2, line dead <=1, frame dead in {0,2}, both axis orders, metadata "
    "frame count 0 or explicit, truncated at every sample (quick: every 3rd/5th); timestamp_mean on every array of "
    "length <=3 over nine boundary values of int64, 4^4 arrays of length 4, 81 two-row arrays] + seeded random regular "
    "waves (quick 1000 / thorough 20000; P<=32 and <=40 lines, or P,L<=12 and <=5 frames; k<=8, dead<=20, lead-in<=10, "
    "half of them truncated near a line/frame/pixel edge; dt from 1 ns to 1e8 ns, a quarter of them periods whose float "
    "round trip loses 1 ns; starts 0, 1000, 2014-epoch, 2^61..2^62; photon counts non-zero in discarded samples; the "
    "reduced channel extends up to 4 samples beyond the acquisition on both sides; red channel absent in 20%) + "
    "adversarial int64 arrays for timestamp_mean (quick 4000 / thorough 100000; 1-D and axis=1; span*n on both sides "
    "of 2^63, values up to 2^63-1, negative offsets) + the public twin of the mean (op kmean: Kymo.timestamps of "
    "kymographs whose sample period is so long, or whose start so late, that the per-pixel mean works at the edge of "
    "int64: small scope k<=4, P<=2, <=2 lines, dead<=1, lead<=1 with span*k one step on either side of 2^63, the longest "
    "period that fits, and starts ending at 2^63-1; random quick 400 / thorough 6000 with k<=8, P<=4, <=3 lines). "
    "Deepening round D: op delta (int(1e9/sample_rate) read from the range of a one-sample kymograph: every dt <= 1500 "
    "(thorough 20000), 10^e+-1, 2^e+-1 up to 1e15, random quick 600 / thorough 20000 up to 1e8 and 1e15); meanrows small "
    "scope widths 3 and 4 next to every row over four int64 boundary values; the model reports after every mean "
    "whether all its intermediates fit int64 (must be T for non-negative int64 input) and the number of splits. "
    "Strengthening round H: op dkymo = ONE kymograph followed through a sequence of operations on the objects the API "
    "returns (time slices kymo[a:b] whose bounds are the API's own range boundaries - first sample of a line = end of "
    "the previous range with dead time, past-the-end sample of the exposure range, each also 1 ns / 1 sample off, open "
    "ends, slices of slices -, crop_by_distance to pixel rows, flip, copy.copy, calibrate_to_kbp, in every order; a "
    "refused slice of a processed kymograph) and/or whose photon streams start pcut samples after the info wave (the "
    "start is repaired on first access; judged once settled; in two thirds of these cases pixel/line time (and duration) are asked once BEFORE that access - whatever they answer then, F5 - and must not be remembered afterwards); observed: timestamps, both kinds of line ranges, line and "
    "pixel time, channel sums vs image line totals, start/stop/image shape. Small scope: P<=3 (thorough 4), <=3 lines, "
    "k<=3, dead<=2, lead<=1: every pair of slice bounds (quick: every 13th; thorough: every 2nd/3rd for two or more lines), every one- and two-step processing "
    "sequence and own-range slice followed by a processing step (quick: a quarter of the geometries), every pcut in the "
    "first line period; random quick 700 / thorough 12000 with P<=6, <=7 lines, k<=8, dead time also shorter than one "
    "pixel, up to 4 steps. The reduced channel now also covers only part of the acquisition (begin/end at every run edge "
    "and one sample off in small scope; 20% of the random cases) and is stamped where='left' in half of the cases. "
    "Non-trivial: a dkymo case has a step or pcut>0 and reports values; a delta case has dt>=2; a kymograph/scan case has at least two ranges, or a truncated last line/frame, or delta != dt; a mean "
    "case has two distinct values; a kmean case has k>=2."
)
TRUSTED = [
    "the exact binary64 model rnDiv (exponent from the bit lengths, round-half-even of the scaled quotient; normal range only) describes CPython/NumPy float division, multiplication and int->float conversion: delta = int(1e9/(1e9/dt)) and the seconds values are computed by the model in that arithmetic (kernel-computable; deltaTs_bounds proves 1 <= delta <= dt for dt <= 1e15) and compared on every run with the real code (op c03.delta through Kymo.line_timestamp_ranges, the seconds bit for bit) and with Lean's hardware Float",
    "np.sum of non-negative int64 values whose total fits int64 does not overflow in any summation order (numpy's pairwise order is not modelled; Lemma sublist_sum_bounds covers every sub-sum)",
    "float64 results (line time, pixel time, duration in seconds) agree when the implementation's double is the model's binary64 value bit for bit, or another double within the PROVED bound (1 +- 2^-53)^3 (duration ^5) of the exact integer nanoseconds (so x / 1e9 instead of x * 1e-9 stays green); coverage.seconds_vs_binary64_model counts both kinds",
]
ASSUMPTIONS = [
    "the direct tie to timestamp_mean goes through a private module path (lumicks.pylake.detail.confocal, the anchored place; else any loaded pylake module that still offers the name); when it is out of reach the direct ops answer '?' (ignored by agree/oracle/nontrivial, listed under coverage.private_ties) and the clause stays tied through Kymo.timestamps (op kmean and every kymo/scan case)",
    "info wave and photon channels are Continuous with dt >= 1 and the same length/stop; they start together, or (op dkymo, pcut>0) the photon streams start inside the first line period and the kymograph is observed after its first photon access has repaired the start (what it answers before that is F5, C19's subject); the repair is judged for kymographs with >= 3 lines and >= 1 dead sample between lines (without a gap seek_timestamp_next_line cannot see the line boundary: corpus O3, compared with the model only)",
    "derived kymographs (op dkymo) are built from complete lines; a crop after a flip that is not symmetric shows pixels whose timestamps/ranges the API does not report (known finding F25: oracle failures of exactly that class are reported as KNOWN-FINDING); on a flipped kymograph the per-pixel timestamps are compared per line as a multiset (observation O1: flip does not mirror them)",
    "every pixel has the same number of used samples (the code documents this assumption: pixel_size = argmax(subset)+1); waves violating it are compared with the model only",
    "scan axes have at least 2 pixels (Scan._to_spatial squeezes every length-1 axis; 1-pixel axes are outside the model)",
    "timestamps are non-negative and below 2^63; (last - first)*k < 2^63 for every acquisition (no split in the per-pixel mean: needs an acquisition longer than 2^63/k ns)",
    "frame totals are compared for photon streams that are zero in the dead time BETWEEN THE LINES OF A FRAME (a frame range is one interval and necessarily contains those samples); counts in lead-in, inter-frame dead time and after the acquisition are non-zero",
    "exact floor of the mean is claimed only when (max-min)*n < 2^63; otherwise floor-(#splits) <= result <= floor (observation O2 of DESIGN.md)",
]

I64MAX = 2**63 - 1
BAD_DT = [dt for dt in range(1, 5000) if int(1e9 / (1e9 / dt)) != dt]  # periods whose float round trip loses 1 ns


# ------------------------------------------------------------------ building waves and implementation objects


def wave_of(case):
    """the info wave of a case: explicit, or generated from its geometry"""
    if "iw" in case:
        return list(case["iw"])
    g = case["geom"]
    pixel = [1] * (g["k"] - 1) + [2]
    line = pixel * g["P"] + [0] * g["dead"]
    if case["op"] in ("kymo", "kmean", "dkymo"):
        iw = [0] * g["lead"] + line * g["lines"] + [0] * g.get("tail", 0)
    else:
        frame = line * g["L"] + [0] * g["fdead"]
        iw = [0] * g["lead"] + frame * g["frames"] + [0] * g.get("tail", 0)
    if g.get("trunc") is not None:
        iw = iw[: g["trunc"]]
    return iw


def counts_of(case, iw):
    """photon counts: deterministic, non-zero in discarded samples (except, for scans, in the dead time between the
    lines of a frame, see ASSUMPTIONS)"""
    s = case.get("cseed", 1)
    c = [((i * 7 + s * 3) % 5) + 1 + (3 if iw[i] == 0 else 0) for i in range(len(iw))]
    if case["op"] == "scan" and "geom" in case:
        g = case["geom"]
        per_line = g["k"] * g["P"] + g["dead"]
        per_frame = per_line * g["L"] + g["fdead"]
        for i in range(len(iw)):
            j = i - g["lead"]
            if j >= 0 and j < per_frame * g["frames"]:
                f = j % per_frame
                if f < per_line * g["L"] - g["dead"] and iw[i] == 0:
                    c[i] = 0
    return c


def channel_of(case, counts):
    """the timeline channel that is reduced over the ranges: the counts, extended on both sides"""
    ct = case.get("ctrim")
    if ct:  # a channel that covers only part of the acquisition: ct[0] samples missing at the start, ct[1] at the end
        return case["start"] + ct[0] * case["dt"], counts[ct[0] : len(counts) - ct[1]]
    pre, post = case.get("pre", 2), case.get("post", 3)
    data = [9 + (i % 3) for i in range(pre)] + counts + [11 + (i % 2) for i in range(post)]
    return case["start"] - pre * case["dt"], data


def _meta(axes, num_frames):
    return json.dumps(
        {
            "value0": {
                "cereal_class_version": 1,
                "fluorescence": True,
                "force": False,
                "scan count": num_frames,
                "scan volume": {
                    "center point (um)": {"x": 0.0, "y": 0.0, "z": 0.0},
                    "cereal_class_version": 1,
                    "pixel time (ms)": 0.2,
                    "scan axes": [
                        {
                            "axis": a,
                            "cereal_class_version": 1,
                            "num of pixels": n,
                            "pixel size (nm)": 100,
                            "scan time (ms)": 0,
                            "scan width (um)": 0.1 * n,
                        }
                        for a, n in axes
                    ],
                },
            }
        }
    )


def build(case, iw, counts):
    from lumicks.pylake.channel import Continuous, Slice
    from lumicks.pylake.low_level import create_confocal_object

    def mk(d):
        return Slice(Continuous(np.asarray(d), case["start"], case["dt"]))

    if case["op"] in ("kymo", "kmean", "dkymo"):
        axes = [(case.get("axis", 0), case["P"])]
        nf = 0
    else:
        # fast axis first; flip = the fast axis has the higher physical axis number
        axes = [(1, case["P"]), (0, case["L"])] if case["flip"] else [(0, case["P"]), (1, case["L"])]
        nf = case.get("nf_meta", 0)
    infowave = mk(np.asarray(iw, dtype=np.uint8))
    pcut = case.get("pcut", 0)
    if pcut:  # the photon streams start pcut samples after the info wave (a recording that began inside the first line)
        late = Slice(Continuous(np.asarray(counts[pcut:]), case["start"] + pcut * case["dt"], case["dt"]))
        return create_confocal_object("c03", infowave, _meta(axes, nf), late, late, late)
    if case.get("red_empty"):  # an absent channel is simply not passed (the documented default)
        return create_confocal_object("c03", infowave, _meta(axes, nf), green_channel=mk(counts), blue_channel=mk(counts))
    return create_confocal_object("c03", infowave, _meta(axes, nf), mk(counts), mk(counts), mk(counts))


def show_ll(a):
    a = np.asarray(a)
    return "[" + ";".join(",".join(str(int(x)) for x in row) for row in a) + "]"


def show_ranges(rs):
    return "[" + ",".join(f"{int(a)}:{int(b)}" for a, b in rs) + "]"


def parse_ranges(s):
    inner = s.strip()[1:-1]
    return [] if inner == "" else [tuple(int(x) for x in p.split(":")) for p in inner.split(",")]


def _try(f):
    try:
        with warnings.catch_warnings():
            warnings.simplefilter("ignore")
            return f()
    except Exception as e:  # mapped to the small enum; compared with the model's error answer
        return errname(e)


def _sum_over(chan_start, dt, chan_data, ranges_fn, totals_fn, where="center"):
    from lumicks.pylake.channel import Continuous, Slice

    ch = Slice(Continuous(np.asarray(chan_data, dtype=float), chan_start, dt))
    rs = [(int(a), int(b)) for a, b in ranges_fn()]
    ds = ch.downsampled_over(rs, reduce=np.sum, where=where)
    return enc_list([int(round(float(x))) for x in ds.data]) + " " + enc_list([int(round(float(x))) for x in totals_fn()])


_TIES = {}  # private name -> (where it was reached | "unreachable", object)
UNSEEN = "?"  # a private observation that could not be made: never an implementation answer (agree/oracle ignore it)


def mean_fn():
    """The anchored overflow-safe mean.  It lives behind a private module path, so it is looked up where it is anchored,
    else under its name in any pylake module that is loaded once the confocal classes are (a moved helper); None when
    it is out of reach (renamed): the direct ops then answer UNSEEN and the clause stays tied through the public
    Kymo.timestamps (op kmean, and every kymo/scan case)."""
    if "timestamp_mean" not in _TIES:
        fn, where = None, "unreachable"
        try:
            from lumicks.pylake.detail.confocal import timestamp_mean as fn

            where = "lumicks.pylake.detail.confocal"
        except (ImportError, AttributeError):
            import sys

            import lumicks.pylake.low_level  # noqa: F401  (loads kymo, scan and their helpers)

            for name, m in sorted(sys.modules.items()):
                if name.startswith("lumicks.pylake") and callable(m.__dict__.get("timestamp_mean")):
                    fn, where = m.__dict__["timestamp_mean"], name
                    break
        _TIES["timestamp_mean"] = (where, fn)
    return _TIES["timestamp_mean"][1]


DK_WHAT = ("ts", "rex", "rin", "lt", "pt", "sum", "st")


def step_time(case, b):
    """a slice bound: None, or [sample index, offset in ns] -> absolute timestamp"""
    return None if b is None else case["start"] + b[0] * case["dt"] + b[1]


def apply_steps(case, k):
    """the sequence of operations of a derived-kymograph case, applied one after the other to the objects the API hands
    out (public API only); returns the final object, or the string 'Empty' for an empty kymograph"""
    for st in case["steps"]:
        if st[0] == "s":
            k = k[step_time(case, st[1]) : step_time(case, st[2])]
            if not k:
                return "Empty"
        elif st[0] == "c":
            px = k.pixelsize[0]  # crop to pixel rows [lo, hi): bounds half a pixel inside, away from the rounding ties
            k = k.crop_by_distance((st[1] + 0.5) * px, (st[2] - 0.5) * px)
        elif st[0] == "f":
            k = k.flip()
        elif st[0] == "y":
            k = _copy.copy(k)
        elif st[0] == "k":
            k = k.calibrate_to_kbp(10.0)
        else:
            raise ValueError(st)
    return k


def impl_dkymo(case, iw, counts, cstart, cdata):
    def make():
        k = build(case, iw, counts)
        if case.get("pcut", 0):
            if case.get("peek"):  # timing asked BEFORE the repair (whatever it answers: F5) must not be remembered after it
                _try(lambda: k.pixel_time_seconds)
                _try(lambda: k.line_time_seconds)
                _try(lambda: k.duration) if case["peek"] > 1 else None
            k.get_image("green")  # the first access to a photon stream repairs the start (F5: judged once settled)
            if int(k.start) < case["start"] + case["pcut"] * case["dt"]:
                return "unsettled"
        return apply_steps(case, k)

    k = _try(make)
    if isinstance(k, str):
        return [k] * len(DK_WHAT)
    return [
        _try(lambda: show_ll(k.timestamps)),
        _try(lambda: show_ranges(k.line_timestamp_ranges())),
        _try(lambda: show_ranges(k.line_timestamp_ranges(include_dead_time=True))),
        _try(lambda: enc_float(k.line_time_seconds)),
        _try(lambda: enc_float(k.pixel_time_seconds)),
        _try(lambda: _sum_over(cstart, case["dt"], cdata, k.line_timestamp_ranges, lambda: k.get_image("green").sum(axis=0), case.get("where", "center"))),
        _try(lambda: f"{int(k.start)} {int(k.stop)} {k.get_image('green').shape[0]} {k.get_image('green').shape[1]}"),
    ]


def enc_steps(case):
    def b(x):
        t = step_time(case, x)
        return "N" if t is None else str(t)

    out = []
    for st in case["steps"]:
        if st[0] == "s":
            out.append(f"s:{b(st[1])}:{b(st[2])}")
        elif st[0] == "c":
            out.append(f"c:{st[1]}:{st[2]}")
        else:
            out.append(st[0])
    return ",".join(out) if out else "-"


def impl(case):
    op = case["op"]
    if op == "mean":
        timestamp_mean = mean_fn()
        if timestamp_mean is None:
            return [UNSEEN]
        return [_try(lambda: str(int(timestamp_mean(np.array(case["a"], dtype=np.int64)))))]
    if op == "meanrows":
        timestamp_mean = mean_fn()
        if timestamp_mean is None:
            return [UNSEEN]
        return [_try(lambda: enc_list(timestamp_mean(np.array(case["rows"], dtype=np.int64).reshape(len(case["rows"]), case["w"]), axis=1)))]
    if op == "delta":
        # the delta the code adds, read from the public API: a kymograph of one one-sample pixel reports the range
        # [start, start + delta)
        def delta():
            k = build({"op": "kymo", "start": 0, "dt": case["dt"], "P": 1}, [2], [1])
            (t0, t1), = k.line_timestamp_ranges()
            return f"{int(t1) - int(t0)}"

        return [_try(delta)]
    iw = wave_of(case)
    counts = counts_of(case, iw)
    cstart, cdata = channel_of(case, counts)
    if op == "kmean":
        k = _try(lambda: build(case, iw, counts))
        if isinstance(k, str):
            return [k]
        return [_try(lambda: show_ll(k.timestamps))]
    if op == "dkymo":
        return impl_dkymo(case, iw, counts, cstart, cdata)
    if op == "kymo":
        # the generated wave itself, compared with the Lean generator geomKymo (the domain kymo_geometry_ranges
        # quantifies over) - a tie between the two generators, not an observation of the code
        gen = [enc_list(iw)] if "geom" in case else []
        k = _try(lambda: build(case, iw, counts))
        if isinstance(k, str):
            return [k] * 7 + gen
        return gen[:0] + [
            _try(lambda: show_ll(k.timestamps)),
            _try(lambda: show_ranges(k.line_timestamp_ranges())),
            _try(lambda: show_ranges(k.line_timestamp_ranges(include_dead_time=True))),
            _try(lambda: enc_float(k.line_time_seconds)),
            _try(lambda: enc_float(k.duration)),
            _try(lambda: enc_float(k.pixel_time_seconds)),
            _try(lambda: _sum_over(cstart, case["dt"], cdata, k.line_timestamp_ranges, lambda: k.get_image("green").sum(axis=0), case.get("where", "center"))),
        ] + gen
    if op == "scan":
        s = _try(lambda: build(case, iw, counts))
        if isinstance(s, str):
            return [s] * 5

        def ts():
            t = np.asarray(s.timestamps)
            if t.ndim == 2:
                t = t[np.newaxis]
            return "|".join(show_ll(f) for f in t)

        def totals():
            img = np.asarray(s.get_image("green"))
            if img.ndim == 2:
                img = img[np.newaxis]
            return img.reshape(img.shape[0], -1).sum(axis=1)

        return [
            _try(ts),
            _try(lambda: show_ranges(s.frame_timestamp_ranges())),
            _try(lambda: show_ranges(s.frame_timestamp_ranges(include_dead_time=True))),
            _try(lambda: enc_float(s.pixel_time_seconds)),
            _try(lambda: _sum_over(cstart, case["dt"], cdata, s.frame_timestamp_ranges, totals, case.get("where", "center"))),
        ]
    raise ValueError(op)


def _geom_op(case, n):
    g = case["geom"]
    return f"c03.geom {g['lead']} {g['k']} {g['P']} {g['dead']} {g['lines']} {g.get('tail', 0)} {n}"


def ops(case):
    op = case["op"]
    if op == "mean":
        return [f"c03.mean {enc_list(case['a'])}"]
    if op == "meanrows":
        return [f"c03.meanrows {case['w']} [" + ";".join(",".join(str(x) for x in r) for r in case["rows"]) + "]"]
    if op == "delta":
        return [f"c03.delta {case['dt']}"]
    iw = wave_of(case)
    counts = counts_of(case, iw)
    cstart, cdata = channel_of(case, counts)
    w = f"{case['start']} {case['dt']} {enc_list(iw)}"
    if op == "kmean":
        return [f"c03.kts {w} {case['P']}"]
    if op == "dkymo":
        return [f"c03.dk {what} {w} {case['P']} {case.get('pcut', 0)} {enc_steps(case)} {enc_list(counts)} {cstart} {enc_list(cdata)}" for what in DK_WHAT]
    if op == "kymo":
        P = case["P"]
        return [
            f"c03.kts {w} {P}",
            f"c03.krex {w} {P}",
            f"c03.krin {w} {P}",
            f"c03.klt {w} {P}",
            f"c03.kdur {w} {P}",
            f"c03.pt {w}",
            f"c03.ksum {w} {P} {enc_list(counts)} {cstart} {enc_list(cdata)}",
        ] + ([_geom_op(case, len(iw))] if "geom" in case else [])
    if op == "scan":
        P, L = case["P"], case["L"]
        return [
            f"c03.sts {w} {P} {L} {enc_bool(case['flip'])}",
            f"c03.srng {w} {P} {L} F",
            f"c03.srng {w} {P} {L} T",
            f"c03.pt {w}",
            f"c03.ssum {w} {P} {L} {enc_list(counts)} {cstart} {enc_list(cdata)}",
        ]
    raise ValueError(op)


K53 = 2**53


def _sec_kind(ia, ma, rounds):
    """implementation: float seconds (bit pattern); model: "<exact integer nanoseconds> <num>/<den>", the second being
    the binary64 value of the code's float expression (x * 1e-9, then * lines) as an exact fraction.
    'exact'  : the implementation's double IS the model's double, bit for bit;
    'bound'  : it is another double within the PROVED error bound (1 +- 2^-53)^rounds of the exact nanoseconds
               (pixel_time/line_time_seconds_spec: 3 roundings, duration: 5) - e.g. x / 1e9 instead of x * 1e-9;
    'off'    : neither (a disagreement)."""
    parts = ma.split(" ")
    try:
        ns = int(parts[0])
        num, den = (int(x) for x in parts[1].split("/"))
    except (ValueError, IndexError):
        return "off"
    sec = Fraction(dec_float(ia))
    if sec == Fraction(num, den):
        return "exact"
    if ns <= 0:
        return "off"
    ratio = sec * 10**9 / ns
    if Fraction(K53 - 1, K53) ** rounds <= ratio <= Fraction(K53 + 1, K53) ** rounds:
        return "bound"
    return "off"


def _close_ns(ia, ma, rounds=3):
    if not ia.startswith("b"):
        return ia == ma
    return _sec_kind(ia, ma, rounds) != "off"


def _fits_flag_ok(ma, values):
    """a TEST of tsMeanRows_no_overflow / pixel_ts_no_overflow on every case: the model reports, after its answer,
    whether every intermediate integer of its mean fits int64; for non-negative int64 input it must say T"""
    parts = ma.split(" ")
    if len(parts) < 3 or not values or min(values) < 0 or max(values) > I64MAX:
        return True
    return parts[1] == "T"


def agree(case, i, ia, ma):
    op = case["op"]
    if ia == UNSEEN:
        return True  # a private observation that could not be made says nothing about the code
    if op == "delta":
        soft, hard = ma.split(" ")  # exact binary64 model (what the theorems are about), Lean's hardware Float
        return ia == soft and soft == hard
    if op == "mean":
        return ia == ma.split(" ")[0]
    if op == "meanrows":
        flat = [x for r in case["rows"] for x in r]
        return ia == ma.split(" ")[0] and _fits_flag_ok(ma, flat)
    if op == "dkymo":
        if i in (3, 4):
            return _close_ns(ia, ma, 3)
        return ia == ma
    if op == "kmean":
        return ia == ma.split(" ")[0] and _fits_flag_ok(ma, [case["start"], case["start"] + len(wave_of(case)) * case["dt"]])
    if op == "kymo":
        if i == 0:
            return ia == ma.split(" ")[0] and _fits_flag_ok(ma, [case["start"], case["start"] + len(wave_of(case)) * case["dt"]])
        if i == 1:
            return ia == ma.split(" ")[0]  # the model also reports the delta it used
        if i in (3, 4, 5):
            return _close_ns(ia, ma, 5 if i == 4 else 3)
        return ia == ma
    if op == "scan":
        if i in (1, 2):
            # the model answers "<pinned> <repaired>": a single incomplete frame starts at 0 in the pinned code (F11);
            # either is accepted here, the oracle judges which one the property allows
            return ia in ma.split(" ")
        if i == 3:
            return _close_ns(ia, ma)
        if i == 4 and single_truncated_frame(case):
            return True  # the reduction over the F11 range is judged by the oracle only
        return ia == ma
    return ia == ma


# ------------------------------------------------------------------ oracle (plain Python from the property text)


def structure(case, iw):
    """pixels as the info wave encodes them: the sample indices of every completed pixel (used samples up to and
    including each pixel-boundary code)"""
    pixels, cur = [], []
    for i, c in enumerate(iw):
        if c == 0:
            continue
        cur.append(i)
        if c == 2:
            pixels.append(cur)
            cur = []
    return pixels


def regular(case, iw, pixels):
    """the property's domain: at least one pixel, every pixel the same number of used samples"""
    return len(pixels) > 0 and len({len(p) for p in pixels}) == 1


def single_truncated_frame(case):
    if case["op"] != "scan":
        return False
    iw = wave_of(case)
    n = len(structure(case, iw))
    per = case["P"] * case["L"]
    return 0 < n < per


def oracle_mean(vals, ans, what):
    if not vals:
        return None if ans == "ValueError" else f"{what}: empty array should raise ValueError, got {ans}"
    try:
        r = int(ans)
    except ValueError:
        return f"{what}: implementation raised {ans} on {vals[:6]}..."
    lo, hi, n = min(vals), max(vals), len(vals)
    if not (lo <= r <= hi):
        return f"{what}-overflow: result {r} outside [min, max] = [{lo}, {hi}]"
    fl = sum(vals) // n
    if (hi - lo) * n <= I64MAX:
        if r != fl:
            return f"{what}-floor: result {r}, floor of the mean is {fl}"
    elif not (fl - (n - 1) <= r <= fl):
        return f"{what}-floor-split: result {r}, floor of the mean is {fl} (n = {n})"
    return None


def oracle_kmean(case, ans):
    """per-pixel timestamps at the edge of int64, read from the public Kymo.timestamps: the floor of the mean of the
    pixel's samples whenever (last - first)*k of the acquisition fits int64, else within the documented split slack"""
    iw = wave_of(case)
    pixels = structure(case, iw)
    if not regular(case, iw, pixels):
        return None
    if ans.endswith("Error") or ans.startswith("Error"):
        return f"kmean: implementation raised {ans}"
    start, dt, P = case["start"], case["dt"], case["P"]
    k = len(pixels[0])
    rows = [[start + i * dt for i in p] for p in pixels]
    flat = [x for r in rows for x in r]
    split = (max(flat) - min(flat)) * k > I64MAX
    got = [[int(x) for x in r.split(",")] for r in ans[1:-1].split(";")] if ans != "[]" else []
    seen = 0
    for r in range(len(got)):
        for l in range(len(got[r])):
            j, v = l * P + r, got[r][l]
            if j >= len(rows):
                if v != 0:
                    return f"kmean-padding: padded pixel {j} has timestamp {v}"
                continue
            seen += 1
            fl = sum(rows[j]) // k
            if not split:
                if v != fl:
                    return f"kmean-floor: pixel {j} has timestamp {v}, floor of the mean of its samples is {fl}"
                if not (rows[j][0] <= v <= rows[j][-1]):
                    return f"kmean-range: pixel {j} timestamp {v} outside {rows[j][0]}..{rows[j][-1]}"
            elif not (fl - (k - 1) <= v <= fl):
                return f"kmean-floor-split: pixel {j} has timestamp {v}, floor of the mean is {fl} (k = {k})"
    if seen != len(rows):
        return f"kmean-shape: {seen} pixels reported, {len(rows)} exist"
    return None


def judge_sums(case, ans, rs, exp, cstart, clen, name):
    """reducing the timeline channel over the ranges reproduces the image totals - of every range the channel covers
    completely (a channel that misses part of a line cannot give that line's total; one that does not overlap the
    acquisition at all is refused: nothing to judge)"""
    cstop = cstart + clen * case["dt"]
    if not rs or cstart >= rs[-1][1] or cstop <= rs[0][0]:
        return None
    if ans.endswith("Error"):
        return f"{name}-sums: implementation raised {ans}"
    got, tot = ans.split(" ")
    if tot != enc_list(exp):
        return None  # image totals are C02's subject; nothing to compare the sums with
    want = enc_list([t for (t0, t1), t in zip(rs, exp) if t0 >= cstart and t1 <= cstop])
    if got != want:
        return f"{name}-sums: summing the channel over the ranges gives {got[:200]}, the image {name} totals of the covered ranges are {want[:200]}"
    return None


def derived_rows(case):
    """(rows of the acquired image the derived image shows, rows its timestamps belong to if they followed the image,
    flipped?) - crop keeps rows [lo, hi) of what is shown, flip reverses what is shown"""
    rows = list(range(case["P"]))
    flipped = False
    for st in case["steps"]:
        if st[0] == "c":
            rows = rows[st[1] : st[2]]
        elif st[0] == "f":
            rows = rows[::-1]
            flipped = not flipped
    return rows, flipped


def rows_diverge(case):
    """a crop AFTER a flip that is not symmetric: Kymo.flip() mirrors the image but not the per-pixel timestamps, so
    the crop keeps different pixels of the two (finding F23)"""
    img = list(range(case["P"]))
    ts = list(range(case["P"]))
    for st in case["steps"]:
        if st[0] == "c":
            img, ts = img[st[1] : st[2]], ts[st[1] : st[2]]
        elif st[0] == "f":
            img = img[::-1]
    return sorted(img) != sorted(ts)


def oracle_dkymo(case, ia):
    """A kymograph after a sequence of operations (time slices with the API's own half-open ranges, crops, flips,
    copies, recalibration) or after the repair of a start that precedes the photon streams: its timestamps have the
    shape of its image and are the floor means of the samples of the image's pixels; every line range it reports holds
    exactly the used samples of the pixels of that image line, starts at the line's first shown sample, ranges are
    ordered, disjoint and (with dead time) contiguous; summing the photon channel over them gives the image's line
    totals; pixel and line time are those the info wave encodes; a slice [a, b) keeps the lines whose first sample
    lies in [a, b)."""
    iw = wave_of(case)
    pixels = structure(case, iw)
    if not regular(case, iw, pixels) or case.get("stream") == "malformed" or case.get("model_only"):
        return None
    start, dt, P = case["start"], case["dt"], case["P"]
    T = lambda i: start + i * dt  # noqa: E731
    k = len(pixels[0])
    counts = counts_of(case, iw)
    phys = [pixels[i : i + P] for i in range(0, len(pixels), P)]  # the scan lines the info wave encodes
    if any(len(g) != P for g in phys):
        return None  # derived objects of unfinished lines: compared with the model only
    if any(a == "unsettled" for a in ia):
        return None
    lines = list(range(len(phys)))
    errs = [a for a in ia if a.endswith("Error")]
    if len(set(ia)) == 1 and errs:
        return None  # the sequence itself is refused (slicing a processed kymograph, an empty crop): nothing reported
    pcut = case.get("pcut", 0)
    st = ia[6].split(" ")
    if pcut and (ia[6] == "Empty" or ia[6].endswith("Error")):
        return None  # which line the repaired kymograph starts with is not known
    if pcut:
        # the repaired kymograph starts with the first sample of a scan line that the photon streams cover completely
        j0 = [j for j in lines if T(phys[j][0][0]) == int(st[0])]
        if not j0 or phys[j0[0]][0][0] < pcut:
            return (f"repaired-start: the kymograph whose photon streams start at sample {pcut} reports start {st[0]} = sample "
                    f"{(int(st[0]) - start) / dt:g}; the scan lines begin at samples {[g[0][0] for g in phys][:6]}")
        lines = [j for j in lines if j >= j0[0]]
    for s_ in case["steps"]:
        if s_[0] == "s":
            a, b = step_time(case, s_[1]), step_time(case, s_[2])
            lines = [j for j in lines if (a is None or a <= T(phys[j][0][0])) and (b is None or T(phys[j][0][0]) < b)]
    rows, flipped = derived_rows(case)
    if not lines:
        return None if ia[6] == "Empty" else f"slice-lines: no scan line starts inside the sliced interval(s), the API reports {ia[6]}"
    if ia[6] == "Empty":
        return f"slice-lines: scan lines {lines[:5]} start inside the sliced interval(s), the API reports an empty kymograph"
    if not rows or ia[6].endswith("Error"):
        return None
    shape = (int(st[2]), int(st[3]))
    if shape != (len(rows), len(lines)):
        return f"derived-shape: the image has shape {shape}; {len(rows)} pixel rows of {len(lines)} scan lines {lines[:5]} were selected"
    px = lambda j, r: phys[j][r]  # noqa: E731  sample indices of pixel r of scan line j
    mean = lambda ix: sum(T(i) for i in ix) // len(ix)  # noqa: E731
    # per-pixel timestamps
    if not ia[0].endswith("Error"):
        got = [[int(x) for x in r.split(",")] for r in ia[0][1:-1].split(";")] if ia[0] != "[]" else []
        gshape = (len(got), len(got[0]) if got else 0)
        if gshape != shape:
            return f"timestamps-shape: timestamps have shape {gshape}, the image {shape}"
        for c, j in enumerate(lines):
            exp = [mean(px(j, r)) for r in rows]
            col = [got[r][c] for r in range(len(rows))]
            if (sorted(col) != sorted(exp)) if flipped else (col != exp):
                return f"pixel-timestamp: line {c} (scan line {j}) has pixel timestamps {col[:6]}, the floor means of its pixels' samples are {exp[:6]}"
    used = [i for i in range(len(iw)) if iw[i] != 0]
    for idx, incl in ((1, False), (2, True)):
        ans = ia[idx]
        if ans.endswith("Error"):
            return f"line-ranges: implementation raised {ans}"
        rs = parse_ranges(ans)
        if len(rs) != len(lines):
            return f"line-range-count: {len(rs)} ranges for {len(lines)} lines"
        shown = {j: sorted(i for r in rows for i in px(j, r)) for j in lines}
        every = sorted(i for j in lines for i in shown[j])
        for c, j in enumerate(lines):
            t0, t1 = rs[c]
            mine = shown[j]
            inside = [i for i in (every if incl else used) if t0 <= T(i) < t1]
            if inside != mine:
                return f"line-range-exact: range {c} = [{t0},{t1}) contains used samples {inside[:4]}..{inside[-2:]} but the image line consists of {mine[:4]}..{mine[-2:]}"
            if t0 != T(mine[0]):
                return f"line-range-start: range {c} starts at {t0}, the first sample of the image line is at {T(mine[0])}"
            if not incl or len(lines) == 1:
                d = t1 - T(mine[-1])
                if not (1 <= d <= dt):
                    return f"line-range-stop: range {c} stops {d} ns after its last sample (dt = {dt})"
            if t0 >= t1:
                return f"line-range-order: range {c} is empty or inverted"
            if c + 1 < len(rs):
                if t1 > rs[c + 1][0]:
                    return f"line-range-disjoint: range {c} overlaps range {c + 1}"
                if incl and t1 != rs[c + 1][0]:
                    return f"line-range-contiguous: with dead time range {c} ends at {t1}, range {c + 1} starts at {rs[c + 1][0]}"
    # timing encoded in the info wave
    exp_line = (phys[lines[1]][0][0] - phys[lines[0]][0][0]) * dt if len(lines) >= 2 else P * k * dt
    for idx, exp, what in ((3, exp_line, "line-time"), (4, k * dt, "pixel-time")):
        if ia[idx].startswith("b"):
            v = dec_float(ia[idx])
            if abs(v - exp * 1e-9) > 1e-12 * exp * 1e-9:
                return f"{what}: implementation says {v!r} s, the info wave encodes {exp} ns"
    exp = [sum(counts[i] for r in rows for i in px(j, r)) for j in lines]
    cstart, cdata = channel_of(case, counts)
    return judge_sums(case, ia[5], parse_ranges(ia[1]), exp, cstart, len(cdata), "line")


def oracle(case, ia):
    op = case["op"]
    if ia and all(a == UNSEEN for a in ia):
        return None
    if op == "kmean":
        return oracle_kmean(case, ia[0])
    if op == "dkymo":
        return oracle_dkymo(case, ia)
    if op == "delta":
        # a range [first sample, last sample + delta) contains the last sample and not the next one iff 1 <= delta <= dt
        try:
            d = int(ia[0])
        except ValueError:
            return f"delta: implementation raised {ia[0]}"
        return None if 1 <= d <= case["dt"] else f"delta: range stops {d} ns after its last sample (dt = {case['dt']})"
    if op == "mean":
        a = case["a"]
        if a and max(a) - min(a) > I64MAX:
            return None  # a - min(a) itself leaves int64: outside the property (not a timestamp array)
        return oracle_mean(a, ia[0], "mean")
    if op == "meanrows":
        flat = [x for r in case["rows"] for x in r]
        if max(flat) - min(flat) > I64MAX:
            return None
        if (max(flat) - min(flat)) * case["w"] > I64MAX:
            # split decisions are taken for all rows at once
            try:
                res = [int(x) for x in ia[0][1:-1].split(",")]
            except ValueError:
                return f"meanrows: implementation raised {ia[0]}"
            for r, v in zip(case["rows"], res):
                fl = sum(r) // len(r)
                # (a row's result may even fall below the row's own minimum here: the shift and the split decision
                # are global; unreachable for pixels, see ASSUMPTIONS)
                if not (fl - (len(r) - 1) <= v <= fl):
                    return f"meanrows-split: row {r[:4]}... gave {v}, floor mean {fl}"
            return None
        try:
            res = [int(x) for x in ia[0][1:-1].split(",")]
        except ValueError:
            return f"meanrows: implementation raised {ia[0]}"
        exp = [sum(r) // len(r) for r in case["rows"]]
        return None if res == exp else f"meanrows-floor: {res[:5]} vs floor means {exp[:5]}"

    iw = wave_of(case)
    pixels = structure(case, iw)
    if not regular(case, iw, pixels) or case.get("stream") == "malformed":
        return None  # outside the property's domain: compared with the model only
    start, dt = case["start"], case["dt"]
    T = lambda i: start + i * dt  # noqa: E731
    n = len(iw)
    k = len(pixels[0])
    counts = counts_of(case, iw)
    cstart, cdata = channel_of(case, counts)
    pre = (start - cstart) // dt
    block = case["P"] if op == "kymo" else case["P"] * case["L"]
    groups = [pixels[i : i + block] for i in range(0, len(pixels), block)]  # lines / frames
    name = "line" if op == "kymo" else "frame"
    used = [i for i in range(n) if iw[i] != 0]
    in_pixels = [i for p in pixels for i in p]

    def check_ts(ans, layout):
        """per-pixel timestamps: floor of the mean of the pixel's samples, inside first..last, 0 for padding"""
        if ans.endswith("Error"):
            return f"timestamps: implementation raised {ans}"
        got = layout(ans)
        for j, v in got.items():
            if j < len(pixels):
                ts = [T(i) for i in pixels[j]]
                if v != sum(ts) // len(ts):
                    return f"pixel-timestamp: pixel {j} has timestamp {v}, floor of the mean of its samples is {sum(ts) // len(ts)}"
                if not (ts[0] <= v <= ts[-1]):
                    return f"pixel-timestamp-range: pixel {j} timestamp {v} outside {ts[0]}..{ts[-1]}"
            elif v != 0:
                return f"pixel-timestamp-padding: padded pixel {j} has timestamp {v}"
        if len(got) < len(pixels):
            return f"pixel-timestamp-shape: {len(got)} pixels reported, {len(pixels)} exist"
        return None

    def check_ranges(ans, incl):
        if ans.endswith("Error"):
            if incl and len(groups) < 2 and ans == "IndexError":
                return None  # a single line/frame has no period: no range is reported, nothing to judge
            if incl and op == "scan" and len(groups) < 2:
                return None
            return f"{name}-ranges: implementation raised {ans}"
        rs = parse_ranges(ans)
        if len(rs) != len(groups):
            return f"{name}-range-count: {len(rs)} ranges for {len(groups)} {name}s"
        for g, (t0, t1) in enumerate(rs):
            mine = [i for p in groups[g] for i in p]
            # without dead time: exactly the samples of the line's pixels (used samples after the last complete pixel
            # belong to no pixel and must stay outside); with dead time: all of them, none of a neighbour's pixels
            inside = [i for i in (in_pixels if incl else used) if t0 <= T(i) < t1]
            if inside != mine:
                if op == "scan" and len(groups) == 1 and t0 < T(mine[0]):
                    return f"frame-range-start: single frame range starts at {t0}, its first used sample is at {T(mine[0])}"
                return f"{name}-range-exact: range {g} = [{t0},{t1}) contains used samples {inside[:4]}..{inside[-2:]} but {name} {g} consists of {mine[:4]}..{mine[-2:]}"
            if t0 != T(mine[0]):
                if op == "scan" and len(groups) == 1:
                    return f"frame-range-start: single frame range starts at {t0}, its first used sample is at {T(mine[0])}"
                return f"{name}-range-start: range {g} starts at {t0}, first sample of the {name} is at {T(mine[0])}"
            if not incl or (op == "scan" and len(groups) == 1):
                d = t1 - T(mine[-1])
                if not (1 <= d <= dt):
                    return f"{name}-range-stop: range {g} stops {d} ns after its last sample (dt = {dt})"
                if op == "kymo":
                    raw = [i for i in range(n) if t0 <= T(i) < t1]
                    if raw != mine:
                        return f"{name}-range-raw: range {g} contains samples {raw[:3]}..{raw[-2:]}, the line consists of {mine[:3]}..{mine[-2:]}"
            if t0 >= t1:
                return f"{name}-range-order: range {g} is empty or inverted"
            if g + 1 < len(rs):
                if t1 > rs[g + 1][0]:
                    return f"{name}-range-disjoint: range {g} overlaps range {g + 1}"
                if incl and t1 != rs[g + 1][0]:
                    return f"{name}-range-contiguous: with dead time range {g} ends at {t1}, range {g + 1} starts at {rs[g + 1][0]}"
        return None

    if op == "kymo":
        P = case["P"]

        def layout(ans):
            rows = [[int(x) for x in r.split(",")] for r in ans[1:-1].split(";")] if ans != "[]" else []
            return {l * P + r: rows[r][l] for r in range(len(rows)) for l in range(len(rows[r]))}

        c = check_ts(ia[0], layout) or check_ranges(ia[1], False) or check_ranges(ia[2], True)
        if c:
            return c
        # timing encoded in the info wave
        s0 = used[0]
        nxt = used[P * k] if len(used) > P * k else None
        exp_line = ((nxt - s0) if nxt is not None else P * k) * dt
        exp_pix = k * dt
        for idx, exp, what in ((3, exp_line, "line-time"), (5, exp_pix, "pixel-time"), (4, exp_line * len(groups), "duration")):
            if not ia[idx].startswith("b"):
                return f"{what}: implementation raised {ia[idx]}"
            v = dec_float(ia[idx])
            if abs(v - exp * 1e-9) > 1e-12 * exp * 1e-9:
                return f"{what}: implementation says {v!r} s, the info wave encodes {exp} ns"
        if len(groups) >= 2:
            rs = parse_ranges(ia[1])
            if exp_line != rs[1][0] - rs[0][0]:
                return f"line-time-vs-ranges: {exp_line} vs {rs[1][0] - rs[0][0]}"
        sums_idx = 6
    else:
        P, L = case["P"], case["L"]

        def layout(ans):
            out = {}
            for f, fr in enumerate(ans.split("|")):
                rows = [[int(x) for x in r.split(",")] for r in fr[1:-1].split(";")]
                for a, row in enumerate(rows):
                    for b, v in enumerate(row):
                        line, px = (b, a) if case["flip"] else (a, b)
                        out[f * P * L + line * P + px] = v
            return out

        c = check_ts(ia[0], layout) or check_ranges(ia[1], False) or check_ranges(ia[2], True)
        if c:
            return c
        if not ia[3].startswith("b") or abs(dec_float(ia[3]) - k * dt * 1e-9) > 1e-12 * k * dt * 1e-9:
            return f"pixel-time: implementation says {ia[3]}, the info wave encodes {k * dt} ns"
        sums_idx = 4
    # reducing the timeline channel over the ranges reproduces the image totals
    exp = [sum(counts[i] for p in g for i in p) for g in groups]
    return judge_sums(case, ia[sums_idx], parse_ranges(ia[1]), exp, cstart, len(cdata), name)


def nontrivial(case, ia):
    op = case["op"]
    if ia and all(a == UNSEEN for a in ia):
        return False
    if op == "kmean":
        return case["geom"]["k"] >= 2 and len(structure(case, wave_of(case))) > 0
    if op == "delta":
        return case["dt"] >= 2
    if op == "dkymo":
        return bool(case["steps"] or case.get("pcut")) and any(a.startswith("[") for a in ia)
    if op == "mean":
        return len(set(case["a"])) >= 2
    if op == "meanrows":
        return any(len(set(r)) >= 2 for r in case["rows"])
    iw = wave_of(case)
    pixels = structure(case, iw)
    if not pixels:
        return False
    block = case["P"] if op == "kymo" else case["P"] * case["L"]
    ngroups = -(-len(pixels) // block)
    truncated = len(pixels) % block != 0
    return ngroups >= 2 or truncated or case["dt"] in BAD_DT


def tags(case, r):
    t = {"op": case["op"]}
    if case["op"] == "dkymo":
        t["rows_diverge"] = rows_diverge(case)
    if case["op"] == "scan":
        t["object"] = "scan"
        t["single_truncated_frame"] = single_truncated_frame(case)
        t["clause"] = (r.get("clause") or "").split(":")[0]
    return t


def shrink(case):
    if case["op"] == "delta":
        return
    if case["op"] == "dkymo":
        for i in range(len(case["steps"])):
            c = dict(case)
            c["steps"] = case["steps"][:i] + case["steps"][i + 1 :]
            yield c
        for key, v in (("start", 1000), ("dt", 10), ("dt", 55)):
            if case[key] > v:
                c = dict(case)
                c[key] = v
                yield c
        return
    if case["op"] in ("mean",):
        a = case["a"]
        for i in range(len(a)):
            c = dict(case)
            c["a"] = a[:i] + a[i + 1 :]
            yield c
        return
    if case["op"] == "meanrows":
        rows = case["rows"]
        for i in range(len(rows)):
            if len(rows) > 1:
                c = dict(case)
                c["rows"] = rows[:i] + rows[i + 1 :]
                yield c
        return
    if "geom" not in case:
        return
    g = case["geom"]
    iw = wave_of(case)
    base = dict(case)
    full = dict(g)
    full["trunc"] = len(iw)
    for key, lo in (("lines", 1), ("frames", 1), ("lead", 0), ("dead", 0), ("fdead", 0), ("tail", 0), ("k", 1)):
        if key in g and g[key] > lo:
            for v in sorted({lo, g[key] // 2, g[key] - 1}):
                if v < g[key]:
                    c = dict(base)
                    c["geom"] = dict(g)
                    c["geom"][key] = v
                    if g.get("trunc") is not None:
                        c["geom"]["trunc"] = None
                    yield c
    if g.get("trunc") is not None:
        c = dict(base)
        c["geom"] = dict(g)
        c["geom"]["trunc"] = None
        yield c
    if case["start"] > 1000:
        c = dict(base)
        c["start"] = 1000
        yield c
    if case["dt"] > 1:
        for v in (1, 55, 10):
            if v < case["dt"]:
                c = dict(base)
                c["dt"] = v
                yield c


# ------------------------------------------------------------------ generators


def corpus_cases():
    d = os.path.join(VERIF, "corpus", PROP)
    if os.path.isdir(d):
        for f in sorted(os.listdir(d)):
            if f.endswith(".json"):
                c = json.load(open(os.path.join(d, f)))
                c = c.get("case", c)
                c["stream"] = "corpus"
                yield c


def kymo_case(stream, start, dt, lead, k, P, dead, lines, tail=0, trunc=None, **kw):
    c = {"stream": stream, "op": "kymo", "start": start, "dt": dt, "P": P,
         "geom": {"lead": lead, "k": k, "P": P, "dead": dead, "lines": lines, "tail": tail, "trunc": trunc}}
    c.update(kw)
    return c


def scan_case(stream, start, dt, lead, k, P, L, dead, fdead, frames, flip, tail=0, trunc=None, **kw):
    c = {"stream": stream, "op": "scan", "start": start, "dt": dt, "P": P, "L": L, "flip": flip,
         "geom": {"lead": lead, "k": k, "P": P, "L": L, "dead": dead, "fdead": fdead, "frames": frames, "tail": tail, "trunc": trunc}}
    c.update(kw)
    return c


def kmean_case(stream, start, dt, lead, k, P, dead, lines, tail=0, trunc=None, **kw):
    """the public twin of the mean: only Kymo.timestamps is observed (ranges and times would leave int64)"""
    c = kymo_case(stream, start, dt, lead, k, P, dead, lines, tail, trunc, **kw)
    c["op"] = "kmean"
    return c


def kmean_span(lead, k, P, dead, lines):
    """(number of samples, index distance first..last used sample) of a complete kymograph wave"""
    return lead + lines * (P * k + dead), lines * (P * k + dead) - dead - 1


MEAN_VALUES = [0, 1, 2, I64MAX // 3, I64MAX // 3 + 2, I64MAX // 2, I64MAX // 2 + 1, I64MAX - 1, I64MAX]


def run_edges(iw):
    """sample indices where a run of used samples begins, and the indices just after its end"""
    n = len(iw)
    return sorted({i for i in range(n) if iw[i] and (i == 0 or not iw[i - 1])} | {i + 1 for i in range(n) if iw[i] and (i + 1 == n or not iw[i + 1])})


def vary_channel(case, r2, p_trim=0.2):
    """the timeline channel that is reduced over the ranges: where the reduced points are stamped (the data must not
    depend on it), and - sometimes - a channel that covers only part of the acquisition, beginning / ending at, or one
    sample off, the first / past-the-end sample of a line (ranges not covered completely must be left out; a channel
    ending exactly where the first range begins does not overlap it)"""
    case["where"] = r2.choice(["center", "left"])
    if r2.chance(p_trim):
        iw = wave_of(case)
        n = len(iw)
        edges = run_edges(iw)
        if n >= 2 and edges:
            a = r2.choice([0, 0, r2.choice(edges), r2.choice(edges) + 1, r2.choice(edges) - 1])
            b = r2.choice([n, n, r2.choice(edges), r2.choice(edges) + 1, r2.choice(edges) - 1])
            a = max(0, min(a, n - 1))
            b = max(a + 1, min(b, n))
            if (a, b) != (0, n):
                case["ctrim"] = [a, n - b]
    return case


def malformed_cases():
    s, dt = 1000, 10
    waves = [
        [],                                   # empty wave
        [0, 0, 0],                            # nothing used
        [1, 1, 1],                            # used samples, no boundary
        [0, 1, 1, 0, 1],                      # no boundary, interior discards
        [1, 0, 2, 1, 0, 2, 0, 1, 0, 2, 1, 2],  # interior discards inside pixels
        [1, 2, 1, 1, 2, 1, 2, 2],             # non-constant pixel size
        [2, 1, 1, 2, 1, 1, 2],                # first pixel shorter
        [1, 1, 2, 0, 1, 1, 2, 0, 0, 0, 1, 1, 2, 0, 1, 1, 2],  # non-constant line period
        [0, 2, 2, 0, 0, 2, 2, 0, 2, 2],       # non-constant dead time
    ]
    for iw in waves:
        for P in (1, 2, 3):
            yield {"stream": "malformed", "op": "kymo", "start": s, "dt": dt, "P": P, "iw": iw}
        for flip in (False, True):
            yield {"stream": "malformed", "op": "scan", "start": s, "dt": dt, "P": 2, "L": 2, "flip": flip, "iw": iw}


def cases(tier, rng):
    quick = tier == "quick"
    yield from corpus_cases()
    yield from malformed_cases()

    # ---- exhaustive small scope: timestamp_mean
    for n in (0, 1, 2, 3):
        for a in itertools.product(MEAN_VALUES, repeat=n):
            yield {"stream": "small-scope", "op": "mean", "a": list(a)}
    for a in itertools.product([0, 1, I64MAX // 2 + 1, I64MAX], repeat=4):
        yield {"stream": "small-scope", "op": "mean", "a": list(a)}
    for r1 in itertools.product([0, 5, I64MAX // 2 + 1], repeat=2):
        for r2 in itertools.product([1, 4, I64MAX], repeat=2):
            yield {"stream": "small-scope", "op": "meanrows", "w": 2, "rows": [list(r1), list(r2)]}

    # widths 3 and 4 (two split levels; the halves of a width-3 block have different widths), two rows: one row from a
    # small set next to every row over four int64 boundary values
    for w_, small in ((3, [[0, 1, 2], [5, 5, 5], [1, 0, I64MAX // 3 + 2]]), (4, [[0, 1, 2, 3], [7, 7, 7, 7], [3, 1, 0, I64MAX // 4 + 1]])):
        for r1 in small:
            for r2 in itertools.product([0, 1, I64MAX // 2 + 1, I64MAX], repeat=w_):
                yield {"stream": "small-scope", "op": "meanrows", "w": w_, "rows": [list(r1), list(r2)]}
                yield {"stream": "small-scope", "op": "meanrows", "w": w_, "rows": [list(r2), list(r1)]}

    # ---- exhaustive small scope: kymographs, truncated at every sample
    dts = (1, 55) if quick else (1, 7, 55, 110)
    rng3 = (1, 2, 3) if quick else (1, 2, 3, 4)
    for P, lines, k, dead, lead in itertools.product(rng3, rng3, (1, 2) if quick else (1, 2, 3), (0, 1, 2), (0, 1)):
        full = lead + lines * (P * k + dead)
        first = lead + k
        truncs = list(range(first, full)) + [None]
        if quick:
            truncs = truncs[:: 2 if (P + lines + k) % 2 else 3] + [None]
        for dt in dts:
            for tr in truncs:
                yield kymo_case("small-scope", 1000 if dt != 7 else 2**62, dt, lead, k, P, dead, lines, 0, tr)
    # ---- exhaustive small scope: scans
    for P, L, frames, k, dead, fdead, flip in itertools.product((2, 3), (2, 3), (1, 2, 3), (1, 2), (0, 1), (0, 2), (False, True)):
        lead = 1
        full = lead + frames * (L * (P * k + dead) + fdead)
        truncs = list(range(lead + k, full)) + [None]
        if quick:
            truncs = truncs[:: 5 if frames > 1 else 3] + [None]
        elif frames == 3:
            truncs = truncs[::2] + [None]
        for tr in truncs:
            yield scan_case("small-scope", 1000, 55 if flip else 3, lead, k, P, L, dead, fdead, frames, flip, 0, tr, nf_meta=0 if dead else frames)

    # ---- exhaustive small scope: a reduced channel that begins / ends at every run edge (and one sample off)
    for P, lines, k, dead, lead, dt in ((2, 3, 2, 1, 1, 10), (1, 3, 1, 2, 2, 55), (3, 2, 1, 0, 1, 1), (2, 2, 2, 2, 0, 55)):
        base = kymo_case("small-scope", 1000, dt, lead, k, P, dead, lines, 1)
        n = len(wave_of(base))
        pts = sorted({0, n} | {e + d for e in run_edges(wave_of(base)) for d in (-1, 0, 1) if 0 <= e + d <= n})
        for a, b in itertools.combinations(pts, 2):
            if (a, b) != (0, n) and (not quick or (a + b) % 2 == 0):
                yield kymo_case("small-scope", 1000, dt, lead, k, P, dead, lines, 1, ctrim=[a, n - b], where="left" if (a + b) % 4 else "center")
    for flip in (False, True):
        base = scan_case("small-scope", 1000, 10, 1, 1, 2, 2, 1, 2, 3, flip, 1, nf_meta=0)
        n = len(wave_of(base))
        pts = sorted({0, n} | {e + d for e in run_edges(wave_of(base)) for d in (-1, 0, 1) if 0 <= e + d <= n})
        for a, b in itertools.combinations(pts, 2):
            if (a, b) != (0, n) and (not quick or (a + b) % 3 == 0):
                yield scan_case("small-scope", 1000, 10, 1, 1, 2, 2, 1, 2, 3, flip, 1, nf_meta=0, ctrim=[a, n - b], where="left" if (a + b) % 4 else "center")

    # ---- exhaustive small scope: the mean through Kymo.timestamps at the edge of int64
    for k, P, lines, dead, lead in itertools.product((1, 2, 3, 4), (1, 2), (1, 2), (0, 1), (0, 1)):
        n, span = kmean_span(lead, k, P, dead, lines)
        dts = {I64MAX // n, I64MAX // n - 1, I64MAX // (2 * n) + 1}     # the longest periods that fit (deep split mode)
        if span > 0:
            edge = I64MAX // (k * span)                                # span*dt*k on either side of 2^63
            dts |= {edge - 1, edge, edge + 1, edge + 2}
        for dt in sorted(d for d in dts if d >= 1 and n * d <= I64MAX):
            yield kmean_case("small-scope", 0, dt, lead, k, P, dead, lines)
            if I64MAX - n * dt > 0:
                yield kmean_case("small-scope", I64MAX - n * dt, dt, lead, k, P, dead, lines)
        for dt in (1, 55):                                             # late starts: the last sample is 2^63-1-dt
            yield kmean_case("small-scope", I64MAX - n * dt, dt, lead, k, P, dead, lines)

    # ---- delta = int(1e9 / sample_rate): every period of a small scope, boundary periods, random periods
    for dt in range(1, 1501 if quick else 20001):
        yield {"stream": "small-scope", "op": "delta", "dt": dt}
    bnd = {10**e + d for e in range(1, 16) for d in (-1, 0, 1)} | {2**e + d for e in range(1, 50) for d in (-1, 0, 1)}
    bnd |= {12800, 62500000, 10**8, 10**8 - 55, 10**15}
    for dt in sorted(d for d in bnd if 1 <= d <= 10**15):
        yield {"stream": "small-scope", "op": "delta", "dt": dt}
    r = rng.fork("c03-delta")
    for i in range(600 if quick else 20000):
        sub = r.fork(i)
        dt = sub.choice([sub.randint(1, 10**8), int(sub.loguniform(1, 10**8)), sub.randint(1, 10**5) * 55, int(sub.loguniform(10**8, 10**15))])
        yield {"stream": "random-delta", "op": "delta", "dt": max(1, dt), "subseed": i}

    # ---- random regular waves
    N = 1000 if quick else 20000
    r = rng.fork("c03-waves")
    for i in range(N):
        sub = r.fork(i)
        r2 = Rng(sub.s ^ 0x5EED)  # a side stream for the channel variants (the wave parameters keep their draws)
        big = sub.chance(0.1)
        dt = sub.choice([1, 2, sub.choice(BAD_DT), sub.choice(BAD_DT), 12800, 10**8, sub.randint(1, 10**8), sub.randint(1, 10**8) // 55 * 55 + 55])
        start = sub.choice([0, 1000, 1388534400000000000 + sub.randint(0, 10**15), sub.randint(2**61, 2**62), 2**62])
        k = sub.choice([1, 1, 2, 3, sub.randint(1, 8)])
        dead = sub.choice([0, 1, 2, sub.randint(0, 20)])
        lead = sub.choice([0, 1, sub.randint(0, 10)])
        tail = sub.choice([0, 0, sub.randint(0, 5)])
        extra = {"cseed": sub.randint(0, 9), "pre": sub.randint(0, 4), "post": sub.randint(0, 4), "red_empty": sub.chance(0.2), "subseed": i}
        if sub.chance(0.55):
            P = sub.randint(1, 32 if big else 6)
            lines = sub.randint(1, 40 if big else 6)
            full = lead + lines * (P * k + dead) + tail
            tr = None
            if sub.chance(0.5):
                tr = sub.choice([full - 1, full - tail - dead, full - tail - dead - 1, sub.randint(lead + k, full), full - (P * k + dead) + sub.randint(0, k)])
                tr = max(lead + k, min(tr, full))
            yield vary_channel(kymo_case("random", start, dt, lead, k, P, dead, lines, tail, tr, axis=sub.choice([0, 1]), **extra), r2)
        else:
            P = sub.randint(2, 12 if big else 4)
            L = sub.randint(2, 12 if big else 4)
            frames = sub.randint(1, 5 if big else 3)
            fdead = sub.choice([0, 1, sub.randint(0, 30)])
            per = L * (P * k + dead) + fdead
            full = lead + frames * per + tail
            tr = None
            if sub.chance(0.5):
                tr = sub.choice([full - 1, full - tail - fdead - dead, full - tail - fdead - dead - 1, sub.randint(lead + k, full), full - per + sub.randint(0, P * k)])
                tr = max(lead + k, min(tr, full))
            yield vary_channel(scan_case("random", start, dt, lead, k, P, L, dead, fdead, frames, sub.chance(0.5), tail, tr, nf_meta=sub.choice([0, frames]), **extra), r2)

    # ---- adversarial int64 arrays for timestamp_mean
    M = 4000 if quick else 100000
    r = rng.fork("c03-mean")
    for i in range(M):
        sub = r.fork(i)
        n = sub.choice([1, 2, 3, 4, 5, 7, 8, sub.randint(1, 40), sub.randint(1, 40), sub.randint(41, 400)])
        mode = sub.randint(0, 5)
        if mode == 0:      # span*n just around 2^63
            span = I64MAX // n + sub.choice([-2, -1, 0, 1, 2, sub.randint(0, 1000)])
        elif mode == 1:    # huge span
            span = sub.choice([I64MAX, I64MAX - 1, I64MAX // 2, sub.randint(I64MAX // 4, I64MAX)])
        elif mode == 2:    # a pixel: k samples dt apart
            span = n * sub.randint(1, 10**8)
        else:
            span = sub.randint(0, 2 ** sub.randint(1, 63) - 1)
        span = max(0, min(span, I64MAX))
        lo = sub.choice([0, sub.randint(0, I64MAX - span), I64MAX - span])
        style = sub.randint(0, 3)
        if style == 0:
            a = [lo + sub.randint(0, span) for _ in range(n)]
        elif style == 1:
            a = [sub.choice([lo, lo + span, lo + span // 2, lo + span - min(span, 1), lo + min(span, 1)]) for _ in range(n)]
        elif style == 2:
            a = sorted(lo + sub.randint(0, span) for _ in range(n))
        else:
            a = [lo + span - (sub.randint(0, span) % 3) for _ in range(n)]
            a[sub.randint(0, n - 1)] = lo
        if sub.chance(0.1) and lo >= 0 and span < 2**62:
            sh = sub.randint(1, 2**62)
            a = [x - sh for x in a]  # negative values, same span
        if sub.chance(0.25) and n >= 2:
            w = sub.choice([d for d in range(1, n + 1) if n % d == 0])
            rows = [a[j : j + w] for j in range(0, n, w)]
            yield {"stream": "random-mean", "op": "meanrows", "w": w, "rows": rows, "subseed": i}
        else:
            yield {"stream": "random-mean", "op": "mean", "a": a, "subseed": i}

    # ---- the mean through Kymo.timestamps at the edge of int64 (public twin of the direct tie)
    yield from kmean_random(quick, rng)

    # ---- round H: one object followed through a sequence of operations (slices with the API's own ranges, crops,
    #      flips, copies), and the repair of a start that precedes the photon streams
    yield from derived_small_scope(quick)
    yield from derived_random(quick, rng)


def dk_case(stream, start, dt, lead, k, P, dead, lines, steps, pcut=0, tail=0, **kw):
    """a kymograph followed through a sequence of operations on the objects the API returns (op dkymo)"""
    c = kymo_case(stream, start, dt, lead, k, P, dead, lines, tail, None, **kw)
    c["op"] = "dkymo"
    c["steps"] = steps
    c["pcut"] = pcut
    return c


def line_bounds(lead, k, P, dead, lines, dt):
    """slice bounds [sample index, ns offset] at and around the boundaries the API itself reports: the first sample of
    every line (= the end of the previous range with dead time), the sample after the last one of every line (= the end
    of the exposure range), one ns / one sample on either side, the very beginning and one period past the end"""
    per = P * k + dead
    out = []
    for j in range(lines + 1):
        s0 = lead + j * per
        out += [[s0, 0], [s0, -1], [s0, 1]]
        if j < lines:
            out += [[s0 + P * k, 0], [s0 + P * k, -1], [s0 + P * k - 1, 0], [s0 + 1, 0]]
    out += [[0, 0], [lead + lines * per + 1, 0]]
    return out


def derived_small_scope(quick):
    """every operation and every pair of operations on small kymographs; time slices with every pair of bounds taken
    from the API's own range boundaries; start repair for every position of the photon-stream start in the first line"""
    proc = lambda P: [["f"], ["y"], ["k"], ["c", 0, 1], ["c", 0, P], ["c", 1, P], ["c", 0, max(1, P - 1)], ["c", 1, max(2, P - 1)], ["c", P, P + 1]]  # noqa: E731
    n = 0
    for P, lines, k, dead, lead in itertools.product((1, 2, 3) if quick else (1, 2, 3, 4), (1, 2, 3), (1, 2, 3), (0, 1, 2), (0, 1)):
        n += 1
        dt = (1, 10, 55)[n % 3]
        geo = (1000, dt, lead, k, P, dead, lines)
        bounds = line_bounds(lead, k, P, dead, lines, dt)
        # --- one time slice: every pair of boundary bounds (quick: a stride through the pairs), open ends
        pairs = [(a, b) for a in bounds + [None] for b in bounds + [None] if a is None or b is None or (a[0], a[1]) < (b[0], b[1])]
        if quick:
            pairs = pairs[n % 13 :: 13]
        elif lines >= 2:
            pairs = pairs[n % 3 :: 3] if lines == 3 and P >= 3 else pairs[n % 2 :: 2]
        for a, b in pairs:
            yield dk_case("small-scope", *geo, [["s", a, b]])
        # --- the photon streams start inside (or before) the first line: the start is repaired
        if lines >= 3 and dead >= 1:
            for pcut in range(1, lead + P * k + dead + 1):
                yield dk_case("small-scope", *geo, [], pcut, peek=(pcut + n) % 3)
            yield dk_case("small-scope", *geo, [["c", 0, max(1, P - 1)], ["y"]], lead + 1)
            yield dk_case("small-scope", *geo, [["s", [lead + P * k + dead, 0], [lead + 2 * (P * k + dead), 0]]], lead + k)
        if quick and (n % 4):
            continue
        # --- the API's own ranges used for slicing, then processed: line j alone, lines j.., then flip / crop / copy
        per = P * k + dead
        for j in range(lines):
            own = [["s", [lead + j * per, 0], [lead + (j + 1) * per, 0]], ["s", [lead + j * per, 0], [lead + j * per + P * k, 0]], ["s", [lead + j * per, 0], None]]
            for sl in own:
                for op2 in proc(P)[:6]:
                    yield dk_case("small-scope", *geo, [sl, op2])
            if j + 1 < lines:  # a slice of a slice
                yield dk_case("small-scope", *geo, [own[2], ["s", None, [lead + (j + 1) * per, 0]]])
                yield dk_case("small-scope", *geo, [own[2], ["s", [lead + (j + 1) * per, 0], None], ["y"]])
        # --- one and two processing steps, then (sometimes) a refused slice
        for a in proc(P):
            yield dk_case("small-scope", *geo, [a])
            for b in proc(P):
                if a[0] == "k" and b[0] == "k":
                    continue
                yield dk_case("small-scope", *geo, [a, b])
        yield dk_case("small-scope", *geo, [["f"], ["s", None, None]])


def derived_random(quick, rng):
    N = 700 if quick else 12000
    r = rng.fork("c03-derived")
    for i in range(N):
        sub = r.fork(i)
        dt = sub.choice([1, 2, sub.choice(BAD_DT), 12800, 10**8, sub.randint(1, 10**8), sub.randint(1, 10**6) * 55])
        start = sub.choice([0, 1000, 1388534400000000000 + sub.randint(0, 10**15), sub.randint(2**61, 2**62)])
        k = sub.choice([1, 2, 3, sub.randint(1, 8), sub.randint(4, 8)])
        dead = sub.choice([1, 2, sub.randint(1, k), sub.randint(0, 20)])   # also fly-backs shorter than one pixel
        lead = sub.choice([0, 1, sub.randint(0, 10)])
        tail = sub.choice([0, 0, sub.randint(0, 5)])
        P = sub.randint(1, 6)
        lines = sub.randint(1, 7)
        pcut = 0
        if sub.chance(0.3):
            dead = max(dead, 1)
            lines = max(lines, 3)
            pcut = sub.choice([1, lead + 1, lead + k, lead + P * k, lead + P * k + dead, sub.randint(1, lead + P * k + dead)])
            pcut = max(1, min(pcut, lead + P * k + dead))
        bounds = line_bounds(lead, k, P, dead, lines, dt) + [None, None, None]
        steps, n, processed, kbp = [], P, False, False
        for _ in range(sub.choice([0, 1, 1, 2, 2, 3, 4])):
            kind = sub.choice(["s", "s", "c", "f", "y", "k"] if not processed else ["c", "f", "y", "k", "c", "f", "y", "s"])
            if kind == "s":
                a, b = sub.choice(bounds), sub.choice(bounds)
                if a is not None and b is not None and (a[0] * dt + a[1]) > (b[0] * dt + b[1]) and sub.chance(0.9):
                    a, b = b, a
                steps.append(["s", a, b])
            elif kind == "c":
                lo = sub.choice([0, 0, sub.randint(0, n), 1])
                hi = sub.choice([n, n, sub.randint(1, n + 1), lo + 1])
                hi = max(1, hi)
                steps.append(["c", lo, hi])
                n = max(0, min(hi, n) - min(lo, n))
                processed = True
            elif kind == "k":
                if kbp:
                    continue
                kbp = True
                steps.append(["k"])
            else:
                steps.append([kind])
                processed = processed or kind == "f"
        yield vary_channel(dk_case("random-derived", start, dt, lead, k, P, dead, lines, steps, pcut, tail, axis=sub.choice([0, 1]),
                                   cseed=sub.randint(0, 9), pre=sub.randint(0, 4), post=sub.randint(0, 4), subseed=i,
                                   peek=sub.choice([0, 1, 2]) if pcut else 0), sub)


def kmean_random(quick, rng):
    K = 400 if quick else 6000
    r = rng.fork("c03-kmean")
    for i in range(K):
        sub = r.fork(i)
        k = sub.choice([1, 2, 2, 3, 4, sub.randint(2, 8)])
        P = sub.randint(1, 4)
        lines = sub.randint(1, 3)
        dead = sub.choice([0, 1, sub.randint(0, 3)])
        lead = sub.choice([0, 1, 2])
        n, span = kmean_span(lead, k, P, dead, lines)
        top = I64MAX // n
        mode = sub.randint(0, 4)
        if mode == 0 and span > 0:    # span*dt*k around 2^63
            dt = I64MAX // (k * span) + sub.choice([-2, -1, 0, 1, 2, sub.randint(-1000, 1000)])
        elif mode == 1:               # the longest periods that fit
            dt = top - sub.choice([0, 1, sub.randint(0, 1000)])
        elif mode == 2:               # anything
            dt = sub.randint(1, top)
        else:                         # an ordinary period, late start
            dt = sub.choice([1, 2, sub.choice(BAD_DT), 12800, sub.randint(1, 10**8)])
        dt = max(1, min(dt, top))
        room = I64MAX - n * dt
        start = sub.choice([0, room, room - min(room, sub.randint(0, 1000)), sub.randint(0, room)])
        tr = None
        if sub.chance(0.3):
            tr = max(lead + k, min(n, sub.randint(lead + k, n)))
        yield kmean_case("random-kmean", start, dt, lead, k, P, dead, lines, 0, tr, axis=sub.choice([0, 1]),
                         cseed=sub.randint(0, 9), red_empty=sub.chance(0.2), subseed=i)


def extra_coverage(results):
    kinds, errs, dts = {}, {}, {"delta=dt": 0, "delta=dt-1": 0}
    shape = {"single": 0, "multi": 0, "truncated": 0, "complete": 0}
    split = {"split": 0, "no-split": 0}
    ksplit = {"split": 0, "no-split": 0, "split-below-floor": 0}
    unseen = 0
    sizes = []
    rows_splits, pixel_splits, delta_op = {}, {}, {}
    seconds = {"exact": 0, "bound": 0, "off": 0}
    for r in results:
        c = r["case"]
        m0 = r["model"][0].split(" ") if r.get("model") else []
        if len(m0) == 3 and c["op"] in ("meanrows", "kmean", "kymo"):
            d = rows_splits if c["op"] == "meanrows" else pixel_splits
            d[m0[2]] = d.get(m0[2], 0) + 1
        kinds[c["op"] + "/" + c.get("stream", "?")] = kinds.get(c["op"] + "/" + c.get("stream", "?"), 0) + 1
        for a in r["impl"]:
            if a.endswith("Error"):
                errs[a] = errs.get(a, 0) + 1
        unseen += sum(1 for a in r["impl"] if a == UNSEEN)
        if c["op"] == "kmean":
            iw = wave_of(c)
            px = structure(c, iw)
            if px:
                kk = len(px[0])
                ts = [[c["start"] + i * c["dt"] for i in p] for p in px]
                sp = (ts[-1][-1] - ts[0][0]) * kk > I64MAX
                ksplit["split" if sp else "no-split"] += 1
                if sp and r["impl"][0].startswith("["):
                    vals = sorted(int(x) for x in r["impl"][0].replace(";", ",")[1:-1].split(",") if x)
                    fl = sorted([sum(t) // kk for t in ts] + [0] * (len(vals) - len(ts)))
                    ksplit["split-below-floor"] += vals != fl
        elif c["op"] in ("kymo", "scan"):
            for idx in ((3, 4, 5) if c["op"] == "kymo" else (3,)):
                if idx < len(r["impl"]) and r["impl"][idx].startswith("b") and idx < len(r.get("model", [])):
                    kd = _sec_kind(r["impl"][idx], r["model"][idx], 5 if (c["op"] == "kymo" and idx == 4) else 3)
                    seconds[kd] = seconds.get(kd, 0) + 1
            iw = wave_of(c)
            sizes.append(len(iw))
            px = structure(c, iw)
            block = c["P"] if c["op"] == "kymo" else c["P"] * c["L"]
            if px:
                shape["single" if len(px) <= block else "multi"] += 1
                shape["truncated" if len(px) % block else "complete"] += 1
            dts["delta=dt-1" if c["dt"] in BAD_DT or int(1e9 / (1e9 / c["dt"])) != c["dt"] else "delta=dt"] += 1
        elif c["op"] == "delta":
            try:
                dk = "delta=dt" if int(r["impl"][0]) == c["dt"] else "delta=dt-1" if int(r["impl"][0]) == c["dt"] - 1 else "other"
            except ValueError:
                dk = "error"
            dkey = ("<=1e8: " if c["dt"] <= 10**8 else ">1e8: ") + dk
            delta_op[dkey] = delta_op.get(dkey, 0) + 1
        elif c["op"] == "mean" and c["a"]:
            a = c["a"]
            split["split" if (max(a) - min(a)) * len(a) > I64MAX else "no-split"] += 1
    dk = {"slice": 0, "crop": 0, "flip": 0, "copy": 0, "kbp": 0, "start_repaired": 0, "empty": 0, "refused": 0, "rows_diverge(F25)": 0,
          "partial_channel": 0, "where_left": 0, "no_overlap": 0}
    for r in results:
        c = r["case"]
        if c["op"] in ("kymo", "scan", "dkymo"):
            dk["partial_channel"] += bool(c.get("ctrim"))
            dk["where_left"] += c.get("where") == "left"
            dk["no_overlap"] += any(a == "RuntimeError" for a in r["impl"][-3:])
        if c["op"] != "dkymo":
            continue
        for st in c["steps"]:
            dk[{"s": "slice", "c": "crop", "f": "flip", "y": "copy", "k": "kbp"}[st[0]]] += 1
        dk["start_repaired"] += bool(c.get("pcut")) and r["impl"][6][:1].isdigit()
        dk["empty"] += r["impl"][6] == "Empty"
        dk["refused"] += r["impl"][6].endswith("Error")
        dk["rows_diverge(F25)"] += rows_diverge(c)
    return {
        "derived_and_channel_variants": dk,
        "case_kinds": kinds,
        "error_kinds": errs,
        "delta_kinds": dts,
        "acquisition_shapes": shape,
        "mean_modes": split,
        "kmean_modes": ksplit,
        "delta_op_outcomes": delta_op,
        "seconds_vs_binary64_model": {"label": "pixel time / line time / duration doubles: bit-exact with the model's binary64 value, or only within the proved (1 +- 2^-53)^3 (duration ^5) of the integer nanoseconds", **seconds},
        "meanrows_splits_per_row": dict(sorted(rows_splits.items(), key=lambda kv: int(kv[0]))),
        "pixel_mean_splits_per_pixel": dict(sorted(pixel_splits.items(), key=lambda kv: int(kv[0]))),
        "private_ties": {
            "label": "private names the harness reaches for, and where it found them (unreachable: renamed/moved - the "
                     "direct ops answered '?', the public tie through Kymo.timestamps carries the clause)",
            "lumicks.pylake.detail.confocal.timestamp_mean": _TIES.get("timestamp_mean", ("not requested", None))[0],
            "unseen_observations": unseen,
        },
        "wave_samples_max": max(sizes) if sizes else 0,
        "wave_samples_median": sorted(sizes)[len(sizes) // 2] if sizes else 0,
        "exhaustive": False,
        "exhaustive_note": "the small-scope streams enumerate their finite spaces completely on the thorough tier (strided truncations on quick); the random streams do not",
    }
