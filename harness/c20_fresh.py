"""C20 helper: runs every sequence of public water-model queries in a process of its own.

A sequence of `viscosity_of_water` / `density_of_water` calls (case kind `waterseq` of harness/c20.py) has to see a
library that has answered nothing before, otherwise a failing sequence would depend on the cases that happened to run
earlier in the check and its replay file would not reproduce.  Importing pylake costs seconds, so this server imports
it ONCE, never calls it, and forks a child per request: the child inherits the imported-but-unused library, sends the
whole sequence to it in order, writes the answers to a pipe and exits.

protocol (stdin/stdout, one JSON document per line):
    [query, …]                    ->  [answer, …]  |  {"crash": "…"}
    {"batch": [[query, …], …]}    ->  [[answer, …] | {"crash": "…"}, …]      (children run a few at a time)
started by c20.py as:  python c20_fresh.py <repo>
"""
import json
import os
import sys

PARALLEL = 4


def main():
    repo = sys.argv[1]
    sys.path.insert(0, os.path.dirname(os.path.abspath(__file__)))
    sys.path.insert(0, repo)
    import scipy.optimize  # noqa: F401  (imported lazily by the library; loading it is not an answer)
    import lumicks.pylake as lk

    import c20

    def spawn(queries):
        r, w = os.pipe()
        pid = os.fork()
        if pid == 0:
            os.close(r)
            try:
                payload = json.dumps([c20._water_query(lk, q) for q in queries])
            except BaseException as e:  # never let the child fall back into the server loop
                payload = json.dumps({"crash": repr(e)})
            with os.fdopen(w, "w") as f:
                f.write(payload)  # a few hundred bytes: fits the pipe buffer, the child never waits for the reader
            os._exit(0)
        os.close(w)
        return pid, r

    def collect(pid, r):
        with os.fdopen(r) as f:
            data = f.read()
        os.waitpid(pid, 0)
        try:
            return json.loads(data)
        except ValueError:
            return {"crash": f"child wrote {data[:200]!r}"}

    for line in sys.stdin:
        line = line.strip()
        if not line:
            continue
        req = json.loads(line)
        if isinstance(req, dict):  # {"batch": [sequence, …]}: PARALLEL children at a time, answers in request order
            out, running = [], []
            for queries in req["batch"]:
                running.append(spawn(queries))
                if len(running) >= PARALLEL:
                    out.append(collect(*running.pop(0)))
            while running:
                out.append(collect(*running.pop(0)))
            reply = out
        else:
            reply = collect(*spawn(req))
        sys.stdout.write(json.dumps(reply) + "\n")
        sys.stdout.flush()


if __name__ == "__main__":
    main()
