"""C12 — force-extension model pairs are mutual inverses of their published equations
(correspondence + oracle; see DESIGN.md 6/C12)."""
import json
import math
import os
import subprocess
import sys
import warnings

import numpy as np

from common import REPO, VERIF, canonical, clean, dec_float, enc_float, enc_list, errname

PROP = "C12"
THEOREMS = [
    "Verif.C12.cubic_root_is_root",
    "Verif.C12.cubic_clip_inactive",
    "Verif.C12.odijk_cubic_iff",
    "Verif.C12.ms_cubic_iff",
    "Verif.C12.ems_force_cubic_iff",
    "Verif.C12.ems_distance_cubic_iff",
    "Verif.C12.ems_force_solves",
    "Verif.C12.ems_distance_solves",
    "Verif.C12.ms_force_distance",
    "Verif.C12.odijk_distance_force",
    "Verif.C12.odijk_selected_root",
    "Verif.C12.odijk_distance_of_force",
    "Verif.C12.odijk_force_of_distance",
    "Verif.C12.trig_root_order",
    "Verif.C12.ms_selected_root_partial",
    "Verif.C12.cubic_vec_pointwise",
    "Verif.C12.cubic_vec_pointwise_float",
    "Verif.C12.cubic_vec_roots",
    "Verif.C12.cubic_cardano_unique",
    "Verif.C12.cubic_cardano_boundary",
    "Verif.C12.ms_selected_root",
    "Verif.C12.ms_force_of_distance",
    "Verif.C12.ms_distance_of_force",
    "Verif.C12.ems_distance_is_shifted_ms",
    "Verif.C12.ems_distance_selected_root",
    "Verif.C12.ems_force_selected_root",
    "Verif.C12.ems_force_solves_all",
    "Verif.C12.ems_distance_solves_all",
    "Verif.C12.ems_force_of_distance",
    "Verif.C12.ems_distance_of_force",
    "Verif.C12.odijk_distance_strictMono",
    "Verif.C12.odijk_pair_characterised",
    "Verif.C12.ms_pair_characterised",
    "Verif.C12.ems_distance_characterised",
    "Verif.C12.ems_force_characterised",
    "Verif.C12.ms_force_strictMono",
    "Verif.C12.ms_distance_strictMono",
    "Verif.C12.odijk_force_strictMono",
    "Verif.C12.ems_distance_strictMono",
    "Verif.C12.ems_force_strictMono",
    "Verif.C12.twlc_g_published",
    "Verif.C12.twlc_distance_published",
    "Verif.C12.coth_guard_error",
    "Verif.C12.efjc_distance_published",
    "Verif.C12.efjc_distance_strictMono_below_guard",
    "Verif.C12.twlc_distance_strictMono_below_Fc",
    "Verif.C12.coth_negative_guard_dead",
    "Verif.C12.twlc_force_round_trip",
    "Verif.C12.composite_is_sum",
    "Verif.C12.offset_shifts_independent",
    "Verif.C12.routing_by_name",
    "Verif.C12.validation_by_name",
    "Verif.C12.inverse_round_trip",
    "Verif.C12.inverse_of_model",
    "Verif.C12.odijk_distance_slope",
    "Verif.C12.dna_parametrisation",
    "Verif.C12.F9_witness",
]
RULE = (
    "corpus (F19 inputs) + exhaustive small scope (every ordered pair of the 12 public constructors as a "
    "CompositeModel, with equal and with different model names, bare / wrapped in subtract_independent_offset / "
    "inverted, at the default parameters; every constructor alone incl. the deprecated aliases; parameter-name "
    "routing of every such expression; Model.invert() with and without interpolation of every solver-free constructor, "
    "of its offset model for the offsets -1 and +0.05 with the smallest force 0.05 pN among the requested points, and "
    "of the sum of every ordered pair of solver-free distance models; sessions of two DNA convenience models, every "
    "ordered pair of the four public names, for different and for equal temperatures, both observed after the second "
    "one was built; sessions of queries to ONE model object and ONE float64 buffer for every constructor at the default "
    "parameters: the buffer asked for, overwritten in place with other valid inputs of the same length and asked for "
    "again, asked for in consecutive slices, a new array / a Python list of values, a second parameter set (one "
    "parameter moved by 1-5%) and back, a second model object of the same constructor; a shorter session for the offset "
    "model of every constructor and for Model.invert() with and without interpolation of every solver-free one) "
    "; calc_cubic_root on every monic cubic with roots in {-3..3} (distinct, double and triple roots) and every "
    "(y - r)(y^2 - 2 re y + re^2 + im^2), r, re in -2..2, im in {1, 2}, at scale 1 and 1/4, all selected roots, judged "
    "against the exact roots; calc_cubic_root on every array of length 0..3 over two Cardano and two trigonometric "
    "rows (all 15 mask patterns), every selected root; the extensible and the inextensible Marko-Siggia distance at the "
    "same 18 forces for 4 parameter sets (elastic shift Lc F/St); efjc_distance / twlc_distance with the force exactly "
    "on, one ulp from, 1e-9 around and well inside either side of the coth guard 2 F Lp/kT = 500 and of the critical "
    "force Fc, each vector in ascending, descending and interleaved order; densely sampled data at the default "
    "parameters for everything that goes through the interpolating inversion (twlc_force, twlc_distance with its round "
    "trip, Model.invert(interpolate=True) of every solver-free constructor, bare and as an offset model): 6 spread "
    "points plus runs of 2-5 points closer together than the 0.01 knot spacing just below the largest, just above the "
    "smallest and around an interior point, and evenly sampled ramps of 41 points 3 fN apart starting at 0.5, 5 and "
    "25 pN; the anchored private efjc_solve_force asked directly at the ssDNA defaults and with each of its parameters "
    "0 and -1) "
    "+ seeded random cases: (v) arrays of 1-12 cubics of stream (a) put to calc_cubic_root in ONE call (rows of both "
    "branches; compared with the masked-array model and with the same rows asked for alone), (e) the elastic shift at "
    "1-8 forces for parameters from the box, (s) sessions as above with 3-8 queries of random kind and order on vectors of 4-24 "
    "valid inputs (4-10 through SciPy), parameters from the property's box, for a constructor, its offset model, the "
    "constructor plus an offset model, or its generic inverse; EVERY answer of a session is compared with the model "
    "and judged by the oracle at the content the buffer had for that query; (a) calc_cubic_root on coefficient triples built from "
    "prescribed roots (three real roots, one real root, double roots perturbed to both sides of det = 0, over 12 "
    "decades of scale) and on the coefficient triples of the four cubic-based models, all three selected roots; the "
    "triples of the models are ALSO put to the public constructor that has to solve them (same parameters, same point "
    "of the published curve), so that this stream keeps observing the cubic when the private function cannot be reached "
    "(it is looked for by its path, then by its name in any lumicks.pylake module, then as the one function all four "
    "public closed-form inverses call with (a, b, c, root); if none of these finds it the direct observations are "
    "recorded as unreachable - see private_calc_cubic_root in the coverage - and only the public ones are compared); "
    "(b) 'chain' cases: a random model expression (depth <= 3: base constructors, +, offset, invert with and "
    "without interpolation) with parameters from the property's box (Lp, St, kT +-50% of the dsDNA/ssDNA "
    "defaults, twist parameters +-10%, Lc log-uniform in 0.3..30 um, offset models in +-0.1, offsets of "
    "subtract_independent_offset inside the parameter's default bounds +-0.1, exactly 0, or of either sign with "
    "magnitude 0.02..2), evaluated at 1-8 "
    "forces log-uniform in 0.05 pN .. 80% of the validity limit (St for Odijk/eMS/eFJC, f_max for tWLC, 100 pN "
    "for inextensible Marko-Siggia) or at the distances the published equation assigns to such forces, followed "
    "by the round trip through the partner model on the implementation's own answers; generic inversions of a "
    "constructor, constructor + offset model, the offset model of either (offset applied once, twice, inside or outside "
    "the composite) and sums of two distance models, where both the force handed to the model and the force its "
    "equation sees (x - offset) lie in 0.05 pN .. 80% of the validity limit and the limits are those of the bare "
    "constructor moved by the offset; (c) DNA parametrisations (kbp 0.5..60, um/kbp 0.2..0.7, -5..60 C), alone and in "
    "sessions of 2-5 models (DNA convenience models for different / repeated / default temperatures, interleaved with "
    "generic constructors, equal or different names) that are ALL built before each DNA model is asked for its "
    "defaults and evaluated at them; (d) a malformed stream: non-positive or missing parameters, 2-D "
    "independent, incompatible composites, interpolation with infinite limits, selected_root=3, forces <= 0, "
    "distances >= Lc, NaN, empty input, a non-positive parameter in ONE part of a composite / offset / inverted model; "
    "(w) densely sampled curves as in the small scope with parameters from the box (4-8 spread points plus the runs of "
    "close points) for twlc_force / twlc_distance and for Model.invert(interpolate=True) of a constructor, its offset "
    "model, constructor + offset model and sums; (w') efjc_solve_force directly on 1-5 distances of the published curve "
    "(15% with one non-positive parameter: ValueError). ORDER: every generated vector of forces / distances is handed "
    "over ascending (35%), descending (30%) or shuffled (35%); comparison and oracle are point-wise. Non-trivial: the implementation returned at least one finite number "
    "(chain / cubic / dna cases) or a parameter list (names cases); every case of the malformed stream counts "
    "(error, nan/inf or number). How many compared values were inside / outside the model's error bound is "
    "reported separately (values_compared_within_model_error_bound / values_dropped_bound_undetermined)."
)
TRUSTED = [
    "RealLike formulas are executed at Float and proved at R; rounding is not modelled: the comparison uses a running "
    "forward error bound that the model computes next to each value (EF instance), so ill-conditioned points "
    "(Cardano cancellation, det ~ 0) are compared loosely and well-conditioned ones at ~1e-13",
    "SciPy least_squares / InterpolatedUnivariateSpline are a parameter of the model (Solver); the driver plugs in "
    "bisection and the tie accepts the tolerance model `solverTol` (stopping rule gtol=1e-8 of the trf method, spline "
    "step 0.01): inverse round trips through SciPy are explored, not proved",
    "numpy's cbrt/sin/cos/arcsin/cosh/sinh/pow are within 4 ulp of the libm functions Lean's Float uses",
]
ASSUMPTIONS = [
    "models built from the public constructors are increasing in their independent variable on the generated range "
    "(true for all built-in models, their sums and offsets); the bisection solver of the driver relies on it",
    "closed-form round trips are required to 2e-4 relative (of the force, or of Lc for a distance): the Cardano branch "
    "loses up to cbrt(eps) ~ 6e-6 of the root by cancellation (measured max 3.3e-5 over 2e6 points), so 'solver "
    "precision' of the closed forms is NOT 1e-9",
    "SciPy round trips are required to the stopping rule of the solver: |residual * slope| * min(1, x-lo, hi-x) <= 1e-7 "
    "or |dx| <= 1e-6 |x| (least squares), plus 5e-3 (|x| < 0.2) / 2e-4 relative for the spline variant",
    "the spline variant of Model.invert() uses a fixed knot spacing of 0.01 in the parent's independent variable; when a "
    "force model is inverted (knots in um) it is only generated for data spanning >= 1 um (>= 100 knots): coarser grids "
    "are inaccurate by construction (seen: 1.3e-3 relative with 8 knots) and say nothing about the property",
    "for the same reason sessions and inversion cases (the spline is only used for more than 3 values strictly inside "
    "the data range) hand a force model to the spline variant only when its force changes by at most 25% from one knot "
    "to the next at every generated point: close to the contour length of a short tether the 0.01 um grid is too coarse "
    "(seen: invert(wlc_marko_siggia_force, interpolate=True), Lc ~ 2 um, answers 1.9478 um for 61.0 pN, where the model "
    "gives 53.5 pN: 12% in force, 4e-4 um in distance; error of a cubic spline ~ 0.085 r^4 (Lc - x), r = relative "
    "force step between knots); such data is inverted by least squares instead",
    "Model.invert() starts SciPy from the hard-coded guess 1.0 clipped into the limits (repair of F19); a clipped guess "
    "that lands ON the lower limit of a distance model whose equation is singular there (x - offset = 0 for "
    "Odijk/eFJC/tWLC) silently returns that limit (seen: ewlc_odijk_distance, f_offset = 1.357, independent_min = "
    "f_offset answers 1.357 for the distance of 6.338 pN). x - offset = 0 is outside the property's force range, so "
    "this is not judged: when the moved lower limit of a force would be >= 1 the generator uses offset + 0.04 pN",
    "slopes of an inverted expression are estimated with a central difference of relative step 1e-4 of |x| + |offset| "
    "(the wrapped model of an offset model is evaluated at x - offset)",
    "a model evaluates an equation, so what it answers to a query is determined by the values and parameters of THAT "
    "query: sessions judge each answer on its own, whatever the same process, model object or array was used for before "
    "(this is what 'distance(force(d)) = d for all inputs' says for the second and later calls as much as for the first)",
    "validity limits used for '80% of the validity limit': St (Odijk, eMS, eFJC), f_max = (-g0 + sqrt(St C))/g1 "
    "(tWLC, from twlc_solve_force), 100 pN for the inextensible Marko-Siggia pair (d < Lc always)",
]

# the `deprecated` package re-enables its warnings on every call; they are not observables of this property
warnings.showwarning = lambda *a, **k: None

# ------------------------------------------------------------------ constructors, expressions

# pylake constructor -> (model kind known to the Lean model, argument names, independent variable)
A4 = ["Lp", "Lc", "St", "kT"]
A3 = ["Lp", "Lc", "kT"]
A8 = ["Lp", "Lc", "St", "C", "g0", "g1", "Fc", "kT"]
KINDS = {
    "force_offset": ("force_offset", ["f_offset"], "d"),
    "distance_offset": ("distance_offset", ["d_offset"], "f"),
    "ewlc_marko_siggia_force": ("ewlc_marko_siggia_force", A4, "d"),
    "ewlc_marko_siggia_distance": ("ewlc_marko_siggia_distance", A4, "f"),
    "wlc_marko_siggia_force": ("wlc_marko_siggia_force", A3, "d"),
    "wlc_marko_siggia_distance": ("wlc_marko_siggia_distance", A3, "f"),
    "ewlc_odijk_distance": ("ewlc_odijk_distance", A4, "f"),
    "ewlc_odijk_force": ("ewlc_odijk_force", A4, "d"),
    "efjc_distance": ("efjc_distance", A4, "f"),
    "efjc_force": ("efjc_force", A4, "d"),
    "twlc_distance": ("twlc_distance", A8, "f"),
    "twlc_force": ("twlc_force", A8, "d"),
}
ALIASES = {  # deprecated public names -> constructor they forward to
    "marko_siggia_ewlc_force": "ewlc_marko_siggia_force",
    "marko_siggia_ewlc_distance": "ewlc_marko_siggia_distance",
    "marko_siggia_simplified": "wlc_marko_siggia_force",
    "inverted_marko_siggia_simplified": "wlc_marko_siggia_distance",
    "odijk": "ewlc_odijk_distance",
    "inverted_odijk": "ewlc_odijk_force",
    "freely_jointed_chain": "efjc_distance",
    "inverted_freely_jointed_chain": "efjc_force",
    "twistable_wlc": "twlc_distance",
    "inverted_twistable_wlc": "twlc_force",
}
PARTNER = {
    "ewlc_odijk_distance": "ewlc_odijk_force",
    "ewlc_odijk_force": "ewlc_odijk_distance",
    "wlc_marko_siggia_force": "wlc_marko_siggia_distance",
    "wlc_marko_siggia_distance": "wlc_marko_siggia_force",
    "ewlc_marko_siggia_force": "ewlc_marko_siggia_distance",
    "ewlc_marko_siggia_distance": "ewlc_marko_siggia_force",
    "efjc_distance": "efjc_force",
    "efjc_force": "efjc_distance",
    "twlc_distance": "twlc_force",
    "twlc_force": "twlc_distance",
}
SOLVER_KINDS = {"efjc_force", "twlc_force"}
CUBIC_KINDS = {"ewlc_odijk_force", "wlc_marko_siggia_distance", "ewlc_marko_siggia_force", "ewlc_marko_siggia_distance"}
MONO_PROVED = CUBIC_KINDS | {"ewlc_odijk_distance", "wlc_marko_siggia_force"}
INF = "inf"


def fl(x):
    """JSON floats: infinities are stored as strings"""
    return float(x)


def base_kind(e):
    return ALIASES.get(e[1], e[1])


def _lk():
    from lumicks import pylake

    return pylake


def build(e):
    """the implementation's object for an expression"""
    lk = _lk()
    t = e[0]
    if t == "b":
        return getattr(lk, e[1])(e[2])
    if t == "add":
        return build(e[1]) + build(e[2])
    if t == "off":
        return build(e[1]).subtract_independent_offset()
    if t == "inv":
        return build(e[1]).invert(independent_min=fl(e[2]), independent_max=fl(e[3]), interpolate=bool(e[4]))
    raise ValueError(t)


def enc_expr(e):
    t = e[0]
    if t == "b":
        return f"b:{base_kind(e)}:{e[2]}"
    if t == "add":
        return enc_expr(e[1]) + ";" + enc_expr(e[2]) + ";add"
    if t == "off":
        return enc_expr(e[1]) + ";off"
    if t == "inv":
        return enc_expr(e[1]) + f";inv:{enc_float(fl(e[2]))}:{enc_float(fl(e[3]))}:{'T' if e[4] else 'F'}"
    raise ValueError(t)


# --- the harness's own reading of the documentation (independent of the model and of the code)


def p_indep(e):
    t = e[0]
    if t == "b":
        return KINDS[base_kind(e)][2]
    if t == "inv":
        return "d" if p_indep(e[1]) == "f" else "f"
    return p_indep(e[1])


def p_name(e):
    t = e[0]
    if t == "b":
        # efjc_force is documented as the numerical inverse of efjc_distance: an InverseModel named inv(<name>)
        return f"inv({e[2]})" if base_kind(e) == "efjc_force" else e[2]
    if t == "add":
        return p_name(e[1]) + "_with_" + p_name(e[2])
    if t == "off":
        return p_name(e[1]) + "(x-d)"
    return "inv(" + p_name(e[1]) + ")"


def p_offset_name(e):
    return f"{p_name(e)}/{p_indep(e)}_offset"


def p_names(e):
    """ordered parameter names: own arguments prefixed with the model name (kT is shared and bare),
    a composite lists the left names then the new right names, an offset model lists its offset first"""
    t = e[0]
    if t == "b":
        return [("kT" if a == "kT" else f"{e[2]}/{a}") for a in KINDS[base_kind(e)][1]]
    if t == "add":
        return list(dict.fromkeys(p_names(e[1]) + p_names(e[2])))
    if t == "off":
        return list(dict.fromkeys([p_offset_name(e[1])] + p_names(e[1])))
    return p_names(e[1])


def uses_solver(e):
    t = e[0]
    if t == "b":
        return base_kind(e) in SOLVER_KINDS
    if t == "inv":
        return True
    return any(uses_solver(x) for x in e[1:] if isinstance(x, list))


def compatible(e):
    t = e[0]
    if t == "b":
        return True
    if t == "add":
        return compatible(e[1]) and compatible(e[2]) and p_indep(e[1]) == p_indep(e[2])
    return compatible(e[1])


# published equations, written from the docstrings / `eqn` strings


def P_odijk_d(F, Lp, Lc, St, kT):
    return Lc * (1.0 - 0.5 * math.sqrt(kT / (F * Lp)) + F / St)


def P_ms_f(d, Lp, Lc, kT):
    x = d / Lc
    return kT / Lp * (0.25 / (1.0 - x) ** 2 + x - 0.25)


def P_efjc_d(F, Lp, Lc, St, kT):
    x = 2.0 * F * Lp / kT
    return Lc * (1.0 / math.tanh(x) - 1.0 / x) * (1.0 + F / St)


def P_twlc_d(F, Lp, Lc, St, C, g0, g1, Fc, kT):
    g = g0 + g1 * max(F, Fc)
    return Lc * (1.0 - 0.5 * math.sqrt(kT / (F * Lp)) + C * F / (St * C - g * g))


def P_ems_residual(F, d, Lp, Lc, St, kT):
    y = 1.0 - d / Lc + F / St
    return 0.25 / (y * y) - 0.25 + d / Lc - F / St - F * Lp / kT


def twlc_fmax(St, C, g0, g1):
    return (-g0 + math.sqrt(St * C)) / g1


def args_of(e, params):
    return [params[n] for n in p_names(e)]


def validity_limit(kind, a):
    """upper end of the force range of a base constructor for parameter list `a`"""
    if kind in ("twlc_distance", "twlc_force"):
        return twlc_fmax(a[2], a[3], a[4], a[5])
    if kind in ("wlc_marko_siggia_force", "wlc_marko_siggia_distance"):
        return 100.0
    return a[2]  # St


def forward_plain(kind, F, a):
    """distance the published equation assigns to force F for the family of `kind` (None: no explicit form)"""
    if kind in ("ewlc_odijk_distance", "ewlc_odijk_force"):
        return P_odijk_d(F, *a)
    if kind in ("efjc_distance", "efjc_force"):
        return P_efjc_d(F, *a)
    if kind in ("twlc_distance", "twlc_force"):
        return P_twlc_d(F, *a)
    return None


def bisect_plain(f, lo, hi, y, n=200):
    for _ in range(n):
        mid = 0.5 * (lo + hi)
        if f(mid) < y:
            lo = mid
        else:
            hi = mid
    return 0.5 * (lo + hi)


def curve_point(kind, F, a):
    """a point (F', d) ON the published curve of the family with F' ~ F, by the explicit parametrisation"""
    if kind in ("wlc_marko_siggia_force", "wlc_marko_siggia_distance"):
        Lp, Lc, kT = a
        d = bisect_plain(lambda d_: P_ms_f(d_, Lp, Lc, kT), 0.0, Lc * (1 - 1e-12), F)
        return P_ms_f(d, Lp, Lc, kT), d
    if kind in ("ewlc_marko_siggia_force", "ewlc_marko_siggia_distance"):
        Lp, Lc, St, kT = a
        phi = lambda y: 0.25 / (y * y) - 0.25 + 1.0 - y  # decreasing on (0, 1]
        y = bisect_plain(lambda y_: -phi(y_), 1e-9, 1.0, -F * Lp / kT)
        F2 = phi(y) * kT / Lp
        return F2, Lc * (1.0 - y + F2 / St)
    return F, forward_plain(kind, F, a)


# ------------------------------------------------------------------ implementation side

_STASH = {}


def enc_vals(v):
    v = np.atleast_1d(np.asarray(v, dtype=float))
    return enc_list(v, enc_float)


def call(model, xs, params):
    with warnings.catch_warnings():
        warnings.simplefilter("ignore")
        with np.errstate(all="ignore"):
            try:
                return np.atleast_1d(np.asarray(model(xs, params), dtype=float))
            except Exception as ex:  # noqa: BLE001 - every error is an observable
                return errname(ex)


def env_token(params):
    return "[" + ",".join(f"{k}={enc_float(v)}" for k, v in params.items()) + "]"


def eval_op(e, params, xs):
    return f"c12.eval {enc_expr(e)} {env_token(params)} {enc_list(xs, enc_float)}"


def show(v):
    return v if isinstance(v, str) else enc_vals(v)


DNA_CTORS = {"dsdna_ewlc_odijk_distance": 0.34, "ssdna_efjc_distance": 0.56, "dsdna_odijk": 0.34, "ssdna_fjc": 0.56}


def observe_dna(m, name, st, xs):
    """parametrisation of a DNA convenience model (its defaults, read NOW) and its value at those defaults"""
    kind = "ewlc_odijk_distance" if "odijk" in st["ctor"] else "efjc_distance"
    try:
        dv = {k: float(v.value) for k, v in m.defaults.items()}
        a0 = enc_vals([dv[f"{name}/Lc"], dv["kT"], dv[f"{name}/Lp"], dv[f"{name}/St"]])
    except Exception as ex:  # noqa: BLE001
        return [errname(ex), errname(ex)], [
            f"c12.dna {enc_float(st['kbp'])} {enc_float(st['um'])} {enc_float(st['temp'])}", "c12.skip"]
    a1 = show(call(m, np.array(xs), dv))
    return [a0, a1], [
        f"c12.dna {enc_float(st['kbp'])} {enc_float(st['um'])} {enc_float(st['temp'])}",
        eval_op(["b", kind, name], dv, xs),
    ]


def abs_shift(e, params):
    """total |offset| by which subtract_independent_offset nodes move the independent variable of `e`"""
    t = e[0]
    if t == "off":
        o = params.get(p_offset_name(e[1]), 0.0)
        return abs(o) + abs_shift(e[1], params)
    if t == "add":
        return max(abs_shift(e[1], params), abs_shift(e[2], params))
    return 0.0


def fd_steps(e, params, x0):
    """absolute steps of the slope estimate of `e` around the points x0: FD relative to the point AND to the shift (the
    wrapped model of an offset model sees x - offset, so a step relative to a small x alone would be lost in the
    rounding noise of the wrapped model's closed form)"""
    s = abs_shift(e, params)
    return [FD * (abs(v) + s) for v in x0]


def session_trace(case):
    """the queries of a session, replayed on plain Python lists: one (parameters, content, what) per step.
    The buffer starts as vecs[0]; `set j` overwrites it IN PLACE with vecs[j] (same object, same shape, new content),
    `eval` asks again, `fresh j` / `list j` hand over a new array / a Python list with the content of vecs[j],
    `blocks k` asks for the buffer in consecutive slices of k points (short-lived views) and concatenates the answers,
    `params w` switches to the first / second parameter set and asks for the buffer, `other` asks a second,
    separately built model object of the same expression for the buffer."""
    vecs, psets = case["vecs"], [case["params"], case.get("params2") or case["params"]]
    buf, P, out = list(vecs[0]), psets[0], []
    for st in case["steps"]:
        what = st[0]
        if what == "set":
            buf = list(vecs[st[1]])
            out.append((P, list(buf), what))
        elif what in ("fresh", "list"):
            out.append((P, list(vecs[st[1]]), what))
        elif what == "params":
            P = psets[st[1]]
            out.append((P, list(buf), what))
        elif what in ("eval", "blocks", "other"):
            out.append((P, list(buf), what))
        else:
            raise ValueError(what)
    return out


def run_isolated(case):
    """the case evaluated in a fresh interpreter.  What a session answers may depend on what the process was asked
    BEFORE the session (that is the defect sessions look for); while a failing session is shrunk, every candidate is
    therefore judged on its own, so that the replay file fails when it is run alone"""
    code = ("import sys, json; sys.path[:0] = [%r, %r]; import c12; "
            "print(json.dumps(c12.run_case(json.load(sys.stdin))))" % (os.path.dirname(os.path.abspath(__file__)), REPO))
    pr = subprocess.run([sys.executable, "-c", code], input=json.dumps(clean(case)), capture_output=True, text=True,
                        timeout=900)
    if pr.returncode != 0:
        raise RuntimeError("isolated evaluation failed: " + pr.stderr[-300:])
    ans, ops_ = json.loads(pr.stdout.strip().splitlines()[-1])
    return ans, ops_


def run_session(case):
    """ONE model object, ONE float64 buffer, a sequence of queries: every answer is an observable (a model evaluates an
    equation: what it answers must not depend on what it was asked before)"""
    e = case["expr"]
    trace = session_trace(case)
    ops = [eval_op(e, P, xs) for P, xs, _ in trace]
    try:
        m = build(e)
        m_other = build(e) if any(st[0] == "other" for st in case["steps"]) else None
    except Exception as ex:  # noqa: BLE001
        return [errname(ex)] * len(ops), ops
    vecs = case["vecs"]
    buf = np.array(vecs[0], dtype=np.float64)
    ans = []
    for st, (P, _, what) in zip(case["steps"], trace):
        if what == "set":
            buf[:] = vecs[st[1]]
            r = call(m, buf, P)
        elif what == "fresh":
            r = call(m, np.array(vecs[st[1]], dtype=np.float64), P)
        elif what == "list":
            r = call(m, [float(v) for v in vecs[st[1]]], P)
        elif what == "blocks":
            parts = []
            for s0 in range(0, len(buf), st[1]):
                parts.append(call(m, buf[s0:s0 + st[1]], P))
            bad = [q for q in parts if isinstance(q, str)]
            r = bad[0] if bad else (np.hstack(parts) if parts else np.zeros(0))
        elif what == "other":
            r = call(m_other, buf, P)
        else:  # eval, params
            r = call(m, buf, P)
        ans.append(show(r))
    return ans, ops


# ------------------------------------------------------------------ the anchored PRIVATE mechanism: calc_cubic_root
#
# Robustness against harmless refactorings (DESIGN.md, C12): everything else in this harness goes through the public API
# (`lk.<constructor>`, `Model.__call__`, `+`, `invert`, `subtract_independent_offset`, `independent`, `dependent`,
# `parameter_names`, `defaults`).  The closed-form cubic solver is an anchored mechanism of the property and has no
# public name, so it is observed DIRECTLY only while it can be reached (an unreachable observation is "?", which
# agree(), the oracle and nontrivial() skip; it never surfaces as an implementation answer), and the same behaviour is
# ALSO tied through the public constructors that are built on it (`via` of a cubic case).

CUBIC_PATH = ("lumicks.pylake.fitting.detail.model_implementation", "calc_cubic_root")
_SOLVER = {}


def _is_function(f):
    return callable(f) and hasattr(f, "__code__")


def _probe_points():
    """one valid (constructor, parameters, input) per closed-form inverse, at the default parameters"""
    for kind in sorted(CUBIC_KINDS):
        e = ["b", kind, "m"]
        params = {n: DEFAULTS[n.split("/")[-1]] for n in p_names(e)}
        yield e, params, (5.0 if KINDS[kind][2] == "f" else 0.9 * DEFAULTS["Lc"])


def _answers_like_cubic_solver(fn):
    """does fn(a, b, c, k) answer with root k of y^3 + a y^2 + b y + c for arrays of coefficients, in the anchor's
    convention (three real roots: k = 0 middle, 1 smallest, 2 largest; otherwise the real root)?"""
    one = lambda v: np.array([float(v)])  # noqa: E731
    try:
        with np.errstate(all="ignore"):
            r3 = [float(np.atleast_1d(fn(one(-6), one(11), one(-6), k))[0]) for k in (0, 1, 2)]  # (y-1)(y-2)(y-3)
            r1 = [float(np.atleast_1d(fn(one(0), one(1), one(-2), k))[0]) for k in (0, 1, 2)]  # (y-1)(y^2+y+2)
    except Exception:  # noqa: BLE001
        return False
    return all(abs(u - v) < 1e-9 for u, v in zip(r3, (2.0, 1.0, 3.0))) and all(abs(u - 1.0) < 1e-9 for u in r1)


def _watch_public_calls():
    """the module-level functions that EVERY public closed-form inverse hands three coefficient arrays (or floats) and
    a root index 0..2 to while it answers a query; nothing but public names is used to get there"""
    common_fns = None
    for e, params, x in _probe_points():
        seen = []

        def prof(frame, event, arg, seen=seen):
            if event != "call":
                return
            co = frame.f_code
            if co.co_argcount != 4 or co.co_kwonlyargcount or (co.co_flags & 0x0C):
                return
            vals = [frame.f_locals.get(n) for n in co.co_varnames[:4]]
            k = vals[3]
            if isinstance(k, (int, np.integer)) and not isinstance(k, bool) and 0 <= k <= 2 and all(
                    isinstance(v, (np.ndarray, float, np.floating)) for v in vals[:3]):
                fn = frame.f_globals.get(co.co_name)
                if getattr(fn, "__code__", None) is co and fn not in seen:
                    seen.append(fn)

        m = build(e)
        old = sys.getprofile()
        sys.setprofile(prof)
        try:
            call(m, np.array([x]), params)
        finally:
            sys.setprofile(old)
        common_fns = seen if common_fns is None else [f for f in common_fns if f in seen]
    return common_fns or []


def cubic_solver():
    """(function, how it was reached) for the anchored closed-form cubic solver, or (None, "unreachable").
    1. "path": its known private module and name;
    2. "name": the same name in whatever lumicks.pylake module holds it once the public closed-form constructors have
       been used (the private module was moved / renamed / split);
    3. "watched": the one function all four public closed-form inverses call with (a, b, c, root index) and that
       answers two reference cubics in the anchor's convention (the function was renamed)."""
    if "fn" in _SOLVER:
        return _SOLVER["fn"], _SOLVER["how"]
    fn, how = None, "unreachable"
    try:
        import importlib

        fn = getattr(importlib.import_module(CUBIC_PATH[0]), CUBIC_PATH[1])
        how = "path"
    except (ImportError, AttributeError):
        fn = None
    if fn is None:
        try:
            with warnings.catch_warnings():
                warnings.simplefilter("ignore")
                for e, _, _ in _probe_points():
                    build(e)  # the constructors import their implementation lazily
                cands = []
                for name, mod in sorted(sys.modules.items()):
                    if name.startswith("lumicks.pylake") and mod is not None:
                        f = mod.__dict__.get(CUBIC_PATH[1])
                        if _is_function(f) and f not in cands:
                            cands.append(f)
                if len(cands) == 1:
                    fn, how = cands[0], "name"
                else:
                    cands = [f for f in _watch_public_calls() if _answers_like_cubic_solver(f)]
                    if len(cands) == 1:
                        fn, how = cands[0], "watched"
        except Exception:  # noqa: BLE001 - not reachable: the direct observations are "?"
            fn, how = None, "unreachable"
    _SOLVER.update(fn=fn, how=how)
    return fn, how


SOLVE_PATH = ("lumicks.pylake.fitting.detail.model_implementation", ("efjc_solve_force",))
_PRIVATE = {}


def private_fn(name):
    """an anchored private function that no public constructor calls (efjc_solve_force: the public efjc_force is
    Model.invert() of efjc_distance), by its known module and name; None when it is not there (then the observation is
    "?", see the note on calc_cubic_root above: nothing is compared and nothing is asserted)"""
    if name not in _PRIVATE:
        fn = None
        if name in SOLVE_PATH[1]:
            try:
                import importlib

                fn = getattr(importlib.import_module(SOLVE_PATH[0]), name)
            except (ImportError, AttributeError):
                fn = None
        if _is_function(fn):
            # only the calling convention the anchor has: (d, Lp, Lc, St, kT) by position
            co = fn.__code__
            if list(co.co_varnames[:co.co_argcount])[1:5] != A4 or co.co_argcount != 5:
                fn = None
        _PRIVATE[name] = fn if _is_function(fn) else None
    return _PRIVATE[name]


def run_case(case):
    """returns (answers, ops): the implementation's observables and the protocol lines asking the model the
    same questions (ops may quote earlier answers of the implementation: round trips run on ITS values)"""
    op = case["op"]
    with warnings.catch_warnings():
        warnings.simplefilter("ignore")
        if op == "cubic":
            solve, how = cubic_solver()
            a, b, c = case["abc"]
            ans, ops = [], []
            for k in case["ks"]:
                if solve is None or (k > 2 and how == "watched"):
                    # not reachable (or: the error contract of a private function that is only known by what it is
                    # used for): no observation
                    ans.append("?")
                else:
                    with np.errstate(all="ignore"):
                        try:
                            y = solve(np.array([a]), np.array([b]), np.array([c]), k)
                            ans.append(enc_float(np.atleast_1d(y)[0]))
                        except Exception as ex:  # noqa: BLE001
                            ans.append(errname(ex))
                ops.append(f"c12.cubic {enc_float(a)} {enc_float(b)} {enc_float(c)} {k}")
            via = case.get("via")
            if via:
                # the same cubic through the PUBLIC constructor whose closed form has to solve it
                e = ["b", via["kind"], "m"]
                params = dict(zip(p_names(e), via["args"]))
                try:
                    r = show(call(build(e), np.array([via["x"]], dtype=float), params))
                except Exception as ex:  # noqa: BLE001
                    r = errname(ex)
                ans.append(r)
                ops.append(eval_op(e, params, [via["x"]]))
            return ans, ops
        if op == "cubicvec":
            # calc_cubic_root on whole arrays (rows of both branches in one call: the masked reads and writes), and
            # then row by row through the same function: `alone`
            solve, how = cubic_solver()
            rows, k = case["rows"], case["k"]
            cols = [np.array([r[j] for r in rows], dtype=float) for j in range(3)]
            line = f"c12.cubicvec {enc_list(cols[0], enc_float)} {enc_list(cols[1], enc_float)} {enc_list(cols[2], enc_float)} {k}"
            if solve is None or (k > 2 and how == "watched"):
                return ["?", "?"], [line, "c12.skip"]
            with np.errstate(all="ignore"):
                try:
                    whole = enc_vals(solve(cols[0], cols[1], cols[2], k)) if rows else enc_list(
                        np.asarray(solve(cols[0], cols[1], cols[2], k), dtype=float).ravel(), enc_float)
                except Exception as ex:  # noqa: BLE001
                    whole = errname(ex)
                alone = []
                for r in rows:
                    try:
                        alone.append(enc_float(np.atleast_1d(solve(np.array([r[0]]), np.array([r[1]]), np.array([r[2]]), k))[0]))
                    except Exception as ex:  # noqa: BLE001
                        alone.append(errname(ex))
            return [whole, "|".join(alone)], [line, "c12.skip"]
        if op == "solve":
            # the anchored private inversion efjc_solve_force(d, Lp, Lc, St, kT), asked directly (no public constructor
            # is built on it); the model is asked for the public efjc_force = inverse of efjc_distance on (0, inf)
            e = ["b", "efjc_force", "m"]
            params = dict(zip(p_names(e), case["args"]))
            ops = [eval_op(e, params, case["xs"])]
            fn = private_fn(case["fn"])
            if fn is None:
                return ["?"], ops
            with np.errstate(all="ignore"):
                try:
                    r = show(np.atleast_1d(np.asarray(fn(np.array(case["xs"], dtype=float), *case["args"]), dtype=float)))
                except Exception as ex:  # noqa: BLE001
                    r = errname(ex)
            return [r], ops
        if op == "shift":
            # theorem ems_distance_is_shifted_ms on the implementation: the extensible and the inextensible
            # Marko-Siggia distance at the same forces and parameters (two public constructors, two cubics)
            Lp, Lc, St, kT = case["args"]
            ans, ops = [], []
            for kind, a in (("ewlc_marko_siggia_distance", [Lp, Lc, St, kT]), ("wlc_marko_siggia_distance", [Lp, Lc, kT])):
                e = ["b", kind, "m"]
                params = dict(zip(p_names(e), a))
                try:
                    r = show(call(build(e), np.array(case["xs"], dtype=float), params))
                except Exception as ex:  # noqa: BLE001
                    r = errname(ex)
                ans.append(r)
                ops.append(eval_op(e, params, case["xs"]))
            return ans, ops
        if op == "names":
            e = case["expr"]
            try:
                m = build(e)
                ans = f"{m.independent} {m.dependent} " + ",".join(m.parameter_names)
            except Exception as ex:  # noqa: BLE001
                ans = errname(ex)
            return [ans], [f"c12.names {enc_expr(e)}"]
        if op == "dna":
            lk = _lk()
            ctor = case["ctor"]
            m = getattr(lk, ctor)("m", case["kbp"], case["um"], case["temp"])
            return observe_dna(m, "m", case, case["xs"])
        if op == "dnaseq":
            # one session: every model of the sequence is constructed FIRST, then each DNA model is asked for its
            # parametrisation and evaluated at its own defaults (a model must not depend on what else was built)
            lk = _lk()
            steps, xs = case["steps"], case["xs"]
            dna_ops = []
            for st in steps:
                if st["ctor"] in DNA_CTORS:
                    kind = "ewlc_odijk_distance" if "odijk" in st["ctor"] else "efjc_distance"
                    dna_ops += [f"c12.dna {enc_float(st['kbp'])} {enc_float(st['um'])} {enc_float(st['temp'])}",
                                f"c12.skip {kind} {st['name']}"]
            built = []
            try:
                for st in steps:
                    if st["ctor"] in DNA_CTORS:
                        built.append(getattr(lk, st["ctor"])(st["name"], st["kbp"], st["um"], st["temp"]))
                    else:
                        built.append(getattr(lk, st["ctor"])(st["name"]))
            except Exception as ex:  # noqa: BLE001
                return [errname(ex)] * len(dna_ops), dna_ops
            ans, ops = [], []
            for st, m in zip(steps, built):
                if st["ctor"] in DNA_CTORS:
                    a, o = observe_dna(m, st["name"], st, xs)
                    ans += a
                    ops += o
            return ans, ops
        if op == "session":
            return run_session(case)
        if op == "chain":
            e, params, xs = case["expr"], case["params"], case["xs"]
            x_arg = np.array(xs, dtype=float) if not case.get("ndim2") else np.array([xs, xs], dtype=float)
            ops = [eval_op(e, params, xs) if not case.get("ndim2") else
                   f"c12.eval {enc_expr(e)} {env_token(params)} [[{','.join(map(enc_float, xs))};{','.join(map(enc_float, xs))}]]"]
            try:
                m = build(e)
            except Exception as ex:  # noqa: BLE001
                return [errname(ex)], ops
            a0 = call(m, x_arg, params)
            ans = [show(a0)]
            if isinstance(a0, str) or case.get("ndim2") or len(xs) == 0:
                return ans, ops
            t = e[0]
            steps = []  # (expr, xs) evaluated on the implementation AND on the model
            if t == "add":
                steps = [(e[1], xs), (e[2], xs)]
            elif t == "off":
                o = params.get(p_offset_name(e[1]))
                if o is not None:
                    steps = [(e[1], list(np.array(xs) - o))]
            elif t == "inv":
                x0 = [float(v) for v in a0]
                hs = fd_steps(e[1], params, x0)
                steps = [(e[1], x0), (e[1], [v + h for v, h in zip(x0, hs)]), (e[1], [v - h for v, h in zip(x0, hs)])]
            elif t == "b" and base_kind(e) in PARTNER and case.get("valid"):
                partner = ["b", PARTNER[base_kind(e)], e[2]]
                x0 = [float(v) for v in a0]
                steps = [(partner, x0)]
                if PARTNER[base_kind(e)] in SOLVER_KINDS or base_kind(e) in SOLVER_KINDS:
                    # slope of the non-solver member of the pair around the solver's answer / input
                    fwd, at = (e, xs) if PARTNER[base_kind(e)] in SOLVER_KINDS else (partner, x0)
                    steps += [(fwd, [v * (1 + FD) for v in at]), (fwd, [v * (1 - FD) for v in at])]
            for (se, sx) in steps:
                if not all(math.isfinite(v) for v in sx):
                    ans.append("skipped-nonfinite")
                    ops.append("c12.skip")
                    continue
                try:
                    sm = build(se)
                    r = call(sm, np.array(sx, dtype=float), params)
                except Exception as ex:  # noqa: BLE001
                    r = errname(ex)
                ans.append(show(r))
                ops.append(eval_op(se, params, sx))
            return ans, ops
    raise ValueError(op)


def _key(case):
    return canonical(case)


def impl(case):
    ans, ops_ = run_isolated(case) if case.get("_isolated") else run_case(case)
    _STASH[_key(case)] = ops_
    return ans


def ops(case):
    k = _key(case)
    if k not in _STASH:
        impl(case)
    return _STASH[k]


# ------------------------------------------------------------------ comparison with the model

STATS = {"compared": 0, "dropped_bound": 0, "bound_rel": [], "branches": {"C": 0, "T": 0}}


def parse_model_list(ma):
    out = []
    inner = ma.strip()[1:-1]
    if inner == "":
        return out
    for tok in inner.split(","):
        parts = tok.split(":")
        v = dec_float(parts[0])
        if len(parts) == 1:
            out.append((v, 0.0, ""))
        else:
            out.append((v, dec_float(parts[1]), parts[2] if len(parts) > 2 else ""))
    return out


def close_bound(iv, v, bound):
    """True/False/None (None: the model's error bound does not determine the value — dropped)"""
    if math.isnan(v) or math.isnan(iv):
        return math.isnan(v) and math.isnan(iv)
    if math.isinf(v) or math.isinf(iv):
        return iv == v
    if math.isnan(bound) or math.isinf(bound) or bound > 1e-2 * max(abs(v), 1e-300):
        return None
    return abs(iv - v) <= 2.0 * bound + 1e-12 * abs(v)


def agree(case, i, ia, ma):
    if ia == "?":
        return True  # an observation of private code that could not be made (see cubic_solver): nothing to compare
    if ma == "bad-op" and ia == "skipped-nonfinite":
        return True
    if case["op"] == "cubicvec" and i == 1:
        return True  # the row-by-row answers of the implementation: for the oracle only
    if case["op"] == "names":
        return ia == ma
    if not ma.startswith("[") and not ma.startswith("b") and ma != "nan":
        return ia == ma  # error names
    if not (ia.startswith("[") or ia.startswith("b") or ia == "nan"):
        return False
    if case["op"] == "cubic" and i < len(case["ks"]):
        parts = ma.split(":")
        r = close_bound(dec_float(ia), dec_float(parts[0]), dec_float(parts[1]))
        return r is not False
    if case["op"] in ("dna", "dnaseq") and i % 2 == 0:
        # Lc = kbp * um/kbp is one product; kT = 1e21 k_B T is a product of three factors whose order the property
        # does not fix (any association is within 2 ulp): the tolerances are those of the oracle, not bit equality
        iv = [dec_float(t) for t in ia[1:-1].split(",")]
        mv = [dec_float(t) for t in ma[1:-1].split(",")]
        return all(abs(a - b) <= tol * abs(b) for a, b, tol in zip(iv[:2], mv, (1e-14, 1e-13)))
    iv = [dec_float(t) for t in ia[1:-1].split(",")] if ia != "[]" else []
    mv = parse_model_list(ma)
    if len(iv) != len(mv):
        return False
    ok = True
    for a, (v, b, _) in zip(iv, mv):
        r = close_bound(a, v, b)
        if r is False:
            ok = False
    return ok


# ------------------------------------------------------------------ oracle (plain Python from the property text)

TOL_EXPLICIT = 1e-9
FD = 1e-4  # relative step of the slope estimates (well above the 1e-5 rounding noise of the Cardano closed forms)
NOISE_CUBIC = 2e-5  # relative rounding noise of a cubic-based closed form: an inversion cannot resolve its parent below it
TOL_CLOSED = 2e-4


def dec_vals(s):
    if not s.startswith("["):
        return None
    return [dec_float(t) for t in s[1:-1].split(",")] if s != "[]" else []


def solver_ok(x_true, x_back, slope_pts, lo, hi, interp):
    """the stopping rule of the SciPy inversion (see ASSUMPTIONS): x_back = inverse(forward(x_true))"""
    up, dn, x_at = slope_pts
    h = 2 * FD * abs(x_at)
    slope = abs(up - dn) / h if h > 0 else float("inf")
    if slope == 0 or not math.isfinite(slope):
        return True
    room = max(1e-3, min(1.0, abs(x_back - lo), abs(hi - x_back)))
    tol = 1e-6 * abs(x_true) + 1e-7 / (slope * slope * room)
    if interp:
        tol += (5e-3 if abs(x_true) < 0.2 else 2e-4) * abs(x_true)
    return abs(x_back - x_true) <= tol


def oracle(case, ia):
    op = case["op"]
    if op == "cubic":
        a, b, c = case["abc"]
        vals = []
        for k, s in zip(case["ks"], ia):
            if s == "?":
                continue  # the private solver was not reachable: no direct observation (the public one follows)
            if k > 2:
                if s != "RuntimeError":
                    return f"selected_root={k}: expected RuntimeError, got {s}"
                continue
            if not s.startswith("b"):
                if s == "nan" and not all(math.isfinite(t) for t in (a, b, c)):
                    continue
                return f"calc_cubic_root({a},{b},{c},{k}) gave {s}"
            y = dec_float(s)
            vals.append((k, y))
            scale = abs(y) ** 3 + abs(a) * y * y + abs(b) * abs(y) + abs(c)
            res = y**3 + a * y * y + b * y + c
            # a root at (or next to) zero: the returned value carries an ABSOLUTE error of a few ulp of the roots' scale
            # (y = t - a/3), which the terms at y do not show; rs = Cauchy-type scale of the roots
            rs = max(abs(a), math.sqrt(abs(b)), abs(c) ** (1.0 / 3.0))
            if math.isfinite(scale) and abs(res) > 1e-3 * scale + 1e-9 * rs**3 + 1e-300:
                return f"cubic-root: calc_cubic_root({a},{b},{c},{k}) = {y} is not a root: residual {res:.3e} vs term scale {scale:.3e}"
        p = b - a * a / 3.0
        q = 2 * a**3 / 27.0 - a * b / 3.0 + c
        det = q * q / 4 + p**3 / 27
        # rounding error of det as computed from the coefficients (cancellation in p, q and det itself)
        P_, Q_ = abs(b) + a * a / 3.0, 2 * abs(a) ** 3 / 27.0 + abs(a * b) / 3.0 + abs(c)
        det_err = 1e-15 * (abs(q) * Q_ / 2 + p * p * P_ / 9 + q * q / 4 + abs(p) ** 3 / 27)
        distinct = len(vals) == 3 and len({v for _, v in vals}) == 3
        if distinct and det < -1e3 * det_err:
            y0, y1, y2 = vals[0][1], vals[1][1], vals[2][1]
            sc = max(abs(y0), abs(y1), abs(y2), abs(a))
            if abs(y0 + y1 + y2 + a) > 1e-6 * sc:
                return f"cubic-vieta: three real roots {y0},{y1},{y2} do not sum to -a={-a}"
            if not (y1 <= y0 + 1e-9 * sc and y0 <= y2 + 1e-9 * sc):
                return f"cubic-order: roots not ordered root1 <= root0 <= root2: {y1},{y0},{y2}"
        exact = case.get("roots")
        if exact is not None:
            # small scope: the cubic was built from these exact roots (real ones listed, ascending)
            sc = max([abs(t) for t in exact] + [1.0])
            for k, y in vals:
                if len(exact) == 3 and exact[0] < exact[1] < exact[2]:
                    want = {0: exact[1], 1: exact[0], 2: exact[2]}[k]
                    if abs(y - want) > 1e-6 * sc:
                        return (f"cubic-selection: calc_cubic_root({a},{b},{c},{k}) = {y}: with three distinct real roots "
                                f"{exact} root 1 is the smallest, root 0 the middle, root 2 the largest one")
                elif len(exact) == 1:
                    if abs(y - exact[0]) > 1e-6 * sc:
                        return f"cubic-unique: calc_cubic_root({a},{b},{c},{k}) = {y} but the only real root is {exact[0]}"
                elif min(abs(y - t) for t in exact) > 1e-4 * sc:
                    # repeated roots (det = 0 up to rounding): a root, to the sqrt(eps) sensitivity of a double root
                    return f"cubic-root: calc_cubic_root({a},{b},{c},{k}) = {y} is none of the roots {exact}"
        if len(vals) == 3 and det > 1e3 * det_err and det > 1e-6 * (q * q / 4 + abs(p) ** 3 / 27):
            # Cardano regime, discriminant clearly positive: ONE real root, whatever root was asked for
            ys = [v for _, v in vals]
            sc = max(abs(ys[0]), abs(a), 1e-300)
            if max(ys) - min(ys) > 1e-9 * sc:
                return f"cubic-unique: det > 0 (one real root) but the selected roots differ: {ys}"
            y = ys[0]
            # the other two roots solve x^2 + (a + y) x + (b + (a + y) y): they must not be real
            d2 = (a + y) ** 2 - 4.0 * (b + (a + y) * y)
            if d2 > 1e-3 * ((a + y) ** 2 + 4.0 * abs(b + (a + y) * y)):
                return f"cubic-unique: det > 0 but after dividing out the returned root {y} the quadratic factor has real roots"
        via = case.get("via")
        if via and len(ia) > len(case["ks"]):
            # the public constructor that has to solve this cubic, judged by its published equation
            got = dec_vals(ia[len(case["ks"])])
            if got is None or len(got) != 1:
                return f"evaluation: {via['kind']}({via['x']}) on valid input gave {ia[len(case['ks'])][:60]}"
            return published_clause(via["kind"], via["args"], [via["x"]], got)
        return None
    if op == "cubicvec":
        if ia[0] == "?":
            return None
        rows, k = case["rows"], case["k"]
        if k > 2:
            return None if ia[0] == "RuntimeError" else f"selected_root={k}: expected RuntimeError, got {ia[0]}"
        got = dec_vals(ia[0])
        if got is None or len(got) != len(rows):
            return f"cubic-vector: calc_cubic_root on {len(rows)} rows gave {ia[0][:60]}"
        alone = ia[1].split("|") if ia[1] else []
        for i, (row, y) in enumerate(zip(rows, got)):
            # every entry is judged as the answer to ITS row (root of that row's cubic) ...
            r = oracle({"op": "cubic", "abc": row, "ks": [k]}, [enc_float(y)])
            if r:
                return f"cubic-vector: entry {i} of {len(rows)}: {r}"
            # ... and is what the row gets when it is asked for alone (no value may depend on, or land in, another row)
            if alone[i].startswith("b"):
                ya = dec_float(alone[i])
                if not (ya == y or (math.isnan(ya) and math.isnan(y)) or abs(ya - y) <= 1e-12 * max(abs(y), abs(row[0]))):
                    return (f"cubic-vector: entry {i} of calc_cubic_root on {len(rows)} rows is {y}, the same row alone gives {ya} "
                            f"(row {row}, selected_root={k})")
        return None
    if op == "solve":
        if ia[0] == "?":
            return None
        if any(v <= 0 for v in case["args"]):
            return None if ia[0] == "ValueError" else f"error-contract: expected ValueError, {case['fn']} answered {ia[0][:80]}"
        got = dec_vals(ia[0])
        if got is None:
            return f"evaluation: {case['fn']} on valid input raised {ia[0][:60]}"
        if len(got) != len(case["xs"]):
            return f"shape: {len(case['xs'])} points in, {len(got)} out"
        return solver_clause("efjc_force", case["args"], case["xs"], got)
    if op == "shift":
        Lp, Lc, St, kT = case["args"]
        ems, ms = dec_vals(ia[0]), dec_vals(ia[1])
        if ems is None or ms is None or len(ems) != len(case["xs"]) or len(ms) != len(case["xs"]):
            return f"evaluation: Marko-Siggia distance models on valid input gave {ia[0][:40]} / {ia[1][:40]}"
        for F, de, dm in zip(case["xs"], ems, ms):
            # published relations: F Lp/kT = h(d/Lc) and F Lp/kT = h(d/Lc - F/St), h(x) = 1/4 (1-x)^-2 - 1/4 + x, so the
            # extensible extension is the inextensible one plus the elastic stretch Lc F / St
            if not abs(de - dm - Lc * F / St) <= TOL_CLOSED * Lc:
                return (f"elastic-shift: ewlc_marko_siggia_distance({F}) = {de}, wlc_marko_siggia_distance({F}) = {dm}: "
                        f"the difference {de - dm} is not the elastic stretch Lc F/St = {Lc * F / St}")
            if not (0.0 < dm < Lc):
                return f"selected-root: wlc_marko_siggia_distance({F}) = {dm} is not strictly between 0 and Lc = {Lc}"
        return None
    if op == "names":
        e = case["expr"]
        if not compatible(e) or (not finite_limits(e)):
            return None if ia[0] == "ValueError" else f"construction of an ill-formed model should raise ValueError, got {ia[0]}"
        exp = f"{p_indep(e)} {'d' if p_indep(e) == 'f' else 'f'} " + ",".join(p_names(e))
        return None if ia[0] == exp else f"parameter-names: expected {exp}, implementation has {ia[0]}"
    if op == "dna":
        return oracle_dna(case, case["xs"], ia[0], ia[1], "")
    if op == "dnaseq":
        dna = [st for st in case["steps"] if st["ctor"] in DNA_CTORS]
        for j, st in enumerate(dna):
            where = f" (model {st['name']!r}, {st['ctor']} at {st['temp']} C, observed after {len(case['steps'])} models were built)"
            r = oracle_dna(st, case["xs"], ia[2 * j], ia[2 * j + 1], where)
            if r:
                return r
        return None
    if op == "chain":
        return oracle_chain(case, ia)
    if op == "session":
        return oracle_session(case, ia)
    return None


def oracle_dna(st, xs, a0, a1, where):
    """the DNA convenience parametrisation: Lc = kbp * um/kbp, kT = 1e21 k_B (T + 273.15), the documented Lp / St, and
    the published equation at exactly these values"""
    v = dec_vals(a0)
    if v is None:
        return f"dna-build: {a0}{where}"
    ss = "jc" in st["ctor"]
    expLc = st["kbp"] * st["um"]
    expkT = 1e21 * 1.380649e-23 * (st["temp"] + 273.15)
    if abs(v[0] - expLc) > 1e-14 * abs(expLc):
        return f"dna-Lc: default Lc {v[0]} != kbp*um_per_kbp {expLc}{where}"
    if abs(v[1] - expkT) > 1e-13 * abs(expkT):
        return f"dna-kT: default kT {v[1]} != 1e21*k_B*T {expkT}{where}"
    if (v[2], v[3]) != ((0.70, 750.0) if ss else (50.0, 1200.0)):
        return f"dna-defaults: Lp, St = {v[2]}, {v[3]}{where}"
    got = dec_vals(a1)
    if got is None:
        return f"dna-eval: {a1}{where}"
    for F, g in zip(xs, got):
        a = [v[2], v[0], v[3], v[1]]
        exp = P_efjc_d(F, *a) if ss else P_odijk_d(F, *a)
        if abs(g - exp) > TOL_EXPLICIT * max(abs(exp), v[0]):
            return f"dna-eval: model({F}) = {g}, published equation gives {exp}{where}"
    return None


def finite_limits(e):
    t = e[0]
    if t == "b":
        return True
    if t == "inv":
        return finite_limits(e[1]) and (not e[4] or (math.isfinite(fl(e[2])) and math.isfinite(fl(e[3]))))
    return all(finite_limits(x) for x in e[1:] if isinstance(x, list))


def expected_error(case):
    """the error the documentation promises for this input, or None"""
    e, params = case["expr"], case["params"]
    if not compatible(e) or not finite_limits(e):
        return "ValueError"
    if case.get("ndim2"):
        return "TypeError"
    names = p_names(e)
    if any(n not in params for n in names):
        return "KeyError"
    for n in names:
        if n.split("/")[-1] in ("Lp", "Lc", "St", "kT") and params[n] <= 0:
            return "ValueError"
    return None


def guess_outside(e):
    """finding F19: an inversion whose limits do not contain the hard-coded initial guess 1.0"""
    t = e[0]
    if t == "b":
        return False
    if t == "inv":
        lo, hi = fl(e[2]), fl(e[3])
        return guess_outside(e[1]) or (lo < hi and not (lo <= 1.0 <= hi))
    return any(guess_outside(x) for x in e[1:] if isinstance(x, list))


def published_clause(kind, a, xs, got):
    """does every point (x, model(x)) of base constructor `kind` with argument list `a` lie on the published curve?
    explicit formulas to 1e-9, closed-form inverses to TOL_CLOSED, SciPy inverses to the solver's stopping rule"""
    for x, g in zip(xs, got):
        if not math.isfinite(g):
            return f"published-equation: {kind}({x}) = {g} inside the validity range"
        if kind == "ewlc_odijk_distance":
            exp, sc = P_odijk_d(x, *a), a[1]
        elif kind == "efjc_distance":
            exp, sc = P_efjc_d(x, *a), a[1]
        elif kind == "twlc_distance":
            exp, sc = P_twlc_d(x, *a), a[1]
        elif kind == "wlc_marko_siggia_force":
            exp = P_ms_f(x, *a)
            sc = a[2] / a[0] * (0.25 / (1 - x / a[1]) ** 2)
        else:
            exp = None
        if exp is not None and abs(g - exp) > TOL_EXPLICIT * max(abs(exp), abs(sc)):
            return f"published-equation: {kind}({x}) = {g}, the published closed form gives {exp}"
        if kind == "ewlc_odijk_force":
            back = P_odijk_d(g, *a) if g > 0 else float("nan")
            if not abs(back - x) <= TOL_CLOSED * a[1]:
                return f"published-equation: ewlc_odijk_force({x}) = {g} but Odijk's equation gives d({g}) = {back}"
        if kind == "wlc_marko_siggia_distance":
            back = P_ms_f(g, *a) if g < a[1] else float("nan")
            if not abs(back - x) <= TOL_CLOSED * max(abs(x), 1e-3) * max(1.0, a[1] / (a[1] - g)):
                return f"published-equation: wlc_marko_siggia_distance({x}) = {g} but Marko-Siggia gives F({g}) = {back}"
        if kind in ("ewlc_marko_siggia_force", "ewlc_marko_siggia_distance"):
            F, d = (g, x) if kind.endswith("force") else (x, g)
            y = 1.0 - d / a[1] + F / a[2]
            res = P_ems_residual(F, d, *a)
            sc = 0.25 / (y * y) + abs(F) * a[0] / a[3] + 1.0
            # a relative error eps of the returned root moves the residual by at most ~ (2/y) eps * scale
            if not (y > 0 and abs(res) <= TOL_CLOSED * sc * max(1.0, 1.0 / y)):
                return (f"published-equation: {kind}({x}) = {g} violates the extensible Marko-Siggia relation: "
                        f"residual {res:.3e} (terms ~ {sc:.3e})")
    if kind in SOLVER_KINDS:
        return solver_clause(kind, a, xs, got)
    return None


def solver_clause(kind, a, xs, got):
    """efjc_force / twlc_force: the returned force is the one at which the published distance equation yields the
    requested distance, to the stopping rule of the SciPy inversion (see ASSUMPTIONS); plain Python, equation only"""
    fwd = (lambda F: P_twlc_d(F, *a)) if kind == "twlc_force" else (lambda F: P_efjc_d(F, *a))
    interp = kind == "twlc_force"
    lo, hi = 0.0, (twlc_fmax(a[2], a[3], a[4], a[5]) if interp else float("inf"))
    for x, F in zip(xs, got):
        if not (math.isfinite(F) and lo < F < hi):
            return f"published-equation: {kind}({x}) = {F} is outside the validity range ({lo}, {hi}) of the equation"
        slope = abs(fwd(F * (1 + FD)) - fwd(F * (1 - FD))) / (2 * FD * abs(F))
        if not math.isfinite(slope) or slope == 0:
            continue
        room = max(1e-3, min(1.0, abs(F - lo), abs(hi - F)))
        tol_F = 1e-6 * abs(F) + 1e-7 / (slope * slope * room)
        if interp:
            tol_F += (5e-3 if abs(F) < 0.2 else 2e-4) * abs(F)
        back = fwd(F)
        if abs(back - x) > slope * tol_F * 1.01 + 1e-12 * abs(x):
            return (f"published-equation: {kind}({x}) = {F} but the published distance equation gives d({F}) = {back}: "
                    f"residual {back - x:.3e} exceeds the solver precision {slope * tol_F:.2e}")
    return None


def plain_forward(kind, a, x):
    """value of solver-free base constructor `kind` at x by its published relation (explicit, or bisection on it)"""
    return plain_eval_base(["b", kind, "m"], {("kT" if n == "kT" else f"m/{n}"): v for n, v in zip(KINDS[kind][1], a)}, [x])[0]


def inverse_clause(kind, a, lo, hi, interp, ys, got):
    """Model.invert() of solver-free base constructor `kind`: the published relation of `kind` maps the returned value
    back onto the requested one, to the stopping rule of the SciPy inversion (see ASSUMPTIONS)"""
    for y, x in zip(ys, got):
        if not math.isfinite(x):
            return f"inverse-round-trip: invert({kind})({y}) = {x}"
        h = FD * abs(x)
        bk, up, dn = (plain_forward(kind, a, v) for v in (x, x + h, x - h))
        slope = abs(up - dn) / (2 * h) if h != 0 else float("inf")
        if not math.isfinite(slope) or slope == 0 or not math.isfinite(bk):
            continue
        room = max(1e-3, min(1.0, abs(x - lo), abs(hi - x)))
        tol_x = 1e-6 * abs(x) + 1e-7 / (slope * slope * room)
        if interp:
            tol_x += (5e-3 if abs(x) < 0.2 else 2e-4) * abs(x)
        noise = NOISE_CUBIC * abs(y) if kind in CUBIC_KINDS else 0.0
        if abs(bk - y) > slope * tol_x * 1.01 + 1e-12 * abs(y) + noise:
            return (f"inverse-round-trip: invert({kind})({y}) = {x} but the published relation gives {kind}({x}) = {bk}: "
                    f"residual {bk - y:.3e} exceeds the solver precision {slope * tol_x:.3e}")
    return None


def oracle_session(case, ia):
    """every answer of the session, judged on its own against the published equation at the content the model was
    handed for THAT query (base constructor; its offset model: equation at x - offset; plus an offset model: equation
    + offset; its generic inverse: equation maps the answer back)"""
    e = case["expr"]
    trace = session_trace(case)
    t = e[0]
    for k, ((P, xs, what), s) in enumerate(zip(trace, ia)):
        got = dec_vals(s)
        if got is None:
            r = f"evaluation: valid input raised {s[:60]}"
        elif len(got) != len(xs):
            r = f"shape: {len(xs)} points in, {len(got)} out"
        elif t == "b":
            r = published_clause(base_kind(e), args_of(e, P), xs, got)
        elif t == "off":
            o = P[p_offset_name(e[1])]
            r = published_clause(base_kind(e[1]), args_of(e[1], P), [x - o for x in xs], got)
        elif t == "add":
            c = P[p_names(e[2])[0]]
            r = published_clause(base_kind(e[1]), args_of(e[1], P), xs, [g - c for g in got])
        elif t == "inv":
            r = inverse_clause(base_kind(e[1]), args_of(e[1], P), fl(e[2]), fl(e[3]), bool(e[4]), xs, got)
        else:
            r = None
        if r:
            same = [j for j in range(k) if ia[j] == s and trace[j][1] != xs]
            stale = f"; the answer is identical to that of query {same[-1]}, which asked for different values" if same else ""
            head, _, rest = r.partition(":")
            return (f"{head}: query {k} of a session on one model object ({what}; {k} queries answered before)"
                    f"{stale}:{rest}")
    return None


def oracle_chain(case, ia):
    e, params, xs = case["expr"], case["params"], case["xs"]
    exp_err = expected_error(case)
    a0 = ia[0]
    if exp_err is not None:
        return None if a0 == exp_err else f"error-contract: expected {exp_err}, implementation answered {a0[:80]}"
    got = dec_vals(a0)
    if got is None:
        if guess_outside(e):
            return (f"generic-inversion: Model.invert() with limits that do not contain the hard-coded initial guess 1.0 "
                    f"raises {a0} instead of inverting a model that is monotone on these limits")
        return f"evaluation: valid input raised {a0}"
    if len(got) != len(xs):
        return f"shape: {len(xs)} points in, {len(got)} out"
    if len(xs) == 0:
        return None
    t = e[0]
    valid = case.get("valid", False)
    if t == "add":
        l, r = dec_vals(ia[1]), dec_vals(ia[2])
        if l is None or r is None:
            return f"composite-parts: parts raised {ia[1][:40]} / {ia[2][:40]} but the composite evaluated"
        for x, g, u, v in zip(xs, got, l, r):
            if math.isfinite(g) and math.isfinite(u + v) and abs(g - (u + v)) > 1e-12 * max(abs(u), abs(v), 1e-300):
                return f"composite-sum: composite({x}) = {g} but the parts give {u} + {v} = {u + v}"
        return None
    if t == "off":
        inner = dec_vals(ia[1]) if len(ia) > 1 else None
        if inner is None:
            return f"offset-parts: parent raised {ia[1][:40] if len(ia) > 1 else '?'} but the offset model evaluated"
        for x, g, u in zip(xs, got, inner):
            if math.isfinite(g) and math.isfinite(u) and abs(g - u) > 1e-12 * max(abs(u), 1e-300):
                return f"offset-shift: model({x}) = {g} but parent({x} - offset) = {u}"
        return None
    if t == "inv":
        if not valid:
            return None
        back, up, dn = dec_vals(ia[1]), dec_vals(ia[2]), dec_vals(ia[3])
        if back is None or up is None or dn is None:
            return None
        lo, hi = fl(e[2]), fl(e[3])
        hs = fd_steps(e[1], params, got)
        for i, (y, x, bk) in enumerate(zip(xs, got, back)):
            # y = requested value of the parent's dependent variable, x = implementation's inverse, bk = parent(x)
            slope = abs(up[i] - dn[i]) / (2 * hs[i]) if hs[i] != 0 else float("inf")
            if not math.isfinite(slope) or slope == 0 or not math.isfinite(bk):
                continue
            room = max(1e-3, min(1.0, abs(x - lo), abs(hi - x)))
            tol_x = 1e-6 * abs(x) + 1e-7 / (slope * slope * room)
            if e[4]:
                tol_x += (5e-3 if abs(x) < 0.2 else 2e-4) * abs(x)
            noise = NOISE_CUBIC * abs(y) if any(base_kind(lf) in CUBIC_KINDS for lf in leaves(e[1])) else 0.0
            if abs(bk - y) > slope * tol_x * 1.01 + 1e-12 * abs(y) + noise:
                return (f"inverse-round-trip: invert(model)({y}) = {x} but model({x}) = {bk}: residual {bk - y:.3e} exceeds the "
                        f"solver precision {slope * tol_x:.3e}")
        return None
    # base constructor
    kind = base_kind(e)
    a = args_of(e, params)
    if kind == "force_offset" or kind == "distance_offset":
        return None if all(g == a[0] for g in got) else f"offset-model: {got} != {a[0]}"
    if not valid:
        return None
    # (1) the published equation
    r = published_clause(kind, a, xs, got)
    if r:
        return r
    # (1') order: the six closed-form / explicit members of the Odijk and Marko-Siggia families are strictly increasing on
    # their domain (theorems *_strictMono), so larger inputs must not give smaller outputs (beyond the closed forms' noise)
    if kind in MONO_PROVED:
        pts = sorted(zip(xs, got))
        for (x1, g1), (x2, g2) in zip(pts, pts[1:]):
            sc = a[1] if KINDS[kind][2] == "f" else max(abs(g1), abs(g2))
            if x2 > x1 and g2 < g1 - TOL_CLOSED * sc:
                return f"monotone: {kind}({x1}) = {g1} > {kind}({x2}) = {g2} although the model is increasing"
    # (2) the round trip through the partner model, on the implementation's answers
    back = dec_vals(ia[1]) if len(ia) > 1 else None
    if back is None:
        return f"round-trip: partner model raised {ia[1][:60] if len(ia) > 1 else '?'} on the implementation's own answers"
    pk = PARTNER[kind]
    solver = pk in SOLVER_KINDS or kind in SOLVER_KINDS
    is_dist = KINDS[kind][2] == "d"  # xs are distances
    for i, (x, bk) in enumerate(zip(xs, back)):
        if solver:
            up, dn = dec_vals(ia[2]), dec_vals(ia[3])
            if up is None or dn is None:
                continue
            lo = 0.0
            hi = twlc_fmax(a[2], a[3], a[4], a[5]) if "twlc" in kind else float("inf")
            interp = "twlc" in kind
            if pk in SOLVER_KINDS:
                # x is a force, got = distance(x), back = solver_force(distance): error of the solver in x
                if not solver_ok(x, bk, (up[i], dn[i], x), lo, hi, interp):
                    return f"round-trip: {pk}({kind}({x})) = {bk} (beyond solver precision)"
            else:
                # x is a distance, got = solver_force(x), back = distance(got): residual in distance units
                F = got[i]
                slope = abs(up[i] - dn[i]) / (2 * FD * abs(F)) if F != 0 else float("inf")
                if not math.isfinite(slope) or slope == 0:
                    continue
                room = max(1e-3, min(1.0, abs(F - lo), abs(hi - F)))
                tol_F = 1e-6 * abs(F) + 1e-7 / (slope * slope * room)
                if interp:
                    tol_F += (5e-3 if abs(F) < 0.2 else 2e-4) * abs(F)
                if abs(bk - x) > slope * tol_F * 1.01 + 1e-12 * abs(x):
                    return f"round-trip: {pk}({kind}({x})) = {bk} (beyond solver precision {slope * tol_F:.2e})"
        else:
            sc = a[1] if is_dist else abs(x)
            if not abs(bk - x) <= TOL_CLOSED * sc:
                return f"round-trip: {pk}({kind}({x})) = {bk}, relative error {abs(bk - x) / sc:.2e} > {TOL_CLOSED}"
    return None


def nontrivial(case, ia):
    if case.get("stream") == "malformed":
        return True
    seen = [a for a in ia if a != "?"]
    if not seen:
        return False  # nothing could be observed
    a0 = seen[0]
    if a0.startswith("b"):
        return math.isfinite(dec_float(a0))
    v = dec_vals(a0)
    if v is None:
        return case["op"] == "names" and not a0.endswith("Error")
    return any(math.isfinite(t) for t in v)


def tags(case, r):
    t = {"op": case["op"]}
    if case["op"] == "session":
        # a failure of the very first query can only come from what the process was asked before the session
        t["session_first_query"] = " query 0 of a session" in (r.get("clause") or "")
    if case["op"] == "chain":
        t["root"] = case["expr"][0]
        exp_err = expected_error(case)
        t["inversion_limits_exclude_initial_guess_1"] = bool(
            exp_err is None and guess_outside(case["expr"]) and r["impl"][0] == "ValueError"
        )
    return t


def shrink(case):
    if case["op"] == "chain":
        xs = case["xs"]
        if len(xs) > 1:
            for i in range(len(xs)):
                c = dict(case)
                c["xs"] = [xs[i]]
                yield c
        e = case["expr"]
        if e[0] in ("add", "off", "inv") and not case.get("valid"):
            for sub in e[1:]:
                if isinstance(sub, list):
                    c = dict(case)
                    c["expr"] = sub
                    yield c
    if case["op"] == "session":
        # every candidate is evaluated in a fresh interpreter (see run_isolated), first of all the session itself
        if not case.get("_isolated"):
            yield dict(case, _isolated=True)
        st = case["steps"]
        if len(st) > 1:
            for i in range(len(st)):
                yield dict(case, steps=st[:i] + st[i + 1:], _isolated=True)
        n = len(case["vecs"][0])
        if n > 1:
            for sl in (slice(0, (n + 1) // 2), slice(n // 2, n)):
                yield dict(case, vecs=[v[sl] for v in case["vecs"]], _isolated=True)
    if case["op"] == "dnaseq":
        st = case["steps"]
        if len(st) > 1:
            for i in range(len(st)):
                c = dict(case)
                c["steps"] = st[:i] + st[i + 1:]
                if any(x["ctor"] in DNA_CTORS for x in c["steps"]):
                    yield c
        if len(case["xs"]) > 1:
            c = dict(case)
            c["xs"] = case["xs"][:1]
            yield c
    if case["op"] == "cubicvec" and len(case["rows"]) > 1:
        rows = case["rows"]
        for i in range(len(rows)):
            yield dict(case, rows=rows[:i] + rows[i + 1:])
    if case["op"] in ("shift", "solve") and len(case["xs"]) > 1:
        for x in case["xs"]:
            yield dict(case, xs=[x])
    if case["op"] == "cubic" and len(case["ks"]) > 1:
        for k in case["ks"]:
            c = dict(case)
            c["ks"] = [k]
            yield c


# ------------------------------------------------------------------ generators

DEFAULTS = {"Lp": 40.0, "Lc": 16.0, "St": 1500.0, "kT": 4.11, "C": 440.0, "g0": -637.0, "g1": 17.0, "Fc": 30.6,
            "f_offset": 0.01, "d_offset": 0.01}
SS = {"Lp": 0.7, "St": 750.0}


def is_ss(kind):
    return kind.startswith("efjc")


def draw_param(rng, kind, arg, default_only=False):
    base = SS.get(arg, DEFAULTS[arg]) if is_ss(kind) else DEFAULTS[arg]
    if default_only:
        return base
    if arg == "Lc":
        return rng.loguniform(0.3, 30.0)
    if arg in ("C", "g0", "g1", "Fc"):
        return base * rng.uniform(0.9, 1.1)
    if arg in ("f_offset", "d_offset"):
        return rng.uniform(-0.1, 0.1)
    return base * rng.uniform(0.5, 1.5)


def draw_shift(rng):
    """an offset of subtract_independent_offset (pN or um): inside the default bounds +-0.1 of the parameter, exactly 0,
    or a baseline error of either sign with a magnitude of 0.02 .. 2 (several times the smallest force of the box)"""
    r = rng.random()
    if r < 0.4:
        return rng.uniform(-0.1, 0.1)
    if r < 0.5:
        return 0.0
    return (-1.0 if rng.chance(0.5) else 1.0) * rng.loguniform(0.02, 2.0)


def leaves(e):
    if e[0] == "b":
        return [e]
    out = []
    for x in e[1:]:
        if isinstance(x, list):
            out += leaves(x)
    return out


def draw_params(rng, e, default_only=False):
    """one value per parameter NAME (shared names get one value); names from the harness's own reading"""
    params = {}
    owner = {}
    for lf in leaves(e):
        kind = base_kind(lf)
        for a in KINDS[kind][1]:
            n = "kT" if a == "kT" else f"{lf[2]}/{a}"
            if n not in owner:
                owner[n] = (kind, a)
    for n in p_names(e):
        if n in owner:
            kind, a = owner[n]
            params[n] = draw_param(rng, kind, a, default_only)
        else:  # offsets of subtract_independent_offset
            params[n] = 0.01 if default_only else draw_shift(rng)
    return params


SPLINE_DX = 0.01  # knot spacing of invert_function_interpolation, in the variable the inversion solves for


def reorder(rng, xs):
    """the order in which the points of a vector are handed over: as generated (ascending: a pulling curve), descending
    (a retraction curve) or unordered (pooled / shuffled data).  A model evaluates its equation point by point, so every
    answer belongs to ITS input whatever the neighbours are; the comparison and the oracle are point-wise"""
    xs = list(xs)
    if len(xs) < 2:
        return xs
    t = rng.random()
    if t < 0.35:
        return xs
    if t < 0.65:
        return xs[::-1]
    rng.shuffle(xs)
    return xs


def densify(rng, xs, dx=SPLINE_DX):
    """sampling the way measured curves have it: runs of 2-5 points that are closer to each other than the knot spacing
    `dx` of the interpolating inversion (a quarter of it up to twice it), just below the largest point, just above the
    smallest one and around one interior point.  Every new point lies between existing ones, so the vector stays inside
    whatever range the existing points are in"""
    xs = list(xs)
    if len(xs) < 2:
        return xs
    lo, hi = min(xs), max(xs)
    if not hi - lo > 4.0 * dx:
        return xs
    out = list(xs)
    for where, pr in (("top", 0.8), ("bottom", 0.5), ("inside", 0.5)):
        if not rng.chance(pr):
            continue
        w = dx * rng.choice([0.25, 0.5, 1.0, 1.0, 2.0])
        m = rng.randint(2, 5)
        if where == "top":
            out += [hi - w * rng.random() for _ in range(m)]
        elif where == "bottom":
            out += [lo + w * rng.random() for _ in range(m)]
        else:
            c = rng.uniform(lo + 2.0 * dx, hi - 2.0 * dx)
            out += [c + w * (rng.random() - 0.5) for _ in range(m)]
    return sorted(out)


def ramp(lo, step, n):
    """a densely and evenly sampled stretch of a curve"""
    return [lo + i * step for i in range(n)]


def forces_for(rng, kind, a, n, boundary=True):
    lim = 0.8 * validity_limit(kind, a)
    out = []
    for _ in range(n):
        r = rng.random()
        if boundary and kind.startswith("twlc") and r < 0.08 and a[6] < lim:
            out.append(a[6])  # exactly the critical force Fc (the kink of the tWLC)
        elif boundary and r < 0.1:
            out.append(0.05)
        elif boundary and r < 0.2:
            out.append(lim)
        else:
            out.append(rng.loguniform(0.05, lim))
    return sorted(out)


def base_inputs(rng, e, params, n, dense=False, order=True):
    """valid inputs of a base constructor: forces, or the distances of points on the published curve; handed over in
    ascending, descending or no particular order (`reorder`); dense: with runs of points that are closer together (in
    force) than the knot spacing of the interpolating inversion (`densify`)"""
    kind = base_kind(e)
    a = args_of(e, params)
    Fs = forces_for(rng, kind, a, n)
    if dense:
        Fs = densify(rng, Fs)
    if KINDS[kind][2] == "f":
        if kind in CUBIC_KINDS:  # use forces that lie exactly on the curve's parametrisation
            out = [curve_point(kind, F, a)[0] for F in Fs]
        else:
            out = Fs
    else:
        out = [curve_point(kind, F, a)[1] for F in Fs]
    return reorder(rng, out) if order else out


FORCE_DEP = [k for k, v in KINDS.items() if v[2] == "d"]
DIST_DEP = [k for k, v in KINDS.items() if v[2] == "f"]


def random_expr(rng, indep, depth, names):
    """a random well-formed expression with the given independent variable"""
    r = rng.random()
    if depth == 0 or r < 0.35:
        pool = DIST_DEP if indep == "f" else FORCE_DEP
        if rng.chance(0.25):
            pool = [k for k in pool if k.endswith("offset")]
        else:
            pool = [k for k in pool if not k.endswith("offset")]
        k = rng.choice(pool)
        if rng.chance(0.1):
            al = [a for a, t in ALIASES.items() if t == k]
            if al:
                k = al[0]
        return ["b", k, rng.choice(names)]
    if r < 0.7:
        return ["add", random_expr(rng, indep, depth - 1, names), random_expr(rng, indep, depth - 1, names)]
    return ["off", random_expr(rng, indep, depth - 1, names)]  # inversions are generated separately (they need a range)


def eval_plain_possible(e):
    return True


def monotone_sample(rng, e, params, n):
    """inputs for a solver-free expression with independent variable f or d: forces in the common validity range
    of its leaves, or distances reached by its first non-offset leaf"""
    lf = [x for x in leaves(e) if not base_kind(x).endswith("offset")]
    if p_indep(e) == "f":
        lim = min([0.8 * validity_limit(base_kind(x), args_of(x, params)) for x in lf] or [100.0])
        return reorder(rng, sorted(rng.loguniform(0.05, lim) for _ in range(n)))
    # distances: stay below every contour length involved, in the range of a typical curve
    Lcs = [params[f"{x[2]}/Lc"] for x in lf] or [16.0]
    Lc = min(Lcs)
    return reorder(rng, sorted(Lc * rng.uniform(0.3, 0.97) for _ in range(n)))


def dna_step(sub, name, before):
    """a DNA convenience constructor call; the temperature is now and then the default one or the one of an earlier
    step, otherwise any temperature of the range"""
    ctor = sub.choice(sorted(DNA_CTORS))
    um0 = DNA_CTORS[ctor]
    kbp = sub.choice([0.5, 1.0, 8.0, 48.502, float(sub.randint(1, 60)), sub.uniform(0.9, 60.0)])
    um = um0 if sub.chance(0.5) else sub.uniform(0.2, 0.7)
    earlier = [st["temp"] for st in before if "temp" in st]
    t = sub.random()
    if t < 0.15:
        temp = 24.53608821
    elif t < 0.3 and earlier:
        temp = sub.choice(earlier)
    else:
        temp = sub.uniform(-5.0, 60.0)
    return {"ctor": ctor, "name": name, "kbp": float(kbp), "um": float(um), "temp": float(temp)}


def corpus_cases():
    d = os.path.join(VERIF, "corpus", PROP)
    if not os.path.isdir(d):
        return
    for f in sorted(os.listdir(d)):
        if f.endswith(".json"):
            c = json.load(open(os.path.join(d, f)))
            c = c.get("case", c)
            c["stream"] = "corpus"
            yield c


def cubic_from_roots(r1, r2, r3):
    return [-(r1 + r2 + r3), r1 * r2 + r1 * r3 + r2 * r3, -r1 * r2 * r3]


def cubic_one_real(r, re, im):
    # (y - r)(y^2 - 2 re y + re^2 + im^2)
    return [-(r + 2 * re), 2 * re * r + re * re + im * im, -r * (re * re + im * im)]


def gen_cubic(rng, i):
    s = 10.0 ** rng.uniform(-4, 8)
    r = rng.random()
    via = None
    sign = lambda: -1.0 if rng.chance(0.5) else 1.0  # noqa: E731
    if r < 0.3:
        roots = [s * rng.uniform(-1, 1) for _ in range(3)]
        abc = cubic_from_roots(*roots)
    elif r < 0.55:
        abc = cubic_one_real(s * rng.uniform(-1, 1), s * rng.uniform(-1, 1), s * rng.loguniform(1e-3, 1))
    elif r < 0.75:
        # a double root split into two real roots / a complex pair: both sides of det = 0
        dbl, other = s * rng.uniform(-1, 1), s * rng.uniform(-1, 1)
        eps = abs(dbl) * 10.0 ** rng.uniform(-9, -2)
        abc = cubic_from_roots(dbl - eps, dbl + eps, other) if rng.chance(0.5) else cubic_one_real(other, dbl, eps)
    elif r < 0.8:
        abc = [sign() * 10.0 ** rng.uniform(-3, 3) for _ in range(3)]
    else:
        # coefficient triples of the four analytically inverted models
        kind = rng.choice(sorted(CUBIC_KINDS))
        a = [draw_param(rng, kind, x) for x in KINDS[kind][1]]
        F = forces_for(rng, kind, a, 1)[0]
        Fc, d = curve_point(kind, F, a) if kind != "ewlc_odijk_force" else (F, P_odijk_d(F, *a))
        abc = model_coeffs(kind, Fc, d, a)
        via = {"kind": kind, "args": [float(t) for t in a], "x": float(d if KINDS[kind][2] == "d" else Fc)}
    ks = [0, 1, 2] if not rng.chance(0.03) else [0, 1, 2, 3]
    c = {"stream": "random", "op": "cubic", "abc": [float(t) for t in abc], "ks": ks, "subseed": i}
    if via is not None:
        c["via"] = via
    return c


def model_coeffs(kind, F, d, a):
    """the cubic each closed-form inverse has to solve, from the published relation (monic, in the unknown)"""
    if kind == "ewlc_odijk_force":
        Lp, Lc, St, kT = a
        al = d / Lc - 1.0
        return [-2 * al * St, al * al * St * St, -0.25 * kT / Lp * St * St]
    if kind == "wlc_marko_siggia_distance":
        Lp, Lc, kT = a
        ph = F * Lp / kT
        return [-Lc * (ph + 2.25), Lc * Lc * (2 * ph + 1.5), -ph * Lc**3]
    Lp, Lc, St, kT = a
    if kind == "ewlc_marko_siggia_distance":
        A = 0.25 + F / St + F * Lp / kT
        B = 1.0 + F / St
        return [-Lc * (A + 2 * B), Lc * Lc * (2 * A * B + B * B), Lc**3 * (0.25 - A * B * B)]
    # cubic in F of the extensible Marko-Siggia relation: expand 1/4 - (1/4 - x + F u)(1 - x + F/St)^2, u = 1/St + Lp/kT
    x = d / Lc
    u = 1.0 / St + Lp / kT
    w = 1.0 / St
    A, B = 0.25 - x, 1.0 - x
    lead = u * w * w
    c2 = A * w * w + 2 * u * B * w
    c1 = 2 * A * B * w + u * B * B
    c0 = A * B * B - 0.25
    return [c2 / lead, c1 / lead, c0 / lead]


def chain_case(e, params, xs, stream, valid, **kw):
    c = {"stream": stream, "op": "chain", "expr": e, "params": {k: float(v) for k, v in params.items()},
         "xs": [float(x) for x in xs], "valid": bool(valid)}
    c.update(kw)
    return c


def small_scope(rng, quick):
    ctors = sorted(KINDS)
    r = rng.fork("c12-small")
    # every constructor alone (and through its deprecated alias), default parameters
    for k in ctors + sorted(ALIASES):
        e = ["b", k, "m"]
        yield {"stream": "small-scope", "op": "names", "expr": e}
        p = draw_params(r, e, default_only=True)
        xs = base_inputs(r.fork(k), e, p, 3) if not base_kind(e).endswith("offset") else [1.0, 2.0]
        yield chain_case(e, p, xs, "small-scope", True)
    # every ordered pair, equal / different names; bare, offset, inverted
    for k1 in ctors:
        for k2 in ctors:
            for n2 in ("m", "n"):
                e = ["add", ["b", k1, "m"], ["b", k2, n2]]
                yield {"stream": "small-scope", "op": "names", "expr": e}
                yield {"stream": "small-scope", "op": "names", "expr": ["off", e]}
                if not compatible(e):
                    p = draw_params(r, ["b", k1, "m"], True)
                    p.update(draw_params(r, ["b", k2, n2], True))
                    yield chain_case(e, p, [1.0], "small-scope", False)
                    continue
                if quick and (uses_solver(e) and n2 == "n"):
                    continue
                p = draw_params(r, ["off", e], default_only=True)
                xs = monotone_sample(r.fork(k1 + k2 + n2), e, p, 2)
                yield chain_case(e, {k: v for k, v in p.items() if k in p_names(e)}, xs, "small-scope", False)
                yield chain_case(["off", e], p, xs, "small-scope", False)
    # inversion of every solver-free constructor over a range that contains its answers, both flavours
    for k in ctors:
        if k in SOLVER_KINDS or k.endswith("offset"):
            continue
        for interp in (False, True):
            e0 = ["b", k, "m"]
            p = draw_params(r, e0, default_only=True)
            xs0 = base_inputs(r.fork("inv" + k), e0, p, 4)
            ys = [float(v) for v in plain_eval_base(e0, p, xs0)]
            lo, hi = inv_limits(e0, p, xs0, interp)
            yield chain_case(["inv", e0, lo, hi, interp], p, ys, "small-scope", True)
            # ... and of its offset model, for a baseline error well above the smallest force and for a small positive
            # one (default parameters, the smallest force of the range among the requested points)
            for o in (-1.0, 0.05):
                c = inversion_case(r.fork(f"invoff{k}{interp}{o}"), k, "off", interp, "small-scope", default_only=True,
                                   shifts=[o], n=4, include_low=True)
                if c is not None:
                    yield c
    # inversion of the sum of every ordered pair of solver-free distance models
    for k1 in INV_KINDS_F:
        for k2 in INV_KINDS_F:
            c = inversion_case(r.fork("invsum" + k1 + k2), k1, "sum", False, "small-scope", default_only=True, k2=k2,
                               n=3, include_low=True)
            if c is not None:
                yield c
    # calc_cubic_root, exhaustive: every monic cubic with roots in {-3..3} (three real roots incl. every double and
    # triple root: det = 0 exactly or up to rounding) and every (y - r)(y^2 - 2 re y + re^2 + im^2), r, re in -2..2,
    # im in {1, 2} (one real root), at unit scale and at scale 1/4; all three selected roots
    for sc in (1.0, 0.25):
        vals = [sc * t for t in range(-3, 4)]
        for i1, r1 in enumerate(vals):
            for i2 in range(i1, len(vals)):
                for i3 in range(i2, len(vals)):
                    yield {"stream": "small-scope", "op": "cubic", "ks": [0, 1, 2],
                           "abc": [float(t) for t in cubic_from_roots(r1, vals[i2], vals[i3])],
                           "roots": [float(r1), float(vals[i2]), float(vals[i3])]}
        for r1 in range(-2, 3):
            for re in range(-2, 3):
                for im in (1, 2):
                    yield {"stream": "small-scope", "op": "cubic", "ks": [0, 1, 2],
                           "abc": [float(t) for t in cubic_one_real(sc * r1, sc * re, sc * im)], "roots": [float(sc * r1)]}
    yield {"stream": "small-scope", "op": "cubic", "ks": [3], "abc": [0.0, -1.0, 0.0], "roots": [-1.0, 0.0, 1.0]}
    # the guard of coth (|2 F Lp / kT| < 500) and the mask of the tWLC coupling (f < Fc, f >= Fc): the force exactly on the
    # boundary, one ulp and 1e-9 relative to either side, and well inside either branch (parameters inside the box)
    for kind, args, Fb in (("efjc_distance", [1.05, 16.0, 1125.0, 2.055], 500.0 * 2.055 / (2.0 * 1.05)),
                           ("efjc_distance", [0.7, 16.0, 750.0, 4.11], None),
                           ("twlc_distance", [DEFAULTS[x] for x in A8], DEFAULTS["Fc"]),
                           ("twlc_distance", [40.0, 3.0, 1500.0, 440.0, -637.0, 17.0, 33.0, 4.11], 33.0)):
        e = ["b", kind, "m"]
        if Fb is None:
            xs = [0.05, 1.0, 10.0, 100.0, 400.0, 600.0]
        else:
            xs = [0.5 * Fb, Fb * (1 - 1e-9), float(np.nextafter(Fb, 0.0)), Fb, float(np.nextafter(Fb, 1e9)), Fb * (1 + 1e-9),
                  min(1.5 * Fb, 0.8 * validity_limit(kind, args))]
        yield chain_case(e, dict(zip(p_names(e), args)), xs, "small-scope", True, boundary=kind)
        # the same points as a retraction curve (descending) and in no particular order: the branch of every point is
        # decided by ITS force
        yield chain_case(e, dict(zip(p_names(e), args)), xs[::-1], "small-scope", True, boundary=kind)
        yield chain_case(e, dict(zip(p_names(e), args)), xs[1::2] + xs[0::2][::-1],
                         "small-scope", True, boundary=kind)
    yield from dense_small_scope(r.fork("dense"))
    # the anchored private efjc_solve_force at the ssDNA defaults, and its reaction to each non-positive parameter
    yield solve_case(r.fork("solve"), "small-scope", default_only=True, n=6)
    for j in range(4):
        for v in (0.0, -1.0):
            c = solve_case(r.fork(f"solvebad{j}{v}"), "small-scope", default_only=True, n=2)
            c["args"][j] = v
            yield dict(c, stream="malformed", valid=False)
    # calc_cubic_root on arrays, exhaustive: every vector of length 0..3 over a pool of two Cardano rows and two
    # trigonometric rows (every mask pattern of these lengths), all three selected roots
    pool = [[0.0, 1.0, 1.0], [-1.0, 1.0, -1.0], [0.0, -1.0, 0.0], [-7.0, 14.0, -8.0]]
    vecs = [[]]
    for _ in range(3):
        vecs = vecs + [v + [row] for v in vecs if len(v) == max(len(w) for w in vecs) for row in pool]
    for v in vecs:
        for k in (0, 1, 2):
            yield {"stream": "small-scope", "op": "cubicvec", "rows": v, "k": k}
    yield {"stream": "small-scope", "op": "cubicvec", "rows": [pool[0], pool[2]], "k": 3}
    # the extensible and the inextensible Marko-Siggia distance at the same forces (elastic shift Lc F/St), default
    # parameters and a short / soft tether, forces over the whole common validity range on both sides of det = 0
    for args in ([40.0, 16.0, 1500.0, 4.11], [40.0, 0.3, 750.0, 4.11], [60.0, 30.0, 2250.0, 2.055], [20.0, 2.0, 750.0, 6.165]):
        yield {"stream": "small-scope", "op": "shift", "args": args,
               "xs": [0.05, 0.06, 0.07, 0.08, 0.09, 0.1, 0.15, 0.2, 0.3, 0.5, 1.0, 2.0, 5.0, 10.0, 20.0, 40.0, 60.0, 80.0]}
    # sessions of two DNA convenience models (every ordered pair of the four public names), built for different and
    # for equal temperatures, both observed after the second one exists
    for c1 in sorted(DNA_CTORS):
        for c2 in sorted(DNA_CTORS):
            for t1, t2 in ((20.0, 37.0), (24.53608821, 30.0), (30.0, 30.0)):
                for n1, n2 in (("m", "m"), ("m", "n")) if (t1, t2) == (20.0, 37.0) else (("m", "n"),):
                    yield {"stream": "small-scope", "op": "dnaseq", "xs": [0.05, 1.0, 25.0], "steps": [
                        {"ctor": c1, "name": n1, "kbp": 10.0, "um": DNA_CTORS[c1], "temp": t1},
                        {"ctor": c2, "name": n2, "kbp": 5.0, "um": DNA_CTORS[c2], "temp": t2}]}


def plain_eval_base(e, params, xs):
    """value of a base constructor by the published relation (used only to choose targets of inversions)"""
    kind = base_kind(e)
    a = args_of(e, params)
    out = []
    for x in xs:
        if kind in ("ewlc_odijk_distance", "efjc_distance", "twlc_distance"):
            out.append(forward_plain(kind, x, a))
        elif kind == "wlc_marko_siggia_force":
            out.append(P_ms_f(x, *a))
        elif kind == "ewlc_odijk_force":
            out.append(bisect_plain(lambda F: P_odijk_d(F, *a), 1e-9, 1e5, x))
        elif kind == "wlc_marko_siggia_distance":
            out.append(bisect_plain(lambda d: P_ms_f(d, *a), 0.0, a[1] * (1 - 1e-12), x))
        elif kind == "ewlc_marko_siggia_distance":
            # d on the curve for force x: solve phi(y) = x Lp/kT, d = Lc (1 - y + x/St)
            Lp, Lc, St, kT = a
            phi = lambda y: 0.25 / (y * y) - 0.25 + 1.0 - y  # noqa: E731
            y = bisect_plain(lambda y_: -phi(y_), 1e-9, 1.0, -x * Lp / kT)
            out.append(Lc * (1.0 - y + x / St))
        elif kind == "ewlc_marko_siggia_force":
            Lp, Lc, St, kT = a
            out.append(bisect_plain(lambda F: -P_ems_residual(F, x, *a), 1e-9, 1e5, 0.0))
        elif kind == "efjc_force":
            out.append(bisect_plain(lambda F: P_efjc_d(F, *a), 1e-9, 1e5, x))
        elif kind == "twlc_force":
            out.append(bisect_plain(lambda F: P_twlc_d(F, *a), 1e-9, 0.999 * twlc_fmax(a[2], a[3], a[4], a[5]), x))
        else:
            out.append(float("nan"))
    return out


def inv_limits(e0, p, xs0, interp):
    """limits of an inversion: contain the inputs the targets came from and the initial guess 1.0"""
    kind = base_kind(e0)
    if kind == "twlc_distance":  # increasing only below f_max
        a = args_of(e0, p)
        return 0.0, 0.999 * twlc_fmax(a[2], a[3], a[4], a[5])
    if KINDS[kind][2] == "f":
        lo, hi = 0.0, (max(max(xs0) * 1.25, 2.0) if interp else INF)
    else:
        Lc = p[f"{e0[2]}/Lc"]
        # the inextensible Marko-Siggia force is increasing only below the contour length; for Lc < ~1 um
        # these limits exclude the initial guess 1.0 (finding F19)
        lo, hi = 0.0, min(Lc * 0.995, max(max(xs0) * 1.05, 1.0 + 1e-9))
        if kind in ("ewlc_odijk_force", "ewlc_marko_siggia_force", "efjc_force", "twlc_force"):
            hi = max(max(xs0) * 1.05, 1.0 + 1e-9)
            # Odijk-type curves assign a NEGATIVE extension to forces below kT/(4 Lp) (0.03 .. 0.15 pN in the box)
            lo = min(0.0, min(xs0) - 0.05 * abs(min(xs0)) - 1e-3)
    return lo, hi


def knots_resolve(kind, a, xs):
    """does the 0.01 um knot grid of the interpolating inversion resolve force model `kind` at the distances xs: the force
    changes by at most a quarter from one knot to the next at every point (see ASSUMPTIONS)"""
    for x in xs:
        try:
            f0, f1 = plain_forward(kind, a, x), plain_forward(kind, a, x + SPLINE_DX)
        except ZeroDivisionError:
            return False
        if not (math.isfinite(f0) and math.isfinite(f1) and abs(f1 - f0) <= 0.25 * abs(f0)):
            return False
    return True


INV_SHAPES = [  # (shape of the expression handed to Model.invert(), weight)
    ("plain", 0.25), ("add", 0.15), ("off", 0.25), ("off_add", 0.08), ("add_off", 0.08), ("off_off", 0.04),
    ("sum", 0.08), ("sum_off", 0.07),
]
INV_KINDS = [k for k in sorted(KINDS) if k not in SOLVER_KINDS and not k.endswith("offset")]
INV_KINDS_F = [k for k in INV_KINDS if KINDS[k][2] == "f"]


def off_names(e):
    """names of the offsets of the subtract_independent_offset nodes of e, outermost first"""
    t = e[0]
    if t == "off":
        return [p_offset_name(e[1])] + off_names(e[1])
    if t == "add":
        return off_names(e[1]) + off_names(e[2])
    return []


def inversion_case(sub, k, shape, interp, stream, default_only=False, shifts=None, k2=None, n=None, include_low=False,
                   info=None, dense=False, ramp_at=None, **kw):
    """Model.invert() of a solver-free increasing expression around constructor k: the constructor itself, plus an
    offset model, wrapped in subtract_independent_offset (once, twice, inside or outside a composite), or the sum of
    two distance models.  The requested values are the ones the published relations assign to inputs of the property's
    range; the inversion limits are those of the bare constructor moved along with the offset."""
    unit = KINDS[k][2]
    if unit != "f" and shape.startswith("sum"):
        shape = "off" if shape == "sum_off" else "plain"
    parts = [["b", k, "m"]]
    if shape.startswith("sum"):
        parts.append(["b", k2, "n"])
    core = parts[0] if len(parts) == 1 else ["add", parts[0], parts[1]]
    offm = ["b", "distance_offset" if unit == "f" else "force_offset", "o"]
    inner = {
        "plain": core, "sum": core, "add": ["add", core, offm], "off": ["off", core], "sum_off": ["off", core],
        "off_add": ["add", ["off", core], offm], "add_off": ["off", ["add", core, offm]], "off_off": ["off", ["off", core]],
    }[shape]
    p = draw_params(sub, inner, default_only)
    onames = off_names(inner)
    for nm, o_ in zip(onames, shifts or []):
        p[nm] = float(o_)
    o = sum(p[nm] for nm in onames)  # the core sees x - o
    a_list = [args_of(x, p) for x in parts]
    n = n or sub.randint(1, 5)
    Fs = forces_for(sub, k, a_list[0], n)
    if include_low:
        Fs[0] = 0.05
    if unit == "f":
        # both the force handed to the model (x) and the force its equation is evaluated at (x - o) lie in the
        # property's range 0.05 pN .. 80% of the validity limit
        cap = min(0.8 * validity_limit(base_kind(x), a) for x, a in zip(parts, a_list)) - abs(o)
        if cap <= 0.05:
            return None
        us = sorted(min(u, cap) for u in Fs)
        xs_in = [u + max(-o, 0.0) for u in us]
    else:
        xs_in = [curve_point(k, F, a_list[0])[1] for F in Fs]
    if ramp_at is not None:
        # a densely and evenly sampled stretch of the curve (unit f only): `ramp_at` = (first force the equation sees,
        # spacing, number of points); the forces handed to the model are these moved by the offset
        xs_in = ramp(*ramp_at)
    elif dense:
        # runs of points closer to each other than the knot spacing of the spline, in the variable the inversion solves
        # for (they lie between valid points of the range, so they are valid points of the range)
        xs_in = densify(sub, xs_in)
    if interp and unit == "d" and max(xs_in) - min(xs_in) < 1.0:
        # the spline grid has a FIXED step of 0.01 in the independent variable of the parent (here: um);
        # with fewer than ~100 knots over the data the interpolant is coarse by construction (see ASSUMPTIONS)
        interp = False
    if interp and unit == "d" and not knots_resolve(k, a_list[0], xs_in):
        # ... and where the force changes by more than a quarter from one knot to the next (close to the contour length
        # of a short tether) it is coarse as well (see ASSUMPTIONS); such data goes to least squares
        interp = False
    ys = [0.0] * len(xs_in)
    lo, hi = -math.inf, math.inf
    for x in parts:
        ys = [y + v for y, v in zip(ys, plain_eval_base(x, p, xs_in))]
        l_, h_ = inv_limits(x, p, xs_in, interp)
        lo, hi = max(lo, fl(l_)), min(hi, fl(h_))
    if "add" in shape:
        ys = [y + p[f"o/{'d' if unit == 'f' else 'f'}_offset"] for y in ys]
    if not all(math.isfinite(y) for y in ys):
        return None
    lo2, hi2 = lo + o, (INF if math.isinf(hi) else hi + o)
    if unit == "f" and lo2 >= 1.0:
        # Model.invert() starts SciPy from the hard-coded guess 1.0 clipped into the limits: with a lower limit >= 1 it
        # would start ON the limit, and at x - o = 0 the distance models are singular (see ASSUMPTIONS)
        lo2 = o + 0.04
    if info is not None:
        info.update(xs_in=list(xs_in), unit=unit)
    if dense or ramp_at is not None:
        kw["dense"] = True
    return chain_case(["inv", inner, lo2, hi2, interp], p, reorder(sub, ys), stream, True, **kw)


# ------------------------------------------------------------------ densely sampled curves (interpolating inversion)


def dense_base_case(sub, k, stream, default_only=False, n=None, ramp_at=None, **kw):
    """twlc_force (built on the interpolating inversion) / twlc_distance (whose round trip goes through it) on a vector
    with runs of points closer together, in force, than the knot spacing of the spline, or on an evenly sampled ramp"""
    e = ["b", k, kw.pop("name", "m")]
    p = draw_params(sub, e, default_only)
    if ramp_at is not None:
        a = args_of(e, p)
        Fs = ramp(*ramp_at)
        xs = reorder(sub, Fs if KINDS[k][2] == "f" else [curve_point(k, F, a)[1] for F in Fs])
    else:
        xs = base_inputs(sub, e, p, n or sub.randint(4, 8), dense=True)
    return chain_case(e, p, xs, stream, True, dense=True, **kw)


def dense_small_scope(r):
    """default parameters: every constructor that goes through the interpolating inversion (twlc_force; twlc_distance for
    the round trip; Model.invert(interpolate=True) of every solver-free constructor, bare and as an offset model) on a
    vector with runs of close points at both ends of the data, and the ones that solve for a force also on evenly
    sampled ramps (3 fN spacing, 41 points) that start at 0.5, 5 and 25 pN"""
    for k in ("twlc_force", "twlc_distance"):
        yield dense_base_case(r.fork("b" + k), k, "small-scope", default_only=True, n=6)
        for F0 in (0.5, 5.0, 25.0):
            yield dense_base_case(r.fork(f"ramp{k}{F0}"), k, "small-scope", default_only=True, ramp_at=(F0, 0.003, 41))
    for k in INV_KINDS:
        for shape, sh in (("plain", None), ("off", [0.05])):
            c = inversion_case(r.fork(f"inv{k}{shape}"), k, shape, True, "small-scope", default_only=True, shifts=sh, n=6,
                               dense=True)
            if c is not None:
                yield c
        if KINDS[k][2] == "f":
            for F0 in (0.5, 5.0, 25.0):
                c = inversion_case(r.fork(f"ramp{k}{F0}"), k, "plain", True, "small-scope", default_only=True, n=2,
                                   ramp_at=(F0, 0.003, 41))
                if c is not None:
                    yield c


def dense_random(r, count):
    for i in range(count):
        sub = r.fork(i)
        if sub.chance(0.35):
            yield dense_base_case(sub, "twlc_force" if sub.chance(0.7) else "twlc_distance", "random",
                                  name=sub.choice(["DNA", "m", "x1"]), subseed=i)
            continue
        k = sub.choice(INV_KINDS)
        shape = sub.choice(["plain", "plain", "off", "add", "sum", "off_add"])
        c = inversion_case(sub, k, shape, True, "random", k2=sub.choice(INV_KINDS_F), n=sub.randint(4, 8), dense=True,
                           subseed=i)
        if c is not None:
            yield c


# ------------------------------------------------------------------ the anchored private inversion efjc_solve_force


def solve_case(sub, stream, default_only=False, n=None, bad=False, **kw):
    """efjc_solve_force on the distances the published eFJC equation assigns to forces of the property's range
    (parameters from the ssDNA box); bad: one of Lp, Lc, St, kT is zero or negative (ValueError is promised)"""
    a = [draw_param(sub, "efjc_force", x, default_only) for x in A4]
    Fs = forces_for(sub, "efjc_force", a, n or sub.randint(1, 5))
    xs = reorder(sub, [P_efjc_d(F, *a) for F in Fs])
    if bad:
        j = sub.randint(0, 3)
        a[j] = sub.choice([0.0, -1.0, -a[j]])
    c = {"stream": "malformed" if bad else stream, "op": "solve", "fn": "efjc_solve_force", "args": [float(v) for v in a],
         "xs": [float(x) for x in xs], "valid": not bad}
    c.update(kw)
    return c


# ------------------------------------------------------------------ sessions: many queries to one model object

SESSION_SHAPES = [("b", 0.6), ("off", 0.15), ("add", 0.1), ("inv", 0.15)]
SESSION_KINDS = [k for k in sorted(KINDS) if not k.endswith("offset")]


def in_box(kind, a, us):
    """do the inputs `us` of base constructor `kind` (argument list a) lie in the property's range: forces, or the forces
    the published relation assigns to the distances, within 0.05 pN .. 80% of the validity limit?"""
    lim = 0.8 * validity_limit(kind, a)
    if KINDS[kind][2] == "f":
        return all(0.05 <= u <= lim for u in us)
    e = ["b", kind, "m"]
    P = {("kT" if n == "kT" else f"m/{n}"): v for n, v in zip(KINDS[kind][1], a)}
    if kind.startswith("wlc") and not all(u < a[1] * (1 - 1e-6) for u in us):
        return False
    try:
        Fs = plain_eval_base(e, P, us)
    except (ValueError, ZeroDivisionError, OverflowError):
        return False
    return all(math.isfinite(F) and 0.05 <= F <= lim for F in Fs)


def session_script(sub, n, nv, two_params, length):
    """a random sequence of queries; the buffer is overwritten in place at least once after it was asked for"""
    menu = [("set", 0.3), ("eval", 0.1), ("blocks", 0.22), ("fresh", 0.1), ("list", 0.1), ("other", 0.06)]
    if two_params:
        menu.append(("params", 0.12))
    tot = sum(w for _, w in menu)
    steps, cur, w_now = [["eval"] if sub.chance(0.5) else ["set", 0]], 0, 0
    while len(steps) < length:
        t = sub.uniform(0.0, tot)
        for what, w in menu:
            if t < w:
                break
            t -= w
        if what == "set":
            cur = sub.choice([j for j in range(nv) if j != cur] or [cur])
            steps.append(["set", cur])
        elif what in ("fresh", "list"):
            steps.append([what, sub.randint(0, nv - 1)])
        elif what == "blocks":
            steps.append(["blocks", max(1, min(n, sub.choice([max(1, n // 6), 2, 3, 4, n // 2, n - 1])))])
        elif what == "params":
            w_now = 1 - w_now
            steps.append(["params", w_now])
        else:
            steps.append([what])
    if nv > 1 and not any(st[0] == "set" and i > 0 for i, st in enumerate(steps)):
        steps.insert(1, ["set", 1])
    return steps


def session_case(sub, k, shape, stream, default_only=False, n=None, nv=None, steps=None, interp=False, shift=None,
                 want_params2=None, name="m", **kw):
    """a session on ONE model object around constructor k: the constructor itself, its offset model, the constructor
    plus an offset model, or its generic inverse (solver-free constructors only).  Every vector of the session holds
    valid inputs of the property's range (for both parameter sets when there are two)."""
    kind = ALIASES.get(k, k)
    if shape == "inv" and (kind in SOLVER_KINDS):
        shape = "b"
    slow = kind in SOLVER_KINDS or shape == "inv"
    n = n or (sub.randint(4, 10) if slow else sub.randint(4, 24))
    nv = nv or sub.randint(2, 3)
    if shape == "inv":
        info = {}
        c = inversion_case(sub, kind, "plain", interp, stream, default_only=default_only, n=n * nv, info=info)
        if c is None:
            return None
        ys = c["xs"]
        vecs = [ys[j::nv] for j in range(nv)]
        e, p, p2 = c["expr"], c["params"], None
    else:
        b = ["b", k, name]
        unit = KINDS[kind][2]
        e = {"b": b, "off": ["off", b], "add": ["add", b, ["b", "distance_offset" if unit == "f" else "force_offset", "o"]]}[shape]
        p = draw_params(sub, e, default_only)
        if shape == "off" and shift is not None:
            p[p_offset_name(b)] = float(shift)
        two = sub.chance(0.5) if want_params2 is None else want_params2
        a = args_of(b, p)
        lim = 0.8 * validity_limit(kind, a)
        vecs_u = []
        for _ in range(nv):
            if two:  # a margin to the ends of the range: the same inputs have to be valid for the second parameter set
                Fs = reorder(sub, sorted(sub.loguniform(0.07, 0.7 * lim / 0.8) for _ in range(n)))
                vecs_u.append(Fs if unit == "f" else [curve_point(kind, F, a)[1] for F in Fs])
            else:
                vecs_u.append(base_inputs(sub, b, p, n))
        p2 = None
        if two:
            for _ in range(4):
                q = dict(p)
                nm = sub.choice([x for x in p_names(b)])
                q[nm] = p[nm] * (sub.uniform(0.95, 0.99) if sub.chance(0.5) else sub.uniform(1.01, 1.05))
                if in_box(kind, args_of(b, q), [u for v in vecs_u for u in v]):
                    p2 = q
                    break
        o = p[p_offset_name(b)] if shape == "off" else 0.0
        vecs = [[u + o for u in v] for v in vecs_u]
    steps = steps or session_script(sub, n, nv, p2 is not None, sub.randint(3, 8))
    if p2 is None:
        steps = [st for st in steps if st[0] != "params"] or [["eval"]]
    c = {"stream": stream, "op": "session", "expr": e, "params": {k_: float(v) for k_, v in p.items()},
         "params2": None if p2 is None else {k_: float(v) for k_, v in p2.items()},
         "vecs": [[float(x) for x in v] for v in vecs], "steps": steps, "valid": True}
    c.update(kw)
    return c


def session_small_scope(r):
    """every constructor (and deprecated alias) at the default parameters through one fixed script that contains every
    kind of query; its offset model and (solver-free constructors) its generic inverse of both flavours through a
    shorter one"""
    full = [["eval"], ["set", 1], ["eval"], ["blocks", 3], ["set", 2], ["fresh", 0], ["list", 1], ["params", 1],
            ["set", 0], ["params", 0], ["blocks", 4], ["other"], ["set", 1]]
    short = [["eval"], ["set", 1], ["blocks", 4], ["set", 0], ["fresh", 1]]
    for k in SESSION_KINDS + sorted(ALIASES):
        kind = ALIASES.get(k, k)
        if k in ALIASES and kind not in SOLVER_KINDS:
            continue  # the aliases forward to the same function; only the slow inversions are repeated through them
        c = session_case(r.fork("full" + k), k, "b", "small-scope", default_only=True, n=6 if kind in SOLVER_KINDS else 10,
                         nv=3, steps=full, want_params2=True)
        if c is not None:
            yield c
    for k in SESSION_KINDS:
        for sh in (-1.0, 0.05):
            c = session_case(r.fork(f"off{k}{sh}"), k, "off", "small-scope", default_only=True, n=6, nv=2, steps=short,
                             shift=sh, want_params2=False)
            if c is not None:
                yield c
        if k in SOLVER_KINDS:
            continue
        for interp in (False, True):
            c = session_case(r.fork(f"inv{k}{interp}"), k, "inv", "small-scope", default_only=True, n=6, nv=2,
                             steps=short, interp=interp)
            if c is not None:
                yield c


def session_random(r, count):
    for i in range(count):
        sub = r.fork(i)
        k = sub.choice(SESSION_KINDS)
        if sub.chance(0.08):
            al = [a for a, t in ALIASES.items() if t == k]
            k = al[0] if al else k
        t, shape = sub.random(), SESSION_SHAPES[-1][0]
        for nm, w in SESSION_SHAPES:
            if t < w:
                shape = nm
                break
            t -= w
        c = session_case(sub, k, shape, "random", interp=sub.chance(0.5), name=sub.choice(["DNA", "m", "x1"]), subseed=i)
        if c is not None:
            yield c


def cases(tier, rng):
    quick = tier == "quick"
    yield from corpus_cases()
    yield from small_scope(rng, quick)

    # ---- sessions: sequences of queries to one model object (in-place updates, slices, repeated / changed parameters)
    yield from session_small_scope(rng.fork("c12-session-small"))
    yield from session_random(rng.fork("c12-session"), 150 if quick else 2500)

    # ---- (a) calc_cubic_root
    r = rng.fork("c12-cubic")
    for i in range(5000 if quick else 120000):
        yield gen_cubic(r.fork(i), i)

    # ---- (b) chains: base constructors with round trip
    r = rng.fork("c12-pairs")
    kinds = [k for k in sorted(KINDS) if not k.endswith("offset")]
    for i in range(2000 if quick else 30000):
        sub = r.fork(i)
        k = sub.choice(kinds)
        if k in SOLVER_KINDS or PARTNER[k] in SOLVER_KINDS:
            if sub.chance(0.6):  # SciPy inversions are slow: fewer of them
                k = sub.choice([x for x in kinds if x not in SOLVER_KINDS and PARTNER[x] not in SOLVER_KINDS])
        if sub.chance(0.08):
            al = [a for a, t in ALIASES.items() if t == k]
            name = al[0] if al else k
        else:
            name = k
        e = ["b", name, sub.choice(["DNA", "m", "x1"])]
        p = draw_params(sub, e)
        n = sub.randint(1, 8) if k not in SOLVER_KINDS and PARTNER[k] not in SOLVER_KINDS else sub.randint(1, 5)
        if k == "twlc_force" or PARTNER[k] == "twlc_force":
            n = sub.randint(1, 6)
        xs = base_inputs(sub, e, p, n)
        yield chain_case(e, p, xs, "random", True, subseed=i)

    # ---- composite / offset expressions (solver-free: compared at ~1e-13)
    r = rng.fork("c12-expr")
    for i in range(1500 if quick else 20000):
        sub = r.fork(i)
        indep = sub.choice(["f", "d"])
        names = sub.sample(["A", "B", "C", "DNA"], sub.randint(1, 3))
        e = None
        while e is None or e[0] == "b":
            e = random_expr(sub, indep, sub.randint(1, 3), names)
        if uses_solver(e) and sub.chance(0.8):
            continue
        p = draw_params(sub, e)
        xs = monotone_sample(sub, e, p, sub.randint(0 if not uses_solver(e) else 1, 5))
        yield {"stream": "random", "op": "names", "expr": e, "subseed": i}
        yield chain_case(e, p, xs, "random", False, subseed=i)

    # ---- generic inversion, with and without interpolation, of constructors, composites and offset models
    r = rng.fork("c12-invert")
    for i in range(300 if quick else 5000):
        sub = r.fork(i)
        k = sub.choice(INV_KINDS)
        t, shape = sub.random(), INV_SHAPES[-1][0]
        for nm, w in INV_SHAPES:
            if t < w:
                shape = nm
                break
            t -= w
        c = inversion_case(sub, k, shape, sub.chance(0.5), "random", k2=sub.choice(INV_KINDS_F), subseed=i)
        if c is not None:
            yield c

    # ---- (w) densely sampled curves through the interpolating inversion
    yield from dense_random(rng.fork("c12-dense"), 150 if quick else 1500)

    # ---- (w') the anchored private efjc_solve_force, asked directly
    r = rng.fork("c12-solve")
    for i in range(60 if quick else 600):
        sub = r.fork(i)
        yield solve_case(sub, "random", bad=sub.chance(0.15), subseed=i)

    # ---- (a'') calc_cubic_root on arrays whose rows take different branches
    r = rng.fork("c12-cubicvec")
    for i in range(300 if quick else 6000):
        sub = r.fork(i)
        rows = [gen_cubic(sub.fork(j), j)["abc"] for j in range(sub.randint(1, 12))]
        yield {"stream": "random", "op": "cubicvec", "rows": rows, "k": sub.choice([0, 1, 1, 2, 2]) if not sub.chance(0.02) else 3,
               "subseed": i}

    # ---- (a') elastic shift between the two Marko-Siggia distance models (theorem ems_distance_is_shifted_ms)
    r = rng.fork("c12-shift")
    for i in range(300 if quick else 6000):
        sub = r.fork(i)
        args = [draw_param(sub, "ewlc_marko_siggia_distance", x) for x in A4]
        xs = reorder(sub, forces_for(sub, "wlc_marko_siggia_distance", [args[0], args[1], args[3]], sub.randint(1, 8)))
        yield {"stream": "random", "op": "shift", "args": [float(t) for t in args], "xs": [float(x) for x in xs], "subseed": i}

    # ---- (c) DNA parametrisations
    r = rng.fork("c12-dna")
    lk_names = [("dsdna_ewlc_odijk_distance", 0.34), ("ssdna_efjc_distance", 0.56), ("dsdna_odijk", 0.34), ("ssdna_fjc", 0.56)]
    for i in range(100 if quick else 1500):
        sub = r.fork(i)
        ctor, um0 = sub.choice(lk_names)
        kbp = sub.choice([0.5, 1.0, 8.0, 48.502, float(sub.randint(1, 60)), sub.uniform(0.9, 60.0)])
        um = um0 if sub.chance(0.5) else sub.uniform(0.2, 0.7)
        temp = 24.53608821 if sub.chance(0.3) else sub.uniform(-5.0, 60.0)
        lim = 0.8 * (750.0 if "jc" in ctor else 1200.0)
        xs = reorder(sub, sorted(sub.loguniform(0.05, lim) for _ in range(sub.randint(1, 4))))
        yield {"stream": "random", "op": "dna", "ctor": ctor, "kbp": float(kbp), "um": float(um), "temp": float(temp),
               "xs": xs, "subseed": i}

    # ---- (c') sessions: several models built one after the other, every DNA model observed after the last one
    r = rng.fork("c12-dnaseq")
    generic = [k for k in sorted(KINDS) if not k.endswith("offset")]
    for i in range(150 if quick else 2000):
        sub = r.fork(i)
        steps = []
        for j in range(sub.randint(2, 4)):
            nm = sub.choice(["m", "DNA", f"m{j}"])
            if j > 0 and sub.chance(0.25):
                steps.append({"ctor": sub.choice(generic), "name": nm})
                continue
            steps.append(dna_step(sub, nm, steps))
        if not any(st["ctor"] in DNA_CTORS for st in steps[:-1]):
            steps.append(dna_step(sub, "last", steps))
        xs = sorted(sub.loguniform(0.05, 600.0) for _ in range(sub.randint(1, 3)))
        if sub.chance(0.2):
            xs[0] = 0.05
        yield {"stream": "random", "op": "dnaseq", "steps": steps, "xs": xs, "subseed": i}

    # ---- (d) malformed stream
    r = rng.fork("c12-malformed")
    for i in range(600 if quick else 6000):
        sub = r.fork(i)
        k = sub.choice(kinds)
        e = ["b", k, "m"]
        p = draw_params(sub, e)
        xs = base_inputs(sub, e, p, sub.randint(1, 3))
        m = sub.randint(0, 9)
        kw = {}
        if m == 9:
            # a non-positive parameter in ONE part of a composite / offset / inverted model (theorem validation_by_name):
            # the model must raise ValueError whichever part owns the parameter
            if k in SOLVER_KINDS:
                k = sub.choice([x for x in kinds if x not in SOLVER_KINDS])
                e = ["b", k, "m"]
            mates = [x for x in sorted(KINDS) if KINDS[x][2] == KINDS[k][2] and x not in SOLVER_KINDS]
            e2 = ["b", sub.choice(mates), sub.choice(["m", "n"])]
            shape = sub.choice(["add-l", "add-r", "off", "off-add", "inv"])
            full = {"add-l": ["add", e, e2], "add-r": ["add", e2, e], "off": ["off", e], "off-add": ["off", ["add", e2, e]],
                    "inv": ["inv", e, 0.0, 1.0e3, False]}[shape]
            p = draw_params(sub, full)
            xs = base_inputs(sub, e, {n: v for n, v in p.items()}, sub.randint(1, 3))
            own = [n for n in p_names(e) if n.split("/")[-1] in ("Lp", "Lc", "St", "kT")]
            bad = sub.choice(own)
            p[bad] = sub.choice([0.0, -1.0, -p[bad]])
            yield chain_case(full, p, xs, "malformed", False, subseed=i, bad_part=shape)
            continue
        if k in SOLVER_KINDS and m in (4, 5, 6, 8):
            m = 0  # SciPy's reaction to NaN / out-of-range targets is not part of the property
        if m == 0:
            bad = sub.choice([n for n in p if n.split("/")[-1] in ("Lp", "Lc", "St", "kT")])
            p[bad] = sub.choice([0.0, -1.0, -p[bad]])
        elif m == 1:
            del p[sub.choice(sorted(p))]
        elif m == 2:
            kw["ndim2"] = True
        elif m == 3:
            other = sub.choice([x for x in sorted(KINDS) if KINDS[x][2] != KINDS[k][2]])
            e2 = ["b", other, "n"]
            p.update(draw_params(sub, e2))
            e = ["add", e, e2] if sub.chance(0.5) else ["add", e2, e]
        elif m == 4:
            xs = [sub.choice([0.0, -1.0, -xs[0]])] + xs[1:]
        elif m == 5 and KINDS[k][2] == "d":
            Lc = p["m/Lc"]
            xs = [Lc * sub.choice([1.0, 1.0 + 1e-9, 1.5, 3.0])] + xs[1:]
        elif m == 6:
            xs = [float("nan")] + xs[1:]
        elif m == 7:
            lo, hi = sub.choice([(0.0, INF), ("-inf", 50.0), ("-inf", INF)])
            e = ["inv", e, lo, hi, True]
        else:
            xs = []
            if k in SOLVER_KINDS:
                continue
        c = chain_case(e, p, xs if m != 6 else xs, "malformed", False, subseed=i, **kw)
        yield c


def extra_coverage(results):
    kinds, errs, roots = {}, {}, {}
    branches = {"C": 0, "T": 0}
    cubic_br = {"C": 0, "T": 0}
    rel = []
    dropped = compared = 0
    solver_cases = 0
    inv_shapes, sessions = {}, {"sessions": 0, "with_two_different_temperatures": 0, "dna_models_observed": 0}
    direct = {"reached_by": _SOLVER.get("how", "not asked for"), "direct_observations": 0, "unreachable_observations": 0,
              "cases_also_through_the_public_constructor": 0}
    msess = {"sessions": 0, "queries": 0, "with_two_parameter_sets": 0, "by_query_kind": {}, "by_expression": {},
             "through_scipy_solver": 0, "queries_after_in_place_overwrite_of_the_same_buffer": 0}
    by_ctor = {}   # closed-form constructor -> branch of calc_cubic_root -> [values, of which inside the relation's domain]
    small_cubic = {"three distinct real roots": 0, "repeated root (det = 0 up to rounding)": 0, "one real root": 0}
    shift = {"cases": 0, "forces": 0, "det>=0 (Cardano)": 0, "det<0 (trigonometric)": 0}
    guards = {"efjc_distance: cosh/sinh": 0, "efjc_distance: coth guard |x| >= 500 (value 1.0)": 0,
              "efjc_distance: argument exactly 500 or one ulp from it": 0,
              "twlc_distance: f < Fc": 0, "twlc_distance: f == Fc": 0, "twlc_distance: f > Fc": 0}
    vec = {"arrays": 0, "rows": 0, "arrays_with_both_branches": 0, "by_length": {}, "small_scope_mask_patterns": set()}
    orders = {"ascending": 0, "descending": 0, "unordered": 0, "fewer than 2 distinct points": 0}
    dense = {"cases": 0, "vectors_with_two_or_more_points_within_one_knot_spacing_below_the_maximum": 0,
             "through_twlc_force_or_the_twlc_round_trip": 0, "through_Model.invert(interpolate=True)": 0}
    private_solve = {"direct_observations": 0, "unreachable_observations": 0}
    for r in results:
        c = r["case"]
        kinds[c["op"]] = kinds.get(c["op"], 0) + 1
        if c["op"] == "solve":
            private_solve["unreachable_observations" if r["impl"][0] == "?" else "direct_observations"] += 1
        if c["op"] in ("chain", "solve", "shift") and not c.get("ndim2"):
            v = c["xs"]
            if len(set(v)) < 2:
                orders["fewer than 2 distinct points"] += 1
            elif all(x <= y for x, y in zip(v, v[1:])):
                orders["ascending"] += 1
            elif all(x >= y for x, y in zip(v, v[1:])):
                orders["descending"] += 1
            else:
                orders["unordered"] += 1
        if c["op"] == "chain" and c.get("dense"):
            dense["cases"] += 1
            e_ = c["expr"]
            dense["through_twlc_force_or_the_twlc_round_trip"] += e_[0] == "b"
            dense["through_Model.invert(interpolate=True)"] += e_[0] == "inv" and bool(e_[4])
            got_ = dec_vals(r["impl"][0]) if r["impl"] else None
            # the variable the inversion solves for: the answer of an inversion, the input of twlc_distance
            v = got_ if (e_[0] == "inv" or base_kind(e_) == "twlc_force") else c["xs"]
            if v and all(math.isfinite(t) for t in v):
                top = max(v)
                dense["vectors_with_two_or_more_points_within_one_knot_spacing_below_the_maximum"] += sum(
                    1 for t in v if top - SPLINE_DX < t < top) >= 2
        if c["op"] == "cubic" and "roots" in c and c["ks"] != [3]:
            ex = c["roots"]
            small_cubic["one real root" if len(ex) == 1 else "three distinct real roots" if len(set(ex)) == 3
                        else "repeated root (det = 0 up to rounding)"] += 1
        if c["op"] == "cubicvec" and r["model"] and r["model"][0].startswith("[") and r["impl"][0] != "?":
            brs = "".join(br for _, _, br in parse_model_list(r["model"][0]))
            vec["arrays"] += 1
            vec["rows"] += len(brs)
            vec["arrays_with_both_branches"] += ("C" in brs and "T" in brs)
            vec["by_length"][str(len(brs))] = vec["by_length"].get(str(len(brs)), 0) + 1
            if c["stream"] == "small-scope":
                vec["small_scope_mask_patterns"].add(brs)
        if c["op"] == "chain" and c["expr"][0] == "b" and c.get("valid") and base_kind(c["expr"]) in ("efjc_distance", "twlc_distance"):
            a_ = args_of(c["expr"], c["params"])
            for x in c["xs"]:
                if base_kind(c["expr"]) == "efjc_distance":
                    t = 2.0 * x * a_[0] / a_[3]
                    guards["efjc_distance: " + ("coth guard |x| >= 500 (value 1.0)" if not abs(t) < 500 else "cosh/sinh")] += 1
                    guards["efjc_distance: argument exactly 500 or one ulp from it"] += abs(t - 500.0) <= 2e-13
                else:
                    guards["twlc_distance: " + ("f < Fc" if x < a_[6] else "f == Fc" if x == a_[6] else "f > Fc")] += 1
        if c["op"] == "shift" and r["model"] and r["model"][0].startswith("["):
            shift["cases"] += 1
            shift["forces"] += len(c["xs"])
            for _, _, br in parse_model_list(r["model"][0]):
                shift["det>=0 (Cardano)" if br == "C" else "det<0 (trigonometric)"] += 1
        # where the value a closed-form inverse returned lies, per branch of the cubic (theorems *_selected_root):
        # the IMPLEMENTATION's value is classified, the branch is the model's
        probe = None
        if c["op"] == "chain" and c["expr"][0] == "b" and base_kind(c["expr"]) in CUBIC_KINDS and c.get("valid"):
            probe = (base_kind(c["expr"]), args_of(c["expr"], c["params"]), c["xs"], r["impl"][0], r["model"][0])
        if c["op"] == "shift":
            probe = ("wlc_marko_siggia_distance", [c["args"][0], c["args"][1], c["args"][3]], c["xs"], r["impl"][1], r["model"][1])
        if probe and probe[3].startswith("[") and probe[4].startswith("["):
            kind, a, xs_, got, mod = probe[0], probe[1], probe[2], dec_vals(probe[3]), parse_model_list(probe[4])
            for x, g, (_, _, br) in zip(xs_, got, mod):
                if kind == "wlc_marko_siggia_distance":
                    inside = 0.0 < g < a[1]
                elif kind == "ewlc_odijk_force":
                    inside = g > 0 and g >= (x / a[1] - 1.0) * a[2]
                else:
                    F, d = (g, x) if kind.endswith("force") else (x, g)
                    inside = 1.0 - d / a[1] + F / a[2] > 0
                slot = by_ctor.setdefault(kind, {}).setdefault("det>=0 (Cardano)" if br == "C" else "det<0 (trigonometric)", [0, 0])
                slot[0] += 1
                slot[1] += bool(inside)
        if c["op"] == "session":
            msess["sessions"] += 1
            msess["queries"] += len(c["steps"])
            msess["with_two_parameter_sets"] += c.get("params2") is not None
            msess["through_scipy_solver"] += uses_solver(c["expr"])
            ek = c["expr"][0] if c["expr"][0] != "b" else base_kind(c["expr"])
            msess["by_expression"][ek] = msess["by_expression"].get(ek, 0) + 1
            for i, st in enumerate(c["steps"]):
                msess["by_query_kind"][st[0]] = msess["by_query_kind"].get(st[0], 0) + 1
                msess["queries_after_in_place_overwrite_of_the_same_buffer"] += st[0] == "set" and i > 0
        if c["op"] == "dnaseq":
            temps = [st["temp"] for st in c["steps"] if st["ctor"] in DNA_CTORS]
            sessions["sessions"] += 1
            sessions["with_two_different_temperatures"] += len(set(temps)) > 1
            sessions["dna_models_observed"] += len(temps)
        if c["op"] == "chain" and c["expr"][0] == "inv" and c.get("valid"):
            inner = c["expr"][1]
            offs = [c["params"][n] for n in off_names(inner)]
            key = ("offset-model" if offs else "no-offset") + ("+composite" if inner[0] == "add" or (offs and any(
                x[0] == "add" for x in (inner, inner[1]) if isinstance(x, list))) else "")
            inv_shapes[key] = inv_shapes.get(key, 0) + 1
            if offs and sum(offs) <= -0.2:
                inv_shapes["offset<=-0.2"] = inv_shapes.get("offset<=-0.2", 0) + 1
            if offs and sum(offs) >= 0.2:
                inv_shapes["offset>=+0.2"] = inv_shapes.get("offset>=+0.2", 0) + 1
        if c["op"] == "chain":
            key = c["expr"][0] if c["expr"][0] != "b" else base_kind(c["expr"])
            roots[key] = roots.get(key, 0) + 1
            if uses_solver(c["expr"]) or (c["expr"][0] == "b" and PARTNER.get(base_kind(c["expr"])) in SOLVER_KINDS):
                solver_cases += 1
        for a in r["impl"]:
            if a.endswith("Error"):
                errs[a] = errs.get(a, 0) + 1
        if c["op"] == "cubic":
            direct["direct_observations"] += sum(1 for a in r["impl"][:len(c["ks"])] if a != "?")
            direct["unreachable_observations"] += sum(1 for a in r["impl"][:len(c["ks"])] if a == "?")
            direct["cases_also_through_the_public_constructor"] += "via" in c
        for ia, ma in zip(r["impl"], r["model"]):
            if ia == "?":
                continue
            if c["op"] == "cubic" and not ma.startswith("[") and ma.count(":") == 2:
                v, b, br = ma.split(":")
                cubic_br[br] = cubic_br.get(br, 0) + 1
                items = [(dec_float(v), dec_float(b), "")]
            elif ma.startswith("[") and ":" in ma:
                items = parse_model_list(ma)
            else:
                continue
            for v, b, br in items:
                for ch in br:
                    branches[ch] = branches.get(ch, 0) + 1
                if math.isfinite(v) and v != 0:
                    if not math.isfinite(b) or b > 1e-2 * abs(v):
                        dropped += 1
                    else:
                        compared += 1
                        rel.append(b / abs(v))
    if direct["unreachable_observations"] and not direct["direct_observations"]:
        print(f"NOTE property={PROP}: the private cubic solver (anchor calc_cubic_root) could not be reached in this tree; "
              f"{direct['unreachable_observations']} direct observations were skipped, the cubic is tied through the public "
              f"closed-form constructors only")
    rel.sort()
    q = lambda f: (rel[min(len(rel) - 1, int(f * len(rel)))] if rel else None)  # noqa: E731
    return {
        "case_kinds": kinds,
        "chain_roots": roots,
        "error_kinds": errs,
        "private_calc_cubic_root": direct,
        "private_calc_cubic_root_note": (
            "reached_by: path = known private module and name; name = same name in another lumicks.pylake module; watched = "
            "the function all four public closed-form inverses call with (a, b, c, root index), whatever its name (its "
            "reaction to a root index > 2 is then not observed); unreachable = no direct observation was possible, the "
            "cubic is tied only through the public constructors (cases_also_through_the_public_constructor and every "
            "chain / session case of the four closed-form inverses)"),
        "cubic_branch_split_calc_cubic_root": {"det>=0 (Cardano)": cubic_br.get("C", 0), "det<0 (trigonometric)": cubic_br.get("T", 0)},
        "selected_root_by_constructor_and_branch [values, inside the domain of the published relation]": by_ctor,
        "calc_cubic_root_small_scope_exhaustive": small_cubic,
        "guards_and_masks_of_the_explicit_models": guards,
        "marko_siggia_elastic_shift": shift,
        "calc_cubic_root_on_arrays": dict(vec, small_scope_mask_patterns=len(vec["small_scope_mask_patterns"]),
                                          small_scope_mask_patterns_possible=1 + 2 + 4 + 8),
        "cubic_branch_split_inside_models": {"det>=0 (Cardano)": branches.get("C", 0), "det<0 (trigonometric)": branches.get("T", 0)},
        "values_compared_within_model_error_bound": compared,
        "values_dropped_bound_undetermined (det~0 or >1e-2 relative)": dropped,
        "model_error_bound_relative_quantiles": {"median": q(0.5), "p90": q(0.9), "p99": q(0.99), "max": q(1.0)},
        "cases_through_scipy_solver": solver_cases,
        "generic_inversions_by_shape": inv_shapes,
        "dna_sessions": sessions,
        "order_of_the_input_vector (chain / shift / solve cases)": orders,
        "densely_sampled_curves": dense,
        "private_efjc_solve_force": private_solve,
        "model_sessions": msess,
        "exhaustive": False,
        "exhaustive_note": "the small-scope stream enumerates all ordered pairs of the 12 constructors (x equal/different names x bare/offset) completely at default parameters; parameter values and forces are sampled",
    }
