"""C19 — queries are pure: idempotent, order-independent and free of aliasing (DESIGN.md 6/C19).

A case is an object description plus a HISTORY of read-only queries and derivations.  Objects made by derivations
get the ids 1, 2, ... in history order (a failed / empty derivation leaves a dead id).  Three parties answer:

  implementation  the real pylake object, the whole history in order                       -> hist
  twin            for every step a FRESHLY constructed object, only the derivations that are ancestors of the
                  addressed object replayed, then only that step                            -> fresh
  model           the Lean state machine (lean/Verif/Model/C19.lean) on both programmes (ops c19.hist/c19.fresh);
                  it answers with PROVENANCE terms (which [start, stop) window a value was computed from, through
                  which derived-object factories) that this file evaluates on clean objects / in plain Python.

oracle: hist[k] == fresh[k] for every step (the property text), and in-place writes through every handed-out image /
timestamp array either raise or leave every later answer unchanged: every array a query of the history returns (colour
planes, the full colour image get_image("rgb"), timestamps) is written to right after its answer has been copied, and after
the history every array of every object is attacked again and all of them are asked once more (cf_alias).
"""
import copy as _copy
import json
import math

import numpy as np

import builders_confocal as bc
import c19_alias as al
import common
from common import errname

PROP = "C19"
THEOREMS = [
    "Verif.C19.cache_inv",
    "Verif.C19.cache_inv_repair",
    "Verif.C19.purity_untruncated",
    "Verif.C19.derive_preserves_source",
    "Verif.C19.reachable_good",
    "Verif.C19.sliceClosed",
    "Verif.C19.num_frames_idempotent",
    "Verif.C19.F5_witness",
    "Verif.C19.purity_after_repair_partial",
    "Verif.C19.repair_not_inherited_witness",
    "Verif.C19.alias_refines",
    "Verif.C19.alias_inv",
    "Verif.C19.alias_writes_invisible",
]

RULE = (
    "a case = object + history (<= 8 steps; addressed object = source, newest or any) of read-only queries and derivations. "
    "Kymographs/scans are built with the public lumicks.pylake.low_level.create_confocal_object (info wave, photon-count slices, "
    "Bluelake JSON; it calls the constructor Kymo/Scan(name, file proxy, start, stop, metadata) with the bounds of the info "
    "wave), the nominal [start, stop) then put on the brand-new object through its public attributes start/stop, from "
    "generated info waves (P<=4 pixels, <=5 lines / <=3 frames, 1-3 samples per pixel, lead-in, dead time): normal, photon "
    "streams that start before the scan, end early (shorter than the info wave), absent colours, nominal start inside the "
    "preceding sample, unfinished last frame, and TRUNCATED FIRST LINE (every photon stream starts 1..k samples after the "
    "nominal start, k up to the start of the second line; nominal start in the lead-in or in the middle of the first line). "
    "Queries: start, stop, infowave, pixel_time_seconds, line_time_seconds, get_image(red/green; the colour scopes: blue; the "
    "full-colour scopes: rgb), timestamps, "
    "line/frame_timestamp_ranges, shape, duration, num_frames, calibration/pixel-size/pixel-count block. Derivations: copy, "
    "calibrate_to_kbp, time slices, crop_by_distance, downsampled_by (time and position), flip, Scan[frame], Scan[a:b], "
    "Scan[a:b, y, x], crop_by_pixels, and derivations of derived objects. Exhaustive: every history of length <=2 (quick: "
    "plus a 12 % sample of length 3; thorough: all of length 3) over a reduced alphabet on fixed objects (normal, truncated, "
    "short stream, scan; thorough adds late-in-lead-in, sub-sample start, absent colour, truncated scan), plus on the same "
    "objects every history 'ask the source a, derive D, ask the derived object b' for all query pairs (a, b) and D in {time "
    "slice keeping exactly ONE scan line: first / each interior / last (open end); slice dropping the first line; whole "
    "slice; crop; copy; calibrate; downsample in time / position; flip | scan: frames 0:1, 1:2, frame -1, spatial crop, copy}, "
    "'derive, ask derived/source twice in either order', and slice-of-slice 'ask, slice, slice, ask' / 'slice, ask, slice, "
    "ask' over all pairs of those line slices (all kymographs have dead time between lines, so a one-line slice has a line "
    "time of its own). Random: 350/7000 confocal histories, 150/3000 confocal histories 'source asked 1-3 queries first, then "
    "derivations of the newest object (80 % of the time slices cut at scan-line starts: one line, last line, first line, a "
    "run of lines, bounds jittered by 1 ns / almost a sample) and queries that mostly repeat an earlier query on the newest "
    "object or an ancestor', 120/1500 histories on channels (numpy- and h5py-backed Continuous, TimeSeries), F,d curves, TIFF "
    "image stacks and track groups, and a malformed stream (out-of-range frame, empty slice, empty crop, slicing a processed "
    "kymograph) whose errors must repeat identically. DERIVED FROM DERIVED (small scope, both tiers): on a 4-pixel kymograph "
    "and a two-frame scan every pair (D1, D2) of derivations (crop keeping >= 2 rows, bin 2 pixels, bin 2 lines, flip, copy, "
    "calibrate, drop the first line | frames 0:1, 1:2, frame -1, spatial crop, frames + spatial crop, copy), D2 applied to the "
    "object D1 made, then for every query a: ask object 2 a, ask it a AGAIN, ask object 1 a, ask the source a, ask object 2 a "
    "(thorough: also every chain of three derivations, and the pairs on a truncated-first-line kymograph); random: 120/2500 "
    "histories that start with a chain of 2-3 such derivations (position factors 1-3, crops keeping at least half the rows) "
    "and then keep repeating one question (one time in five the calibration / pixel-size block) on the newest object, its "
    "ancestors and siblings. COLOURS THAT DIFFER (both tiers): a kymograph whose red / green / blue photon streams cover 2 / 3 "
    "/ 4 of 4 lines and a two-frame scan whose streams end at three different samples of the last frame - every history of "
    "length <= 2 (thorough: <= 3, sampled as above, two more kymographs: no red + unequal others, unequal ends + unequal early "
    "starts) over the queries that reconstruct from a photon stream (get_image red / green (thorough and random: blue too), "
    "timestamps, line / frame ranges, shape, duration) plus 'ask a, derive, ask b'; random: 120/2500 objects whose streams each end at their own sample "
    "(at least two different ends before the end of the info wave; the third complete, short, equally short or absent; each "
    "starting 0-2 samples before the scan), histories biased to those queries. "
    "FULL COLOUR IMAGE get_image('rgb') (both tiers): on a normal kymograph, a two-frame scan and the kymograph whose colours "
    "differ in extent (np.stack raises ValueError, every time), thorough also a truncated-first-line kymograph and a scan "
    "without green - every history of length <= 2 (+ the kept / sampled length 3) over {rgb, red, blue, shape} that asks rgb, "
    "'ask a, derive, ask b' for all pairs, the derived-from-derived chains with the question rgb; random: 100/2000 objects of "
    "every kind (two in five with colours that differ), histories biased to rgb and the planes it is made of. "
    "ROUND H (both tiers). SCANS THAT MISS WHOLE FRAMES (stored scan count 0; the photon streams stop more than a frame before "
    "the info wave, so num_frames / shape, counted on the info wave, and the reconstructed arrays disagree about the number of "
    "frames): a fixed 3-frame scan whose streams hold 2 frames (thorough: one whose colours each miss their own number of "
    "frames) - every history of length <= 2 over all queries and the derivations inside the frames every colour has, 'ask a, "
    "derive, ask b' and 'derive, ask the derived object a, ask the source b' for all pairs; random 40/800 scans of 2-4 frames "
    "whose streams end 1..frames-1 whole frames early (all colours alike, or each at its own frame, one complete / absent), "
    "histories biased to num_frames, shape, images, timestamps, frame ranges (a scan whose reconstruction is a single frame is "
    "only copied). OBJECTS FROM A FILE: 30/600 random objects built through lk.File.from_h5py(in-memory h5py file).kymos / .scans "
    "(Kymo/Scan.from_dataset: nominal range from the item's attributes, channels = lazily read datasets fetched anew on every "
    "access) and F,d curves through FdCurve.from_dataset. TRACK GROUPS THAT ARE WORKED ON: derivations with an EMPTY group as "
    "an operand (KymoTrackGroup([]) + g, g + empty, acc = empty; acc.extend(g); the empty group from the constructor, an empty "
    "slice, a filter nothing passes) and derived groups that are edited with the public in-place operations (extend by a group "
    "/ by one track, remove, filter) inside the step that makes them - for every derivation D and edit list E: [D+E, ask the "
    "source], [D, D+E, ask object 1, source, object 2], [first track, D of it + 'extend by the rest of the source' (+ a second "
    "edited D of that), ask every object]; random 60/1200 histories on random groups (a third of the derivations with an empty "
    "operand, two thirds followed by 1-3 edits taking tracks from any object of the history). "
    "Every step is compared with a freshly built twin (only the ancestor "
    "derivations replayed) and with the Lean state machine. Every array a query of the history hands out (colour plane, full "
    "colour image, timestamps) is written to in place (+= 1; NumPy refuses on read-only arrays) as soon as its answer has been "
    "copied, so every later step of the history would show a write that reached cached state; after the history every array "
    "every object hands out (red, green, blue, rgb, timestamps) is asked and copied, attacked with five in-place writes "
    "(asked again at once where something was written), and finally all of them are asked again and compared with the "
    "copies (a write through one array must not show in another array or object). The calibration / pixel-size block copies every value at the "
    "moment it is asked. BUFFER MODEL of clause 3 (c19_alias.py, ops c19.alias / c19.aliasSpec; both tiers): on fixed kymographs "
    "(3x2 and 2x1 pixels x lines; thorough: 4x3 too) every history of length <= 3 that ends with a request and every history of "
    "length 4 that ends with a request and contains a write attempt (thorough: every history of length 4 ending with a request) "
    "over {get_image red, timestamps, get_image rgb of every object; element write through every array handed out so far; copy, "
    "crop to rows 1.., bin 2 rows, flip of every object}; random: 400/8000 histories of 3-12 steps on random kymographs (2-6 "
    "pixels, 1-4 lines, photon streams starting 0-2 samples early) with all colours, writes at random elements, random crops "
    "and bin factors, calibrate_to_kbp, flips of processed kymographs, derivations of derived objects; the writes are really "
    "attempted on the real ndarrays, never-written twins answer each step alone. Non-trivial: >=2 steps with a query after "
    "the first step (buffer stream: a write attempt and a later request)."
)
TRUSTED = [
    "the model answers with provenance terms (which [start, stop) window a value was computed from, through which closures); "
    "their numeric meaning for images/timestamps is taken from a CLEAN pylake object constructed at that window (value "
    "semantics are C02/C03/C06's subject), for line/pixel time from the model's own arithmetic, for info-wave slices and "
    "frame counts from plain Python",
    "queries of object kinds without start-dependent state (channels, F,d curves, image stacks, track groups) are modelled as "
    "functions of the derivation path: for them the model tie coincides with the twin oracle",
    "cachetools.cachedmethod fetches the cache dict before calling the method (cachetools 5-7 behaviour)",
    "Kymo.shape / duration are modelled on the red image; when the colours' photon streams end at different samples and the red "
    "image of the asked (time-downsampled) kymograph has no columns, the column count comes from the next colour and is "
    "pinned by the twin oracle only (rows, line time and everything else stay tied to the model)",
    "no private module path is imported by this file (objects come from lumicks.pylake.low_level and the public classes of "
    "lumicks.pylake.channel / .fdcurve / .kymotracker.kymotrack / lumicks.pylake.ImageStack); private MEMBERS are touched in six "
    "places, each guarded at the point of access (`peek`: an AttributeError for an underscore name raised by the harness "
    "itself gives '?', which every comparison ignores; counted under private_members_unreachable in the evidence): (1) the "
    "pixel-count list, the calibration unit and the position offset inside the calibration / pixel-size block (the block's "
    "public values carry it); (2) the primary channel names of an F,d curve (the f / d queries show what they select); (3) the "
    "minimum observable duration of a track (also observed through the column the public KymoTrackGroup.save writes); (4) "
    "FdCurve._sliced_by_distance as a derivation (else the same run of samples cut out with the public time slicing); (5) "
    "kymo._kymo_from_array behind builders_tracks' array-backed kymographs (else a low-level kymograph carries the track group); "
    "(6) ConfocalImage._timestamps(reduce=min/max) on CLEAN objects when a provenance term needs per-pixel first / last sample "
    "timestamps (else they are rebuilt in plain Python from the description and accepted only if the mean rebuilt the same way "
    "equals the clean object's public `timestamps` element for element; no expectation otherwise - the twin oracle never "
    "depends on it)",
]
ASSUMPTIONS = [
    "info wave and photon counts share one sampling grid; constant samples per pixel",
    "a truncated photon stream starts no later than the second scan line (one repair reaches it); later starts make "
    "seek_timestamp_next_line drop one more line on every access and reconstruction raise ValueError - not generated",
    "a scan whose photon streams miss whole frames (Scan.num_frames, counted on the info wave, then exceeds the frames of the "
    "reconstructed arrays) is asked every query, but derived from only inside the frames every colour has (explicit bounds), and "
    "only copied when its reconstruction is a single frame: indexing past the reconstruction raises IndexError lazily, at the "
    "first query of the derived scan - an incomplete export that cannot be sliced is outside this property; in the older random "
    "streams a short stream still ends inside the last frame",
    "in-place operations of KymoTrackGroup (extend, remove, filter) are not queries or derivations of the property text; they are "
    "applied only to a derived group inside the step that makes it (the derived object of that step is the edited group) and are "
    "the means to OBSERVE the 'free of aliasing' clause: whatever is done to a derived group, its source and the groups derived "
    "earlier answer as before.  Nothing is asserted about the edited group beyond 'same as on a fresh twin'",
    "flip is applied to unprocessed kymographs with >=2 pixels only (a flipped view calls the view's factory functions "
    "directly; one-pixel kymographs fall back on a pixel time that needs two rows)",
    "NumPy buffer identity is modelled for kymograph images / timestamps under element writes through the handed-out array "
    "objects (Verif.C19.Alias; source values read from a clean object); for scans, time slices and truncated objects aliasing is "
    "checked by in-place write attempts only; routes to a buffer other than the handed-out array object (ndarray.base, "
    "setflags(write=True)) are outside; channel .data arrays are writable by design and not attacked",
    "plotting and exporting (plot, plot_with_force, export_tiff, export_video) are not queries in the sense of the property "
    "text and are not part of the histories: a cached array that only a plot call modifies is outside this check",
    "scan start/stop/infowave of objects made by Scan.__getitem__ are treated as functions of the derivation path (they are set "
    "from the frame ranges at creation)",
]

T0 = bc.START
REDUCE = {"mean": None, "min": np.min, "max": np.max}
COLOR = {"r": "red", "g": "green", "b": "blue"}

# =========================================================================== values


def val(x):
    """canonical JSON-able value"""
    if isinstance(x, np.ndarray):
        flat = x.ravel()
        if flat.dtype.kind in "iub":
            return {"shape": list(x.shape), "v": [int(v) for v in flat]}
        return {"shape": list(x.shape), "v": [float(v) for v in flat]}
    if isinstance(x, (np.integer,)):
        return int(x)
    if isinstance(x, (np.floating,)):
        return float(x)
    if isinstance(x, (np.bool_, bool)):
        return bool(x)
    if isinstance(x, (list, tuple)):
        return [val(v) for v in x]
    if isinstance(x, dict):
        return {str(k): val(v) for k, v in sorted(x.items(), key=lambda kv: str(kv[0]))}
    if x is None or isinstance(x, (int, float, str)):
        return x
    return repr(x)


UNSEEN = "?"  # private bookkeeping of pylake that could not be reached (renamed / moved / inlined): not an answer
UNREACHED = {}  # what could not be reached in this run, how often (reported in the evidence; empty on an unrefactored tree)


def unreached(what):
    UNREACHED[what] = UNREACHED.get(what, 0) + 1


def private_gone(e):
    """the HARNESS reached for a private pylake name (leading underscore) that is not there: a refactoring renamed, moved or
    inlined it.  That says nothing about what the code computes (an AttributeError raised inside pylake is not caught)"""
    return isinstance(e, AttributeError) and str(getattr(e, "name", "") or "").startswith("_") and common._raised_in_harness(e)


def peek(get):
    """private bookkeeping the property does not speak about (pixel-count list, calibration unit, position offset, primary
    channel names, minimum observable duration): observed only while it is reachable, otherwise `UNSEEN`, which `same`
    ignores - it never surfaces as an answer of the implementation"""
    try:
        return get()
    except AttributeError as e:
        if private_gone(e):
            unreached("private member " + str(e.name))
            return UNSEEN
        raise


def same(a, b, rel=1e-9):
    if (isinstance(a, str) and a == UNSEEN) or (isinstance(b, str) and b == UNSEEN):
        return True
    if isinstance(a, bool) or isinstance(b, bool):
        return a is b or a == b and type(a) is type(b)
    if isinstance(a, (int, float)) and isinstance(b, (int, float)):
        if isinstance(a, int) and isinstance(b, int):
            return a == b
        if math.isnan(a) or math.isnan(b):
            return math.isnan(a) and math.isnan(b)
        return abs(a - b) <= rel * max(abs(a), abs(b), 1e-300)
    if isinstance(a, list) and isinstance(b, list):
        return len(a) == len(b) and all(same(x, y, rel) for x, y in zip(a, b))
    if isinstance(a, dict) and isinstance(b, dict):
        return a.keys() == b.keys() and all(same(a[k], b[k], rel) for k in a)
    return a == b and type(a) is type(b)


def short(v, n=160):
    s = json.dumps(v, default=str)
    return s if len(s) <= n else s[: n - 3] + "..."


# =========================================================================== confocal family


def cf_make(spec, start=None, stop=None):
    """a NEW kymograph / scan through the public low-level API only: `low_level.create_confocal_object` (info wave + photon
    count slices + Bluelake JSON; it picks Kymo / Scan by the number of scan axes and calls the class constructor with the
    bounds of the info wave), then the nominal [start, stop) of the description is put on the brand-new object through its
    public attributes `start` / `stop` before anything has been asked - the constructor only stores them, and it is what
    Kymo.__getitem__ itself does with the copy it makes.  No private module path (detail.confocal.ConfocalFileProxy /
    ScanMetaData) is needed."""
    if spec.get("route") == "h5":
        return cf_make_h5(spec, int(spec["start"] if start is None else start), int(spec["stop"] if stop is None else stop))
    from lumicks.pylake.low_level import create_confocal_object

    dt = spec["dt"]
    kw = {}
    for c in bc.COLORS:
        ch = spec["chans"].get(c)
        if ch and ch[1]:  # an absent colour: the default (the empty slice)
            kw[f"{c}_channel"] = bc.continuous(ch[1], T0 + ch[0] * dt, dt)
    if spec["kind"] == "kymo":
        axes = [(0, spec["P"], spec.get("px_nm", 125.0))]
    else:
        axes = [(spec["fast"], spec["P"], 125.0), (spec["slow"], spec["L"], 250.0)]
    o = create_confocal_object(
        "obj", bc.continuous(spec["iw"], T0, dt, dtype=np.uint8), bc.confocal_json(axes, spec.get("scan_count", 0)), **kw
    )
    o.start = int(spec["start"] if start is None else start)
    o.stop = int(spec["stop"] if stop is None else stop)
    return o


_H5 = {}  # in-memory Bluelake files of the "h5" route, one per object description (kept open for the whole run)


def cf_make_h5(spec, start, stop):
    """a NEW kymograph / scan the way users get one: from a Bluelake HDF5 file (here an in-memory h5py file holding the info
    wave, the photon-count channels and the item's JSON with its 'Start time (ns)' / 'Stop time (ns)' attributes) through the
    public `lk.File.from_h5py(...).kymos / .scans` - i.e. `Kymo.from_dataset` / `Scan.from_dataset` - so that the nominal
    [start, stop) comes from the file and every channel is a lazily read h5py dataset that is looked up anew on every access"""
    import h5py
    import lumicks.pylake as lk

    dt = spec["dt"]
    key = json.dumps({k: v for k, v in spec.items() if k not in ("start", "stop")}, sort_keys=True)
    f = _H5.get(key)
    if f is None:
        f = _H5[key] = h5py.File(f"c19-confocal-{len(_H5)}.h5", "w", driver="core", backing_store=False)
        f.attrs["Bluelake version"], f.attrs["File format version"] = "verif", 2
        f.attrs["Experiment"], f.attrs["Description"], f.attrs["GUID"], f.attrs["Export time (ns)"] = "", "", "verif", -1

        def put(path, data, first, dtype):
            ds = f.create_dataset(path, data=np.asarray(data, dtype=dtype))
            ds.attrs["Kind"], ds.attrs["Sample rate (Hz)"] = "Continuous", 1e9 / dt
            ds.attrs["Start time (ns)"], ds.attrs["Stop time (ns)"] = int(first), int(first + len(data) * dt)

        put("Info wave/Info wave", spec["iw"], T0, np.uint8)
        for c in bc.COLORS:
            ch = spec["chans"].get(c)
            if ch and ch[1]:  # an absent colour: no dataset (the file answers with the empty slice)
                put("Photon count/" + c.capitalize(), ch[1], T0 + ch[0] * dt, np.uint32)
    if spec["kind"] == "kymo":
        field, axes = "Kymograph", [(0, spec["P"], spec.get("px_nm", 125.0))]
    else:
        field, axes = "Scan", [(spec["fast"], spec["P"], 125.0), (spec["slow"], spec["L"], 250.0)]
    item = f.create_dataset(field + "/obj", data=bc.confocal_json(axes, spec.get("scan_count", 0)))
    item.attrs["Start time (ns)"], item.attrs["Stop time (ns)"] = np.int64(start), np.int64(stop)
    try:
        file = lk.File.from_h5py(f)
        return (file.kymos if spec["kind"] == "kymo" else file.scans)["obj"]
    finally:
        del f[field + "/obj"]  # the object keeps name, file, start, stop and the parsed metadata


al._MAKE, al._QUIET = cf_make, bc.quiet


def cf_static(o, kind):
    """calibration / pixel-size / pixel-count block; every value is copied (`val`) at the moment it is asked, so a list the
    object hands out and later changes behind our back cannot rewrite an answer that was already given.  The PUBLIC values
    carry the block (pixelsize, pixelsize_um, pixels_per_line, lines_per_frame, size_um, fast_axis, contiguous: the private
    pixel-count list is pixels_per_line / lines_per_frame and size_um / pixelsize_um once more, a calibration in another
    unit has another pixelsize); the three PRIVATE values are looked at only while they are reachable (`peek`)."""
    if kind == "kymo":
        getters = (lambda: o.pixelsize, lambda: o.pixelsize_um, lambda: int(o.pixels_per_line), lambda: o.size_um,
                   lambda: o.fast_axis, lambda: peek(lambda: list(o._num_pixels)), lambda: peek(lambda: o._calibration.unit),
                   lambda: bool(o.contiguous), lambda: peek(lambda: float(o._position_offset)))
    else:
        getters = (lambda: o.pixelsize_um, lambda: int(o.pixels_per_line), lambda: int(o.lines_per_frame), lambda: o.size_um,
                   lambda: o.fast_axis, lambda: peek(lambda: list(o._num_pixels)))
    return [val(g()) for g in getters]


def cf_query(o, kind, name):
    if name == "start":
        return int(o.start)
    if name == "stop":
        return int(o.stop)
    if name == "infowave":
        s = o.infowave
        return [int(s.timestamps[0]) if len(s) else None, [int(v) for v in s.data]]
    if name == "pixelTime":
        return float(o.pixel_time_seconds) * 1e9
    if name == "lineTime":
        return float(o.line_time_seconds) * 1e9
    if name == "image.rgb":
        return o.get_image("rgb")  # the full colour image: (..., 3)
    if name.startswith("image."):
        return o.get_image(COLOR[name[6:]])
    if name == "ts.mean":
        return o.timestamps
    if name == "lineRanges":
        r = o.line_timestamp_ranges() if kind == "kymo" else o.frame_timestamp_ranges()
        return [[int(a), int(b)] for a, b in r]
    if name == "shape":
        return [int(v) for v in o.shape]
    if name == "duration":
        return float(o.duration) * 1e9
    if name == "numFrames":
        return int(o.num_frames)
    if name == "static.0":
        return cf_static(o, kind)
    raise KeyError(name)


def cf_derive(o, kind, op):
    n = op[2]
    if n == "copy":
        return _copy.copy(o)
    if kind == "kymo":
        if n == "kbp":
            return o.calibrate_to_kbp(float(op[3]))
        if n == "slice":
            return o[op[3] : op[4]]
        if n == "crop":
            px = o.pixelsize[0]
            return o.crop_by_distance((op[3] + 0.25) * px, (op[4] - 0.25) * px)
        if n == "down":
            return o.downsampled_by(time_factor=op[3], position_factor=op[4])
        if n == "flip":
            return o.flip()
    else:
        if n == "frames":
            return o[op[3] : op[4]]
        if n == "frame":
            return o[op[3]]
        if n == "framecrop":
            return o[op[3] : op[4], op[5] : op[6], op[7] : op[8]]
        if n == "cropxy":
            return o.crop_by_pixels(op[3], op[4], op[5], op[6])
    raise KeyError(n)


ALIAS_GETTERS = (
    ("image.red", lambda o: o.get_image("red")),
    ("image.green", lambda o: o.get_image("green")),
    ("image.blue", lambda o: o.get_image("blue")),
    ("image.rgb", lambda o: o.get_image("rgb")),
    ("timestamps", lambda o: o.timestamps),
)


ALIAS_WRITES = (
    ("setitem", lambda a: a.__setitem__((0,) * a.ndim, a.flat[0] + 5)),
    ("iadd", lambda a: a.__iadd__(3)),
    ("fill", lambda a: a.fill(7)),
    ("copyto", lambda a: np.copyto(a, 11)),
    ("put", lambda a: a.put(0, 13)),
)


def cf_alias(objs, kind):
    """in-place write attempts through every image / timestamp array a confocal object hands out: every colour plane, the
    full colour image and the timestamps.
      1. every array of every object of the history is asked once; the handle is kept and its content copied (the snapshot);
      2. five kinds of in-place write are attempted through every handle.  NumPy refuses them on a read-only array (nothing
         is written); where an attempt wrote something (or failed in another way on a writable array) the object is asked
         again right away and must answer what it answered before;
      3. after the last attempt EVERY array of EVERY object is asked once more and compared with the snapshot: a write
         through one handed-out array must not show in any other one either (another colour, the full colour image made of
         the colour planes, the object it was derived from, an object derived from it)."""
    problems = []
    handles = []
    for idx, o in enumerate(objs):
        if o is None:
            continue
        for label, get in ALIAS_GETTERS:
            try:
                a = get(o)
            except Exception:
                continue
            if isinstance(a, np.ndarray) and a.size:
                handles.append((idx, label, get, a, a.copy()))

    def differs(again, before):
        return not isinstance(again, np.ndarray) or again.shape != before.shape or not np.array_equal(again, before)

    for idx, label, get, a, before in handles:
        outcomes = []
        for wname, write in ALIAS_WRITES:
            read_only = not a.flags.writeable
            try:
                write(a)
                outcomes.append(wname + ":written")
            except (ValueError, TypeError) as e:
                if not read_only:
                    outcomes.append(wname + ":refused-on-a-writable-array")
            except Exception as e:  # any other refusal is still a refusal
                outcomes.append(wname + ":refused:" + type(e).__name__)
        if not outcomes:
            continue  # every attempt refused on a read-only array: nothing was written (asked again in step 3)
        try:
            again = get(objs[idx])
        except Exception as e:
            problems.append(f"object {idx} {label}: query raised {errname(e)} after in-place write attempts ({', '.join(outcomes)})")
            continue
        if differs(again, before):
            problems.append(
                f"object {idx} {label}: in-place writes on the handed-out array ({', '.join(outcomes)}) changed what the object reports"
            )
    if not problems:
        for idx, label, get, a, before in handles:
            try:
                again = get(objs[idx])
            except Exception as e:
                problems.append(f"object {idx} {label}: query raised {errname(e)} after the write attempts on the handed-out arrays")
                continue
            if differs(again, before):
                problems.append(
                    f"object {idx} {label}: answers differently after the in-place write attempts on the OTHER arrays handed out "
                    f"(other colours / full colour image / timestamps / other objects of the history)"
                )
    return problems


# =========================================================================== pure families (no start-dependent state)


class PureFamily:
    """channel / stack / tracks / fd: subclasses give build, query, derive"""

    queries = ()

    def build(self, spec):
        raise NotImplementedError

    def query(self, o, name):
        raise NotImplementedError

    def derive(self, o, op, objs):
        raise NotImplementedError

    def close(self):
        pass


class ChannelFamily(PureFamily):
    queries = ("data", "timestamps", "range", "rate", "len", "labels")

    def __init__(self):
        self._files = []
        self._datasets = {}

    def build(self, spec):
        from lumicks.pylake.channel import Continuous, Slice, TimeSeries
        from lumicks.pylake.low_level import make_continuous_slice

        data = np.asarray(spec["data"], dtype=float)
        if spec["kind"] == "cont":
            if spec.get("h5"):
                import h5py

                # one in-memory file per object description; every build makes a NEW pylake object over its dataset, after
                # checking that the stored samples are still the described ones (otherwise a new file is written)
                key = json.dumps(spec, sort_keys=True)
                ds = self._datasets.get(key)
                if ds is None or ds.shape != data.shape or not np.array_equal(ds[()], data):
                    f = h5py.File(f"c19-{id(self)}-{len(self._files)}.h5", "w", driver="core", backing_store=False)
                    self._files.append(f)
                    ds = f.create_dataset("Force HF/Force 1x", data=data)
                    ds.attrs["Start time (ns)"] = spec["start"]
                    ds.attrs["Stop time (ns)"] = spec["start"] + len(data) * spec["dt"]
                    ds.attrs["Sample rate (Hz)"] = 1e9 / spec["dt"]
                    ds.attrs["Kind"] = "Continuous"
                    self._datasets[key] = ds
                return Continuous.from_dataset(ds)  # a Slice over a lazily read dataset
            # public low-level constructor: Slice(Continuous(data, start, dt), {"title": "t", "y": "y"})
            return make_continuous_slice(data, int(spec["start"]), int(spec["dt"]), y_label="y", name="t")
        return Slice(TimeSeries(data, np.asarray(spec["ts"], dtype=np.int64)), {"title": "t", "y": "y"})

    def query(self, o, name):
        if name == "data":
            return np.asarray(o.data, dtype=float)
        if name == "timestamps":
            return np.asarray(o.timestamps, dtype=np.int64)
        if name == "range":
            return [int(o.start), int(o.stop)] if len(o) else [None, None]
        if name == "rate":
            return o.sample_rate
        if name == "len":
            return len(o)
        if name == "labels":
            return dict(o.labels)
        raise KeyError(name)

    def derive(self, o, op, objs):
        n = op[2]
        if n == "slice":
            return o[op[3] : op[4]]
        if n == "downby":
            return o.downsampled_by(op[3])
        if n == "downto":
            return o.downsampled_to(op[3], method="force")
        if n == "add":
            return o + op[3]
        if n == "mul":
            return o * op[3]
        if n == "neg":
            return -o
        if n == "sub_self":
            return o - o
        if n == "rsub":
            return op[3] - o
        if n == "pow":
            return o**2
        if n == "div_other":
            other = objs[op[3]]
            return o / (other + 1000.0)
        if n == "copy":
            return _copy.copy(o)
        raise KeyError(n)

    def close(self):
        for f in self._files:
            try:
                f.close()
            except Exception:
                pass
        self._files = []
        self._datasets = {}


def fd_by_distance_public(o, lo, hi):
    """the longest (first of the longest) time-contiguous run of samples with lo <= distance <= hi of an F,d curve, cut out
    with the public time slicing `fd[start:stop]` (open end when the run reaches the last sample; no run: ValueError)"""
    d = np.asarray(o.d.data)
    ts = np.asarray(o.d.timestamps)
    inside = [bool(lo <= v <= hi) for v in d]
    runs, i = [], 0
    while i < len(inside):
        j = i
        while j < len(inside) and inside[j]:
            j += 1
        if j > i:
            runs.append((i, j))
        i = max(j, i + 1)
    if not runs:
        raise ValueError("attempt to get argmax of an empty sequence")
    a, b = max(runs, key=lambda r: r[1] - r[0])  # max keeps the first of equally long runs
    return o[ts[a] :] if b == len(ts) else o[ts[a] : ts[b]]


class FdFamily(PureFamily):
    queries = ("f", "d", "range", "name", "fts")

    def build(self, spec):
        from types import SimpleNamespace

        from lumicks.pylake.channel import Slice, TimeSeries
        from lumicks.pylake.fdcurve import FdCurve

        ts = np.asarray(spec["ts"], dtype=np.int64)
        mk = lambda d, t: Slice(TimeSeries(np.asarray(d, dtype=float), ts), {"title": t, "y": t})
        file = SimpleNamespace(
            downsampled_force2=mk(spec["f2"], "f2"), downsampled_force1=mk(spec["f1"], "f1"),
            downsampled_force1x=mk(spec["f1"], "f1x"), distance1=mk(spec["d1"], "d1"), distance2=mk(spec["d2"], "d2"),
        )
        if spec.get("h5"):
            # the way a Bluelake file makes its F,d curves: FdCurve.from_dataset(<item of the "FD Curve" group>, file) - the
            # time range comes from the item's attributes
            import h5py

            if getattr(self, "_h5", None) is None:
                self._h5 = h5py.File(f"c19-fd-{id(self)}.h5", "w", driver="core", backing_store=False)
            if "FD Curve/fd" in self._h5:
                del self._h5["FD Curve/fd"]
            item = self._h5.create_dataset("FD Curve/fd", data="")
            item.attrs["Start time (ns)"], item.attrs["Stop time (ns)"] = np.int64(spec["start"]), np.int64(spec["stop"])
            return FdCurve.from_dataset(item, file)
        return FdCurve(file, spec["start"], spec["stop"], "fd")

    def query(self, o, name):
        if name == "f":
            return np.asarray(o.f.data, dtype=float)
        if name == "d":
            return np.asarray(o.d.data, dtype=float)
        if name == "fts":
            return np.asarray(o.f.timestamps, dtype=np.int64)
        if name == "range":
            return [int(o.start), int(o.stop)]
        if name == "name":
            # the names of the primary channels are private bookkeeping (what they select is public: the queries f / d)
            return [o.name, peek(lambda: o._primary_force_channel), peek(lambda: o._primary_distance_channel)]
        raise KeyError(name)

    def derive(self, o, op, objs):
        n = op[2]
        if n == "slice":
            return o[op[3] : op[4]]
        if n == "offset":
            return o.with_offset(op[3], op[4])
        if n == "channels":
            return o.with_channels(force=op[3], distance=op[4])
        if n == "sub":
            return o - objs[op[3]]
        if n == "bydist":
            # FdCurve._sliced_by_distance (what the distance range selector widget calls) while it is reachable; otherwise the
            # same derivation through the public time slicing
            by_distance = peek(lambda: o._sliced_by_distance)
            return fd_by_distance_public(o, op[3], op[4]) if isinstance(by_distance, str) else by_distance(op[3], op[4])
        if n == "copy":
            return _copy.copy(o)
        raise KeyError(n)


class StackFamily(PureFamily):
    queries = ("image", "ranges", "nframes", "range", "static")

    def __init__(self):
        import builders_tiff as bt

        self.bt = bt
        self.store = bt.TiffStacks(max_open=8)

    def build(self, spec):
        stack, _, _ = self.store.get(spec)
        # a brand-new ImageStack on the same files: nothing may be shared with earlier objects
        return self.bt.open_stack(self.store.paths(spec), align=True)

    def query(self, o, name):
        if name == "image":
            return np.asarray(o.get_image())
        if name == "ranges":
            return [[int(a), int(b)] for a, b in o.frame_timestamp_ranges()]
        if name == "nframes":
            return int(o.num_frames)
        if name == "range":
            return [int(o.start), int(o.stop)]
        if name == "static":
            return [o.pixelsize_um, list(np.asarray(o.shape).tolist()) if hasattr(o, "shape") else None]
        raise KeyError(name)

    def derive(self, o, op, objs):
        n = op[2]
        if n == "frames":
            return o[op[3] : op[4] : op[5]]
        if n == "frame":
            return o[op[3]]
        if n == "crop":
            return o.crop_by_pixels(op[3], op[4], op[5], op[6])
        if n == "roi":
            return o[:, op[5] : op[6], op[3] : op[4]]
        if n == "tether":
            return o.define_tether((op[3], op[4]), (op[5], op[6]))
        if n == "copy":
            return _copy.copy(o)
        raise KeyError(n)

    def close(self):
        self.store.close()


def tracks_kymo_public(btr, img, name="verif"):
    """builders_tracks.make_kymo(route="lowlevel") once more, touching the public low-level API only (that builder imports the
    private lumicks.pylake.kymo._kymo_from_array before it looks at the route): every pixel 4 samples, the last one flagged
    2, 3 samples of dead time before every line, the red photon counts are the image, green and blue are zero"""
    from lumicks.pylake import low_level

    n_pixels, n_lines = img.shape
    k, pad, dt = 4, 3, 12800
    line = np.zeros(n_pixels * k + pad, dtype=np.uint8)
    first = np.zeros(n_pixels, dtype=int)
    for px in range(n_pixels):
        a = pad + px * k
        line[a : a + k] = 1
        line[a + k - 1] = 2
        first[px] = a
    photons = np.zeros(len(line) * n_lines, dtype=np.uint32)
    for ln in range(n_lines):
        photons[ln * len(line) + first] = img[:, ln]
    mk = lambda d: low_level.make_continuous_slice(d, int(btr.FIRST_TIMESTAMP), dt)
    return low_level.create_confocal_object(
        name, mk(np.tile(line, n_lines)), btr._metadata_json(n_pixels, 100.0), red_channel=mk(photons),
        green_channel=mk(np.zeros_like(photons)), blue_channel=mk(np.zeros_like(photons)),
    )


def tracks_min_durations_exported(group):
    """the minimum observable durations as the PUBLIC CSV export (KymoTrackGroup.save) reports them: one value per track
    point (6 digits), None when the column is not written (some track has no minimum), the error name when the export
    refuses (empty group).  The per-track value itself is a private slot of KymoTrack."""
    import io

    buf = io.StringIO()
    try:
        group.save(buf)
    except Exception as e:
        return errname(e)
    head = [ln[1:].strip() for ln in buf.getvalue().splitlines() if ln.startswith("#")]
    rows = [ln for ln in buf.getvalue().splitlines() if ln and not ln.startswith("#")]
    cols = [i for i, title in enumerate(head[-1].split(";")) if title.strip().startswith("minimum observable duration")] if head else []
    return [float(r.split(";")[cols[0]]) for r in rows] if cols else None


def tracks_state(group):
    """the observable content of a group as plain values (builders_tracks.group_state, with the private slot looked at only
    while it is reachable) plus what the public export says about the minimum observable durations"""
    tracks = []
    for tr in group:
        try:
            counts = [int(x) for x in np.asarray(tr.photon_counts)]
            if not all(float(x) == int(x) for x in np.asarray(tr.photon_counts)):
                counts = [float(x) for x in np.asarray(tr.photon_counts)]
        except AttributeError:  # raised by pylake: this kind of track has no photon counts
            counts = None
        md = peek(lambda: tr._minimum_observable_duration)
        tracks.append({
            "t": [int(x) for x in np.asarray(tr.time_idx)],
            "c": [float(x) for x in np.asarray(tr.coordinate_idx)],
            "pos": [float(x) for x in np.asarray(tr.position)],
            "min_duration": md if md is None or isinstance(md, str) else float(md),
            "counts": counts,
        })
    return {"tracks": tracks, "min_durations_exported": tracks_min_durations_exported(group)}


class TrackFamily(PureFamily):
    queries = ("state", "len", "seconds", "msd", "duration")

    def __init__(self):
        import builders_tracks as btr

        self.btr = btr

    def build(self, spec):
        img = np.asarray(spec["image"])
        try:
            kymo = self.btr.make_kymo(img, route=spec.get("route", "lowlevel"), line_time_s=spec.get("line_time_s"))
        except ImportError:
            # the private constructor of array-backed kymographs (lumicks.pylake.kymo._kymo_from_array, route "array") is
            # not reachable: a low-level kymograph stands in for it (every twin is built the same way)
            unreached("private constructor of array-backed kymographs (track groups built on a low-level kymograph)")
            kymo = tracks_kymo_public(self.btr, img)
        return self.btr.make_group(kymo, spec["tracks"])

    def query(self, o, name):
        if name == "state":
            return tracks_state(o)
        if name == "len":
            return len(o)
        if name == "seconds":
            return [np.asarray(t.seconds, dtype=float) for t in o]
        if name == "duration":
            return [float(t.duration) for t in o]
        if name == "msd":
            return [[np.asarray(a, dtype=float) for a in t.msd(2)] if len(t) > 3 else None for t in o]
        raise KeyError(name)

    def empty(self, o, how):
        """an EMPTY track group, made the way callers make one: the constructor on an empty list (the accumulation idiom
        `all_tracks = KymoTrackGroup([])`), an empty slice of the group at hand, a filter nothing passes"""
        import lumicks.pylake as lk
        from lumicks.pylake.kymotracker.kymotrack import KymoTrackGroup

        if how == "new":
            return KymoTrackGroup([])
        if how == "slice":
            return o[0:0]
        if how == "filter":
            return lk.filter_tracks(o, 10**6)
        raise KeyError(how)

    def edit(self, new, e, objs):
        """one of KymoTrackGroup's PUBLIC in-place operations on the group a derivation has just made (it has not been handed
        to the history yet: the derived object of this step is the edited group, a function of the derivation path).  What
        the group was derived from, and every group derived earlier, must answer afterwards what they answered before."""
        n = e[0]
        if n == "remove":
            if len(new):
                new.remove(new[e[1] % len(new)])
        elif n == "extend":
            if objs[e[1]] is not None:
                new.extend(objs[e[1]][e[2] : e[3]])
        elif n == "extend_track":
            src = objs[e[1]]
            if src is not None and len(src):
                new.extend(src[e[2] % len(src)])  # a single KymoTrack
        elif n == "filter":
            new.filter(minimum_length=e[1])
        else:
            raise KeyError(n)

    def derive(self, o, op, objs):
        if isinstance(op[-1], dict):
            new = self.derive(o, op[:-1], objs)
            for e in op[-1]["edit"]:
                self.edit(new, e, objs)
            return new
        import lumicks.pylake as lk

        n = op[2]
        if n == "radd_empty":  # the empty group on the LEFT: `KymoTrackGroup([]) + tracks`
            return self.empty(o, op[3]) + o
        if n == "add_empty":  # the empty group on the right
            return o + self.empty(o, op[3])
        if n == "extend_empty":  # `acc = KymoTrackGroup([]); acc.extend(tracks)`
            acc = self.empty(o, op[3])
            acc.extend(o)
            return acc
        if n == "filter":
            return lk.filter_tracks(o, op[3])
        if n == "slice":
            return o[op[3] : op[4]]
        if n == "refine":
            return lk.refine_tracks_centroid(o, track_width=op[3])
        if n == "add":
            return o + objs[op[3]]
        if n == "add_slices":
            return o[:1] + o[1:]
        if n == "add_rest":
            return o + objs[0][1:]
        if n == "copy":
            return _copy.copy(o)
        raise KeyError(n)


_FAMILIES = {}


def family(name):
    if name not in _FAMILIES:
        _FAMILIES[name] = {"channel": ChannelFamily, "fd": FdFamily, "stack": StackFamily, "tracks": TrackFamily}[name]()
    return _FAMILIES[name]


# =========================================================================== running histories


def is_confocal(case):
    return case["family"] in ("kymo", "scan")


def build(case):
    if is_confocal(case):
        return cf_make(case["obj"])
    return family(case["family"]).build(case["obj"])


def do_query(case, o, name):
    if is_confocal(case):
        return cf_query(o, case["family"], name)
    return family(case["family"]).query(o, name)


def do_derive(case, o, op, objs):
    if is_confocal(case):
        return cf_derive(o, case["family"], op)
    return family(case["family"]).derive(o, op, objs)


def scribble(a):
    """what a caller may do with an image / timestamp array a confocal object handed out: write into it, in place.  NumPy
    refuses on a read-only array; where it does not refuse, no later answer of the history (this object, the objects it was
    derived from, objects derived from it afterwards) may show the write - the twins are never written to."""
    try:
        np.add(a, 1, out=a)
    except (ValueError, TypeError):
        pass


def run_op(case, objs, op):
    """one step on the object table `objs` (appends for derivations); returns the canonical answer"""
    tgt = objs[op[1]] if op[1] < len(objs) else None
    if op[0] == "q":
        if tgt is None:
            return "dead"
        try:
            res = do_query(case, tgt, op[2])
        except Exception as e:
            return {"error": errname(e)}
        answer = val(res)  # a copy of what was answered
        if is_confocal(case) and isinstance(res, np.ndarray):
            scribble(res)
        return answer
    if tgt is None:
        objs.append(None)
        return "dead"
    try:
        new = do_derive(case, tgt, op, objs)
    except Exception as e:
        objs.append(None)
        return {"error": errname(e)}
    if is_confocal(case) and not new:
        objs.append(None)
        return "empty"
    objs.append(new)
    if is_confocal(case) and op[2] in ("slice", "frames", "frame", "framecrop"):
        return [int(new.start), int(new.stop)]
    return "made"


def created_id(hist, x):
    return 1 + sum(1 for o in hist[:x] if o[0] == "d")


def refs(op):
    """ids of the OTHER objects a derivation step uses besides its target: the second operand of div_other / sub / add, and
    the groups an in-place edit of the new track group takes tracks from"""
    out = [a for a in op[3:4] if op[2] in ("div_other", "sub", "add") and isinstance(a, int)]
    if isinstance(op[-1], dict):
        out += [e[1] for e in op[-1]["edit"] if e[0] in ("extend", "extend_track")]
    return out


def ancestors(hist, t):
    anc = set()
    while True:
        anc.add(t)
        if t == 0:
            return anc
        x = next(i for i, o in enumerate(hist) if o[0] == "d" and created_id(hist, i) == t)
        t = hist[x][1]
        # derivations that take a second object (div_other, sub, add) also need that object's ancestry
        for e in refs(hist[x]):
            anc |= ancestors(hist, e)


def run_twin(case, n):
    hist = case["hist"]
    op = hist[n]
    need = ancestors(hist, op[1])
    if op[0] == "d":
        for e in refs(op):
            need |= ancestors(hist, e)
    objs = [build(case)]
    for x in range(n):
        o = hist[x]
        if o[0] != "d":
            continue
        if created_id(hist, x) in need:
            run_op(case, objs, o)
        else:
            objs.append(None)
    return run_op(case, objs, op)


def impl(case):
    if al.is_alias(case):
        return al.impl(case)
    with bc.quiet():
        try:
            objs = [build(case)]
            hist = [run_op(case, objs, op) for op in case["hist"]]
            alias = cf_alias(objs, case["family"]) if is_confocal(case) else []
            if is_confocal(case) and alias == []:
                # after the write attempts every query of the history must still answer as before
                pass
            fresh = [run_twin(case, n) for n in range(len(case["hist"]))]
        finally:
            if not is_confocal(case):
                pass
    case["_hist"], case["_fresh"], case["_alias"] = hist, fresh, alias
    return [json.dumps({"hist": hist, "alias": alias}), json.dumps(fresh)]


# =========================================================================== protocol ops


def q_token(case, objmeta, op):
    name = op[2]
    if not is_confocal(case):
        fam = family(case["family"])
        return f"q:{op[1]}:static.{fam.queries.index(name)}"
    m = objmeta[op[1]] if op[1] < len(objmeta) else None
    if m and m.get("bounds_from_ts") and name in ("start", "stop", "infowave"):
        # a scan made by Scan.__getitem__ gets start/stop from its own frame ranges when it is made
        return f"q:{op[1]}:static.{ {'start': 3, 'stop': 4, 'infowave': 5}[name] }"
    return f"q:{op[1]}:{name}"


def d_token(case, objmeta, op):
    """protocol token of a derivation; also records what later tokens need to know about the new object"""
    src = objmeta[op[1]] if op[1] < len(objmeta) else None
    meta = dict(src) if src else {}
    if not is_confocal(case):
        objmeta.append(meta)
        return f"d:{op[1]}:pure"
    n = op[2]
    if n in ("copy", "kbp"):
        tok = "copy"
    elif n == "slice":
        tok = f"slice.{'N' if op[3] is None else op[3]}.{'N' if op[4] is None else op[4]}"
    elif n == "crop":
        tok = "view.full"
    elif n == "down":
        tok = "view.full" if op[3] == 1 else "view.coarse"
    elif n == "flip":
        tok = "view.flip"
    elif n in ("frames", "frame", "framecrop", "cropxy"):
        tok = scan_outcome(case, meta, op)
        if tok == "scanView":
            meta["bounds_from_ts"] = True
    else:
        raise KeyError(n)
    objmeta.append(meta)
    return f"d:{op[1]}:{tok}"


def scan_dims(spec):
    """(frames, rows, columns) of the image of a freshly made scan, from the info wave alone"""
    idx = plain_window(spec, spec["start"], spec["stop"])
    npx = sum(1 for i in idx if spec["iw"][i] == 2)
    nf = -(-npx // (spec["P"] * spec["L"]))
    h, w = (spec["L"], spec["P"]) if spec["fast"] < spec["slow"] else (spec["P"], spec["L"])
    return nf, h, w


def scan_outcome(case, meta, op):
    """which branch of Scan._scan_with_sliced_factories a derivation takes (plain index arithmetic on the tracked
    frame count / image size); updates `meta` for the new object"""
    if "nf" not in meta:
        meta["nf"], meta["h"], meta["w"] = scan_dims(case["obj"])
    nf, h, w = meta["nf"], meta["h"], meta["w"]
    n = op[2]
    ys = xs = slice(None)
    if n == "frame":
        k = op[3] if op[3] >= 0 else nf + op[3]
        if not 0 <= k < nf:
            return "scanFail.IndexError"
        nf2 = 1
    elif n in ("frames", "framecrop"):
        nf2 = len(range(nf)[op[3] : op[4]])
        if nf2 == 0:
            return "scanEmpty"
        if n == "framecrop":
            ys, xs = slice(op[5], op[6]), slice(op[7], op[8])
    else:
        nf2 = nf
        xs, ys = slice(op[3], op[4]), slice(op[5], op[6])
    h2, w2 = len(range(h)[ys]), len(range(w)[xs])
    if h2 == 0 or w2 == 0:
        return "scanFail.NotImplementedError"
    meta["nf"], meta["h"], meta["w"] = nf2, h2, w2
    return "scanCrop" if n == "cropxy" else "scanView"


def header(case):
    if not is_confocal(case):
        return "0 1 [] 0 F T N N N 0 0"
    s = case["obj"]
    ch = []
    for c in bc.COLORS:
        v = s["chans"].get(c)
        ch.append("N" if not v or not v[1] else f"{T0 + v[0] * s['dt']}:{len(v[1])}")
    return (
        f"{T0} {s['dt']} [{','.join(str(c) for c in s['iw'])}] {s['P']} {'T' if s['kind'] == 'scan' else 'F'} F "
        f"{ch[0]} {ch[1]} {ch[2]} {s['start']} {s['stop']}"
    )


def ops(case):
    if al.is_alias(case):
        return al.ops(case)
    objmeta = [{}]
    toks = []
    for op in case["hist"]:
        toks.append(q_token(case, objmeta, op) if op[0] == "q" else d_token(case, objmeta, op))
    tail = header(case) + "".join(" " + t for t in toks)
    return ["c19.hist " + tail, "c19.fresh " + tail]


# =========================================================================== evaluating provenance terms


def parse_term(s):
    """'name(a,b(c),d)' -> ('name', [args...]) with nested terms parsed; atoms stay strings"""
    s = s.strip()
    i = s.find("(")
    if i < 0 or not s.endswith(")"):
        return s
    name, body = s[:i], s[i + 1 : -1]
    args, depth, cur = [], 0, ""
    for ch in body:
        if ch == "(":
            depth += 1
        elif ch == ")":
            depth -= 1
        if ch == "," and depth == 0:
            args.append(cur)
            cur = ""
        else:
            cur += ch
    args.append(cur)
    return (name, [parse_term(a) for a in args])


class Err(Exception):
    pass


class Unreachable(Exception):
    """a provenance term needs a private pylake member that is not there any more: no expectation (`UNSEEN`) for this step"""


def timestamp_mean_plain(a, axis):
    """pylake's mean of timestamps in plain integer arithmetic: the smallest timestamp plus the floor of the mean offset
    from it (the library splits the sum into blocks only when it could overflow int64 - a handful of offsets of less than
    a second cannot)"""
    a = np.asarray(a, dtype=np.int64)
    smallest = a.min()
    return smallest + (a - smallest).sum(axis=axis) // a.shape[axis]


def plain_window(spec, s, e):
    """indices of the info-wave samples with s <= t < e (plain arithmetic, no pylake)"""
    dt = spec["dt"]
    return [i for i in range(len(spec["iw"])) if s <= T0 + i * dt < e]


def colour_extents_differ(spec):
    """the photon streams of the colours do not all end at the same info-wave sample (an absent colour reconstructs as a
    complete image of zeros, i.e. counts as covering everything)"""
    n = len(spec["iw"])
    return len({min(n, v[0] + len(v[1])) if v and v[1] else n for v in spec["chans"].values()}) > 1


class Evaluator:
    def __init__(self, case):
        self.case = case
        self.spec = case["obj"]
        self.clean = {}
        self.differ = colour_extents_differ(self.spec)

    def columns_open(self, img, twin_cols):
        """Kymo.shape takes the first colour whose image is not empty.  The model answers with the provenance of the RED image;
        when that image has no columns and the colours differ in extent, the number of columns comes from another colour,
        which the provenance term does not determine: then (and only then) any whole number of columns is accepted here,
        and the answer is pinned by the twin oracle alone."""
        return self.differ and img.size == 0 and isinstance(twin_cols, int) and not isinstance(twin_cols, bool) and twin_cols >= 0

    def obj(self, s, e):
        if (s, e) not in self.clean:
            self.clean[(s, e)] = cf_make(self.spec, s, e)
        return self.clean[(s, e)]

    def prim_of(self, t):
        while isinstance(t, tuple) and t[0] == "app":
            t = t[1][1]
        if isinstance(t, tuple) and t[0] == "via":
            return t[1][0]
        return t[1][0] if isinstance(t, tuple) and t[0] == "at" else None

    def raw(self, t):
        """numpy / python value of a provenance term (raises Err(name) for modelled exceptions)"""
        if isinstance(t, str):
            if t in ("RuntimeError", "ValueError", "NotImplementedError", "IndexError"):
                raise Err(t)
            raise Err("unevaluable:" + t)
        name, a = t
        if name == "int":
            return int(a[0])
        if name == "iw":
            idx = plain_window(self.spec, int(a[0]), int(a[1]))
            return [T0 + idx[0] * self.spec["dt"] if idx else None, [self.spec["iw"][i] for i in idx]]
        if name == "at":
            p, s, e = a[0], int(a[1]), int(a[2])
            if p in ("pixelTime", "lineTime"):
                if a[3] == "E":
                    raise Err("RuntimeError")
                return float(int(a[3]))
            o = self.obj(s, e)
            try:
                if p.startswith("image."):
                    return o.get_image(COLOR[p[6:]])
                r = p[3:]
                if r == "mean":
                    return o.timestamps  # the public property
                # per-pixel FIRST / LAST sample timestamps exist only behind the private memoised ConfocalImage._timestamps
                reduced = peek(lambda: o._timestamps)
            except Exception as ex:
                raise Err(errname(ex))
            if isinstance(reduced, str):
                return self.first_last_plain(o, r)
            try:
                return reduced(reduce=REDUCE[r])
            except Exception as ex:
                raise Err(errname(ex))
        if name == "frames":
            idx = plain_window(self.spec, int(a[0]), int(a[1]))
            npx = sum(1 for i in idx if self.spec["iw"][i] == 2)
            return -(-npx // (self.spec["P"] * self.spec["L"]))
        if name == "app":
            inner = self.raw(a[1])
            try:
                return self.apply(int(a[0]), self.prim_of(a[1]), inner)
            except Err:
                raise
            except Exception as ex:
                raise Err("unevaluable:apply-raised-" + errname(ex))
        if name == "via":
            return self.via(a[0], self.raw(a[1]))
        raise Err("unevaluable:" + name)

    def apply(self, x, prim, v):
        op = self.case["hist"][x]
        n = op[2]
        if prim is None:
            raise Err("unevaluable:app")
        if n == "crop":
            return v if prim == "lineTime" else v[op[3] : op[4], :]
        if n == "down":
            tf, pf = op[3], op[4]
            if prim == "lineTime":
                return v * tf
            if prim.startswith("image."):
                P2, L2 = v.shape[0] // pf, v.shape[1] // tf
                return v[: P2 * pf, : L2 * tf].reshape(P2, pf, L2, tf).sum(axis=(1, 3))
            r = prim[3:]
            full = v[: (v.shape[0] // pf) * pf, :].reshape(-1, pf, v.shape[1])
            if r == "mean":
                return timestamp_mean_plain(full, axis=1)
            return REDUCE[r](full, axis=1)
        if n == "flip":
            return v[::-1, :]
        if n in ("frames", "frame", "framecrop", "cropxy"):
            multi = v.ndim == 3
            if n == "frames":
                fr, ys, xs = slice(op[3], op[4]), slice(None), slice(None)
            elif n == "frame":
                fr, ys, xs = op[3], slice(None), slice(None)
            elif n == "framecrop":
                fr, ys, xs = slice(op[3], op[4]), slice(op[5], op[6]), slice(op[7], op[8])
            else:
                fr, ys, xs = slice(None), slice(op[5], op[6]), slice(op[3], op[4])
            if not multi:
                return v[ys, xs]
            if isinstance(fr, slice):
                sel = list(range(v.shape[0]))[fr]
                fr = sel[0] if len(sel) == 1 else fr
            return v[fr, ys, xs]
        raise Err("unevaluable:app:" + n)

    def via(self, p, ts):
        if self.case["family"] == "kymo":
            if p == "pixelTime":
                try:
                    return float(ts[1, 0] - ts[0, 0])
                except IndexError:
                    raise Err("IndexError")
            if p == "lineTime":
                if ts.shape[1] > 1:
                    return float(ts[0, 1] - ts[0, 0])
                return ts.shape[0] * self.via("pixelTime", ts)
        else:
            if p == "pixelTime":
                so = [0, 1] if self.spec["fast"] < self.spec["slow"] else [1, 0]
                ind = [0] * ts.ndim
                ind[-2 if so[0] > so[1] else -1] = 1
                try:
                    return float(ts.item(tuple(ind)) - ts.item(0))
                except IndexError:
                    raise Err("IndexError")
        raise Err("unevaluable:via:" + p)

    def expected(self, op, term, twin_value):
        """the canonical answer the model's term stands for at history step `op`"""
        t = parse_term(term)
        if t == "dead":
            return "dead"
        try:
            if isinstance(t, tuple) and t[0] == "static":
                k = t[1][0].split(";")[1]
                if op[0] == "d":
                    return "empty" if k == "1" else "made"
                return twin_value  # a function of the derivation path only: the twin is that function
            if op[0] == "d":
                if isinstance(t, tuple) and t[0] == "pair":
                    if op[2] == "slice":
                        return [self.raw(t[1][0]), self.raw(t[1][1])]
                    # Scan.__getitem__: start/stop from the new object's frame ranges
                    mn, mx = self.raw(t[1][0]), self.raw(t[1][1])
                    r = self.frame_ranges(mn, mx, dead=mn.ndim == 3)
                    return [int(r[0][0]), int(r[-1][-1])]
                raise Err(self.errors_only(t))
            q = op[2]
            if q == "image.rgb":
                # pair(pair(red, green), blue): the three memoised planes, stacked along a new last axis (np.stack refuses
                # planes of different shapes: photon streams that end at different samples)
                if not (isinstance(t, tuple) and t[0] == "pair" and isinstance(t[1][0], tuple) and t[1][0][0] == "pair"):
                    raise Err(self.errors_only(t))
                planes = [self.raw(t[1][0][1][0]), self.raw(t[1][0][1][1]), self.raw(t[1][1])]
                if len({p.shape for p in planes}) != 1:
                    raise Err("ValueError")
                return val(np.concatenate([p[..., None] for p in planes], axis=-1))
            if q in ("start", "stop", "infowave", "pixelTime", "lineTime", "numFrames") or q.startswith("image.") or q == "ts.mean":
                return val(self.raw(t))
            if q == "shape":
                if self.case["family"] == "kymo":
                    img = self.raw(t)
                    if isinstance(twin_value, list) and len(twin_value) == 3 and self.columns_open(img, twin_value[1]):
                        return [img.shape[0], twin_value[1], 3]
                    return list(img.shape) + [3]
                nf = self.raw(t)
                rest = twin_value[-3:] if isinstance(twin_value, list) else twin_value
                return ([nf] if nf > 1 else []) + rest if isinstance(rest, list) else rest
            if q == "lineRanges":
                if not (isinstance(t, tuple) and t[0] == "pair"):
                    raise Err(self.errors_only(t))
                mn, mx = self.raw(t[1][0]), self.raw(t[1][1])
                if self.case["family"] == "kymo":
                    return [[int(a), int(b)] for a, b in zip(mn[0], mx.max(axis=0) + self.spec["dt"])]
                return [[int(a), int(b)] for a, b in self.frame_ranges(mn, mx, dead=False)]
            if q == "duration":
                if not (isinstance(t, tuple) and t[0] == "pair"):
                    raise Err(self.errors_only(t))
                lt, img = float(self.raw(t[1][0])), self.raw(t[1][1])
                if isinstance(twin_value, float) and lt > 0:
                    cols = round(twin_value / lt)
                    if self.columns_open(img, cols) and same(twin_value, lt * cols):
                        return lt * cols
                return lt * img.shape[1]
        except Unreachable:
            unreached("model expectation skipped (per-pixel first / last sample timestamps could not be rebuilt)")
            return UNSEEN  # no expectation for this step: `same` ignores it (the twin oracle still pins the answer)
        except Err as e:
            name = str(e)
            return {"error": name} if not name.startswith("unevaluable") else {"unevaluable": name}
        except Exception as e:  # the term does not describe a computable value on this object
            return {"unevaluable": term + " raised " + errname(e)}
        return {"unevaluable": term}

    def first_last_plain(self, o, r):
        """per-pixel FIRST (r = "min") / LAST ("max") sample timestamps of a CLEAN object when the private memoised method
        behind them cannot be reached.  Rebuilt in plain Python from the description - the info-wave samples != 0 inside the
        object's window, cut at the end of a photon stream, grouped by the number of samples of the first pixel, padded with
        zeros to whole lines / frames, laid out like the image - and ACCEPTED ONLY IF the per-pixel mean rebuilt in exactly
        the same way equals, element for element, the object's public `timestamps` (that pins window, cut, grouping and
        layout; first and last of a group then are what min / max of it are).  Otherwise: no expectation."""
        spec = self.spec
        try:
            mean = np.asarray(o.timestamps)  # public; asks the photon counts, i.e. repairs a late start first
        except Exception as ex:
            raise Err(errname(ex))  # min / max go through the same reconstruction and fail the same way
        try:
            dt, iw = spec["dt"], spec["iw"]
            lo, hi = int(o.start), int(o.stop)
            cuts = {hi} | {T0 + (v[0] + len(v[1])) * dt for v in spec["chans"].values() if v and v[1]}
            for cut in sorted(cuts, reverse=True):
                used = [i for i in range(len(iw)) if lo <= T0 + i * dt < min(hi, cut) and iw[i] != 0]
                if not used:
                    continue
                codes = [iw[i] for i in used]
                k = codes.index(max(codes)) + 1  # samples per pixel: up to the first pixel boundary
                groups = [[T0 + i * dt for i in used[j : j + k]] for j in range(0, (len(used) // k) * k, k)]
                if not groups:
                    continue
                if self.case["family"] == "kymo":
                    per = spec["P"]
                    lay = lambda a: a.reshape(-1, per).T
                else:
                    per = spec["P"] * spec["L"]
                    swap = spec["fast"] > spec["slow"]
                    lay = lambda a: np.swapaxes(np.squeeze(a.reshape(-1, spec["L"], spec["P"])), -1, -2) if swap else np.squeeze(
                        a.reshape(-1, spec["L"], spec["P"]))
                pad = [0] * (-len(groups) % per)
                if lay(np.asarray([sum(g) // k for g in groups] + pad, dtype=np.int64)).tolist() == mean.tolist():
                    unreached("per-pixel first / last sample timestamps rebuilt in plain Python (validated against the public timestamps)")
                    return lay(np.asarray([g[0] if r == "min" else g[-1] for g in groups] + pad, dtype=np.int64))
        except Exception:
            pass
        raise Unreachable("ts." + r)

    def errors_only(self, t):
        # a term that is not a pair where a pair is expected must be a modelled exception
        try:
            self.raw(t)
        except Err as e:
            return str(e)
        return "unevaluable:not-an-error"

    def frame_ranges(self, mn, mx, dead):
        dt = self.spec["dt"]
        if mn.ndim == 2:
            return [(int(mn[0, 0]), int(mx.max()) + dt)]  # the first pixel marks the start (padding is zero)
        if dead:
            ft = mn[1, 0, 0] - mn[0, 0, 0]
            return [(int(t), int(t + ft)) for t in mn[:, 0, 0]]
        m = mx.max(axis=tuple(range(1, mx.ndim)))
        return [(int(a), int(b) + dt) for a, b in zip(mn[:, 0, 0], m)]


def agree(case, i, ia, ma):
    if ma == "bad-op":
        return False
    if al.is_alias(case):
        return ia == ma  # integers, flags and refusals: exactly
    terms = ma.split("|") if case["hist"] else []
    if len(terms) != len(case["hist"]):
        return False
    got = json.loads(ia)
    got = got["hist"] if i == 0 else got
    twin = json.loads(json.dumps(case["_fresh"]))
    ev = Evaluator(case) if is_confocal(case) else None
    bad = []
    with bc.quiet():
        for k, (op, term) in enumerate(zip(case["hist"], terms)):
            if ev is None:
                exp = "dead" if term == "dead" else twin[k]
                if term != "dead" and not term.startswith("static("):
                    exp = {"unevaluable": term}
            else:
                exp = ev.expected(op, term, twin[k])
            if not same(got[k], exp):
                bad.append((k, short(got[k]), short(exp), term))
    case.setdefault("_bad", {})[i] = bad
    return not bad


# =========================================================================== oracle (the property text itself)


def mismatches(case):
    return [k for k, (a, b) in enumerate(zip(case["_hist"], case["_fresh"])) if not same(json.loads(json.dumps(a)), json.loads(json.dumps(b)))]


def oracle(case, ia):
    if al.is_alias(case):
        return al.oracle(case, ia)
    hist = json.loads(ia[0])
    fresh = json.loads(ia[1])
    for k, (a, b) in enumerate(zip(hist["hist"], fresh)):
        if not same(a, b):
            op = case["hist"][k]
            return (
                f"order-dependence: step {k} {op} after {case['hist'][:k]} answers {short(a)} but a freshly constructed "
                f"object asked only this answers {short(b)}"
            )
    if hist["alias"]:
        return "aliasing: " + "; ".join(hist["alias"][:3])
    return None


F5_QUERIES = {"start", "lineTime", "pixelTime", "duration", "lineRanges", "ts.mean", "infowave", "stop"}


def late(case):
    """some photon timeline starts after the nominal start of the object (inside its window)"""
    if not is_confocal(case):
        return False
    s = case["obj"]
    for c in bc.COLORS:
        v = s["chans"].get(c)
        if v and v[1]:
            first = T0 + v[0] * s["dt"]
            if s["start"] < first < s["stop"]:
                return True
            # nominal start inside a sample: the first grid point at or after it lies after it
            if (s["start"] - first) % s["dt"] != 0 and first <= s["start"]:
                return True
    return False


def tags(case, r):
    if al.is_alias(case):
        return {"family": "alias", "confocal": True, "buffer_model": True}
    t = {"family": case["family"], "confocal": is_confocal(case)}
    try:
        hist = json.loads(r["impl"][0])
        fresh = json.loads(r["impl"][1])
        mism = [k for k, (a, b) in enumerate(zip(hist["hist"], fresh)) if not same(a, b)]
        mh = r["model"][0].split("|")
        mf = r["model"][1].split("|")
        nominal = str(case["obj"]["start"]) if is_confocal(case) else "?"
        t["photon_timeline_starts_after_nominal_start"] = late(case)
        t["every_order_dependent_step_is_an_F5_query"] = bool(mism) and all(
            case["hist"][k][0] == "q" and case["hist"][k][2] in F5_QUERIES for k in mism
        )
        # the twin's answer reflects the nominal (unrepaired) start, the history's answer a start that an earlier
        # photon-count access has repaired: "asked before the first photon-count access"
        t["twin_asked_before_first_photon_access"] = bool(mism) and all(
            nominal in mf[k] and mh[k] != mf[k] for k in mism if k < len(mf) and k < len(mh)
        )
        t["model_predicts_every_answer"] = not r["disagree"]
        t["no_aliasing"] = not hist["alias"]
    except Exception as e:  # tags must never break a run; an incomplete tag set matches no known finding
        t["tags_error"] = repr(e)
    return t


def nontrivial(case, ia):
    if al.is_alias(case):
        return al.nontrivial(case, ia)
    h = case["hist"]
    return len(h) >= 2 and any(o[0] == "q" for o in h[1:])


def shrink(case):
    if al.is_alias(case):
        yield from al.shrink(case)
        return
    h = case["hist"]
    for i in range(len(h) - 1, -1, -1):
        if h[i][0] == "q":
            yield dict({k: v for k, v in case.items() if not k.startswith("_")}, hist=h[:i] + h[i + 1 :])
    # dropping a trailing derivation is safe (nothing refers to it)
    if h and h[-1][0] == "d":
        yield dict({k: v for k, v in case.items() if not k.startswith("_")}, hist=h[:-1])


# =========================================================================== generators


def det_counts(n, salt=0):
    return [((i * 7 + 3 + salt) % 5) + (3 if i % 4 == 0 else 0) for i in range(n)]


def seek_next_line_plain(iw, dt, start_idx):
    """plain port of seek_timestamp_next_line on iw[start_idx:] (index of the sample the repair moves to, or None)"""
    used = [i for i in range(start_idx, len(iw)) if iw[i] != 0]
    ends = [j for j, i in enumerate(used) if iw[i] == 2]
    ps = [used[j + 1] for j in ends[:-1] if j + 1 < len(used)]
    ds = [b - a for a, b in zip(ps, ps[1:])]
    if not ds:
        return None
    thr = (max(ds) + min(ds)) / 2
    idx = next((i for i, d in enumerate(ds) if d > thr), 0)
    return ps[idx + 1]


def kymo_obj(P, lines, k, lead_in, dead, *, drop=0, late=0, early=None, short=None, absent=(), sub=0, dt=12800,
             salt=0, tail=1):
    """kymograph description.  drop: info-wave samples removed at the front (nominal start mid-line);
    late: every photon stream starts `late` samples after the nominal start; early: {colour: samples before};
    short: {colour: kept length}; sub: nominal start `sub` ns before the first sample (inside the previous one)."""
    iw = bc.infowave(P, lines, k, lead_in=lead_in, dead=dead, tail=tail)[drop:]
    n = len(iw)
    chans = {}
    for ci, c in enumerate(bc.COLORS):
        if c in absent:
            chans[c] = None
            continue
        off = late if late else -int((early or {}).get(c, 0))
        data = det_counts(n - off, salt + ci)
        if short and c in short:
            data = data[: max(1, short[c])]
        chans[c] = [off, data]
    return {"kind": "kymo", "iw": iw, "P": P, "dt": dt, "start": T0 - sub, "stop": T0 + n * dt, "chans": chans,
            "px_nm": 125.0}


def scan_obj(P, L, frames, k, lead_in, dead, frame_dead, fast, slow, *, late=0, early=None, short=None, absent=(),
             sub=0, dt=12800, salt=0, trunc=None):
    iw = bc.infowave(P, L * frames, k, lead_in=lead_in, dead=dead, L=L, frame_dead=frame_dead, tail=1, trunc=trunc)
    n = len(iw)
    chans = {}
    for ci, c in enumerate(bc.COLORS):
        if c in absent:
            chans[c] = None
            continue
        off = late if late else -int((early or {}).get(c, 0))
        data = det_counts(n - off, salt + ci)
        if short and c in short:
            data = data[: max(1, short[c])]
        chans[c] = [off, data]
    return {"kind": "scan", "iw": iw, "P": P, "L": L, "fast": fast, "slow": slow, "dt": dt, "start": T0 - sub,
            "stop": T0 + n * dt, "chans": chans, "scan_count": 0}


class Tracker:
    """what the generator has to know about the objects of a history to emit valid derivations"""

    def __init__(self, fam, obj, line_bias=False):
        self.fam = fam
        self.obj = obj
        self.line_bias = line_bias  # time slices mostly keep exactly one scan line / a few whole lines
        if fam == "kymo":
            self.objs = [{"rows": obj["P"], "root": True, "kbp": False}]
        elif fam == "scan":
            keep = min([len(obj["iw"])] + [v[0] + len(v[1]) for v in obj["chans"].values() if v and v[1]])
            npx = sum(1 for c in obj["iw"][: max(keep, 0)] if c == 2)
            nf = max(1, -(-npx // (obj["P"] * obj["L"])))
            self.short = keep < len(obj["iw"])
            # the photon streams hold ONE frame while the info wave counts several: the reconstruction is squeezed to a
            # single frame and every index expression built for a multi-frame scan raises IndexError (an incomplete export
            # that cannot be sliced: not this property's subject) - such a scan is only copied
            self.flat = nf == 1 and sum(1 for c in obj["iw"] if c == 2) > obj["P"] * obj["L"]
            h, w = (obj["L"], obj["P"]) if obj["fast"] < obj["slow"] else (obj["P"], obj["L"])
            self.objs = [{"nf": nf, "h": h, "w": w}]
        else:
            self.objs = [{}]

    def kymo_times(self, rng):
        n = len(self.obj["iw"])
        dt = self.obj["dt"]
        starts = [i for i in range(n) if self.obj["iw"][i] != 0 and (i == 0 or self.obj["iw"][i - 1] == 0)]
        t = T0 + rng.choice(starts or [0]) * dt + rng.choice([0, 0, 1, -1, dt])
        return t

    def kymo_line_window(self, rng):
        """a time window cut at scan-line starts: exactly one line (first / interior / last), the last line with an open
        end, or a run of lines; the bounds are sometimes moved by a nanosecond or a sample (same lines selected)"""
        L = line_starts_plain(self.obj)
        n, dt = len(L), self.obj["dt"]
        if n < 2:
            return None, None
        mode = rng.choice(["one", "one", "one", "last", "last", "first", "run"])
        if mode == "one":
            k = rng.randint(0, n - 1)
            a, b = L[k], (L[k + 1] if k + 1 < n else None)
        elif mode == "last":
            a, b = L[n - 1], rng.choice([None, None, L[n - 1] + dt])
        elif mode == "first":
            a, b = rng.choice([None, L[0]]), L[1]
        else:
            k = rng.randint(0, n - 2)
            j = rng.randint(k + 2, n)
            a, b = L[k], (L[j] if j < n else None)
        # start <= line start selects that line; stop in (start of line j-1, start of line j] ends before line j
        if a is not None:
            a -= rng.choice([0, 0, 0, 1, dt - 1])
        if b is not None:
            b -= rng.choice([0, 0, 0, 1, dt - 1])
        return a, b

    def queries(self):
        if self.fam == "kymo":
            return ["start", "stop", "infowave", "pixelTime", "lineTime", "image.r", "image.g", "ts.mean", "lineRanges",
                    "shape", "duration", "static.0"]
        if self.fam == "scan":
            return ["start", "stop", "infowave", "pixelTime", "image.r", "image.g", "ts.mean", "lineRanges", "shape",
                    "numFrames", "static.0"]
        return list(family(self.fam).queries)

    def colour_queries(self):
        """the queries that reconstruct something from a photon stream: every colour plane, the timestamps (first colour
        that has data) and what is computed from them"""
        return ["image.r", "image.g", "image.b", "ts.mean", "lineRanges", "shape"] + (["duration"] if self.fam == "kymo" else [])

    def full_colour_queries(self):
        """the full colour image get_image("rgb") (a stack of the three colour planes, made on every call) next to the planes
        it is made of and the shape"""
        return ["image.rgb", "image.rgb", "image.rgb", "image.r", "image.g", "image.b", "shape"]

    def derive(self, rng, i, views=False):
        """a (mostly valid) derivation of object i; registers the new object.  views: mostly derivations whose factories
        are closures over object i (crop, downsample, flip), with position factors of 2 and 3"""
        m = dict(self.objs[i])
        if self.fam == "kymo":
            if views:
                choice = rng.choice(["crop", "crop", "crop", "down", "down", "down", "flip", "kbp", "copy", "slice"])
                if choice == "slice" and not m["root"]:
                    choice = "crop"  # a time slice of a processed kymograph raises (that is the malformed stream's subject)
            else:
                choice = rng.choice(["copy", "kbp", "slice", "slice", "crop", "crop", "down", "flip"])
            if choice == "kbp" and m["kbp"]:
                choice = "copy"
            # flip: only of objects with default factories (a flipped view calls the view's factory FUNCTIONS, not its
            # cached methods); not of one-pixel kymographs (line time falls back on a pixel time that needs two rows)
            if choice == "flip" and (not m["root"] or m["rows"] < 2):
                choice = "crop"
            if choice in ("crop", "down") and m["rows"] < 1:
                choice = "copy"
            if choice == "copy":
                op = ["d", i, "copy"]
            elif choice == "kbp":
                op = ["d", i, "kbp", 2.0 * m["rows"]]
                m["kbp"] = True
            elif choice == "slice" and self.line_bias and rng.chance(0.8):
                a, b = self.kymo_line_window(rng)
                op = ["d", i, "slice", a, b]
            elif choice == "slice":
                a = rng.choice([None, None, self.kymo_times(rng)])
                b = rng.choice([None, None, self.kymo_times(rng)])
                op = ["d", i, "slice", a, b]
            elif choice == "crop" and views:
                # keeps at least half of the rows, so that the cropped kymograph can still be cropped / binned again
                p0 = rng.randint(0, m["rows"] // 2)
                p1 = rng.randint(max(p0 + 1, m["rows"] - m["rows"] // 2), m["rows"])
                op = ["d", i, "crop", p0, p1]
                m["rows"], m["root"] = p1 - p0, False
            elif choice == "crop":
                p0 = rng.randint(0, m["rows"] - 1)
                p1 = rng.randint(p0 + 1, m["rows"])
                op = ["d", i, "crop", p0, p1]
                m["rows"], m["root"] = p1 - p0, False
            elif choice == "down":
                pf = max(1, min(m["rows"], rng.choice([1, 2, 2, 2, 3]))) if views else rng.randint(1, min(2, m["rows"]))
                tf = rng.choice([1, 1, 2])
                op = ["d", i, "down", tf, pf]
                m["rows"], m["root"] = m["rows"] // pf, False
            else:
                op = ["d", i, "flip"]
                m["root"] = False
        elif self.fam == "scan":
            choice = rng.choice(["copy", "frames", "frame", "framecrop", "cropxy"])
            if getattr(self, "flat", False):
                choice = "copy"
            nf, h, w = m["nf"], m["h"], m["w"]
            if choice == "copy":
                op = ["d", i, "copy"]
            elif choice == "frames":
                a = rng.randint(0, nf - 1)
                b = rng.randint(a + 1, nf)
                short = getattr(self, "short", False)
                op = ["d", i, "frames", rng.choice([a, a, None]) if a == 0 else a, rng.choice([b, None]) if b == nf and not short else b]
                m["nf"] = b - a
            elif choice == "frame":
                k = rng.randint(0, nf - 1)
                op = ["d", i, "frame", k if getattr(self, "short", False) else rng.choice([k, k - nf])]
                m["nf"] = 1
            else:
                y0 = rng.randint(0, h - 1)
                y1 = rng.randint(y0 + 1, h)
                x0 = rng.randint(0, w - 1)
                x1 = rng.randint(x0 + 1, w)
                if choice == "framecrop":
                    a = rng.randint(0, nf - 1)
                    b = rng.randint(a + 1, nf)
                    op = ["d", i, "framecrop", a, b, y0, y1, x0, x1]
                    m["nf"] = b - a
                else:
                    op = ["d", i, "cropxy", x0, x1, y0, y1]
                m["h"], m["w"] = y1 - y0, x1 - x0
        else:
            op = pure_derive(self, rng, i, m)
        self.objs.append(m)
        return op


def random_history(rng, fam, obj, length, p_derive=0.3, qs=None):
    tr = Tracker(fam, obj)
    hist = []
    qs = qs or tr.queries()
    for _ in range(length):
        # address the source, the newest object, or any object
        n = len(tr.objs)
        i = rng.choice([0, n - 1, rng.randint(0, n - 1)])
        if rng.chance(p_derive) and n < 5:
            hist.append(tr.derive(rng, i))
        else:
            hist.append(["q", i, rng.choice(qs)])
    return hist


def random_history_derived(rng, fam, obj, length):
    """source asked first, derived objects made and asked afterwards: 1-3 queries on the source, a derivation (kymograph
    time slices mostly keep one scan line), then queries that mostly REPEAT a query asked before, on the newest object or
    on one of its ancestors, with further derivations of the newest object in between"""
    tr = Tracker(fam, obj, line_bias=True)
    qs = tr.queries()
    memo = [q for q in qs if q in ("lineTime", "pixelTime", "duration", "image.r", "ts.mean", "lineRanges", "shape", "start")]
    hist, asked = [], []

    def ask(i):
        q = rng.choice(asked) if asked and rng.chance(0.6) else rng.choice(memo if rng.chance(0.6) else qs)
        asked.append(q)
        hist.append(["q", i, q])

    for _ in range(rng.randint(1, min(3, max(1, length - 2)))):
        ask(0)
    while len(hist) < length:
        n = len(tr.objs)
        if n < 5 and (n == 1 or rng.chance(0.3)):
            op = tr.derive(rng, n - 1)
            if fam == "kymo" and op[2] not in ("slice", "copy") and rng.chance(0.5):
                # mostly time slices (and slices of slices): replace the registered view by a slice
                tr.objs[-1] = dict(tr.objs[n - 1])
                a, b = tr.kymo_line_window(rng)
                op = ["d", n - 1, "slice", a, b]
            hist.append(op)
        else:
            ask(rng.choice([n - 1, n - 1, n - 1, rng.randint(0, n - 1)]))
    return hist


def random_history_chain(rng, fam, obj, length, qs=None):
    """objects derived from DERIVED objects: a chain of 2-3 derivations, each of the newest object (kymographs: mostly crop /
    downsample / flip, whose factories close over the object they were made from), then queries that mostly REPEAT one
    question (often the calibration / pixel-size block) - on the newest object, on one of the objects it was derived from,
    on the source - and now and then a sibling derived from an object that has been asked already"""
    tr = Tracker(fam, obj)
    focus = rng.choice(qs if qs else ["static.0", "static.0", "static.0"] + tr.queries())  # the question this history keeps coming back to
    qs = qs or tr.queries()
    hist, asked = [], False
    for _ in range(min(rng.randint(2, 3), max(1, length - 2))):
        hist.append(tr.derive(rng, len(tr.objs) - 1, views=True))
    while len(hist) < length:
        n = len(tr.objs)
        if n < 5 and asked and rng.chance(0.15):
            hist.append(tr.derive(rng, rng.randint(0, n - 1), views=True))
            continue
        asked = True
        hist.append(["q", rng.choice([n - 1, n - 1, rng.randint(0, n - 1)]), focus if rng.chance(0.65) else rng.choice(qs)])
    return hist


def keep_len3(h):
    """length-3 histories that are always kept: a query, anything, the same query again (idempotence / a derivation in
    between); a derivation followed by the same query on two objects"""
    a, b, c = h
    if a[0] == "q" and c[0] == "q" and a[2] == c[2]:
        return True
    if a[0] == "d" and b[0] == "q" and c[0] == "q" and b[2] == c[2]:
        return True
    if a[0] == "d" and b[0] == "d" and c[0] == "q":
        return True
    return False


def exhaustive_histories(fam, obj, alphabet_q, derivs, maxlen):
    """all histories of length <= maxlen: queries of `alphabet_q` on object 0 or the newest object, derivations
    from `derivs` (functions of the target id)"""
    out = [[]]
    frontier = [[]]
    for _ in range(maxlen):
        nxt = []
        for h in frontier:
            nobj = 1 + sum(1 for o in h if o[0] == "d")
            targets = sorted({0, nobj - 1})
            for t in range(nobj):
                for q in alphabet_q:
                    nxt.append(h + [["q", t, q]])
            for t in targets:
                if nobj < 3:
                    for d in derivs:
                        op = d(t, h)
                        if op is not None:
                            nxt.append(h + [op])
        out.extend(nxt)
        frontier = nxt
    return out


def is_view(h, t):
    """object t of history h was made by crop/down/flip (or copies one)"""
    if t == 0:
        return False
    x = [i for i, o in enumerate(h) if o[0] == "d"][t - 1]
    if h[x][2] in ("crop", "down", "flip"):
        return True
    if h[x][2] in ("copy", "kbp"):
        return is_view(h, h[x][1])
    return False


def rows_of(h, t, P):
    """pixel rows of object t of a small-scope kymograph history"""
    if t == 0:
        return P
    x = [i for i, o in enumerate(h) if o[0] == "d"][t - 1]
    r = rows_of(h, h[x][1], P)
    if h[x][2] == "crop":
        return h[x][4] - h[x][3]
    if h[x][2] == "down":
        return r // h[x][4]
    return r


KYMO_DERIVS = [
    lambda t, h: ["d", t, "slice", None, None] if not is_view(h, t) else None,
    lambda t, h: ["d", t, "crop", 0, 1],
    lambda t, h: ["d", t, "copy"],
    lambda t, h: ["d", t, "down", 1, 2] if rows_of(h, t, 2) >= 2 else None,
]
KYMO_DERIVS_MORE = KYMO_DERIVS + [
    lambda t, h: ["d", t, "down", 1, 1],
    lambda t, h: ["d", t, "down", 2, 1],
    lambda t, h: ["d", t, "flip"] if not is_view(h, t) else None,
]
SCAN_DERIVS = [
    lambda t, h: ["d", t, "frames", 0, 1],
    lambda t, h: ["d", t, "cropxy", 0, 1, 0, 1],
    lambda t, h: ["d", t, "copy"],
]


def view_derivs(h, t, obj):
    """the derivations tried on object t of history h in the derived-from-derived scope (functions of its pixel rows and
    of how it was made)"""
    if obj["kind"] == "scan":
        return [["frames", 0, 1], ["frames", 1, 2], ["frame", -1], ["cropxy", 0, 1, 0, 1], ["framecrop", 0, 2, 0, 1, 0, 2], ["copy"]]
    r = rows_of(h, t, obj["P"])
    out = [["crop", 1 if r >= 2 else 0, r - 1 if r >= 4 else r], ["down", 2, 1], ["copy"]]
    if r >= 2:
        out.append(["down", 1, 2])
    if not is_view(h, t):
        L = line_starts_plain(obj)
        out.append(["slice", L[1], None])
        if r >= 2:
            out.append(["flip"])
    if not any(o[0] == "d" and o[2] == "kbp" for o in h):
        out.append(["kbp", 2.0 * r])
    return out


def chain_histories(fam, obj, alphabet_q, depth=2):
    """objects derived from DERIVED objects, every chain (D1, D2[, D3]) of derivations, each of the newest object, and every
    query a:   depth 2: [D1, D2, ask object 2 a, ask it a again, ask object 1 a, ask the source a, ask object 2 a]
               depth 3: [D1, D2, D3, ask object 3 a, ask it a again, ask object 2 a, ask object 1 a, ask object 3 a]
    (idempotence on the newest object; what it was derived from answers as before after the newest one has been asked;
    the newest one answers as before after its ancestors have been asked)"""
    chains = [[]]
    for level in range(depth):
        chains = [h + [["d", level] + d] for h in chains for d in view_derivs(h, level, obj)]
    asked = [depth, depth] + list(range(depth - 1, -1, -1))[: 5 - depth] + [depth]
    return [h + [["q", t, a] for t in asked] for h in chains for a in alphabet_q]


def line_starts_plain(obj):
    """timestamp of the first sample of every scan line, from the info wave alone (lines are separated by dead time)"""
    iw, dt = obj["iw"], obj["dt"]
    return [T0 + i * dt for i in range(len(iw)) if iw[i] != 0 and (i == 0 or iw[i - 1] == 0)]


def line_slices(obj):
    """time windows [a, b) that keep exactly ONE scan line - the first, every interior one, the last (open ends where the
    window touches an end of the kymograph) - and the window that drops the first line only.  A one-line kymograph has a
    line time of its own (no dead time), a pixel time, image, timestamps, start and duration different from its source."""
    L = line_starts_plain(obj)
    n = len(L)
    out = []
    for k in range(n):
        a = None if k == 0 else L[k]
        b = None if k == n - 1 else L[k + 1]
        if a is not None or b is not None:
            out.append((a, b))
    if n >= 3:
        out.append((L[1], None))
    return out


def derive_after_query_histories(fam, obj, alphabet_q, slice_pairs=True):
    """histories in which an object is ASKED FIRST and a derived object is made and asked AFTERWARDS: nothing the source
    (or a derived object) has memoised may reach the object derived from it.
      [q0 a, D, q1 b]             every pair (a, b) of queries, every derivation D (one-line / last-line time slices, whole
                                  slice, crop, copy, calibrate, downsample in time and position, flip; scans: frame ranges,
                                  single frame, spatial crop, copy)
      [D, q a, q a]               on the derived object twice, derived then source, source then derived
      [q0 a, S, S', q2 a] and [S, q1 a, S', q2 a]   slice of a slice, for all pairs of line slices (kymographs)"""
    out = []
    if fam == "kymo":
        slices = [["slice", a, b] for a, b in line_slices(obj)]
        derivs = slices + [["slice", None, None], ["crop", 0, 1], ["copy"], ["kbp", 2.0 * obj["P"]], ["down", 2, 1]]
        if obj["P"] >= 2:
            derivs += [["down", 1, 2], ["flip"]]
    else:
        slices = []
        derivs = [["frames", 0, 1], ["frames", 1, 2], ["frame", -1], ["cropxy", 0, 1, 0, 1], ["copy"]]
    for d in derivs:
        for a in alphabet_q:
            for b in alphabet_q:
                out.append([["q", 0, a], ["d", 0] + d, ["q", 1, b]])
    for d in slices or derivs:
        for a in alphabet_q:
            out.append([["d", 0] + d, ["q", 1, a], ["q", 1, a]])
            out.append([["d", 0] + d, ["q", 1, a], ["q", 0, a]])
            out.append([["d", 0] + d, ["q", 0, a], ["q", 1, a]])
    for d in slices if slice_pairs else []:
        for d2 in slices:
            for a in alphabet_q:
                out.append([["q", 0, a], ["d", 0] + d, ["d", 1] + d2, ["q", 2, a]])
                out.append([["d", 0] + d, ["q", 1, a], ["d", 1] + d2, ["q", 2, a]])
    return out


def pure_derive(tr, rng, i, m):
    fam = tr.fam
    n = len(tr.objs)
    if fam == "channel":
        spec = tr.obj
        if spec["kind"] == "cont":
            lo, hi = spec["start"], spec["start"] + len(spec["data"]) * spec["dt"]
        else:
            lo, hi = spec["ts"][0], spec["ts"][-1] + 1
        t = lambda: rng.choice([None, rng.randint(lo - 2, hi + 2), lo, hi])
        choice = rng.choice(["slice", "slice", "downby", "add", "mul", "neg", "sub_self", "rsub", "pow", "div_other", "copy"])
        if choice == "slice":
            return ["d", i, "slice", t(), t()]
        if choice == "downby":
            return ["d", i, "downby", rng.randint(1, 3)]
        if choice in ("add", "mul", "rsub"):
            return ["d", i, choice, float(rng.randint(1, 4))]
        if choice == "div_other":
            return ["d", i, "div_other", i]
        return ["d", i, choice]
    if fam == "fd":
        spec = tr.obj
        lo, hi = spec["ts"][0], spec["ts"][-1] + 1
        choice = rng.choice(["slice", "slice", "offset", "channels", "sub", "bydist", "copy"])
        if choice == "slice":
            a = rng.randint(lo - 1, hi)
            return ["d", i, "slice", rng.choice([None, a]), rng.choice([None, rng.randint(a, hi + 1)])]
        if choice == "offset":
            return ["d", i, "offset", float(rng.randint(-2, 2)), float(rng.choice([0, 0, 1, 2]))]
        if choice == "channels":
            return ["d", i, "channels", rng.choice(["1", "2", "1x"]), rng.choice(["1", "2"])]
        if choice == "sub":
            return ["d", i, "sub", rng.randint(0, n - 1)]
        if choice == "bydist":
            return ["d", i, "bydist", float(rng.randint(0, 4)), float(rng.randint(5, 12))]
        return ["d", i, "copy"]
    if fam == "stack":
        spec = tr.obj
        nfr, h, w = sum(spec["files"]), spec["h"], spec["w"]
        choice = rng.choice(["frames", "frames", "frame", "crop", "roi", "tether", "copy"])
        if choice == "frames":
            return ["d", i, "frames", rng.choice([None, 0, 1, -2]), rng.choice([None, nfr, nfr - 1, -1]), rng.choice([None, 1, 2])]
        if choice == "frame":
            return ["d", i, "frame", rng.randint(0, max(0, nfr - 1))]
        x0 = rng.randint(0, w - 2)
        y0 = rng.randint(0, h - 2)
        if choice in ("crop", "roi"):
            return ["d", i, choice, x0, rng.randint(x0 + 1, w), y0, rng.randint(y0 + 1, h)]
        if choice == "tether":
            return ["d", i, "tether", float(x0), float(y0), float(x0 + 1), float(y0)]
        return ["d", i, "copy"]
    if fam == "tracks":
        choice = rng.choice(["filter", "slice", "refine", "add", "add_slices", "add_rest", "copy"])
        if choice == "filter":
            return ["d", i, "filter", rng.randint(1, 5)]
        if choice == "slice":
            return ["d", i, "slice", rng.choice([None, 0, 1]), rng.choice([None, 1, 2, -1])]
        if choice == "refine":
            return ["d", i, "refine", rng.choice([0.3, 0.5])]
        if choice == "add":
            return ["d", i, "add", rng.randint(0, n - 1)]
        if choice in ("add_slices", "add_rest"):
            return ["d", i, choice]
        return ["d", i, "copy"]
    raise KeyError(fam)


def channel_obj(rng):
    n = rng.randint(1, 12)
    if rng.chance(0.6):
        return {"kind": "cont", "data": [float(v) for v in range(1, n + 1)], "start": T0 + rng.randint(0, 5), "dt": rng.choice([1, 7, 12800]),
                "h5": rng.chance(0.5)}
    ts, t = [], T0
    for _ in range(n):
        t += rng.randint(1, 9)
        ts.append(t)
    return {"kind": "ts", "data": [float(v) for v in range(1, n + 1)], "ts": ts}


def fd_obj(rng):
    n = rng.randint(4, 12)
    ts = [T0 + 1000 * i for i in range(n)]
    d1 = [1.0 + i for i in range(n)]
    return {"ts": ts, "f2": [float((i * 3) % 7 + 1) for i in range(n)], "f1": [float((i * 5) % 11 + 2) for i in range(n)],
            "d1": d1, "d2": [2.0 + 0.5 * i for i in range(n)], "start": ts[0], "stop": ts[-1] + 1}


def stack_obj(rng):
    import builders_tiff as bt

    files = rng.choice([[3], [4], [2, 2], [5]])
    return bt.make_spec(files=files, h=rng.randint(3, 4), w=rng.randint(3, 5), colour=rng.choice(["grey", "rgb"]),
                        exposure=rng.choice([None, 40_000_000]), align=False)


def tracks_obj(rng):
    npix, nlines = rng.randint(8, 12), rng.randint(8, 14)
    img = [[(r * 3 + c * 5) % 7 for c in range(nlines)] for r in range(npix)]
    tracks = []
    for _ in range(rng.randint(1, 4)):
        t0 = rng.randint(0, nlines - 4)
        ln = rng.randint(2, nlines - t0)
        tracks.append({"t": list(range(t0, t0 + ln)), "c": [2.0 + ((j * 3) % 5) * 0.5 for j in range(ln)]})
    return {"image": img, "tracks": tracks, "route": rng.choice(["lowlevel", "array"]), "line_time_s": 0.125}


def confocal_objects(quick):
    """fixed objects of the exhaustive scope"""
    objs = [
        ("kymo", kymo_obj(2, 3, 2, 1, 2)),  # normal
        ("kymo", kymo_obj(2, 4, 2, 0, 2, drop=1, late=2)),  # truncated first line: nominal start mid-line, photons late
        ("kymo", kymo_obj(2, 3, 1, 1, 1, short={"red": 7, "green": 7, "blue": 7})),  # photon stream shorter than the info wave
        ("scan", scan_obj(2, 2, 2, 1, 1, 1, 2, 0, 1)),
    ]
    if not quick:
        objs += [
            ("kymo", kymo_obj(3, 3, 1, 2, 3, late=1)),  # late, nominal start in the lead-in
            ("kymo", kymo_obj(2, 3, 2, 1, 2, sub=5, early={"red": 2, "green": 2, "blue": 2})),  # start inside a sample
            ("kymo", kymo_obj(2, 3, 1, 0, 2, absent=("red",), early={"green": 1})),
            ("scan", scan_obj(2, 2, 1, 2, 0, 1, 0, 1, 0, sub=7, early={"red": 1, "green": 1, "blue": 1})),
            ("scan", scan_obj(2, 2, 2, 1, 1, 1, 1, 0, 1, late=1)),  # truncated scan: photon access raises
        ]
    return objs


def colour_objects(quick):
    """fixed objects of the per-colour scope: the photon streams of the colours DIFFER (each ends at its own sample, before the
    end of the info wave), so whatever is reconstructed from one colour has its own extent"""
    objs = [
        # info wave of 4 lines; red covers 2 lines, green 3 lines, blue everything
        ("kymo", kymo_obj(2, 4, 1, 1, 1, short={"red": 7, "green": 10})),
        # two frames; every stream ends inside the last frame: red after its first pixel, green after its first line
        ("scan", scan_obj(2, 2, 2, 1, 1, 1, 2, 0, 1, short={"red": 10, "green": 12})),
    ]
    if not quick:
        objs += [
            ("kymo", kymo_obj(2, 4, 2, 0, 2, short={"green": 9, "blue": 14}, absent=("red",))),  # no red: green gives the timestamps
            ("kymo", kymo_obj(3, 3, 1, 1, 1, short={"red": 12, "green": 6, "blue": 9}, early={"red": 2, "green": 1})),
        ]
    return objs


def random_confocal_colours(rng):
    """objects whose colour channels differ: every photon stream ends at its own sample (some cover the whole info wave,
    some are absent, at least two end at different samples before the end of the info wave) and starts its own number
    of samples before the scan"""
    cols = list(bc.COLORS)
    kw = {"salt": rng.randint(0, 9), "dt": rng.choice([12800, 1000, 16])}
    if rng.chance(0.65):
        fam = "kymo"
        P, lines, k = rng.randint(1, 4), rng.randint(2, 5), rng.randint(1, 3)
        lead_in, dead = rng.randint(0, 3), rng.randint(1, 3)
        n = len(bc.infowave(P, lines, k, lead_in=lead_in, dead=dead, tail=1))
        lo = max(2, lead_in + P * k + 1)  # the first line is complete
    else:
        fam = "scan"
        P, L, frames, k = rng.randint(2, 3), rng.randint(2, 3), rng.randint(1, 3), rng.randint(1, 2)
        fast, slow = rng.choice([(0, 1), (1, 0), (0, 2), (2, 1)])
        lead_in, dead, fd = rng.randint(0, 2), rng.randint(0, 2), rng.randint(0, 3)
        full = bc.infowave(P, L * frames, k, lead_in=lead_in, dead=dead, L=L, frame_dead=fd, tail=1)
        n = len(full)
        lo = [j for j, c in enumerate(full) if c == 2][(frames - 1) * P * L] + 1  # ends inside the LAST frame (see ASSUMPTIONS)
    rng.shuffle(cols)
    ends = rng.sample(list(range(lo, n)), 2)  # two colours that end at different samples
    ends.append(rng.choice([n, n, rng.randint(lo, n - 1), ends[0], None]))  # the third: complete, short, equally short, absent
    early = {c: rng.choice([0, 0, 0, 1, 2]) for c in cols}
    short = {c: e + early[c] for c, e in zip(cols, ends) if e is not None and e < n}
    kw.update(short=short, early=early, absent=tuple(c for c, e in zip(cols, ends) if e is None))
    if fam == "kymo":
        return fam, kymo_obj(P, lines, k, lead_in, dead, **kw), "colours"
    return fam, scan_obj(P, L, frames, k, lead_in, dead, fd, fast, slow, **kw), "colours"


def random_confocal(rng):
    if rng.chance(0.65):
        P, lines, k = rng.randint(1, 4), rng.randint(2, 5), rng.randint(1, 3)
        lead_in, dead = rng.randint(0, 3), rng.randint(1, 3)
        mode = rng.choice(["normal", "normal", "late", "late", "midline", "short", "sub", "absent", "early"])
        kw = {"salt": rng.randint(0, 9), "dt": rng.choice([12800, 1000, 16])}
        if mode in ("late", "midline"):
            lines = max(lines, 3)
            if mode == "midline":
                kw["drop"] = lead_in + rng.randint(1, max(1, P * k - 1))
            iw = bc.infowave(P, lines, k, lead_in=lead_in, dead=dead, tail=1)[kw.get("drop", 0):]
            r = seek_next_line_plain(iw, kw["dt"], 0)
            if r is None or r < 1:
                mode = "normal"
                kw.pop("drop", None)
            else:
                kw["late"] = rng.randint(1, r)
        if mode == "short":
            n = len(bc.infowave(P, lines, k, lead_in=lead_in, dead=dead, tail=1))
            keep = rng.randint(max(2, lead_in + P * k + 1), n - 1)
            kw["short"] = {c: keep for c in bc.COLORS}
        if mode == "sub":
            kw["sub"] = rng.randint(1, kw["dt"] - 1)
            kw["early"] = {c: rng.randint(1, 3) for c in bc.COLORS}
        if mode == "absent":
            kw["absent"] = tuple(rng.sample(list(bc.COLORS), rng.randint(1, 2)))
        if mode == "early":
            kw["early"] = {c: rng.randint(0, 3) for c in bc.COLORS}
        return "kymo", kymo_obj(P, lines, k, lead_in, dead, **kw), mode
    P, L, frames, k = rng.randint(2, 3), rng.randint(2, 3), rng.randint(1, 3), rng.randint(1, 2)
    fast, slow = rng.choice([(0, 1), (1, 0), (0, 2), (2, 1)])
    mode = rng.choice(["normal", "normal", "normal", "late", "sub", "short", "absent", "unfinished"])
    kw = {"salt": rng.randint(0, 9), "dt": rng.choice([12800, 1000])}
    if mode == "late":
        kw["late"] = rng.randint(1, 3)
    if mode == "sub":
        kw["sub"] = rng.randint(1, kw["dt"] - 1)
        kw["early"] = {c: rng.randint(1, 3) for c in bc.COLORS}
    if mode == "absent":
        kw["absent"] = tuple(rng.sample(list(bc.COLORS), rng.randint(1, 2)))
    lead_in, dead, fd = rng.randint(0, 2), rng.randint(0, 2), rng.randint(0, 3)
    n = len(bc.infowave(P, L * frames, k, lead_in=lead_in, dead=dead, L=L, frame_dead=fd, tail=1))
    if mode == "short":
        # the stream ends inside the LAST frame (a stream that misses whole frames makes Scan.num_frames, which counts
        # info-wave pixels, disagree with the image; indexing such a scan is outside this property)
        full = bc.infowave(P, L * frames, k, lead_in=lead_in, dead=dead, L=L, frame_dead=fd, tail=1)
        bpos = [j for j, c in enumerate(full) if c == 2]
        keep = rng.randint(bpos[(frames - 1) * P * L] + 1, n - 1)
        kw["short"] = {c: keep for c in bc.COLORS}
    if mode == "unfinished" and frames >= 2:
        kw["trunc"] = rng.randint(n - (P * k + dead) * L, n - 1)
    return "scan", scan_obj(P, L, frames, k, lead_in, dead, fd, fast, slow, **kw), mode


TRACK_EMPTIES = ("new", "slice", "filter")
TRACK_EDITS = (
    [["remove", 0]],
    [["remove", -1], ["remove", 0]],
    [["extend_track", 0, -1]],  # refused (ValueError) when the track is in the group already
    [["remove", 0], ["extend", 0, 0, 1]],  # take the first track out and put it back at the end
    [["filter", 4]],
)


def edit_histories(quick):
    """derived track groups that are WORKED ON (public in-place operations: extend by a group / by a single track, remove,
    filter) as soon as they have been made, with an EMPTY group as an operand of the arithmetic among the derivations
    (`KymoTrackGroup([]) + tracks`, `tracks + empty`, `acc = empty; acc.extend(tracks)`; the empty group from the constructor,
    an empty slice, a filter nothing passes).  For every derivation D, edit list E and query a:
      [D+E, ask the source a]                                     the source does not notice
      [D, D+E, ask object 1 a, ask the source a, ask object 2 a]  neither does a group derived earlier the same way
      [first track, D of it + 'extend by the rest of the source', ask object 1 a, ask the source a, ask object 2 a]"""
    ds = [[n, how] for n in ("radd_empty", "extend_empty", "add_empty") for how in (TRACK_EMPTIES[:1] if quick else TRACK_EMPTIES)]
    ds += [["copy"], ["slice", None, 2], ["add_slices"], ["filter", 4]] + ([] if quick else [["refine", 0.5], ["add", 0]])
    out = []
    for d in ds:
        for e in TRACK_EDITS:
            for a in ("state", "len"):
                out.append([["d", 0] + d + [{"edit": e}], ["q", 0, a]])
            out.append([["d", 0] + d, ["d", 0] + d + [{"edit": e}], ["q", 1, "state"], ["q", 0, "state"], ["q", 2, "state"]])
        grow = [{"edit": [["extend", 0, 1, None]]}]
        out.append([["d", 0, "slice", None, 1], ["d", 1] + d + grow, ["q", 1, "state"], ["q", 0, "state"], ["q", 2, "len"]])
        out.append([["d", 0, "slice", None, 1], ["d", 1] + d + grow, ["d", 2] + d + [{"edit": [["remove", 0]]}], ["q", 2, "len"],
                    ["q", 1, "len"], ["q", 0, "len"], ["q", 3, "state"]])
    return out


def random_edit_history(rng, obj, length):
    """track groups: derivations (one in three with an empty operand), two in three followed by 1-3 in-place edits of the
    new group, and queries on the source, the newest and any object"""
    tr = Tracker("tracks", obj)
    qs = ["state", "state", "len", "len", "duration", "seconds"]
    hist = []
    for _ in range(length):
        n = len(tr.objs)
        i = rng.choice([0, n - 1, rng.randint(0, n - 1)])
        if n < 5 and (n == 1 or rng.chance(0.4)):
            if rng.chance(0.35):
                op = ["d", i, rng.choice(["radd_empty", "radd_empty", "extend_empty", "add_empty"]), rng.choice(TRACK_EMPTIES)]
                tr.objs.append({})
            else:
                op = tr.derive(rng, i)
            if rng.chance(0.67):
                edits = []
                for _ in range(rng.randint(1, 3)):
                    kind = rng.choice(["remove", "remove", "extend", "extend", "extend_track", "filter"])
                    j = rng.randint(0, n - 1)
                    if kind == "remove":
                        edits.append(["remove", rng.randint(-1, 3)])
                    elif kind == "extend":
                        a = rng.choice([None, 0, 1, 2])
                        edits.append(["extend", j, a, rng.choice([None, 1, 2, -1])])
                    elif kind == "extend_track":
                        edits.append(["extend_track", j, rng.randint(-1, 3)])
                    else:
                        edits.append(["filter", rng.randint(1, 5)])
                op = op + [{"edit": edits}]
            hist.append(op)
        else:
            hist.append(["q", i, rng.choice(qs)])
    return hist


def missing_frames_objects(quick):
    """fixed scans (stored scan count 0: the number of frames is counted lazily on the info wave) whose photon streams
    stop more than one whole frame before the info wave does: the images / timestamps reconstructed from the photon
    streams hold fewer frames than num_frames / shape count on the info wave - two sources for 'the number of frames'"""
    full = scan_obj(2, 2, 3, 1, 1, 1, 2, 0, 1)
    bpos = [j for j, c in enumerate(full["iw"]) if c == 2]
    keep = bpos[2 * 4] - 1  # the last frame and the dead time before it are missing
    objs = [("scan", scan_obj(2, 2, 3, 1, 1, 1, 2, 0, 1, short={c: keep for c in bc.COLORS}))]
    if not quick:
        # every colour misses its own number of frames (red two and a bit, green one and a bit, blue nothing); fast axis 1
        objs.append(("scan", scan_obj(2, 2, 3, 2, 0, 1, 1, 1, 0, short={"red": bpos[4] * 2 - 1, "green": bpos[8] * 2 - 2})))
    return objs


def missing_frames_histories(fam, obj, quick):
    """every history of length <= 2 over all queries and the derivations that stay inside the frames every colour has,
    and 'ask a, derive, ask b' / 'derive, ask the derived object a, ask the source b' for all query pairs"""
    tr = Tracker(fam, obj)
    qs = tr.queries()
    derivs = [["frames", 0, 1], ["cropxy", 0, 1, 0, 1], ["copy"]] + ([["frames", 1, 2]] if tr.objs[0]["nf"] >= 2 else [])
    out = exhaustive_histories(fam, obj, qs, [(lambda t, h, d=d: ["d", t] + d) for d in derivs[:3]], 2)
    pair_q = ["image.r", "ts.mean", "lineRanges", "numFrames", "shape", "start"] if quick else qs
    for d in derivs:
        for a in pair_q:
            for b in pair_q:
                out.append([["q", 0, a], ["d", 0] + d, ["q", 1, b]])
                out.append([["d", 0] + d, ["q", 1, a], ["q", 0, b]])
    return out


def random_scan_missing_frames(rng):
    """a continuously recorded scan of 2-4 frames whose photon streams end one or more WHOLE frames (and a bit) before the
    info wave: all colours at the same sample, or every colour at its own (one may be complete or absent)"""
    P, L, frames, k = rng.randint(2, 3), rng.randint(2, 3), rng.randint(2, 4), rng.randint(1, 2)
    fast, slow = rng.choice([(0, 1), (1, 0), (0, 2), (2, 1)])
    lead_in, dead, fd = rng.randint(0, 2), rng.randint(0, 2), rng.randint(0, 3)
    full = bc.infowave(P, L * frames, k, lead_in=lead_in, dead=dead, L=L, frame_dead=fd, tail=1)
    bpos = [j for j, c in enumerate(full) if c == 2]
    per = P * L

    def end():
        f = rng.randint(1, frames - 1)  # the first frame that is not complete; frames before it are
        lo, hi = bpos[(f - 1) * per + per - 1] + 1, bpos[f * per + per - 1]  # after the last pixel of frame f-1 .. inside frame f
        return rng.choice([lo, bpos[f * per] - 1 if bpos[f * per] - 1 >= lo else lo, rng.randint(lo, hi)])

    kw = {"salt": rng.randint(0, 9), "dt": rng.choice([12800, 1000])}
    early = {c: rng.choice([0, 0, 1, 2]) for c in bc.COLORS}
    if rng.chance(0.6):
        e = end()
        ends = {c: e for c in bc.COLORS}
    else:
        ends = {c: end() for c in bc.COLORS}
        odd = rng.choice(list(bc.COLORS))
        what = rng.choice(["short", "complete", "absent"])
        if what == "complete":
            ends[odd] = len(full)
        elif what == "absent":
            kw["absent"] = (odd,)
    kw["early"] = early
    kw["short"] = {c: ends[c] + early[c] for c in bc.COLORS if ends[c] < len(full)}
    return "scan", scan_obj(P, L, frames, k, lead_in, dead, fd, fast, slow, **kw), "missing-frames"


def cases(tier, rng):
    quick = tier == "quick"
    import os

    cdir = os.path.join(os.path.dirname(os.path.dirname(os.path.abspath(__file__))), "corpus", "C19")
    if os.path.isdir(cdir):
        for fn in sorted(os.listdir(cdir)):
            if fn.endswith(".json"):
                c = json.load(open(os.path.join(cdir, fn)))
                c = c.get("case", c)
                yield dict(c, stream="corpus")

    # ---- exhaustive small scope
    kq = ["start", "lineTime", "pixelTime", "image.r", "duration", "lineRanges", "infowave", "static.0"]
    sq = ["start", "pixelTime", "image.r", "ts.mean", "numFrames", "shape", "static.0"]
    r3 = rng.fork("len3")
    for fam, obj in confocal_objects(quick):
        alpha_q = kq if fam == "kymo" else sq
        derivs = (KYMO_DERIVS if quick else KYMO_DERIVS_MORE) if fam == "kymo" else SCAN_DERIVS
        allh = exhaustive_histories(fam, obj, alpha_q, derivs, 3)
        seen = set()
        for h in allh:
            if len(h) <= 2 or not quick or keep_len3(h) or r3.chance(0.03):
                seen.add(json.dumps(h))
                yield {"stream": "small-scope", "family": fam, "obj": obj, "hist": h}
        # asked first, derived afterwards (one-line / last-line time slices among the derivations); thorough: every query
        for h in derive_after_query_histories(fam, obj, alpha_q if quick else Tracker(fam, obj).queries()):
            if json.dumps(h) not in seen:
                seen.add(json.dumps(h))
                yield {"stream": "small-scope", "family": fam, "obj": obj, "hist": h}
    # object kinds without start-dependent state: every history of length <= 3 (F,d curves, channels) / <= 2 (+ a sample
    # of length 3: image stacks, track groups) over a reduced alphabet
    pure_scope = [
        ("fd", {"ts": [T0 + 1000 * i for i in range(6)], "f2": [1.0, 4.0, 7.0, 3.0, 6.0, 2.0], "f1": [2.0, 7.0, 1.0, 6.0, 0.0, 5.0],
                "d1": [1.0, 2.0, 3.0, 4.0, 5.0, 6.0], "d2": [2.0, 2.5, 3.0, 3.5, 4.0, 4.5], "start": T0, "stop": T0 + 5001},
         ["f", "d", "range"],
         [lambda t, h: ["d", t, "channels", "1", "2"], lambda t, h: ["d", t, "slice", T0 + 1000, T0 + 4000],
          lambda t, h: ["d", t, "offset", 1.0, 1.0], lambda t, h: ["d", t, "sub", 0]], 1.0),
        ("channel", {"kind": "cont", "data": [1.0, 2.0, 3.0, 4.0, 5.0, 6.0], "start": T0, "dt": 7, "h5": True},
         ["data", "timestamps", "range"],
         [lambda t, h: ["d", t, "slice", T0 + 7, T0 + 30], lambda t, h: ["d", t, "downby", 2], lambda t, h: ["d", t, "mul", 2.0],
          lambda t, h: ["d", t, "sub_self"]], 1.0),
        ("channel", {"kind": "ts", "data": [1.0, 2.0, 3.0, 4.0], "ts": [T0 + 1, T0 + 4, T0 + 9, T0 + 11]},
         ["data", "timestamps", "range"],
         [lambda t, h: ["d", t, "slice", T0 + 2, T0 + 10], lambda t, h: ["d", t, "neg"], lambda t, h: ["d", t, "add", 1.0]], 0.3),
        ("stack", None, ["image", "ranges", "nframes", "static"],
         [lambda t, h: ["d", t, "frames", 1, None, 2], lambda t, h: ["d", t, "crop", 1, 3, 0, 2], lambda t, h: ["d", t, "frame", 0],
          lambda t, h: ["d", t, "tether", 0.0, 1.0, 2.0, 1.0]], 0.04 if quick else 0.3),
        ("tracks", {"image": [[(r * 3 + c * 5) % 7 for c in range(10)] for r in range(8)],
                    "tracks": [{"t": [0, 1, 2, 3, 4, 5], "c": [2.0, 2.5, 3.0, 2.5, 3.0, 3.5]}, {"t": [3, 4, 5], "c": [5.0, 5.5, 5.0]},
                               {"t": [6, 7, 8, 9], "c": [3.0, 3.0, 3.5, 4.0]}], "route": "array", "line_time_s": 0.125},
         ["state", "len", "duration"],
         [lambda t, h: ["d", t, "filter", 4], lambda t, h: ["d", t, "slice", None, 1], lambda t, h: ["d", t, "refine", 0.5],
          lambda t, h: ["d", t, "add_rest"]], 0.04 if quick else 0.3),
    ]
    r5 = rng.fork("pure-scope")
    for fam, obj, qs, ds, p3 in pure_scope:
        if obj is None:
            import builders_tiff as bt

            obj = bt.make_spec(files=[2, 2], h=3, w=4, colour="grey", exposure=40_000_000, align=False)
        for h in exhaustive_histories(fam, obj, qs, ds, 3):
            if len(h) <= 2 or keep_len3(h) or r5.chance(p3):
                yield {"stream": "small-scope", "family": fam, "obj": obj, "hist": h}

    # ---- seeded random
    r = rng.fork("c19-random")
    N = 350 if quick else 7000
    for i in range(N):
        sub = r.fork(i)
        fam, obj, mode = random_confocal(sub)
        length = sub.randint(2, 8)
        yield {"stream": "random", "family": fam, "obj": obj, "hist": random_history(sub, fam, obj, length), "subseed": i,
               "mode": mode}
    NP = 120 if quick else 1500
    r2 = rng.fork("c19-pure")
    for i in range(NP):
        sub = r2.fork(i)
        fam = sub.choice(["channel", "channel", "fd", "stack", "tracks"])
        obj = {"channel": channel_obj, "fd": fd_obj, "stack": stack_obj, "tracks": tracks_obj}[fam](sub)
        yield {"stream": "random-pure", "family": fam, "obj": obj, "hist": random_history(sub, fam, obj, sub.randint(2, 8), 0.35),
               "subseed": i}
    # ---- malformed stream: queries / derivations that must raise the documented error, every time they are asked
    r4 = rng.fork("c19-malformed")
    for i in range(20 if quick else 200):
        sub = r4.fork(i)
        fam, obj, mode = random_confocal(sub)
        hist = random_history(sub, fam, obj, sub.randint(1, 4))
        bad = (
            [["d", 0, "slice", T0 + 10**12, T0 + 2 * 10**12], ["d", 0, "crop", 0, 1], ["d", 2, "slice", None, None]]
            if fam == "kymo"
            else [["d", 0, "frame", 99], ["d", 0, "frames", 5, 5], ["d", 0, "cropxy", 1, 1, 0, 1]]
        )
        pos = sub.randint(0, len(hist))
        nd = 1 + sum(1 for o in hist[:pos] if o[0] == "d")
        if fam == "kymo":
            # the third malformed op slices the view made by the second one: renumber to the ids at `pos`
            bad[2][1] = nd + 1
        hist = hist[:pos] + bad + [[o[0], o[1] + (len(bad) if o[1] >= nd else 0)] + o[2:] for o in hist[pos:]]
        # ids of objects created after `pos` shift by the number of inserted derivations
        hist = [fix_second_ref(o, nd, len(bad)) for o in hist]
        yield {"stream": "malformed", "family": fam, "obj": obj, "hist": hist + [["q", 0, "static.0"], ["q", 0, "image.r"]], "subseed": i,
               "mode": mode}
    # ---- seeded random (forked last: the streams above stay what they were), source asked before its derived objects (time slices cut at scan-line starts)
    r6 = rng.fork("c19-random-derived")
    for i in range(150 if quick else 3000):
        sub = r6.fork(i)
        fam, obj, mode = random_confocal(sub)
        yield {"stream": "random-derived", "family": fam, "obj": obj, "hist": random_history_derived(sub, fam, obj, sub.randint(3, 8)),
               "subseed": i, "mode": mode}
    # ---- small scopes added later (placed and forked after everything above: the streams above stay what they were)
    # objects derived from derived objects: every pair of derivations, asked repeatedly on the newest object, then on what it
    # was derived from (4-pixel kymograph, so that a cropped kymograph can still be binned; scan with two frames)
    chain_scope = [("kymo", kymo_obj(4, 3, 1, 1, 2), ["static.0", "image.r", "lineTime", "pixelTime", "lineRanges", "duration"]),
                   ("scan", scan_obj(2, 2, 2, 1, 1, 1, 2, 0, 1), ["static.0", "image.r", "ts.mean", "pixelTime", "shape"])]
    if not quick:
        late_obj = kymo_obj(4, 4, 2, 0, 2, drop=1, late=2)  # truncated first line
        chain_scope.append(("kymo", late_obj, Tracker("kymo", late_obj).queries()))
    for fam, obj, qs in chain_scope:
        for h in chain_histories(fam, obj, qs):
            yield {"stream": "small-scope-chain", "family": fam, "obj": obj, "hist": h}
    if not quick:  # three derivations deep (crop -> copy / calibrate -> bin ...)
        for fam, obj, qs in chain_scope[:2]:
            for h in chain_histories(fam, obj, qs[:3], depth=3):
                yield {"stream": "small-scope-chain", "family": fam, "obj": obj, "hist": h}
    # colour channels that differ (every photon stream ends at its own sample): every history of length <= 2 over the queries
    # that reconstruct from a photon stream, asked / derived / asked, and (thorough) the sampled length-3 scope
    r7 = rng.fork("colour-scope")
    for fam, obj in colour_objects(quick):
        cq = Tracker(fam, obj).colour_queries()
        if quick:
            cq.remove("image.b")
        derivs = (KYMO_DERIVS if quick else KYMO_DERIVS_MORE) if fam == "kymo" else SCAN_DERIVS
        seen = set()
        for h in exhaustive_histories(fam, obj, cq, derivs, 2 if quick else 3):
            if len(h) <= 2 or keep_len3(h) or r7.chance(0.03):
                seen.add(json.dumps(h))
                yield {"stream": "small-scope-colours", "family": fam, "obj": obj, "hist": h}
        for h in derive_after_query_histories(fam, obj, cq, slice_pairs=not quick):
            if json.dumps(h) not in seen:
                seen.add(json.dumps(h))
                yield {"stream": "small-scope-colours", "family": fam, "obj": obj, "hist": h}
    # ---- seeded random (forked after everything above): chains of derived objects; colour channels that differ
    r8 = rng.fork("c19-random-chain")
    for i in range(120 if quick else 2500):
        sub = r8.fork(i)
        fam, obj, mode = random_confocal(sub)
        yield {"stream": "random-chain", "family": fam, "obj": obj, "hist": random_history_chain(sub, fam, obj, sub.randint(6, 8)),
               "subseed": i, "mode": mode}
    r9 = rng.fork("c19-random-colours")
    for i in range(120 if quick else 2500):
        sub = r9.fork(i)
        fam, obj, mode = random_confocal_colours(sub)
        tr = Tracker(fam, obj)
        qs = tr.colour_queries() * 2 + tr.queries()
        hist = (random_history(sub, fam, obj, sub.randint(2, 8), 0.25, qs=qs) if sub.chance(0.6)
                else random_history_chain(sub, fam, obj, sub.randint(4, 8)))
        yield {"stream": "random-colours", "family": fam, "obj": obj, "hist": hist, "subseed": i, "mode": mode}
    # ---- the FULL COLOUR image get_image("rgb") (placed and forked after everything above).  Small scope: on a normal
    # kymograph, a two-frame scan and the kymograph whose colours differ in extent (np.stack raises: the error must repeat),
    # thorough also a truncated-first-line kymograph and a scan with an absent colour - every history of length <= 2 (+ the
    # kept / sampled length 3) over {rgb, red, blue, shape}, 'ask a, derive, ask b' for all pairs, and the derived-from-derived
    # chains with the question rgb.
    rgb_scope = [("kymo", kymo_obj(2, 3, 2, 1, 2, salt=1)), ("scan", scan_obj(2, 2, 2, 1, 1, 1, 2, 0, 1, salt=2)),
                 ("kymo", kymo_obj(2, 4, 1, 1, 1, short={"red": 7, "green": 10}))]
    if not quick:
        rgb_scope += [("kymo", kymo_obj(2, 4, 2, 0, 2, drop=1, late=2)),
                      ("scan", scan_obj(2, 2, 2, 1, 0, 1, 1, 1, 0, absent=("green",), early={"red": 1, "blue": 2}))]
    r10 = rng.fork("rgb-scope")
    rq = ["image.rgb", "image.r", "image.b", "shape"]
    for fam, obj in rgb_scope:
        derivs = (KYMO_DERIVS if quick else KYMO_DERIVS_MORE) if fam == "kymo" else SCAN_DERIVS
        seen = set()
        for h in exhaustive_histories(fam, obj, rq, derivs, 3):
            if not any(o[0] == "q" and o[2] == "image.rgb" for o in h):
                continue  # asked elsewhere
            # (derive, derive, ask) is the subject of the chains below
            if len(h) <= 2 or (keep_len3(h) and not (quick and h[0][0] == "d" and h[1][0] == "d")) or r10.chance(0.02 if quick else 0.3):
                seen.add(json.dumps(h))
                yield {"stream": "small-scope-rgb", "family": fam, "obj": obj, "hist": h}
        for h in derive_after_query_histories(fam, obj, rq, slice_pairs=not quick):
            if json.dumps(h) not in seen and any(o[0] == "q" and o[2] == "image.rgb" for o in h):
                seen.add(json.dumps(h))
                yield {"stream": "small-scope-rgb", "family": fam, "obj": obj, "hist": h}
    for fam, obj, _ in chain_scope:
        for h in chain_histories(fam, obj, ["image.rgb"]):
            yield {"stream": "small-scope-rgb", "family": fam, "obj": obj, "hist": h}
    # random: every kind of object (two in five with colours that differ), histories biased to the full colour image and
    # the planes it is made of - free histories, source-first-then-derived, and chains that keep asking one of them
    r11 = rng.fork("c19-random-rgb")
    for i in range(100 if quick else 2000):
        sub = r11.fork(i)
        fam, obj, mode = random_confocal_colours(sub) if sub.chance(0.4) else random_confocal(sub)
        tr = Tracker(fam, obj)
        qs = tr.full_colour_queries() * 2 + tr.queries()
        hist = (random_history(sub, fam, obj, sub.randint(2, 8), 0.3, qs=qs) if sub.chance(0.6)
                else random_history_chain(sub, fam, obj, sub.randint(4, 8), qs=tr.full_colour_queries() + ["static.0"]))
        yield {"stream": "random-rgb", "family": fam, "obj": obj, "hist": hist, "subseed": i, "mode": mode}

    # ---- clause 3 on the buffer model (c19_alias.py): array requests, in-place writes through every handed-out array, views
    ends_asking = lambda h: h[-1][0] in ("g", "rgb")
    attacked = lambda h: ends_asking(h) and any(o[0] == "w" for o in h)
    for P, lines, k in ((3, 2, 2), (2, 1, 1)) if quick else ((3, 2, 2), (2, 1, 1), (4, 3, 1)):
        obj = kymo_obj(P, lines, k, 1, 2)
        hs = al.exhaustive(P, lines, 3, ends_asking) + al.exhaustive(P, lines, 4, lambda h: len(h) == 4 and (attacked(h) or not quick and ends_asking(h)))
        for h in hs:
            yield {"stream": "alias-small-scope", "family": "alias", "obj": obj, "hist": h}
    r12 = rng.fork("c19-alias-random")
    for i in range(400 if quick else 8000):
        sub = r12.fork(i)
        P, lines = sub.randint(2, 6), sub.randint(1, 4)
        obj = kymo_obj(P, lines, sub.randint(1, 3), sub.randint(0, 2), sub.randint(1, 3), salt=sub.randint(0, 99),
                       early={c: sub.randint(0, 2) for c in bc.COLORS} if sub.chance(0.3) else None)
        yield {"stream": "alias-random", "family": "alias", "obj": obj, "hist": al.random_hist(sub, P, lines, sub.randint(3, 12)),
               "subseed": i}

    # ---- round H (placed and forked after everything above).  (1) scans whose photon streams miss WHOLE frames: the number
    # of frames the info wave counts (num_frames, shape) differs from the number of frames of every reconstructed array
    for fam, obj in missing_frames_objects(quick):
        for h in missing_frames_histories(fam, obj, quick):
            yield {"stream": "small-scope-missing-frames", "family": fam, "obj": obj, "hist": h}
    r13 = rng.fork("c19-random-missing-frames")
    for i in range(40 if quick else 800):
        sub = r13.fork(i)
        fam, obj, mode = random_scan_missing_frames(sub)
        qs = ["numFrames", "shape", "image.r", "image.g", "ts.mean", "lineRanges"] * 2 + Tracker(fam, obj).queries()
        yield {"stream": "random-missing-frames", "family": fam, "obj": obj, "subseed": i, "mode": mode,
               "hist": random_history(sub, fam, obj, sub.randint(2, 8), 0.25, qs=qs)}
    # (1b) objects that come out of a FILE: kymographs / scans through lk.File.from_h5py(...).kymos / .scans (from_dataset; the
    # channels are lazily read h5py datasets looked up anew on every access), F,d curves through FdCurve.from_dataset
    r15 = rng.fork("c19-random-h5")
    for i in range(30 if quick else 600):
        sub = r15.fork(i)
        if sub.chance(0.2):
            obj = dict(fd_obj(sub), h5=True)
            yield {"stream": "random-h5", "family": "fd", "obj": obj, "subseed": i, "hist": random_history(sub, "fd", obj, sub.randint(2, 8), 0.35)}
            continue
        fam, obj, mode = random_confocal(sub) if sub.chance(0.7) else random_confocal_colours(sub)
        obj = dict(obj, route="h5")
        yield {"stream": "random-h5", "family": fam, "obj": obj, "subseed": i, "mode": mode,
               "hist": random_history(sub, fam, obj, sub.randint(2, 8))}
    # (2) track groups: empty operands of the arithmetic, and derived groups that are edited in place once they are made
    tracks_fixed = pure_scope[-1][1]
    for h in edit_histories(quick):
        yield {"stream": "small-scope-edits", "family": "tracks", "obj": tracks_fixed, "hist": h}
    r14 = rng.fork("c19-random-edits")
    for i in range(60 if quick else 1200):
        sub = r14.fork(i)
        obj = tracks_obj(sub)
        yield {"stream": "random-edits", "family": "tracks", "obj": obj, "subseed": i,
               "hist": random_edit_history(sub, obj, sub.randint(3, 8))}


def fix_second_ref(o, nd, shift):
    return o


def extra_coverage(results):
    fam, modes, qn, dn, lens, outcomes, lates = {}, {}, {}, {}, {}, {}, 0
    for r in results:
        c = r["case"]
        if al.is_alias(c):
            fam["alias"] = fam.get("alias", 0) + 1
            continue
        fam[c["family"]] = fam.get(c["family"], 0) + 1
        modes[c.get("mode", "fixed")] = modes.get(c.get("mode", "fixed"), 0) + 1
        lens[len(c["hist"])] = lens.get(len(c["hist"]), 0) + 1
        lates += 1 if late(c) else 0
        for o in c["hist"]:
            d = qn if o[0] == "q" else dn
            d[o[2]] = d.get(o[2], 0) + 1
        try:
            for a in json.loads(r["impl"][0])["hist"]:
                key = a if isinstance(a, str) else ("error:" + a["error"] if isinstance(a, dict) and "error" in a else "value")
                outcomes[key] = outcomes.get(key, 0) + 1
        except Exception:
            pass
    return {"object_kinds": fam, "object_modes": modes, "queries": qn, "derivations": dn, "history_lengths": lens,
            "answer_kinds": outcomes, "cases_with_late_photon_timeline": lates,
            "private_members_unreachable": dict(sorted(UNREACHED.items())),
            "buffer_machine_branches": al.coverage(results)}
