"""Builders of real kymographs and track groups for the /verif checks (C17; reused by C08, C15, C19).

No dependency on the repository's test helpers: every object is made with `lumicks.pylake.low_level`
(info wave + photon-count slices + Bluelake JSON metadata) or, where that route cannot express the request
(uncalibrated kymographs, line times that are exact binary fractions), with `lumicks.pylake.kymo._kymo_from_array`
(the constructor behind `ImageStack.to_kymo()` and `lk.simulation`).  Import pylake lazily: `check` puts
`common.REPO` first on `sys.path` before any harness module touches it.

Private members of pylake (robustness against harmless refactorings)
---------------------------------------------------------------------
Three private members are used because they are the cheap way to the object; none of them is something a property
speaks about, so each has a PUBLIC twin that is taken as soon as the private name is gone (renamed / moved / inlined):

    kymo._kymo_from_array                    -> a one-row camera TIFF per scan line (tifffile) opened with `lk.ImageStack`,
                                                `define_tether` along that row, `to_kymo(half_window=0)`; the result is
                                                accepted only if image, line time and pixel size are exactly the requested
                                                ones (all colours carry the image then, not only `channel`)
    KymoTrack._from_centroid_estimate        -> a hand-written one-track CSV file (coordinates / minimum duration with 18
                                                digits, counts from the public `KymoTrack.sample_from_image(h,
                                                correct_origin=True)`) read with `import_kymotrackgroup_from_csv`
    KymoTrack._minimum_observable_duration   -> the column "minimum observable duration (seconds)" of the file
                                                `KymoTrackGroup([track]).save()` writes (`%.6e`: 7 significant digits; no
                                                column = None).  `MD_LOSSY` is set when this route was taken: comparisons of
                                                minimum durations are then meaningful to 5e-7 relative only.
    Kymo._calibration.unit                   is not read any more: `kymo_info` takes the unit from the calibration the
                                                caller asked `make_kymo` for (or infers it from `pixelsize`/`pixelsize_um`).

`Unreachable` is raised when neither route can express a request (callers turn the case into "?": skipped, never an
implementation answer).  `PRIVATE_TIES` counts per private name how often the direct / public route was taken.

API
---
make_kymo(image, *, route="lowlevel", calibration="um", pixel_size_um=0.1, line_time_s=None, dt_ns=12800,
          samples_per_pixel=4, line_padding=3, start=..., kbp_length=None, channel="red", name="verif") -> Kymo
    image            2-D array-like of non-negative ints, shape (n_pixels, n_lines): the photon counts of `channel`
                     (`kymo.get_image(channel)` returns exactly this array; the other colours are all zero).
    route            "lowlevel": `low_level.create_confocal_object` from a synthetic info wave
                        (each pixel = `samples_per_pixel` samples, the last one flagged 2; `line_padding` samples of
                        dead time (flag 0) before every line).  Line time = (n_pixels*samples_per_pixel +
                        line_padding)*dt_ns*1e-9 s, so it is generally NOT an exact multiple in binary.
                     "array":    `_kymo_from_array(image, colour, line_time_s, pixel_size_um=…)`; `line_time_s` is
                        used verbatim (pass 0.5, 0.125, 0.0625·k … for exact float arithmetic on `seconds`).
    calibration      "um"    pixelsize = pixel_size_um (µm)
                     "kbp"   `kymo.calibrate_to_kbp(kbp_length)` on the um kymograph; default kbp_length = 0.6·n_pixels
                             (pixelsize = kbp_length / n_pixels kbp, `pixelsize_um` keeps the µm value)
                     "pixel" uncalibrated (pixelsize == [1.0], `pixelsize_um == [None]`); forces route="array".
    returns a `lumicks.pylake.kymo.Kymo`; `kymo_info(kymo)` gives the numbers the models need.

kymo_info(kymo, calibration=None) -> dict(pixelsize=float, line_time=float, n_pixels=int, n_lines=int, unit=str,
    pixelsize_um=float|None); `calibration` = the value given to make_kymo ("um" / "kbp" / "pixel" is also the unit name).

make_track(kymo, time_idx, coords, *, channel="red", min_duration=None, counts_half_width=None) -> KymoTrack
    time_idx integer scan-line indices (any order; the checks use strictly increasing ones), coords float
    sub-pixel coordinates (pixel centres at integers).  counts_half_width=None: plain `KymoTrack` (no photon
    counts); an int h: `KymoTrack._from_centroid_estimate(…, h, …)` (what `refine_tracks_centroid` produces:
    photon counts summed over 2h+1 pixels, pixel origin at the centre).

make_group(kymo, tracks, *, channel="red") -> KymoTrackGroup
    tracks: list of dicts {"t": [...], "c": [...], "min_duration": float|None, "counts_half_width": int|None}
    (missing keys default to None).

group_state(group) -> list of dicts {"t": [int], "c": [float coordinate_idx], "pos": [float], "min_duration":
    float|None, "counts": [int]|None} — the observable content of a group as plain Python values.

gaussian_spot_image(n_pixels, n_lines, spots, *, background=0.0, pixel_size=1.0, noise_rng=None) -> int ndarray
    noise-free (rounded expectation) or Poisson image (pass `noise_rng=numpy Generator`) of Gaussian spots;
    spots: list of dicts {"t": [...], "c": [...], "amplitude": photons, "sigma": pixels}.

random_track(rng, n_lines, n_pixels, *, max_points=20, gap_chance=0.3, margin=0) -> (t, c)
    a strictly increasing list of line indices inside the image and sub-pixel coordinates in
    [margin, n_pixels-1-margin] performing a bounded random walk; `rng` is a `common.Rng`.
random_group_spec(rng, n_lines, n_pixels, *, max_tracks=20, max_points=20, …) -> list of track dicts for make_group.
"""
import json
import os
import shutil
import tempfile
import warnings

import numpy as np

PRIVATE_TIES = {}  # private name -> {"direct": n, "public": n, "unreachable": n}
MD_LOSSY = False  # True once a minimum observable duration had to be read from the (six-decimal) CSV column
_TMPDIR = None


class Unreachable(Exception):
    """neither the private member the builders prefer nor a public route can express this request on the tree under test"""


def _tie(name, how):
    d = PRIVATE_TIES.setdefault(name, {"direct": 0, "public": 0, "unreachable": 0})
    d[how] = d.get(how, 0) + 1


def _tmp(name):
    global _TMPDIR
    if _TMPDIR is None or not os.path.isdir(_TMPDIR):
        _TMPDIR = tempfile.mkdtemp(prefix="verif_btracks_")
    return os.path.join(_TMPDIR, name)


FIRST_TIMESTAMP = 1388534400 * 10**9 + 10**9  # just after pylake's _FIRST_TIMESTAMP (2014-01-01)
COLORS = ("red", "green", "blue")


def _metadata_json(n_pixels, pixel_size_nm):
    return json.dumps(
        {
            "value0": {
                "cereal_class_version": 1,
                "fluorescence": True,
                "force": False,
                "scan count": 0,
                "scan volume": {
                    "center point (um)": {"x": 58.075877109272604, "y": 31.978375270573267, "z": 0},
                    "cereal_class_version": 1,
                    "pixel time (ms)": 0.2,
                    "scan axes": [
                        {
                            "axis": 0,
                            "cereal_class_version": 1,
                            "num of pixels": int(n_pixels),
                            "pixel size (nm)": float(pixel_size_nm),
                            "scan time (ms)": 0,
                            "scan width (um)": float(pixel_size_nm) * int(n_pixels) / 1000.0,
                        }
                    ],
                },
            }
        }
    )


def make_kymo(
    image,
    *,
    route="lowlevel",
    calibration="um",
    pixel_size_um=0.1,
    line_time_s=None,
    dt_ns=12800,
    samples_per_pixel=4,
    line_padding=3,
    start=FIRST_TIMESTAMP,
    kbp_length=None,
    channel="red",
    name="verif",
):
    from lumicks.pylake import low_level

    image = np.asarray(image)
    if image.ndim != 2:
        raise ValueError("image must be (n_pixels, n_lines)")
    n_pixels, n_lines = image.shape
    if calibration == "pixel":
        route = "array"
    if route == "array":
        if line_time_s is None:
            line_time_s = 0.125
        kymo = _array_kymo(
            image.astype(float),
            channel,
            float(line_time_s),
            int(start),
            None if calibration == "pixel" else float(pixel_size_um),
            name,
        )
    elif route == "lowlevel":
        spl = n_pixels * samples_per_pixel + line_padding
        info_line = np.zeros(spl, dtype=np.uint8)
        photons_line_idx = np.zeros(n_pixels, dtype=int)
        for p in range(n_pixels):
            a = line_padding + p * samples_per_pixel
            info_line[a : a + samples_per_pixel] = 1
            info_line[a + samples_per_pixel - 1] = 2
            photons_line_idx[p] = a
        infowave = np.tile(info_line, n_lines)
        photons = np.zeros(spl * n_lines, dtype=np.uint32)
        for line in range(n_lines):
            photons[line * spl + photons_line_idx] = image[:, line]
        mk = lambda d: low_level.make_continuous_slice(d, int(start), int(dt_ns))
        chans = {c: mk(photons if c == channel else np.zeros_like(photons)) for c in COLORS}
        kymo = low_level.create_confocal_object(
            name,
            mk(infowave),
            _metadata_json(n_pixels, float(pixel_size_um) * 1000.0),
            red_channel=chans["red"],
            green_channel=chans["green"],
            blue_channel=chans["blue"],
        )
    else:
        raise ValueError(route)
    if calibration == "kbp":
        kymo = kymo.calibrate_to_kbp(float(kbp_length) if kbp_length is not None else 0.4 * n_pixels * 1.5)
    elif calibration not in ("um", "pixel"):
        raise ValueError(calibration)
    return kymo


def _array_kymo(image, channel, line_time_s, start, pixel_size_um, name):
    """route "array": `_kymo_from_array` while pylake has it, else the same kymograph through the public camera-stack route"""
    try:
        from lumicks.pylake.kymo import _kymo_from_array
    except ImportError:
        _kymo_from_array = None
    if _kymo_from_array is not None:
        try:
            kymo = _kymo_from_array(image, channel[0], line_time_s, start=start, pixel_size_um=pixel_size_um, name=name)
            _tie("kymo._kymo_from_array", "direct")
            return kymo
        except TypeError:  # same name, other signature: not ours any more
            pass
    key = (image.shape, image.tobytes(), line_time_s, start, pixel_size_um)
    if key in _STACK_KYMOS:
        _tie("kymo._kymo_from_array", "public")
        return _STACK_KYMOS[key]
    try:
        kymo = _kymo_via_image_stack(image, line_time_s, start, pixel_size_um, name)
    except Unreachable:
        _tie("kymo._kymo_from_array", "unreachable")
        raise
    except Exception as e:
        _tie("kymo._kymo_from_array", "unreachable")
        raise Unreachable(f"_kymo_from_array is gone and the ImageStack route failed: {type(e).__name__} {e}")
    _tie("kymo._kymo_from_array", "public")
    if len(_STACK_KYMOS) >= 256:
        _STACK_KYMOS.pop(next(iter(_STACK_KYMOS)))
    _STACK_KYMOS[key] = kymo
    return kymo


_STACK_KYMOS = {}


def _kymo_via_image_stack(image, line_time_s, start, pixel_size_um, name):
    """PUBLIC twin of `_kymo_from_array`: one TIFF page (1 row x n_pixels, float64) per scan line with Bluelake's
    DateTime / ImageDescription tags, `lk.ImageStack(file).define_tether(row ends).to_kymo(half_window=0)`.
    Accepted only when it IS the requested kymograph: same image, line time and pixel size, bit for bit."""
    import tifffile

    from lumicks.pylake import ImageStack

    n_pixels, n_lines = image.shape
    period = int(round(line_time_s * 1e9))
    if period <= 0 or n_lines < 2:
        raise Unreachable("the camera-stack route needs >= 2 scan lines and a line time of >= 1 ns")
    d = _tmp("stack_kymo")
    shutil.rmtree(d, ignore_errors=True)
    os.makedirs(d)
    path = os.path.join(d, "kymo.tiff")
    with tifffile.TiffWriter(path) as tif:
        for t in range(n_lines):
            t0 = start + t * period
            stamp = f"{t0}:{t0 + period}"
            desc = {
                "Background subtraction": False, "Bit depth": 16, "Camera": "IRM", "Focus lock": False, "Frame averaging": 1,
                "Frame rate (Hz)": 1e9 / period, "Pixel clock (MHz)": 50.0, "Exposure time (ms)": period * 1e-6,
                "Region of interest (x, y, width, height)": [0, 0, int(n_pixels), 1],
            }
            if pixel_size_um is not None:
                desc["Pixel calibration (nm/pix)"] = _nm_for(pixel_size_um)
            tif.write(
                np.ascontiguousarray(image[:, t], dtype=np.float64)[None, :], description=json.dumps(desc),
                software="Bluelake 2.5.1", metadata=None, contiguous=False, photometric="minisblack",
                extratags=((274, "H", 1, 1, False), (306, "s", len(stamp), stamp, False)),
            )
    with warnings.catch_warnings():
        warnings.simplefilter("ignore")
        stack = ImageStack(path)
        try:
            px = stack.pixelsize_um[0] if stack.pixelsize_um else 1.0
            # tether from inside the first to inside the last pixel of the row (to_kymo takes the floor of its ends)
            kymo = stack.define_tether((0.0, 0.0), ((n_pixels - 0.5) * px, 0.0)).to_kymo(half_window=0)
            got = np.asarray(kymo.get_image("red"))
            ok = (
                got.shape == image.shape and np.array_equal(got, image) and float(kymo.line_time_seconds) == line_time_s
                and (kymo.pixelsize_um[0] is None) == (pixel_size_um is None)
                and float(kymo.pixelsize[0]) == (1.0 if pixel_size_um is None else pixel_size_um)
            )
        finally:
            stack.close()
            shutil.rmtree(d, ignore_errors=True)
    if not ok:
        raise Unreachable("the camera-stack route does not reproduce the requested image / line time / pixel size exactly")
    return kymo


def _nm_for(pixel_size_um):
    """the nm value whose thousandth is exactly this um double (pylake divides the TIFF's nm/pixel by 1000)"""
    nm = pixel_size_um * 1000.0
    for cand in (nm, np.nextafter(nm, np.inf), np.nextafter(nm, -np.inf)):
        if float(cand) / 1000 == pixel_size_um:
            return float(cand)
    return nm


def kymo_info(kymo, calibration=None):
    shape = kymo.get_image("red").shape
    um = kymo.pixelsize_um[0]
    if calibration is None:  # public inference: uncalibrated <=> no um pixel size; kbp <=> calibrated pixel size differs from it
        calibration = "pixel" if um is None else ("um" if float(kymo.pixelsize[0]) == float(um) else "kbp")
    return {
        "pixelsize": float(kymo.pixelsize[0]),
        "line_time": float(kymo.line_time_seconds),
        "n_pixels": int(shape[0]),
        "n_lines": int(shape[1]),
        "unit": {"um": "um", "kbp": "kbp", "pixel": "pixel"}[calibration],
        "pixelsize_um": None if um is None else float(um),
    }


def make_track(kymo, time_idx, coords, *, channel="red", min_duration=None, counts_half_width=None):
    from lumicks.pylake.kymotracker.kymotrack import KymoTrack

    t = np.asarray(time_idx, dtype=int)
    c = np.asarray(coords, dtype=float)
    if counts_half_width is None:
        return KymoTrack(t, c, kymo, channel, min_duration)
    name = "KymoTrack._from_centroid_estimate"
    direct = getattr(KymoTrack, "_from_centroid_estimate", None)
    if direct is not None:
        try:
            track = direct(t, c, kymo, channel, int(counts_half_width), min_duration)
            _tie(name, "direct")
            return track
        except TypeError:  # same name, other signature: not ours any more
            pass
    try:
        track = _counted_track_via_csv(KymoTrack, t, c, kymo, channel, int(counts_half_width), min_duration)
    except Unreachable:
        _tie(name, "unreachable")
        raise
    except Exception as e:
        _tie(name, "unreachable")
        raise Unreachable(f"_from_centroid_estimate is gone and the CSV route failed: {type(e).__name__} {e}")
    _tie(name, "public")
    return track


def _counted_track_via_csv(KymoTrack, t, c, kymo, channel, half_width, min_duration):
    """PUBLIC twin of `KymoTrack._from_centroid_estimate`: the photon counts of the plain track
    (`sample_from_image(h, correct_origin=True)`) are written next to its nodes into a one-track CSV file (every float
    with 18 digits, so that the text is exact) and the file is imported: the importer attaches the counts column."""
    from lumicks.pylake.kymotracker.kymotrack import import_kymotrackgroup_from_csv

    with warnings.catch_warnings():
        warnings.simplefilter("ignore")
        counts = np.asarray(KymoTrack(t, c, kymo, channel, min_duration).sample_from_image(half_width, correct_origin=True), dtype=float)
        titles = ["track index", "time (pixels)", "coordinate (pixels)", f"counts (summed over {2 * half_width + 1} pixels)"]
        if min_duration is not None:
            titles.append("minimum observable duration (seconds)")
        lines = ["# Exported with pylake v1.5.3 | track coordinates v4", "# " + ";".join(titles)]
        for ti, ci, ni in zip(t, c, counts):
            cells = ["0", "%.18e" % float(ti), "%.18e" % float(ci), "%.18e" % float(ni)]
            if min_duration is not None:
                cells.append("%.18e" % float(min_duration))
            lines.append(";".join(cells))
        path = _tmp("counted_track.csv")
        with open(path, "w") as f:
            f.write("\n".join(lines) + "\n")
        group = import_kymotrackgroup_from_csv(path, kymo, channel, delimiter=";")
    if len(group) != 1:
        raise Unreachable("the CSV route did not give one track")
    track = group[0]
    if not (np.array_equal(np.asarray(track.time_idx), t) and np.array_equal(np.asarray(track.position), c * kymo.pixelsize[0])
            and np.array_equal(np.asarray(track.photon_counts, dtype=float), counts)):
        raise Unreachable("the CSV route does not reproduce the requested nodes / counts exactly")
    return track


def make_group(kymo, tracks, *, channel="red"):
    from lumicks.pylake.kymotracker.kymotrack import KymoTrackGroup

    return KymoTrackGroup(
        [
            make_track(
                kymo,
                tr["t"],
                tr["c"],
                channel=channel,
                min_duration=tr.get("min_duration"),
                counts_half_width=tr.get("counts_half_width"),
            )
            for tr in tracks
        ]
    )


def track_state(track):
    try:
        counts = [int(x) for x in np.asarray(track.photon_counts)]
        if not all(float(x) == int(x) for x in np.asarray(track.photon_counts)):
            counts = [float(x) for x in np.asarray(track.photon_counts)]
    except AttributeError:
        counts = None
    md = min_duration_of(track)
    return {
        "t": [int(x) for x in np.asarray(track.time_idx)],
        "c": [float(x) for x in np.asarray(track.coordinate_idx)],
        "pos": [float(x) for x in np.asarray(track.position)],
        "min_duration": None if md is None else float(md),
        "counts": counts,
    }


_MD_SEEN = {}  # id(track) -> (track, value): tracks are immutable; the reference keeps the id from being reused


def min_duration_of(track):
    """minimum observable duration of a track: the private slot while it exists, else what `KymoTrackGroup([track]).save()`
    writes into the column "minimum observable duration (seconds)" (`%.6e`; no column = None) - sets MD_LOSSY"""
    global MD_LOSSY
    name = "KymoTrack._minimum_observable_duration"
    try:
        md = track._minimum_observable_duration
        _tie(name, "direct")
        return md
    except AttributeError:
        pass
    hit = _MD_SEEN.get(id(track))
    if hit is not None and hit[0] is track:
        _tie(name, "public")
        return hit[1]
    try:
        from lumicks.pylake.kymotracker.kymotrack import KymoTrackGroup

        path = _tmp("one_track.csv")
        with warnings.catch_warnings():
            warnings.simplefilter("ignore")
            KymoTrackGroup([track]).save(path, delimiter=";")
        with open(path) as f:
            rows = f.read().split("\n")
        titles = rows[1][2:].split(";")
        title = "minimum observable duration (seconds)"
        md = float(rows[2].split(";")[titles.index(title)]) if title in titles else None
    except Exception as e:
        _tie(name, "unreachable")
        raise Unreachable(f"_minimum_observable_duration is gone and the CSV route failed: {type(e).__name__} {e}")
    MD_LOSSY = True
    _tie(name, "public")
    if len(_MD_SEEN) >= 4096:
        _MD_SEEN.clear()
    _MD_SEEN[id(track)] = (track, md)
    return md


def group_state(group):
    return [track_state(tr) for tr in group]


def gaussian_spot_image(n_pixels, n_lines, spots, *, background=0.0, noise_rng=None):
    """expected photon counts of Gaussian spots integrated by the pixel-centre rule pylake's model uses
    (amplitude · pdf(x − centre) per pixel of size 1), plus a flat background"""
    x = np.arange(n_pixels, dtype=float)
    img = np.full((n_pixels, n_lines), float(background))
    for s in spots:
        for t, c in zip(s["t"], s["c"]):
            sig = float(s.get("sigma", 1.2))
            img[:, int(t)] += float(s["amplitude"]) * np.exp(-0.5 * ((x - c) / sig) ** 2) / (sig * np.sqrt(2 * np.pi))
    if noise_rng is not None:
        return noise_rng.poisson(img).astype(int)
    return np.rint(img).astype(int)


def random_track(rng, n_lines, n_pixels, *, max_points=20, gap_chance=0.3, margin=0, t0=None):
    n = rng.randint(1, max(1, min(max_points, n_lines)))
    # choose n strictly increasing line indices inside [0, n_lines)
    if t0 is None:
        t0 = rng.randint(0, n_lines - 1)
    t = [t0]
    while len(t) < n:
        step = 1 if not rng.chance(gap_chance) else rng.randint(2, 5)
        if t[-1] + step > n_lines - 1:
            break
        t.append(t[-1] + step)
    lo, hi = float(margin), float(n_pixels - 1 - margin)
    c = [rng.uniform(lo, hi)]
    for _ in range(len(t) - 1):
        c.append(min(hi, max(lo, c[-1] + rng.uniform(-1.5, 1.5))))
    style = rng.randint(0, 5)
    if style == 0:  # integer pixel centres
        c = [float(round(x)) for x in c]
    elif style == 1:  # half-pixel edges and quarter pixels (exact binary fractions)
        c = [min(hi, max(lo, round(x * 4) / 4.0)) for x in c]
    return t, c


def random_group_spec(rng, n_lines, n_pixels, *, max_tracks=20, max_points=20, gap_chance=0.3, margin=0):
    k = rng.randint(1, max_tracks)
    return [
        dict(zip(("t", "c"), random_track(rng, n_lines, n_pixels, max_points=max_points, gap_chance=gap_chance, margin=margin)))
        for _ in range(k)
    ]
