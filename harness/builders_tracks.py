"""Builders of real kymographs and track groups for the /verif checks (C17; reused by C08, C15, C19).

No dependency on the repository's test helpers: every object is made with `lumicks.pylake.low_level`
(info wave + photon-count slices + Bluelake JSON metadata) or, where that route cannot express the request
(uncalibrated kymographs, line times that are exact binary fractions), with `lumicks.pylake.kymo._kymo_from_array`
(the constructor behind `ImageStack.to_kymo()` and `lk.simulation`).  Import pylake lazily: `check` puts
`common.REPO` first on `sys.path` before any harness module touches it.

API
---
make_kymo(image, *, route="lowlevel", calibration="um", pixel_size_um=0.1, line_time_s=None, dt_ns=12800,
          samples_per_pixel=4, line_padding=3, start=..., kbp_length=None, channel="red", name="verif") -> Kymo
    image            2-D array-like of non-negative ints, shape (n_pixels, n_lines): the photon counts of `channel`
                     (`kymo.get_image(channel)` returns exactly this array; the other colours are all zero).
    route            "lowlevel": `low_level.create_confocal_object` from a synthetic info wave
                        (each pixel = `samples_per_pixel` samples, the last one flagged 2; `line_padding` samples of
                        dead time (flag 0) before every line).  Line time = (n_pixels*samples_per_pixel +
                        line_padding)*dt_ns*1e-9 s, so it is generally NOT an exact multiple in binary.
                     "array":    `_kymo_from_array(image, colour, line_time_s, pixel_size_um=…)`; `line_time_s` is
                        used verbatim (pass 0.5, 0.125, 0.0625·k … for exact float arithmetic on `seconds`).
    calibration      "um"    pixelsize = pixel_size_um (µm)
                     "kbp"   `kymo.calibrate_to_kbp(kbp_length)` on the um kymograph; default kbp_length = 0.6·n_pixels
                             (pixelsize = kbp_length / n_pixels kbp, `pixelsize_um` keeps the µm value)
                     "pixel" uncalibrated (pixelsize == [1.0], `pixelsize_um == [None]`); forces route="array".
    returns a `lumicks.pylake.kymo.Kymo`; `kymo_info(kymo)` gives the numbers the models need.

kymo_info(kymo) -> dict(pixelsize=float, line_time=float, n_pixels=int, n_lines=int, unit=str, pixelsize_um=float|None)

make_track(kymo, time_idx, coords, *, channel="red", min_duration=None, counts_half_width=None) -> KymoTrack
    time_idx integer scan-line indices (any order; the checks use strictly increasing ones), coords float
    sub-pixel coordinates (pixel centres at integers).  counts_half_width=None: plain `KymoTrack` (no photon
    counts); an int h: `KymoTrack._from_centroid_estimate(…, h, …)` (what `refine_tracks_centroid` produces:
    photon counts summed over 2h+1 pixels, pixel origin at the centre).

make_group(kymo, tracks, *, channel="red") -> KymoTrackGroup
    tracks: list of dicts {"t": [...], "c": [...], "min_duration": float|None, "counts_half_width": int|None}
    (missing keys default to None).

group_state(group) -> list of dicts {"t": [int], "c": [float coordinate_idx], "pos": [float], "min_duration":
    float|None, "counts": [int]|None} — the observable content of a group as plain Python values.

gaussian_spot_image(n_pixels, n_lines, spots, *, background=0.0, pixel_size=1.0, noise_rng=None) -> int ndarray
    noise-free (rounded expectation) or Poisson image (pass `noise_rng=numpy Generator`) of Gaussian spots;
    spots: list of dicts {"t": [...], "c": [...], "amplitude": photons, "sigma": pixels}.

random_track(rng, n_lines, n_pixels, *, max_points=20, gap_chance=0.3, margin=0) -> (t, c)
    a strictly increasing list of line indices inside the image and sub-pixel coordinates in
    [margin, n_pixels-1-margin] performing a bounded random walk; `rng` is a `common.Rng`.
random_group_spec(rng, n_lines, n_pixels, *, max_tracks=20, max_points=20, …) -> list of track dicts for make_group.
"""
import json

import numpy as np

FIRST_TIMESTAMP = 1388534400 * 10**9 + 10**9  # just after pylake's _FIRST_TIMESTAMP (2014-01-01)
COLORS = ("red", "green", "blue")


def _metadata_json(n_pixels, pixel_size_nm):
    return json.dumps(
        {
            "value0": {
                "cereal_class_version": 1,
                "fluorescence": True,
                "force": False,
                "scan count": 0,
                "scan volume": {
                    "center point (um)": {"x": 58.075877109272604, "y": 31.978375270573267, "z": 0},
                    "cereal_class_version": 1,
                    "pixel time (ms)": 0.2,
                    "scan axes": [
                        {
                            "axis": 0,
                            "cereal_class_version": 1,
                            "num of pixels": int(n_pixels),
                            "pixel size (nm)": float(pixel_size_nm),
                            "scan time (ms)": 0,
                            "scan width (um)": float(pixel_size_nm) * int(n_pixels) / 1000.0,
                        }
                    ],
                },
            }
        }
    )


def make_kymo(
    image,
    *,
    route="lowlevel",
    calibration="um",
    pixel_size_um=0.1,
    line_time_s=None,
    dt_ns=12800,
    samples_per_pixel=4,
    line_padding=3,
    start=FIRST_TIMESTAMP,
    kbp_length=None,
    channel="red",
    name="verif",
):
    from lumicks.pylake import low_level
    from lumicks.pylake.kymo import _kymo_from_array

    image = np.asarray(image)
    if image.ndim != 2:
        raise ValueError("image must be (n_pixels, n_lines)")
    n_pixels, n_lines = image.shape
    if calibration == "pixel":
        route = "array"
    if route == "array":
        if line_time_s is None:
            line_time_s = 0.125
        kymo = _kymo_from_array(
            image.astype(float),
            channel[0],
            float(line_time_s),
            start=int(start),
            pixel_size_um=None if calibration == "pixel" else float(pixel_size_um),
            name=name,
        )
    elif route == "lowlevel":
        spl = n_pixels * samples_per_pixel + line_padding
        info_line = np.zeros(spl, dtype=np.uint8)
        photons_line_idx = np.zeros(n_pixels, dtype=int)
        for p in range(n_pixels):
            a = line_padding + p * samples_per_pixel
            info_line[a : a + samples_per_pixel] = 1
            info_line[a + samples_per_pixel - 1] = 2
            photons_line_idx[p] = a
        infowave = np.tile(info_line, n_lines)
        photons = np.zeros(spl * n_lines, dtype=np.uint32)
        for line in range(n_lines):
            photons[line * spl + photons_line_idx] = image[:, line]
        mk = lambda d: low_level.make_continuous_slice(d, int(start), int(dt_ns))
        chans = {c: mk(photons if c == channel else np.zeros_like(photons)) for c in COLORS}
        kymo = low_level.create_confocal_object(
            name,
            mk(infowave),
            _metadata_json(n_pixels, float(pixel_size_um) * 1000.0),
            red_channel=chans["red"],
            green_channel=chans["green"],
            blue_channel=chans["blue"],
        )
    else:
        raise ValueError(route)
    if calibration == "kbp":
        kymo = kymo.calibrate_to_kbp(float(kbp_length) if kbp_length is not None else 0.4 * n_pixels * 1.5)
    elif calibration not in ("um", "pixel"):
        raise ValueError(calibration)
    return kymo


def kymo_info(kymo):
    shape = kymo.get_image("red").shape
    return {
        "pixelsize": float(kymo.pixelsize[0]),
        "line_time": float(kymo.line_time_seconds),
        "n_pixels": int(shape[0]),
        "n_lines": int(shape[1]),
        "unit": kymo._calibration.unit,
        "pixelsize_um": None if kymo.pixelsize_um[0] is None else float(kymo.pixelsize_um[0]),
    }


def make_track(kymo, time_idx, coords, *, channel="red", min_duration=None, counts_half_width=None):
    from lumicks.pylake.kymotracker.kymotrack import KymoTrack

    t = np.asarray(time_idx, dtype=int)
    c = np.asarray(coords, dtype=float)
    if counts_half_width is None:
        return KymoTrack(t, c, kymo, channel, min_duration)
    return KymoTrack._from_centroid_estimate(t, c, kymo, channel, int(counts_half_width), min_duration)


def make_group(kymo, tracks, *, channel="red"):
    from lumicks.pylake.kymotracker.kymotrack import KymoTrackGroup

    return KymoTrackGroup(
        [
            make_track(
                kymo,
                tr["t"],
                tr["c"],
                channel=channel,
                min_duration=tr.get("min_duration"),
                counts_half_width=tr.get("counts_half_width"),
            )
            for tr in tracks
        ]
    )


def track_state(track):
    try:
        counts = [int(x) for x in np.asarray(track.photon_counts)]
        if not all(float(x) == int(x) for x in np.asarray(track.photon_counts)):
            counts = [float(x) for x in np.asarray(track.photon_counts)]
    except AttributeError:
        counts = None
    md = track._minimum_observable_duration
    return {
        "t": [int(x) for x in np.asarray(track.time_idx)],
        "c": [float(x) for x in np.asarray(track.coordinate_idx)],
        "pos": [float(x) for x in np.asarray(track.position)],
        "min_duration": None if md is None else float(md),
        "counts": counts,
    }


def group_state(group):
    return [track_state(tr) for tr in group]


def gaussian_spot_image(n_pixels, n_lines, spots, *, background=0.0, noise_rng=None):
    """expected photon counts of Gaussian spots integrated by the pixel-centre rule pylake's model uses
    (amplitude · pdf(x − centre) per pixel of size 1), plus a flat background"""
    x = np.arange(n_pixels, dtype=float)
    img = np.full((n_pixels, n_lines), float(background))
    for s in spots:
        for t, c in zip(s["t"], s["c"]):
            sig = float(s.get("sigma", 1.2))
            img[:, int(t)] += float(s["amplitude"]) * np.exp(-0.5 * ((x - c) / sig) ** 2) / (sig * np.sqrt(2 * np.pi))
    if noise_rng is not None:
        return noise_rng.poisson(img).astype(int)
    return np.rint(img).astype(int)


def random_track(rng, n_lines, n_pixels, *, max_points=20, gap_chance=0.3, margin=0, t0=None):
    n = rng.randint(1, max(1, min(max_points, n_lines)))
    # choose n strictly increasing line indices inside [0, n_lines)
    if t0 is None:
        t0 = rng.randint(0, n_lines - 1)
    t = [t0]
    while len(t) < n:
        step = 1 if not rng.chance(gap_chance) else rng.randint(2, 5)
        if t[-1] + step > n_lines - 1:
            break
        t.append(t[-1] + step)
    lo, hi = float(margin), float(n_pixels - 1 - margin)
    c = [rng.uniform(lo, hi)]
    for _ in range(len(t) - 1):
        c.append(min(hi, max(lo, c[-1] + rng.uniform(-1.5, 1.5))))
    style = rng.randint(0, 5)
    if style == 0:  # integer pixel centres
        c = [float(round(x)) for x in c]
    elif style == 1:  # half-pixel edges and quarter pixels (exact binary fractions)
        c = [min(hi, max(lo, round(x * 4) / 4.0)) for x in c]
    return t, c


def random_group_spec(rng, n_lines, n_pixels, *, max_tracks=20, max_points=20, gap_chance=0.3, margin=0):
    k = rng.randint(1, max_tracks)
    return [
        dict(zip(("t", "c"), random_track(rng, n_lines, n_pixels, max_points=max_points, gap_chance=gap_chance, margin=margin)))
        for _ in range(k)
    ]
