#!/venv/bin/python
"""Systematic small mutants of the ANCHORED pylake functions, run against a property's check.

usage: tools/automut.py Cxx [--max N] [--jobs J] [--seed S] [--scope functions|files] [--suite] [--tier quick]

The fresh-agent seeded changes (seeded/) are realistic but few; this is the mechanical complement: every comparison,
arithmetic operator, integer constant, min/max, floor/ceil, and/or, not, unary minus and True/False inside the functions
that properties.jsonl anchors for the property (scope `functions`), or inside every line of the anchored files that the
check's last run executed (scope `files`, from evidence/<id>.json anchor_line_coverage), is changed one at a time in a
scratch worktree of /repo and `VERIF_REPO=<worktree> ./check Cxx --tier quick` is run on it.
  killed    the check exits 1 (VIOLATION)
  survived  the check exits 0; with --suite the pinned test suite is then run on the mutant: `suite_fails` means the
            existing tests already reject it (not a change the brief cares about), `suite_passes` marks a candidate
            gap — or an equivalent mutant (a change that cannot alter any answer the property speaks about).
Survivors are triaged by hand / by strengthening agents; nothing here is evidence for a property, it steers generator work.
Results: automut/<id>.json.  Nothing is ever applied to /repo itself."""
import argparse
import ast
import concurrent.futures as cf
import json
import os
import random
import shutil
import subprocess
import sys

VERIF = os.path.dirname(os.path.dirname(os.path.abspath(__file__)))
REPO = "/repo"

CMP = {ast.Lt: "<=", ast.LtE: "<", ast.Gt: ">=", ast.GtE: ">", ast.Eq: "!=", ast.NotEq: "=="}
CMP_TXT = {ast.Lt: "<", ast.LtE: "<=", ast.Gt: ">", ast.GtE: ">=", ast.Eq: "==", ast.NotEq: "!="}
BIN = {ast.Add: ("+", "-"), ast.Sub: ("-", "+"), ast.Mult: ("*", "/"), ast.Div: ("/", "*")}
NAMES = {"max": "min", "min": "max", "maximum": "minimum", "minimum": "maximum", "floor": "ceil", "ceil": "floor",
         "argmax": "argmin", "argmin": "argmax", "cumsum": "cumprod", "any": "all", "all": "any"}


sys.path.insert(0, os.path.join(VERIF, "harness"))
import anchorcov  # noqa: E402  (anchor resolution shared with the coverage measurement)


def anchors(pid):
    return anchorcov._anchors(VERIF, pid)


def functions(tree):
    out = []

    def visit(node, prefix):
        for ch in ast.iter_child_nodes(node):
            if isinstance(ch, (ast.FunctionDef, ast.AsyncFunctionDef, ast.ClassDef)):
                q = prefix + ch.name
                if not isinstance(ch, ast.ClassDef):
                    first = min([d.lineno for d in ch.decorator_list] + [ch.lineno])
                    out.append((q, first, ch.end_lineno, ch.lineno))
                visit(ch, q + ".")
            else:
                visit(ch, prefix)

    visit(tree, "")
    return out


class Offsets:
    def __init__(self, src):
        self.src = src
        self.lines = src.split("\n")
        self.starts = [0]
        for l in self.lines:
            self.starts.append(self.starts[-1] + len(l) + 1)

    def abs(self, lineno, col):  # col is a UTF-8 byte offset
        line = self.lines[lineno - 1]
        return self.starts[lineno - 1] + len(line.encode()[:col].decode(errors="ignore"))


def sites(path, ranges):
    """-> list of (lineno, start, end, old, new, kind) text edits inside the line ranges"""
    src = open(path).read()
    tree = ast.parse(src)
    off = Offsets(src)
    out = []
    docstrings = set()
    for n in ast.walk(tree):
        if isinstance(n, (ast.FunctionDef, ast.ClassDef, ast.Module, ast.AsyncFunctionDef)) and n.body and isinstance(n.body[0], ast.Expr) \
                and isinstance(getattr(n.body[0], "value", None), ast.Constant):
            docstrings.add(id(n.body[0].value))

    def inside(n):
        return any(a <= n.lineno <= b for a, b in ranges)

    def between(a_end, b_start, old):
        seg = src[a_end:b_start]
        k = seg.find(old)
        if k < 0 or seg.strip() != old:
            return None
        return a_end + k

    for n in ast.walk(tree):
        if not hasattr(n, "lineno") or not inside(n):
            continue
        if isinstance(n, ast.Compare) and len(n.ops) == 1 and type(n.ops[0]) in CMP:
            old, new = CMP_TXT[type(n.ops[0])], CMP[type(n.ops[0])]
            s = between(off.abs(n.left.end_lineno, n.left.end_col_offset), off.abs(n.comparators[0].lineno, n.comparators[0].col_offset), old)
            if s is not None:
                out.append((n.lineno, s, s + len(old), old, new, "cmp"))
        elif isinstance(n, ast.BinOp) and type(n.op) in BIN:
            old, new = BIN[type(n.op)]
            s = between(off.abs(n.left.end_lineno, n.left.end_col_offset), off.abs(n.right.lineno, n.right.col_offset), old)
            if s is not None:
                out.append((n.lineno, s, s + len(old), old, new, "arith"))
        elif isinstance(n, ast.BoolOp):
            old, new = ("and", "or") if isinstance(n.op, ast.And) else ("or", "and")
            s = between(off.abs(n.values[0].end_lineno, n.values[0].end_col_offset), off.abs(n.values[1].lineno, n.values[1].col_offset), old)
            if s is not None:
                out.append((n.lineno, s, s + len(old), old, new, "bool"))
        elif isinstance(n, ast.Constant) and id(n) not in docstrings:
            s, e = off.abs(n.lineno, n.col_offset), off.abs(n.end_lineno, n.end_col_offset)
            txt = src[s:e]
            if isinstance(n.value, bool):
                out.append((n.lineno, s, e, txt, "False" if n.value else "True", "const-bool"))
            elif isinstance(n.value, int) and txt.isdigit():
                out.append((n.lineno, s, e, txt, str(n.value + 1), "const-int"))
                if n.value >= 1:
                    out.append((n.lineno, s, e, txt, str(n.value - 1), "const-int"))
            elif isinstance(n.value, float) and txt in ("0.5", "2.0", "1.0", "1e9", "1e-9", "1e6", "1e3"):
                out.append((n.lineno, s, e, txt, {"0.5": "0.25", "2.0": "1.0", "1.0": "2.0", "1e9": "1e6", "1e-9": "1e-6", "1e6": "1e9", "1e3": "1e6"}[txt], "const-float"))
        elif isinstance(n, ast.UnaryOp) and isinstance(n.op, (ast.Not, ast.USub)) and not isinstance(n.operand, ast.Constant):
            s = off.abs(n.lineno, n.col_offset)
            e = off.abs(n.operand.lineno, n.operand.col_offset)
            out.append((n.lineno, s, e, src[s:e], "", "unary"))
        elif isinstance(n, ast.Call):
            f = n.func
            name = f.attr if isinstance(f, ast.Attribute) else (f.id if isinstance(f, ast.Name) else None)
            if name in NAMES:
                e = off.abs(f.end_lineno, f.end_col_offset)
                out.append((n.lineno, e - len(name), e, name, NAMES[name], "call"))
    out = sorted(set(out))
    return src, out


def sh(cmd, cwd=None, env=None, timeout=3600):
    try:
        p = subprocess.run(cmd, shell=True, cwd=cwd, env=env, capture_output=True, text=True, timeout=timeout)
        return p.returncode, p.stdout + p.stderr
    except subprocess.TimeoutExpired:
        return 124, "timeout"


def worker(args):
    k, pid, tier, suite, muts = args
    wt = f"/tmp/automut_wt_{pid}_{os.getpid()}_{k}"
    sh(f"git -C {REPO} worktree remove --force {wt}")
    shutil.rmtree(wt, ignore_errors=True)
    rc, out = sh(f"git -C {REPO} worktree add -q --detach {wt} HEAD")
    res = []
    if rc:
        return [dict(m, verdict="infra", detail=out[:200]) for m in muts]
    try:
        for m in muts:
            p = os.path.join(wt, m["file"])
            orig = open(p).read()
            new = orig[: m["start"]] + m["new"] + orig[m["end"]:]
            try:
                compile(new, p, "exec")
            except SyntaxError:
                res.append(dict(m, verdict="syntax"))
                continue
            open(p, "w").write(new)
            try:
                env = dict(os.environ, VERIF_REPO=wt, VERIF_ANCHORCOV="0", VERIF_ESCALATE="0")
                rc, out = sh(f"./check {pid} --tier {tier}", cwd=VERIF, env=env, timeout=1800)
                last = out.strip().splitlines()[-1:] or [""]
                if rc == 1:
                    v = "killed"
                elif rc == 0:
                    v = "survived"
                    if suite:
                        rcb, outb = sh(os.path.join(VERIF, "tools", "baseline.py"), env=dict(os.environ, VERIF_REPO=wt), timeout=3000)
                        v = "survived_suite_passes" if rcb == 0 else "survived_suite_fails"
                else:
                    v = "infra"
                res.append(dict(m, verdict=v, exit=rc, summary=last[0][:200]))
            finally:
                open(p, "w").write(orig)
            print(f"{pid} {m['file']}:{m['line']} {m['kind']} {m['old']!r}->{m['new']!r}: {res[-1]['verdict']}", flush=True)
    finally:
        sh(f"git -C {REPO} worktree remove --force {wt}")
        shutil.rmtree(wt, ignore_errors=True)
    return res


def main():
    ap = argparse.ArgumentParser()
    ap.add_argument("pid")
    ap.add_argument("--max", type=int, default=40)
    ap.add_argument("--jobs", type=int, default=2)
    ap.add_argument("--seed", type=int, default=0)
    ap.add_argument("--scope", default="functions")
    ap.add_argument("--tier", default="quick")
    ap.add_argument("--suite", action="store_true")
    ap.add_argument("--list", action="store_true")
    a = ap.parse_args()
    files, where = anchors(a.pid)
    cov = None
    ep = os.path.join(VERIF, "evidence", a.pid + ".json")
    if os.path.exists(ep):
        cov = json.load(open(ep))["coverage"].get("anchor_line_coverage")
    muts = []
    for rel in files:
        path = os.path.join(REPO, rel)
        if not os.path.exists(path):
            continue
        tree = ast.parse(open(path).read())
        funcs = functions(tree)
        ranges = []
        if a.scope == "functions":
            ranges = [(f[3], f[2]) for f in anchorcov.resolve(funcs, rel, where)]
        else:
            ranges = [(f[1], f[2]) for f in funcs]
        if not ranges:
            continue
        src, ss = sites(path, ranges)
        for (ln, s, e, old, new, kind) in ss:
            muts.append({"file": rel, "line": ln, "start": s, "end": e, "old": old, "new": new, "kind": kind,
                         "text": src.split("\n")[ln - 1].strip()[:140]})
    # only lines the check executes can be killed; the others are reported as `not_executed` without running anything
    executed_info = {}
    if cov and "anchored_functions" in cov:
        for k, v in cov["anchored_functions"].items():
            executed_info.setdefault(k.split(":")[0], set()).update(v["not_executed"])
    rnd = random.Random(a.seed)
    rnd.shuffle(muts)
    chosen = muts[: a.max]
    if a.list:
        for m in chosen:
            print(m["file"], m["line"], m["kind"], repr(m["old"]), "->", repr(m["new"]), "|", m["text"])
        print(len(muts), "sites in scope")
        return 0
    chunks = [chosen[i:: a.jobs] for i in range(a.jobs)]
    results = []
    with cf.ProcessPoolExecutor(max_workers=a.jobs) as ex:
        for r in ex.map(worker, [(k, a.pid, a.tier, a.suite, c) for k, c in enumerate(chunks) if c]):
            results.extend(r)
    for r in results:
        if r["line"] in executed_info.get(r["file"], ()):
            r["line_not_executed_by_check"] = True
    os.makedirs(os.path.join(VERIF, "automut"), exist_ok=True)
    outp = os.path.join(VERIF, "automut", a.pid + ".json")
    prev = json.load(open(outp)) if os.path.exists(outp) else {"mutants": []}
    key = lambda r: (r["file"], r["start"], r["end"], r["new"])
    merged = {key(r): r for r in prev["mutants"]}
    merged.update({key(r): r for r in results})
    allr = sorted(merged.values(), key=lambda r: (r["file"], r["line"], r["start"], r["new"]))
    counts = {}
    for r in allr:
        counts[r["verdict"]] = counts.get(r["verdict"], 0) + 1
    json.dump({"property": a.pid, "sites_in_scope": len(muts), "counts": counts, "mutants": allr}, open(outp, "w"), indent=1)
    print(a.pid, "sites", len(muts), "run", len(results), counts)
    return 0


if __name__ == "__main__":
    sys.exit(main())
