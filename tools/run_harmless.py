#!/venv/bin/python
"""Run the registered checks against the HARMLESS refactorings kept under /verif/harmless/<id>/ (patch.diff, meta.json).

usage: tools/run_harmless.py [--import TAG …] [--verify] [ids…]

--import TAG copies /tmp/mut/<TAG>_out/r<i>/ into harmless/<TAG>-r<i>/ first.  For each refactoring: scratch worktree of
/repo's HEAD, apply the patch, (with --verify: the pinned suite on the patched tree), `VERIF_REPO=<worktree> ./check <property>`
for seeds 0 and 1, remove the worktree.  Verdicts: green (exit 0 on both seeds), tie-broken (only VIOLATION … no-failing-input-found
lines: the harness could not reach a renamed helper / the model no longer corresponds, nothing was found failing), ALARM (a
violation with a failing input on code where the property holds).  Results in harmless/RESULTS.json."""
import argparse, json, os, shutil, subprocess, sys

VERIF = os.path.dirname(os.path.dirname(os.path.abspath(__file__)))
H = os.path.join(VERIF, "harmless")


def sh(cmd, cwd=None, env=None, timeout=3600):
    p = subprocess.run(cmd, shell=True, cwd=cwd, env=env, capture_output=True, text=True, timeout=timeout)
    return p.returncode, p.stdout + p.stderr


def main():
    ap = argparse.ArgumentParser()
    ap.add_argument("--import", dest="imp", nargs="*", default=[])
    ap.add_argument("--verify", action="store_true")
    ap.add_argument("ids", nargs="*")
    a = ap.parse_args()
    os.makedirs(H, exist_ok=True)
    new = []
    for tag in a.imp:
        src = f"/tmp/mut/{tag}_out"
        for r in sorted(os.listdir(src)):
            d = os.path.join(src, r)
            if os.path.isdir(d) and os.path.exists(os.path.join(d, "patch.diff")):
                dst = os.path.join(H, f"{tag}-{r}")
                os.makedirs(dst, exist_ok=True)
                for f in ("patch.diff", "meta.json"):
                    if os.path.exists(os.path.join(d, f)):
                        shutil.copy(os.path.join(d, f), os.path.join(dst, f))
                m = json.load(open(os.path.join(dst, "meta.json")))
                m.setdefault("property", tag[:3])
                m["origin"] = f"independent sub-agent {tag} (given only the property text and its own worktree)"
                json.dump(m, open(os.path.join(dst, "meta.json"), "w"), indent=1)
                new.append(f"{tag}-{r}")
    ids = a.ids or new or sorted(d for d in os.listdir(H) if os.path.isdir(os.path.join(H, d)))
    rp = os.path.join(H, "RESULTS.json")
    for hid in ids:
        d = os.path.join(H, hid)
        meta = json.load(open(os.path.join(d, "meta.json")))
        prop = meta["property"]
        wt = f"/tmp/harmless_wt_{hid}"
        sh(f"git -C /repo worktree remove --force {wt}")
        shutil.rmtree(wt, ignore_errors=True)
        rc, out = sh(f"git -C /repo worktree add -q {wt} HEAD")
        res = {"property": prop, "kind": meta.get("kind")}
        try:
            rc, out = sh(f"git apply {os.path.join(d, 'patch.diff')}", cwd=wt)
            res["applies"] = rc == 0
            if rc:
                print(hid, "patch does not apply", out[:200])
            else:
                env = dict(os.environ, VERIF_REPO=wt)
                if a.verify:
                    rcb, outb = sh(os.path.join(VERIF, "tools", "baseline.py"), env=env, timeout=3000)
                    res["suite_ok_with_patch"] = rcb == 0
                runs = {}
                for seed in (0, 1):
                    rc, out = sh(f"./check {prop} --tier quick", cwd=VERIF, env=dict(env, VERIF_SEED=str(seed)), timeout=7200)
                    v = [l for l in out.splitlines() if l.startswith("VIOLATION")]
                    runs[str(seed)] = {"exit": rc, "violations": v[:3], "summary": out.strip().splitlines()[-1:]}
                res["runs"] = runs
                allv = [l for r in runs.values() for l in r["violations"]]
                if all(r["exit"] == 0 for r in runs.values()):
                    res["verdict"] = "green"
                elif allv and all(l.rstrip().endswith("no-failing-input-found") for l in allv) and all(r["exit"] in (0, 1) for r in runs.values()):
                    res["verdict"] = "tie-broken"
                elif any(r["exit"] == 2 for r in runs.values()):
                    res["verdict"] = "infrastructure-error"
                else:
                    res["verdict"] = "ALARM"
            import fcntl

            with open(rp + ".lock", "w") as lkf:
                fcntl.flock(lkf, fcntl.LOCK_EX)
                results = json.load(open(rp)) if os.path.exists(rp) else {}
                prev = results.get(hid, {})
                if "suite_ok_with_patch" in prev and "suite_ok_with_patch" not in res:
                    res["suite_ok_with_patch"] = prev["suite_ok_with_patch"]
                results[hid] = res
                tmp = rp + f".tmp{os.getpid()}"
                json.dump(results, open(tmp, "w"), indent=1, sort_keys=True)
                os.replace(tmp, rp)
            print(hid, prop, res.get("verdict"), {k: v["exit"] for k, v in res.get("runs", {}).items()}, res.get("suite_ok_with_patch"))
        finally:
            sh(f"git -C /repo worktree remove --force {wt}")
            shutil.rmtree(wt, ignore_errors=True)


if __name__ == "__main__":
    sys.exit(main())
