#!/venv/bin/python
"""Run /repo's pinned test suite with the verification guard OFF and compare with BASELINE.json:
every test in stable_pass must still pass.  Exit 0 iff so."""
import json
import os
import subprocess
import sys
import tempfile
import xml.etree.ElementTree as ET

repo = os.environ.get("VERIF_REPO", "/repo")
base = json.load(open("/root/.vp/BASELINE.json"))
env = dict(os.environ)
env.pop("LUMICKS_PYLAKE_VERIF", None)
with tempfile.TemporaryDirectory() as d:
    xml = os.path.join(d, "junit.xml")
    cmd = f"cd {repo} && /venv/bin/python -m pytest -ra -q -p no:cacheprovider --timeout=900 --continue-on-collection-errors --junitxml={xml}"
    if len(sys.argv) > 1:
        cmd += " " + " ".join(sys.argv[1:])
    p = subprocess.run(cmd, shell=True, env=env, capture_output=True, text=True)
    passed = set()
    for tc in ET.parse(xml).getroot().iter("testcase"):
        if not any(ch.tag in ("failure", "error", "skipped") for ch in tc):
            passed.add(f"{tc.get('classname')}::{tc.get('name')}")
want = set(base["stable_pass"])
missing = sorted(want - passed)
print(f"passed {len(passed)}; baseline stable_pass {len(want)}; baseline tests no longer passing: {len(missing)}")
for m in missing[:40]:
    print("  MISSING", m)
sys.exit(1 if missing else 0)
