#!/usr/bin/env python3
"""Print the prompt for a mutant sub-agent: tools/mk_mutant_prompt.py C13 C13c [N]  (property text only, plus the
sites already taken by earlier seeded changes so that the new ones differ)."""
import json, os, sys
V = os.path.dirname(os.path.dirname(os.path.abspath(__file__)))
pid, tag = sys.argv[1], sys.argv[2]
n = sys.argv[3] if len(sys.argv) > 3 else "2"
prop = next(json.loads(l) for l in open(os.path.join(V, "properties.jsonl")) if json.loads(l)["id"] == pid)
t = open(os.path.join(V, "tools", "mutant_prompt.md")).read()
t = (t.replace("{TAG}", tag).replace("{TITLE}", prop["title"]).replace("{STATEMENT}", prop["statement"])
     .replace("{QUANT}", prop["quantifier"]["text"]).replace("{FILES}", ", ".join(prop["anchors"]["files"]))
     .replace("{N}", n).replace("{PID}", pid))
taken = []
for d in sorted(os.listdir(os.path.join(V, "seeded"))):
    mp = os.path.join(V, "seeded", d, "meta.json")
    if d.startswith(pid) and os.path.exists(mp):
        m = json.load(open(mp))
        taken.append("- " + str(m.get("summary", ""))[:400])
if taken:
    t += "\nThese changes were already produced by others; yours must use DIFFERENT sites and mechanisms:\n" + "\n".join(taken) + "\n"
print(t)
