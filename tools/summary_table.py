#!/usr/bin/env python3
"""Per-property summary (obligations, cases of the last run, seeded changes caught) from evidence/*.json and seeded/RESULTS.json."""
import json, os, glob
V = os.path.dirname(os.path.dirname(os.path.abspath(__file__)))
res = json.load(open(os.path.join(V, "seeded", "RESULTS.json"))) if os.path.exists(os.path.join(V, "seeded", "RESULTS.json")) else {}
print("| property | theorems audited | cases (tier of last run) | distinct non-trivial | wall s | seeded changes caught (quick) |")
print("|---|---|---|---|---|---|")
tot_t = tot_s = tot_c = 0
for f in sorted(glob.glob(os.path.join(V, "evidence", "C*.json"))):
    e = json.load(open(f)); pid = e["property_id"]; c = e["coverage"]
    ids = [k for k in sorted(res) if k.startswith(pid)]
    caught = sum(1 for k in ids if res[k].get("caught"))
    tot_t += c["obligations"]; tot_s += len(ids); tot_c += caught
    print(f"| {pid} | {c['discharged']}/{c['obligations']} | {c['evaluations']} ({e['tier']}) | {c['distinct_nontrivial']} | {e['wall_s']} | {caught}/{len(ids)} |")
print(f"| total | {tot_t} | | | | {tot_c}/{tot_s} |")
