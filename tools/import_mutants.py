#!/usr/bin/env python3
"""Copy mutant-agent output /tmp/mut/<TAG>_out/m<i>/ into seeded/<TAG>-m<i>/ (patch.diff, demo.py, meta.json)."""
import json, os, shutil, sys
VERIF = os.path.dirname(os.path.dirname(os.path.abspath(__file__)))
for tag in sys.argv[1:]:
    src = f"/tmp/mut/{tag}_out"
    for m in sorted(os.listdir(src)):
        d = os.path.join(src, m)
        if not (os.path.isdir(d) and os.path.exists(os.path.join(d, "patch.diff"))):
            continue
        dst = os.path.join(VERIF, "seeded", f"{tag}-{m}")
        os.makedirs(dst, exist_ok=True)
        for f in ("patch.diff", "demo.py", "meta.json"):
            if os.path.exists(os.path.join(d, f)):
                shutil.copy(os.path.join(d, f), os.path.join(dst, f))
        meta = json.load(open(os.path.join(dst, "meta.json")))
        meta.setdefault("property", tag[:3])
        meta["origin"] = f"independent sub-agent {tag} (given only the property text and its own worktree)"
        json.dump(meta, open(os.path.join(dst, "meta.json"), "w"), indent=1)
        print("imported", dst)
