#!/usr/bin/env python3
"""Regenerate MANIFEST.json from tools/claims/Cxx.json (one file per claimed property) and properties.jsonl."""
import json
import os

HERE = os.path.dirname(os.path.dirname(os.path.abspath(__file__)))
cdir = os.path.join(HERE, "tools", "claims")
claims = json.load(open(os.path.join(cdir, "_common.json")))
claims["claims"] = {f[:-5]: json.load(open(os.path.join(cdir, f))) for f in sorted(os.listdir(cdir)) if f.startswith("C") and f.endswith(".json")}
props = [json.loads(l) for l in open(os.path.join(HERE, "properties.jsonl"))]
checks = []
na = []
for p in props:
    pid = p["id"]
    c = claims["claims"].get(pid)
    if c is None:
        na.append({"property_id": pid, "reason": claims["unclaimed"].get(pid, "no check in this revision: model, theorems and correspondence for this property are not finished; nothing is claimed for it")})
        continue
    checks.append({
        "property_id": pid,
        "quick_cmd": f"./check {pid} --tier quick",
        "thorough_cmd": f"./check {pid} --tier thorough",
        "evidence_file": f"evidence/{pid}.json",
        "replay_cmd_template": f"./check {pid} --replay {{path}}",
        "engine": "lean4+correspondence",
        "level_claimed": {"category": "proof", "text": c["text"], "design_ref": f"DESIGN.md section 6, {pid}"},
        "level_note": c["note"],
        "technique": c.get("technique", "Lean 4 theorems about a hand-written executable model + per-run correspondence (differential) check against the implementation"),
    })
m = {
    "version": 1,
    "setup_cmd": "cd lean && lake build Verif driver",
    "hooks": {
        "guard": "LUMICKS_PYLAKE_VERIF",
        "enable": "no source hook is needed: every observable is reached through the public API or lumicks.pylake.low_level; ./check sets LUMICKS_PYLAKE_VERIF=1 for uniformity and imports /repo's working tree in-process",
        "baseline_off_cmd": "./tools/baseline.py",
        "source_commits": [],
        "add_only": True,
    },
    "engines": [{
        "name": "lean4+correspondence",
        "path": "check",
        "serves_properties": [c["property_id"] for c in checks],
        "kind_free_text": "Lean 4.33 (+Mathlib) theorems about executable models in lean/Verif; compiled Lean driver (line protocol) run against /repo's working tree by harness/*.py with an independent oracle; known_findings.json",
    }],
    "checks": checks,
    "notes": claims.get("notes", ""),
    "not_applicable": na,
}
json.dump(m, open(os.path.join(HERE, "MANIFEST.json"), "w"), indent=1)
print("claimed", [c["property_id"] for c in checks], "unclaimed", [x["property_id"] for x in na])
