#!/usr/bin/env python3
import os, sys
V = os.path.dirname(os.path.dirname(os.path.abspath(__file__)))
pid, ids = sys.argv[1], sys.argv[2:]
t = open(os.path.join(V, "tools", "robust_prompt.md")).read()
print(t.replace("{PID}", pid).replace("{pid}", pid.lower()).replace("{IDS_SPACE}", " ".join(ids)).replace("{IDS}", ", ".join(ids)))
