#!/usr/bin/env python3
"""tools/anchor_gaps.py [Cxx …]: from evidence/<id>.json, the lines of the anchored functions no case executed, with source text."""
import json, os, sys
V = os.path.dirname(os.path.dirname(os.path.abspath(__file__)))
ids = sys.argv[1:] or [f[:-5] for f in sorted(os.listdir(os.path.join(V, "evidence"))) if f.endswith(".json") and f[0] == "C"]
for pid in ids:
    e = json.load(open(os.path.join(V, "evidence", pid + ".json")))
    c = e["coverage"].get("anchor_line_coverage")
    if not c or "error" in c:
        print(pid, "no coverage measurement"); continue
    print(f"== {pid}: anchored functions {c['anchored_functions_fraction']}, anchored files {c['anchored_files_fraction']}")
    for k, v in c["anchored_functions"].items():
        rel, fn = k.split(":", 1)
        if not v["not_executed"]:
            continue
        src = open(os.path.join("/repo", rel)).read().split("\n")
        print(f"  {k}  {v['executed']}/{v['lines']}")
        for ln in v["not_executed"]:
            print(f"     {ln}: {src[ln-1].strip()[:110]}")
