#!/bin/bash
# tools/import_g.sh C04 …: import /tmp/mut/fCxx_out (agent tag fCxx) as seeded/Cxxg-m<i>, then verify + run
cd "$(dirname "$0")/.."
for p in "$@"; do
  rm -rf /tmp/mut/${p}g_out; cp -r /tmp/mut/f${p}_out /tmp/mut/${p}g_out
  python3 tools/import_mutants.py ${p}g
  ids=$(ls seeded | grep "^${p}g")
  tools/run_seeded.py --verify $ids
done
