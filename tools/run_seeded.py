#!/venv/bin/python
"""Run the registered checks against the seeded breaking changes kept under /verif/seeded/<id>/.

usage: tools/run_seeded.py [--verify] [--tier quick|thorough] [--props C01,C07] [ids…]

For each seeded change: make a scratch worktree of /repo's HEAD under /tmp, apply patch.diff, (with --verify: run
demo.py on the clean and on the patched tree and the pinned test suite on the patched tree), run
`VERIF_REPO=<worktree> ./check <property> --tier <tier>` (plus any extra properties listed in meta.json
"also_check"), remove the worktree, and print one line per change.  Results are written to seeded/RESULTS.json.
Nothing is ever applied to /repo itself."""
import argparse
import json
import os
import shutil
import subprocess
import sys

VERIF = os.path.dirname(os.path.dirname(os.path.abspath(__file__)))
SEEDED = os.path.join(VERIF, "seeded")


def sh(cmd, cwd=None, env=None, timeout=3600):
    p = subprocess.run(cmd, shell=True, cwd=cwd, env=env, capture_output=True, text=True, timeout=timeout)
    return p.returncode, p.stdout + p.stderr


def main():
    ap = argparse.ArgumentParser()
    ap.add_argument("--verify", action="store_true")
    ap.add_argument("--tier", default="quick")
    ap.add_argument("--props", default="")
    ap.add_argument("ids", nargs="*")
    a = ap.parse_args()
    ids = a.ids or sorted(d for d in os.listdir(SEEDED) if os.path.isdir(os.path.join(SEEDED, d)))
    results = {}
    rp = os.path.join(SEEDED, "RESULTS.json")
    if os.path.exists(rp):
        results = json.load(open(rp))
    for sid in ids:
        d = os.path.join(SEEDED, sid)
        meta = json.load(open(os.path.join(d, "meta.json")))
        prop = meta["property"]
        if a.props and prop not in a.props.split(","):
            continue
        wt = f"/tmp/seeded_wt_{sid}"
        sh(f"git -C /repo worktree remove --force {wt}")
        shutil.rmtree(wt, ignore_errors=True)
        rc, out = sh(f"git -C /repo worktree add -q {wt} HEAD")
        if rc:
            print(sid, "worktree failed", out)
            continue
        try:
            res = {"property": prop}
            if a.verify:
                rc0, _ = sh(f"/venv/bin/python {os.path.join(d, meta.get('demo', 'demo.py'))}", cwd=wt, timeout=900)
                res["demo_clean_exit"] = rc0
            rc, out = sh(f"git apply {os.path.join(d, 'patch.diff')}", cwd=wt)
            if rc:
                print(sid, "patch does not apply:", out[:300])
                res["applies"] = False
                results[sid] = res
                continue
            res["applies"] = True
            if a.verify:
                rc1, _ = sh(f"/venv/bin/python {os.path.join(d, meta.get('demo', 'demo.py'))}", cwd=wt, timeout=900)
                res["demo_patched_exit"] = rc1
                env = dict(os.environ, VERIF_REPO=wt)
                rcb, outb = sh(os.path.join(VERIF, "tools", "baseline.py"), env=env, timeout=3000)
                res["suite_ok_with_patch"] = rcb == 0
                res["suite_tail"] = outb.strip().splitlines()[-1:] if outb.strip() else []
            caught = {}
            for p in [prop] + list(meta.get("also_check", [])):
                env = dict(os.environ, VERIF_REPO=wt)
                rc, out = sh(f"./check {p} --tier {a.tier}", cwd=VERIF, env=env, timeout=7200)
                lines = [l for l in out.splitlines() if l.startswith("VIOLATION")]
                caught[p] = {"exit": rc, "violations": lines[:3], "summary": out.strip().splitlines()[-1:] }
            res[f"check_{a.tier}"] = caught
            res["caught"] = any(v["exit"] == 1 for v in caught.values())
            # merge into the file on disk right away (several runs may be going on)
            import fcntl

            with open(rp + ".lock", "w") as lk:
                fcntl.flock(lk, fcntl.LOCK_EX)
                results = json.load(open(rp)) if os.path.exists(rp) else {}
                prev = results.get(sid, {})
                prev.update(res)
                results[sid] = prev
                tmp = rp + f".tmp{os.getpid()}"
                json.dump(results, open(tmp, "w"), indent=1, sort_keys=True)
                os.replace(tmp, rp)
            print(sid, prop, "CAUGHT" if res["caught"] else "MISSED", {k: v["exit"] for k, v in caught.items()},
                  {k: res[k] for k in ("demo_clean_exit", "demo_patched_exit", "suite_ok_with_patch") if k in res})
        finally:
            sh(f"git -C /repo worktree remove --force {wt}")
            shutil.rmtree(wt, ignore_errors=True)


if __name__ == "__main__":
    sys.exit(main())
