#!/bin/bash
# tools/merge_branch.sh <clone dir name under /tmp/vw = branch name>…  — merge property branches of sub-agent clones
cd "$(dirname "$0")/.."
for b in "$@"; do
  git add -A >/dev/null; git commit -qm "wip before merging $b" >/dev/null 2>&1
  git fetch -q /tmp/vw/$b $b:$b || { echo "fetch $b failed"; continue; }
  git merge --no-edit $b >/tmp/merge_$b.log 2>&1
  python3 tools/resolve_merge.py >/dev/null 2>&1
  for f in $(git status --short | grep "^UU\|^AA" | cut -c4-); do
    case $f in automut/*.json) python3 tools/resolve_automut.py "$f";; seeded/*/meta.json) python3 - "$f" <<'P'
import json,subprocess,sys
f=sys.argv[1]
def show(st): return json.loads(subprocess.run(["git","show",f":{st}:{f}"],capture_output=True,text=True).stdout)
o,t=show(2),show(3)
for k,v in t.items():
    if k not in o: o[k]=v
json.dump(o,open(f,"w"),indent=1)
P
      git add "$f";; esac
  done
  if git status --short | grep -q "^UU\|^AA"; then echo "UNRESOLVED in $b:"; git status --short | grep "^UU\|^AA"; exit 1; fi
  git commit -qm "Merge branch '$b'" >/dev/null 2>&1
  git branch --contains $b 2>/dev/null | grep -q "main" && echo "merged $b" || echo "NOT merged $b (see /tmp/merge_$b.log)"
done
python3 tools/gen_index.py >/dev/null; python3 tools/gen_manifest.py >/dev/null
git add -A >/dev/null; git commit -qm "regenerate after merges" >/dev/null 2>&1
