#!/usr/bin/env python3
"""Resolve add/add or content conflicts of automut/<id>.json during a merge: union of the mutants, the incoming verdict wins."""
import json, subprocess, sys
for f in sys.argv[1:]:
    def show(st):
        r = subprocess.run(["git", "show", f":{st}:{f}"], capture_output=True, text=True)
        return json.loads(r.stdout) if r.returncode == 0 and r.stdout.strip() else {"mutants": []}
    o, t = show(2), show(3)
    key = lambda r: (r["file"], r["start"], r["end"], r["new"])
    m = {key(r): r for r in o.get("mutants", [])}
    m.update({key(r): r for r in t.get("mutants", [])})
    allr = sorted(m.values(), key=lambda r: (r["file"], r["line"], r["start"], r["new"]))
    counts = {}
    for r in allr:
        counts[r["verdict"]] = counts.get(r["verdict"], 0) + 1
    out = dict(t if t.get("property") else o)
    out.update({"counts": counts, "mutants": allr})
    json.dump(out, open(f, "w"), indent=1)
    subprocess.run(["git", "add", f])
    print("resolved", f, counts)
