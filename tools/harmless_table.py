#!/usr/bin/env python3
"""Markdown table of the harmless refactorings (harmless/*/meta.json + harmless/RESULTS.json)."""
import json, os
V = os.path.dirname(os.path.dirname(os.path.abspath(__file__)))
H = os.path.join(V, "harmless")
R = json.load(open(os.path.join(H, "RESULTS.json"))) if os.path.exists(os.path.join(H, "RESULTS.json")) else {}
print("| refactoring | property | kind | what it changes | suite with patch | check (seed 0 / seed 1) | verdict |")
print("|---|---|---|---|---|---|---|")
for d in sorted(os.listdir(H)):
    mp = os.path.join(H, d, "meta.json")
    if not os.path.exists(mp):
        continue
    m = json.load(open(mp))
    r = R.get(d, {})
    runs = r.get("runs", {})
    ex = " / ".join(str(runs.get(s, {}).get("exit", "–")) for s in ("0", "1"))
    suite = {True: "unchanged", False: "see note", None: "–"}[r.get("suite_ok_with_patch")]
    summ = str(m.get("summary", "")).replace("|", "/").replace("\n", " ")
    print(f"| {d} | {m.get('property')} | {m.get('kind')} | {summ[:260]}{'…' if len(summ) > 260 else ''} | {suite} | {ex} | {r.get('verdict', '–')} |")
