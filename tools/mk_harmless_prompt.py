#!/usr/bin/env python3
"""tools/mk_harmless_prompt.py <PID> <TAG>: prompt for a sub-agent that writes behaviour-preserving refactorings."""
import json, os, sys
V = os.path.dirname(os.path.dirname(os.path.abspath(__file__)))
pid, tag = sys.argv[1], sys.argv[2]
prop = next(json.loads(l) for l in open(os.path.join(V, "properties.jsonl")) if json.loads(l)["id"] == pid)
t = open(os.path.join(V, "tools", "harmless_prompt.md")).read()
print(t.replace("{TAG}", tag).replace("{TITLE}", prop["title"]).replace("{STATEMENT}", prop["statement"])
      .replace("{QUANT}", prop["quantifier"]["text"]).replace("{FILES}", ", ".join(prop["anchors"]["files"])).replace("{PID}", pid))
