#!/usr/bin/env python3
"""Resolve the expected conflicts of merging a property branch: generated files are regenerated, known_findings.json
is the union by id (ours first, then the branch's new entries)."""
import json, subprocess, os
os.chdir(os.path.dirname(os.path.dirname(os.path.abspath(__file__))))
def show(stage, path):
    return subprocess.run(["git", "show", f":{stage}:{path}"], capture_output=True, text=True).stdout
st = subprocess.run(["git", "status", "--short"], capture_output=True, text=True).stdout
if "known_findings.json" in [l[3:] for l in st.splitlines() if l.startswith("UU")]:
    ours, theirs = json.loads(show(2, "known_findings.json")), json.loads(show(3, "known_findings.json"))
    ids = {f["id"] for f in ours["findings"]}
    for f in theirs["findings"]:
        if f["id"] not in ids:
            ours["findings"].append(f); print("added finding", f["id"], f["property"], f["status"])
        else:
            o = next(x for x in ours["findings"] if x["id"] == f["id"])
            if o != f: print("CONFLICTING finding id", f["id"], "ours:", o["property"], "theirs:", f["property"], "-> kept ours; theirs:", json.dumps(f)[:300])
    json.dump(ours, open("known_findings.json", "w"), indent=1)
for p in ("MANIFEST.json", "lean/Verif.lean", "lean/Verif/Driver.lean", "seeded/RESULTS.json"):
    subprocess.run(["git", "checkout", "--ours", p], capture_output=True)
for l in st.splitlines():
    if l[:2] in ("UU", "AA") and l[3:].startswith("evidence/"):  # rewritten by the next run anyway
        subprocess.run(["git", "checkout", "--ours", l[3:]], capture_output=True); subprocess.run(["git", "add", l[3:]])
subprocess.run(["python3", "tools/gen_index.py"], capture_output=True); subprocess.run(["python3", "tools/gen_manifest.py"], capture_output=True)
subprocess.run(["git", "add", "known_findings.json", "MANIFEST.json", "lean/Verif.lean", "lean/Verif/Driver.lean", "seeded/RESULTS.json"])
print(subprocess.run(["git", "status", "--short"], capture_output=True, text=True).stdout)
