#!/usr/bin/env python3
"""tools/mk_sg_prompt.py <PID> <round letter> <seeded ids…>: strengthening prompt (seeded misses) + the mechanical gap lists
(anchor lines never executed, surviving mechanical mutants) as secondary work."""
import json, os, subprocess, sys
V = os.path.dirname(os.path.dirname(os.path.abspath(__file__)))
pid, tag, ids = sys.argv[1], sys.argv[2], sys.argv[3:]
t = open(os.path.join(V, "tools", "strengthen_prompt.md")).read()
t = t.replace("S{PID}", tag + pid).replace("{PID}", pid).replace("{pid}", pid.lower())
t = t.replace("{IDS_SPACE}", " ".join(ids)).replace("{IDS}", ", ".join(ids) if ids else "(none missed in this round — do the secondary work below)")
gaps = subprocess.run([os.path.join(V, "tools", "anchor_gaps.py"), pid], capture_output=True, text=True).stdout
items = ""
ap = os.path.join(V, "automut", pid + ".json")
if os.path.exists(ap):
    for m in json.load(open(ap))["mutants"]:
        if m["verdict"].startswith("survived") or m["verdict"] == "infra":
            items += f"  {m['file']}:{m['line']} [{m['kind']}] {m['old']!r} -> {m['new']!r}   | {m['text']}\n"
extra = f"""
SECONDARY WORK (after the seeded changes above are caught; same rules, same gates): two mechanical measurements of this check.
 (A) lines of the anchored functions that no case of the quick tier executes (`./check {pid}` then `tools/anchor_gaps.py {pid}` re-measures):
{gaps}
 (B) one-token mutants of the anchored functions after which `./check {pid} --tier quick` still exits 0 (measured before the last
     deepening round; `tools/automut.py {pid} --max 400 --jobs 3 --seed 1` re-runs them in scratch worktrees, results in automut/{pid}.json):
{items or '  (none recorded)'}
For each item decide from the property text: RELEVANT (on some legitimate input it alters an answer the property speaks about) -> strengthen
generators/observables/oracle in that general direction until the mutant is killed; or EQUIVALENT / OUT OF SCOPE (warning or error text, a
quantity the property does not mention, a comparison whose tie cannot occur, plotting) -> one line why. Record the triage in
automut/{pid}.triage.json: a list of {{"file","line","old","new","verdict": "relevant-now-killed"|"relevant-still-missed"|"equivalent"|"out-of-scope","why"}}.
Also note: the framework now (i) adds the random streams of two further seeds when an anchored file's AST differs from
anchor_fingerprints.json (so runs against patched worktrees are ~3x longer; VERIF_ESCALATE=0 switches that off for experiments — but a
seeded change must be CAUGHT with the default setting, and preferably also with VERIF_ESCALATE=0), and (ii) builds/audits
lean/Verif/PyProps.lean with every check. Build with `(cd lean && lake build Verif.Props.{pid} Verif.PyProps driver)`.
Also run `./tools/run_harmless.py $(ls harmless | grep '^{pid}')`: all must stay green. Add a short paragraph "Strengthening round {tag}" to the
DESIGN.md section "### {pid}". Time: about 90 minutes of wall-clock.
"""
print(t.replace("{EXTRA}", extra))
