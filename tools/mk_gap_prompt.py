#!/usr/bin/env python3
"""tools/mk_gap_prompt.py <PID> <TAG> <minutes>: the prompt for a gap-closing sub-agent (anchor lines never executed + surviving mechanical mutants)."""
import json, os, subprocess, sys
V = os.path.dirname(os.path.dirname(os.path.abspath(__file__)))
pid, tag, minutes = sys.argv[1], sys.argv[2], sys.argv[3]
gaps = subprocess.run([os.path.join(V, "tools", "anchor_gaps.py"), pid], capture_output=True, text=True).stdout
items = "(A) anchor lines never executed by the quick tier (seed 0):\n" + gaps + "\n(B) surviving mechanical mutants:\n"
ap = os.path.join(V, "automut", pid + ".json")
if os.path.exists(ap):
    for m in json.load(open(ap))["mutants"]:
        if m["verdict"].startswith("survived"):
            items += f"  {m['file']}:{m['line']} [{m['kind']}] {m['old']!r} -> {m['new']!r}   | {m['text']}\n"
else:
    items += "  (not measured yet: run tools/automut.py first)\n"
t = open(os.path.join(V, "tools", "gap_prompt.md")).read()
print(t.replace("{TAG}", tag).replace("{PID}", pid).replace("{pid}", pid.lower()).replace("{MINUTES}", minutes).replace("{ITEMS}", items))
