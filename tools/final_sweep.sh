#!/bin/bash
# tools/final_sweep.sh: the end-of-round validation, in parallel: every seeded change (quick tier), every harmless refactoring (2 seeds),
# thorough tier seed 0 and quick tier seeds 1..4 of every check on the unchanged tree.  Logs under /tmp/final/.
cd "$(dirname "$0")/.."
mkdir -p /tmp/final
(cd lean && lake build Verif driver > /tmp/final/build.log 2>&1)
ls seeded | grep '^C' | xargs -P ${SEEDED_JOBS:-6} -n 8 tools/run_seeded.py > /tmp/final/seeded.log 2>&1 &
ls harmless | grep '^C' | xargs -P ${HARMLESS_JOBS:-3} -n 5 tools/run_harmless.py > /tmp/final/harmless.log 2>&1 &
props=$(python3 -c "import json;print(' '.join(c['property_id'] for c in json.load(open('MANIFEST.json'))['checks']))")
echo $props | tr ' ' '\n' | xargs -P ${THOROUGH_JOBS:-3} -I{} bash -c 'out=$(VERIF_SEED=0 ./check {} --tier thorough 2>&1); rc=$?; echo "thorough {} rc=$rc $(echo "$out" | grep -v "^KNOWN" | tail -1 | cut -c1-170)"; [ $rc -ne 0 ] && echo "$out" | grep -E "VIOLATION|INFRA|Traceback|Error" | head -5' > /tmp/final/thorough.log 2>&1 &
wait
for s in 1 2 3 4; do echo $props | tr ' ' '\n' | xargs -P 6 -I{} bash -c 'out=$(VERIF_SEED='$s' ./check {} --tier quick 2>&1); rc=$?; echo "quick seed='$s' {} rc=$rc $(echo "$out" | grep -v "^KNOWN" | tail -1 | cut -c1-170)"; [ $rc -ne 0 ] && echo "$out" | grep -E "VIOLATION|INFRA|Traceback|Error" | head -5'; done > /tmp/final/quick.log 2>&1
echo done > /tmp/final/DONE
