#!/usr/bin/env python3
"""Markdown table of the seeded breaking changes and which check catches them (from seeded/*/meta.json and
seeded/RESULTS.json, written by tools/run_seeded.py)."""
import json, os
V = os.path.dirname(os.path.dirname(os.path.abspath(__file__)))
S = os.path.join(V, "seeded")
res = json.load(open(os.path.join(S, "RESULTS.json"))) if os.path.exists(os.path.join(S, "RESULTS.json")) else {}
print("| seeded change | property | what it changes | needs to manifest | demo clean/patched | suite with patch | quick | thorough | note |")
print("|---|---|---|---|---|---|---|---|---|")
for sid in sorted(d for d in os.listdir(S) if os.path.isdir(os.path.join(S, d))):
    m = json.load(open(os.path.join(S, sid, "meta.json")))
    r = res.get(sid, {})
    def verdict(key):
        c = r.get(key)
        if not c: return "–"
        return ", ".join(f"{p}: {'caught' if v['exit'] == 1 else ('MISSED' if v['exit'] == 0 else 'infra')}" for p, v in c.items())
    demo = f"{r.get('demo_clean_exit', '?')}/{r.get('demo_patched_exit', '?')}"
    suite = {True: "unchanged", False: "BROKEN", None: "?"}[r.get("suite_ok_with_patch")]
    cut = lambda s, n: (s[:n] + "…") if len(s) > n else s
    print(f"| {sid} | {m['property']} | {cut(m.get('summary', '').replace('|', '/').replace(chr(10), ' '), 220)} | {cut(m.get('needs', '').replace('|', '/').replace(chr(10), ' '), 200)} | {demo} | {suite} | {verdict('check_quick')} | {verdict('check_thorough')} | {m.get('strengthening', '')} |")
