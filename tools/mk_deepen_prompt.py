#!/usr/bin/env python3
"""tools/mk_deepen_prompt.py <PID> <TAG> <minutes> [extra text file]: the prompt for a deepening sub-agent."""
import os, sys
V = os.path.dirname(os.path.dirname(os.path.abspath(__file__)))
pid, tag, minutes = sys.argv[1], sys.argv[2], sys.argv[3]
extra = open(sys.argv[4]).read() if len(sys.argv) > 4 else ""
t = open(os.path.join(V, "tools", "deepen_prompt.md")).read()
t = t.replace("{TAG}", tag).replace("{PID}", pid).replace("{pid}", pid.lower()).replace("{MINUTES}", minutes).replace("{EXTRA}", extra)
print(t)
