#!/usr/bin/env python3
"""tools/mk_strengthen_prompt.py <PID> <clone tag> <seeded ids…>: the prompt for a strengthening sub-agent."""
import os, sys
V = os.path.dirname(os.path.dirname(os.path.abspath(__file__)))
pid, tag, ids = sys.argv[1], sys.argv[2], sys.argv[3:]
t = open(os.path.join(V, "tools", "strengthen_prompt.md")).read()
t = t.replace("S{PID}", tag + pid).replace("{PID}", pid).replace("{pid}", pid.lower())
t = t.replace("{IDS_SPACE}", " ".join(ids)).replace("{IDS}", ", ".join(ids)).replace("{EXTRA}", "")
print(t)
