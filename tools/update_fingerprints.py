#!/venv/bin/python
"""tools/update_fingerprints.py: record the AST fingerprint of every anchored pylake file at /repo's current tree
(anchor_fingerprints.json).  Run after every commit to /repo (fix: commits).  A check whose anchored files differ
from the recorded fingerprint explores more seeds (harness/common.py: escalation) — the code changed, so the sampled
tie is re-established more thoroughly; the fingerprint never decides a verdict."""
import json, os, sys
V = os.path.dirname(os.path.dirname(os.path.abspath(__file__)))
sys.path.insert(0, os.path.join(V, "harness"))
import common
out = {}
for line in open(os.path.join(V, "properties.jsonl")):
    p = json.loads(line)
    out[p["id"]] = {f: common.ast_fingerprint(os.path.join("/repo", f)) for f in p["anchors"].get("files", [])}
json.dump({"repo_head": os.popen("git -C /repo rev-parse HEAD").read().strip(), "fingerprints": out}, open(os.path.join(V, "anchor_fingerprints.json"), "w"), indent=1, sort_keys=True)
print("written", sum(len(v) for v in out.values()), "fingerprints")
