#!/bin/bash
# soak: quick tier of every claimed check for several seeds; prints one line per run, non-zero exits flagged
cd "$(dirname "$0")/.."
(cd lean && lake build Verif driver >/dev/null 2>&1)
for s in "$@"; do
  for p in $(python3 -c "import json;print(' '.join(c['property_id'] for c in json.load(open('MANIFEST.json'))['checks']))"); do
    out=$(VERIF_SEED=$s ./check $p --tier ${TIER:-quick} 2>&1); rc=$?
    echo "seed=$s $p rc=$rc $(echo "$out" | grep -v '^KNOWN' | tail -1 | cut -c1-160)"
    if [ $rc -ne 0 ]; then echo "$out" | grep -E "VIOLATION|INFRA|Traceback|Error" | head -5; fi
  done
done
