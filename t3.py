import sys, json, collections
sys.path.insert(0, "/tmp/vw/C19/harness"); sys.path.insert(0, "/repo")
import common, c19
rng = common.Rng(0)
cs = [c for c in c19.cases("quick", rng) if c["family"] not in ("kymo","scan")]
cnt = collections.Counter()
for c in cs:
    c19.impl(c)
    for op, a in zip(c["hist"], c["_hist"]):
        k = a if isinstance(a, str) else ("error:"+a["error"] if isinstance(a, dict) and "error" in a else "value")
        cnt[(c["family"], op[0], op[2], k)] += 1
for k, v in sorted(cnt.items()): print(k, v)
