import Verif.Lemmas.C04
namespace Verif.C04
open Verif.Py

/-- The sequential loop on an ascending list of change points: entry `j` is overwritten by its right
    neighbour exactly when `j - 1` is a change point and the neighbour exists (the `IndexError` that
    ends the loop can only come from the last possible change point, which changes nothing). -/
theorem repairLoop_getElem? : ∀ (cps : List Nat), cps.Pairwise (· < ·) → ∀ (e : List Int) (j : Nat),
    (repairLoop cps e)[j]? =
      if (∃ i ∈ cps, j = i + 1 ∧ i + 2 < e.length) then e[j + 1]? else e[j]? := by
  intro cps
  induction cps with
  | nil => intro _ e j; simp [repairLoop]
  | cons i rest ih =>
    intro hs e j
    obtain ⟨hi, hrest⟩ := List.pairwise_cons.mp hs
    unfold repairLoop
    cases hv : e[i + 2]? with
    | none =>
      have hlen : e.length ≤ i + 2 := List.getElem?_eq_none_iff.mp hv
      simp only
      rw [if_neg]
      rintro ⟨i', hi', _, h2⟩
      rcases List.mem_cons.mp hi' with rfl | hm
      · omega
      · have := hi i' hm; omega
    | some v =>
      have hlen : i + 2 < e.length := by
        by_cases h : i + 2 < e.length
        · exact h
        · rw [List.getElem?_eq_none_iff.mpr (by omega)] at hv; cases hv
      simp only
      rw [ih hrest, List.length_set]
      by_cases hj : j = i + 1
      · subst hj
        rw [if_neg, if_pos ⟨i, List.mem_cons_self, rfl, hlen⟩]
        · rw [List.getElem?_set_self (by omega), hv]
        · rintro ⟨i', hi', h1, _⟩
          have := hi i' hi'; omega
      · by_cases hc : ∃ i' ∈ rest, j = i' + 1 ∧ i' + 2 < e.length
        · rw [if_pos hc]
          obtain ⟨i', hi', h1, h2⟩ := hc
          rw [if_pos ⟨i', List.mem_cons_of_mem _ hi', h1, h2⟩]
          have := hi i' hi'
          rw [List.getElem?_set_ne (by omega)]
        · rw [if_neg hc, if_neg]
          · rw [List.getElem?_set_ne (by omega)]
          · rintro ⟨i', hi', h1, h2⟩
            rcases List.mem_cons.mp hi' with rfl | hm
            · exact hj h1
            · exact hc ⟨i', hm, h1, h2⟩

theorem changePoints_sorted (d : List Int) : (changePoints d).Pairwise (· < ·) := by
  unfold changePoints
  exact List.Pairwise.filter _ List.pairwise_lt_range

theorem mem_changePoints (d : List Int) (i : Nat) :
    i ∈ changePoints d ↔ i < d.length - 1 ∧ d.getD i 0 < d.getD (i + 1) 0 := by
  unfold changePoints
  simp [List.mem_filter, List.mem_range]

/-- Closed form of the change-point repair of `downsampled_like`: a period that is longer than its
    predecessor is replaced by its successor when there is one; everything else is unchanged. -/
theorem repair_getElem? (d : List Int) (j : Nat) :
    (repair d)[j]? =
      if 1 ≤ j ∧ j + 1 < d.length ∧ d.getD (j - 1) 0 < d.getD j 0 then d[j + 1]? else d[j]? := by
  unfold repair
  rw [repairLoop_getElem? _ (changePoints_sorted d)]
  by_cases h : 1 ≤ j ∧ j + 1 < d.length ∧ d.getD (j - 1) 0 < d.getD j 0
  · rw [if_pos h, if_pos]
    obtain ⟨h1, h2, h3⟩ := h
    refine ⟨j - 1, (mem_changePoints d _).mpr ⟨by omega, ?_⟩, by omega, by omega⟩
    have : j - 1 + 1 = j := by omega
    rw [this]; exact h3
  · rw [if_neg h, if_neg]
    rintro ⟨i, hi, rfl, h2⟩
    apply h
    obtain ⟨_, h3⟩ := (mem_changePoints d i).mp hi
    exact ⟨by omega, by omega, by simpa using h3⟩
end Verif.C04
