import sys, numpy as np
sys.path.insert(0,'/tmp/vw/C10/harness'); sys.path.insert(0,'/repo')
from common import *
from lumicks.pylake.force_calibration.power_spectrum import PowerSpectrum
x = np.array([1.0,2.0,0.5,-1.0,3.0,2.5,1.0,0.0,0.25])
ps = PowerSpectrum(x, 10.0)
ps2 = PowerSpectrum(x, 10.0, window_seconds=0.4)
lines = [f"c10.psd 1 {enc_float(10.0)} N {enc_list(x, enc_float)}", f"c10.psd 1 {enc_float(10.0)} {enc_float(0.4)} {enc_list(x, enc_float)}",
 "c10.block 2 1 [1/1,2/1,3/1,4/1,5/1] [1/2,1/2,1/4,1/4,7/1]",
 "c10.peaks 1 1/1 5/1 [0/1,2/1,6/1,2/1,0/1,7/1,0/1,1/1] [0/1,1/1,2/1,3/1,4/1,5/1,6/1,7/1]",
 "c10.inrange 1/1 3/1 0/1 9/1 [0/1,1/1,2/1,3/1,4/1] [5/1,6/1,7/1,8/1,9/1]",
 "c10.exclude [1/1:3/1,2/1:2/1] [0/1,1/1,2/1,3/1,4/1] [5/1,6/1,7/1,8/1,9/1]",
 ]
for l,a in zip(lines, run_driver(lines)):
    print(l[:60]); print(' ', a[:300])
    if l.startswith('c10.psd'):
        t = a.split(' ')
        print([dec_float(v) for v in dec_list(t[2], str)], [dec_float(v) for v in dec_list(t[3], str)])
print(ps.frequency, ps.power, ps.total_sampled_used, ps.num_points_per_block)
print(ps2.frequency, ps2.power, ps2.total_sampled_used, ps2.num_points_per_block)
