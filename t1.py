import sys, time
sys.path.insert(0, "/tmp/vw/C19/harness"); sys.path.insert(0, "/repo")
import common, c19
rng = common.Rng(0)
t=time.time()
FAMS = sys.argv[1].split(",")
cs = [c for c in c19.cases(sys.argv[2] if len(sys.argv)>2 else "quick", rng) if c["family"] in FAMS]
print(len(cs), time.time()-t)
t=time.time()
res, ti, tm = common.evaluate(c19, cs)
print("eval", time.time()-t, ti, tm)
nb=0
for r in res:
    if r["disagree"] or r["clause"]:
        tg = c19.tags(r["case"], r)
        if FAMS[0] in ("kymo",) and all(tg.get(k) is True for k in ("confocal","photon_timeline_starts_after_nominal_start","every_order_dependent_step_is_an_F5_query","twin_asked_before_first_photon_access","model_predicts_every_answer","no_aliasing")): 
            known = globals().get("known",0)+1; globals()["known"]=known; continue
        nb+=1
        if nb<=8:
            print("----", r["case"]["family"], r["case"].get("mode"), r["case"]["hist"])
            print("  obj", str(r["case"]["obj"])[:300])
            print("  clause", r["clause"])
            print("  bad", r["case"].get("_bad"))
            print("  tags", c19.tags(r["case"], r))
print("bad", nb, "known", globals().get("known",0), "of", len(res))
