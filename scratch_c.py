import sys, warnings, time
sys.path.insert(0, "/tmp/vw/C17/harness"); sys.path.insert(0, "/repo")
import numpy as np
import builders_tracks as B
import lumicks.pylake as lk
warnings.simplefilter("ignore")
rng = np.random.default_rng(1)
worst_c = 0; worst_g = 0; worst_cn=0
t0=time.time()
for trial in range(30):
    npix, nl = 40, 12
    t = list(range(2, 10))
    c = list(np.clip(15 + np.cumsum(rng.uniform(-0.8, 0.8, len(t))), 8, 30))
    sig = rng.uniform(1.0, 1.6)
    x = np.arange(npix, dtype=float)
    img = np.zeros((npix, nl))
    for tt, cc in zip(t, c):
        img[:, tt] += 500 * np.exp(-0.5 * ((x - cc) / sig) ** 2) / (sig * np.sqrt(2 * np.pi))
    from lumicks.pylake.kymo import _kymo_from_array
    k = _kymo_from_array(img, "r", 0.125, pixel_size_um=0.1)
    # start from rounded coordinates with gaps
    keep = [0, 1, 3, 4, 7]
    g = B.make_group(k, [{"t": [t[i] for i in keep], "c": [float(round(c[i])) for i in keep]}])
    r = lk.refine_tracks_centroid(g, track_width=0.1 * (2*int(np.ceil(4*sig))+1), bias_correction=True)
    err = np.abs(r[0].coordinate_idx - np.array(c)); worst_c = max(worst_c, err.max())
    r = lk.refine_tracks_centroid(g, track_width=0.1 * (2*int(np.ceil(4*sig))+1), bias_correction=False)
    err = np.abs(r[0].coordinate_idx - np.array(c)); worst_cn = max(worst_cn, err.max())
    r2 = lk.refine_tracks_gaussian(g, window=int(np.ceil(4*sig)), refine_missing_frames=True, overlap_strategy="ignore")
    err = np.abs(r2[0].coordinate_idx - np.array(c)); worst_g = max(worst_g, err.max())
print("centroid bias-corrected worst", worst_c, "uncorrected", worst_cn, "gauss", worst_g, time.time()-t0)
