# generate the coefficient-chain lemmas
models = {
 "OF": dict(x="d", params=["Lp","Lc","St","kT"], extra=[],
   table={("a","Lc"):"da_dLc",("a","St"):"da_dSt",("b","Lc"):"db_dLc",("b","St"):"db_dSt",("c","Lp"):"dc_dLp",("c","St"):"dc_dSt",("c","kT"):"dc_dkT",("a","d"):"da_dd",("b","d"):"db_dd"}),
 "WD": dict(x="f", params=["Lp","Lc","kT"], extra=[],
   table={(k,v):f"d{k}_d{v}" for k in "abc" for v in ["Lp","Lc","kT","f"]}),
 "EF": dict(x="d", params=["Lp","Lc","St","kT"], extra=["EF.denom1","EF.denom2","EF.quad"],
   table={(k,v):f"d{k}_d{v}" for k in "abc" for v in ["Lp","Lc","St","kT","d"]}),
 "ED": dict(x="f", params=["Lp","Lc","St","kT"], extra=["ED.cpoly","ED.bpoly"],
   table={(k,v):f"d{k}_d{v}" for k in "abc" for v in ["Lp","Lc","St","kT","f"]}),
}
out = ["", "/-! ### coefficient chains: the tables `da_dLc, …` are the partial derivatives of the coefficient maps",
       "    (generated uniformly; every proof is `differentiate structurally, then field_simp; ring`) -/", ""]
names = {}
for ns, m in models.items():
    x, ps = m["x"], m["params"]
    args = " ".join([x] + ps)
    hyps = " ".join(f"(h{p} : 0 < {p})" for p in ps)
    extra = ", ".join(m["extra"])
    extra = (", " + extra) if extra else ""
    names[ns] = []
    for k in "abc":
        for v in ps + [x]:
            t = m["table"].get((k, v))
            nm = f"{ns}.{k}_{v}"
            names[ns].append((k, v, t))
            if t is None:
                out.append(f"theorem {nm} ({args} : ℝ) :\n    HasDerivAt (fun {v} => {ns}.{k} {args}) 0 {v} := by\n  simp only [{ns}.{k}]\n  exact hasDerivAt_const _ _\n")
            else:
                out.append(f"theorem {nm} ({args} : ℝ) {hyps} :\n    HasDerivAt (fun {v} => {ns}.{k} {args}) ({ns}.{t} {args}) {v} := by\n  apply HasDerivAt.congr_deriv\n  · simp only [{ns}.{k}, RealLike.sq, RealLike.cube{extra}]\n    deriv_auto\n    all_goals side_goal\n  · simp only [{ns}.{t}, RealLike.sq, RealLike.cube{extra}]\n    rat_close\n")
open("/tmp/vw/C13/lean/scratch/gen.lean","w").write("\n".join(out))
import json; json.dump(names, open("/tmp/vw/C13/scratch_names.json","w"))
