import sys
sys.path.insert(0, "/tmp/vw/C19/harness"); sys.path.insert(0, "/repo")
import numpy as np, c19, builders_confocal as bc
obj = {'kind': 'scan', 'iw': [0, 2, 2, 2, 0, 2, 2, 2, 0, 2, 2, 2, 0, 0, 0, 0, 0], 'P': 3, 'L': 3, 'fast': 0, 'slow': 1, 'dt': 12800, 'start': 1600000000000000000, 'stop': 1600000000000217600, 'scan_count': 0, 'chans': {c: [0, list(range(8))] for c in bc.COLORS}}
with bc.quiet():
    o = c19.cf_make(obj)
    print(o._timestamps(reduce=np.min))
    print(o.frame_timestamp_ranges())
    o2 = c19.cf_make(obj, 1600000000000000000, 1600000000000102400)
    print(o2._timestamps(reduce=np.min))
    print(o2.frame_timestamp_ranges())
