import subprocess, sys, os, re
WT="/tmp/wt_C19"
def sh(c): return subprocess.run(c, shell=True, capture_output=True, text=True)
def patch(path, old, new, count=1):
    p=os.path.join(WT,path); s=open(p).read(); assert old in s, (path, old); open(p,"w").write(s.replace(old,new,count))
MUT = {
 "M1-image-writable": lambda: patch("lumicks/pylake/detail/confocal.py", "        image.flags.writeable = False\n", ""),
 "M2-copy-shares-cache": lambda: patch("lumicks/pylake/detail/confocal.py", "        instance._pixelcount_factory = self._pixelcount_factory\n        return instance", "        instance._pixelcount_factory = self._pixelcount_factory\n        instance._cache = self._cache\n        return instance"),
 "M3-no-cache-wipe": lambda: patch("lumicks/pylake/kymo.py", "        self._cache = {}\n        warnings.warn(\n            \"Start of the kymograph was truncated", "        warnings.warn(\n            \"Start of the kymograph was truncated"),
 "M4-cache-key-ignores-args": lambda: patch("lumicks/pylake/detail/utilities.py", "        def key(_, *args, **kwargs):\n            return cachetools.keys.hashkey(name, *args, **kwargs)", "        def key(_, *args, **kwargs):\n            return cachetools.keys.hashkey(name)"),
 "M5-copy-carries-cache-entries": lambda: patch("lumicks/pylake/detail/confocal.py", "        instance._pixelcount_factory = self._pixelcount_factory\n        return instance", "        instance._pixelcount_factory = self._pixelcount_factory\n        instance._cache = dict(self._cache)\n        return instance"),
 "M6-fd-copy-keeps-cache": lambda: patch("lumicks/pylake/fdcurve.py", "        new_copy._force_cache = None\n        new_copy._distance_cache = None\n        return new_copy", "        return new_copy"),
 "M7-shared-pixelsize-list": lambda: patch("lumicks/pylake/detail/confocal.py", "    return [axes.pixel_size_um for axes in self._metadata.ordered_axes]", "    if not hasattr(self, '_px_list'):\n        self._px_list = [axes.pixel_size_um for axes in self._metadata.ordered_axes]\n    return self._px_list"),
 "M8-timestamps-writable": lambda: patch("lumicks/pylake/detail/confocal.py", "        timestamps.flags.writeable = False\n", ""),
 "M9-num_frames-recount": lambda: patch("lumicks/pylake/scan.py", "        return self._metadata.num_frames\n\n    def _tiff_image_metadata", "        n = self._metadata.num_frames\n        self._metadata = self._metadata.with_num_frames(n + 1 if self._has_default_factories() else n)\n        return n\n\n    def _tiff_image_metadata"),
 "M10-slice-start-repair-eager-line-time": lambda: patch("lumicks/pylake/kymo.py", "    @property\n    @method_cache(\"line_time_seconds\")\n    def line_time_seconds(self):", "    @property\n    def line_time_seconds(self):\n        if not hasattr(self, '_lt'):\n            self._lt = self._line_time_factory(self)\n        return self._lt\n\n    @property\n    @method_cache(\"line_time_seconds_unused\")\n    def _line_time_seconds_unused(self):"),
 "M11-stack-crop-mutates-source-roi": lambda: patch("lumicks/pylake/detail/widefield.py", "        roi = self._roi.crop(roi)\n        tether = self._tether.with_new_offsets(roi.origin)\n", "        roi = self._roi.crop(roi)\n        tether = self._tether.with_new_offsets(roi.origin)\n        self._roi = roi\n"),
 "M12-trackgroup-copy-shares-list": lambda: patch("lumicks/pylake/kymotracker/kymotrack.py", "        return KymoTrackGroup(copy(self._src))", "        g = KymoTrackGroup(self._src[:1]); g._src = self._src; return g"),
 "M13-continuous-slice-mutates-cache": lambda: patch("lumicks/pylake/channel.py", "        if self._cached_data is None:\n            self._cached_data = np.asarray(self._src_data)\n        return self._cached_data", "        if self._cached_data is None:\n            self._cached_data = np.asarray(self._src_data)\n            self._src_data = self._cached_data[: max(1, len(self._cached_data) - 1)]\n        return self._cached_data"),
}
which = sys.argv[1:] or list(MUT)
for name in which:
    sh(f"git -C {WT} checkout -q -- . ")
    try:
        MUT[name]()
    except AssertionError as e:
        print(name, "PATCH FAILED", e); continue
    r = sh(f"cd /tmp/vw/C19 && VERIF_REPO={WT} ./check C19 --tier quick")
    lines = [l for l in r.stdout.splitlines() if l.startswith("VIOLATION") or l.startswith("C19 tier") or l.startswith("INFRA")]
    print(name, "exit", r.returncode, "|", " || ".join(l[:150] for l in lines[:3]))
sh(f"git -C {WT} checkout -q -- . ")
