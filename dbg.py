import sys, os, json, time, collections
sys.path.insert(0, "harness")
import common
sys.path.insert(0, common.REPO)
import c20
tier = sys.argv[1] if len(sys.argv) > 1 else "quick"
seed = int(sys.argv[2]) if len(sys.argv) > 2 else 0
t=time.time()
cases = list(c20.cases(tier, common.Rng(seed)))
print(len(cases), "cases", time.time()-t)
res, ti, tm = common.evaluate(c20, cases)
print("impl", ti, "model", tm)
bad = collections.Counter(); shown = collections.Counter()
for r in res:
    if r["disagree"] or r["clause"]:
        key = (r["case"]["op"], "dis" if r["disagree"] else "", (r["clause"] or "").split(":")[0])
        bad[key]+=1
        if shown[key] < 2:
            shown[key]+=1
            print(json.dumps(r["case"])); print("  impl ", [c20.dec(a) for a in r["impl"]]); print("  model", [c20.dec(a) if a!="outside-model" else a for a in r["model"]]); print("  dis", r["disagree"], "clause", r["clause"])
print(bad)
