import sys
sys.path.insert(0, "/repo"); sys.path.insert(0, "/tmp/vw/C19/harness")
import numpy as np, warnings
import builders_confocal as bc
import cachetools; print("cachetools", cachetools.__version__)
import inspect, lumicks.pylake.low_level as ll
print(inspect.getsource(ll.create_confocal_object))
iw = bc.infowave(3, 4, 2, lead_in=1, dead=2)
print(iw)
cnt = list(range(1, len(iw)+1))
def mk(late):
    return bc.make_kymo(iw, 3, {"red": cnt[late:]}, lead={"red": -late})
with bc.quiet():
    for late in (0, 1, 3, 10, 20):
        k = mk(late)
        a = k.line_time_seconds, k.pixel_time_seconds, k.start
        img = k.get_image("red")
        b = k.line_time_seconds, k.pixel_time_seconds, k.start
        print(late, a, b, img.tolist(), k._cache.keys())
        img2 = k.get_image("red")
        print("   again", k.start, img2.tolist(), list(k._cache.keys()))
