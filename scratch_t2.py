import sys, warnings
sys.path.insert(0, "/tmp/vw/C07/harness"); sys.path.insert(0, "/repo")
import numpy as np
import builders_tiff as bt
warnings.simplefilter("ignore")
with bt.TiffStacks() as ts:
    spec = bt.make_spec(files=(3,), h=6, w=10)
    st, full, table = ts.get(spec)
    tt = st.define_tether((1, 2), (8, 2))
    print("ends", tt._src._tether.ends)
    k = tt.to_kymo(half_window=0)
    print(k.get_image("red").T[0], full[0, 2, 1:9])
    cr = tt.crop_by_pixels(3, 10, None, None)
    print("ends after crop", cr._src._tether.ends, cr.shape)
    try:
        k = cr.to_kymo(half_window=0)
        print("kymo after crop", k.get_image("red").T[0], "expected (clipped)", full[0, 2, 3:9])
    except Exception as e:
        print("ERR", type(e).__name__, e)
    cr = tt.crop_by_pixels(0, 5, None, None)
    print("ends after crop", cr._src._tether.ends, cr.shape)
    try:
        k = cr.to_kymo(half_window=0)
        print("kymo after crop", k.get_image("red").T[0], "expected (clipped)", full[0, 2, 1:5])
    except Exception as e:
        print("ERR", type(e).__name__, e)
    # single-frame
    try:
        tt[0].to_kymo(half_window=0)
    except Exception as e:
        print("single frame ERR", type(e).__name__, e)
    # tether right-to-left
    t2 = st.define_tether((8, 2), (1, 2))
    print("rtl ends", t2._src._tether.ends)
    try:
        k = t2.to_kymo(half_window=0); print(k.get_image("red").T[0])
    except Exception as e:
        print("rtl ERR", type(e).__name__, e)
    # re-define tether on already tethered (rotated) stack
    t3 = st.define_tether((1, 1), (8, 3))
    print("t3 ends", t3._src._tether.ends)
    t4 = t3.define_tether(*t3._src._tether.ends)
    print("t4 ends", t4._src._tether.ends)
    t5 = t3.crop_by_pixels(2, 9, 1, 5)
    print("t5 ends", t5._src._tether.ends, t5.shape, t5.get_image().shape)
    print(t5._get_frame(0).raw_data.shape)
    # tuple with ints
    print(st[0, 1, 2].get_image().shape, st[:, -2].get_image().shape)
    for it in [(slice(None), -1), (slice(None), slice(None), -1)]:
        try:
            print(st[it].get_image().shape)
        except Exception as e:
            print("ERR", type(e).__name__, e)
