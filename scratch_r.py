import sys, warnings, io, tempfile, os, time
sys.path.insert(0, "/tmp/vw/C17/harness"); sys.path.insert(0, "/repo")
import numpy as np
import builders_tracks as B
from lumicks.pylake.kymotracker.kymotrack import import_kymotrackgroup_from_csv
warnings.simplefilter("ignore")
img = (np.arange(7*12).reshape(7,12) % 5)
k = B.make_kymo(img, route="array", calibration="um", pixel_size_um=0.07)
H="# Exported with pylake v1.5.3 | track coordinates v4\n"
def tryfile(txt, d=";"):
    p = tempfile.mktemp(suffix=".csv"); open(p,"w").write(txt)
    try:
        g = import_kymotrackgroup_from_csv(p, k, "red", d)
        return B.group_state(g)
    except Exception as e:
        return type(e).__name__, str(e)[:80], [c.__name__ for c in type(e).__mro__]
cols="# track index;time (pixels);coordinate (pixels);time (seconds);position (um);minimum observable duration (seconds)\n"
print(tryfile(H+cols+"3;0;1.5;0;0;0.5\n1;5;2.5;0;0;0.25\n3;1;1.25;0;0;0.5\n"))
print(tryfile(H+cols+"3;0;1.5;0;0;0.5\n3;1;1.25;0;0;0.75\n"))
print(tryfile(H+cols))
print(tryfile(H+cols+"3;0;abc;0;0;0.5\n"))
print(tryfile(H+cols+"3;0;1.5;0;0\n"))
print(tryfile(H+"# track index;time (seconds);position (um)\n0;1;2\n"))
print(tryfile(H+cols+"0;0.5;1.5;0;0;0.5\n"))
print(tryfile(H+cols+"1.5;0;1.5;0;0;0.5\n0;2;1.5;0;0;0.5\n"))
print(tryfile(H+cols+"-1;0;1.5;0;0;0.5\n0;2;1.5;0;0;0.5\n"))
# timing
g = B.make_group(k, [{"t":[0,1,2,5],"c":[2.3,2.5,3.0,3.1],"min_duration":0.0}]*1)
t0=time.time()
for i in range(100):
    k2 = B.make_kymo(img, route="lowlevel", calibration="um", pixel_size_um=0.07)
    g = B.make_group(k2, [{"t":[0,1,2,5],"c":[2.3,2.5,3.0,3.1],"min_duration":0.0},{"t":[3],"c":[1.0],"min_duration":0.0}])
    p = tempfile.mktemp(suffix=".csv")
    g.save(p, sampling_width=1, correct_origin=True)
    g2 = import_kymotrackgroup_from_csv(p, k2, "red")
    os.unlink(p)
print("lowlevel rt ms", (time.time()-t0)*10)
t0=time.time()
for i in range(100):
    k2 = B.make_kymo(img, route="array", calibration="um", pixel_size_um=0.07)
    g = B.make_group(k2, [{"t":[0,1,2,5],"c":[2.3,2.5,3.0,3.1],"min_duration":0.0},{"t":[3],"c":[1.0],"min_duration":0.0}])
    p = tempfile.mktemp(suffix=".csv")
    g.save(p, sampling_width=1, correct_origin=True)
    g2 = import_kymotrackgroup_from_csv(p, k2, "red")
    os.unlink(p)
print("array rt ms", (time.time()-t0)*10)
t0=time.time()
for i in range(100):
    s=io.StringIO()
    g.save(s, sampling_width=1, correct_origin=True)
    s.seek(0)
    g2 = import_kymotrackgroup_from_csv(s, k2, "red")
print("stringio rt ms", (time.time()-t0)*10)
