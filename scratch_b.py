import sys, warnings, io, tempfile, os
sys.path.insert(0, "/tmp/vw/C17/harness"); sys.path.insert(0, "/repo")
import numpy as np
import builders_tracks as B
img = (np.arange(7*12).reshape(7,12) % 5)
for cal, route in (("um","lowlevel"),("kbp","lowlevel"),("pixel","array"),("um","array"),("kbp","array")):
    k = B.make_kymo(img, route=route, calibration=cal, pixel_size_um=0.07)
    print(cal, route, B.kymo_info(k), np.array_equal(k.get_image("red"), img))
    g = B.make_group(k, [{"t":[3],"c":[2.3],"min_duration":0.0}])
    p = tempfile.mktemp(suffix=".csv")
    with warnings.catch_warnings():
        warnings.simplefilter("ignore")
        g.save(p, sampling_width=1, correct_origin=True)
    print(open(p).read())
    from lumicks.pylake.kymotracker.kymotrack import import_kymotrackgroup_from_csv
    g2 = import_kymotrackgroup_from_csv(p, k, "red")
    print(B.group_state(g2), B.group_state(g))
