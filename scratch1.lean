#check @Rat.ceil
#check @Rat.floor
#eval (7/2 : Rat).ceil
#eval (-7/2 : Rat).floor
#eval Int.tdiv (-7) 2
#check @List.zipIdx
#check @List.range'
#eval ((3:Rat)/4).num
#check @Except
#check @List.mapM
#eval (List.range' 3 4)
#check @List.min?
#check @Rat.divInt
instance : Inhabited Rat := ⟨0⟩
#eval toString ((3:Rat)/4)
