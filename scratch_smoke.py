import sys, os
sys.path.insert(0, "/tmp/vw/C13/harness"); sys.path.insert(0, os.environ.get("VERIF_REPO", "/repo"))
import numpy as np, common
from common import enc_float, dec_float, enc_list, dec_list
from lumicks.pylake.fitting.detail import model_implementation as mi
K = {"odijk_d": (mi.ewlc_odijk_distance, mi.ewlc_odijk_distance_jac, mi.ewlc_odijk_distance_derivative, [40., 16., 1500., 4.11], 10.0),
 "odijk_f": (mi.ewlc_odijk_force, mi.ewlc_odijk_force_jac, mi.ewlc_odijk_force_derivative, [40., 16., 1500., 4.11], 15.0),
 "ms_f": (mi.wlc_marko_siggia_force, mi.wlc_marko_siggia_force_jac, mi.wlc_marko_siggia_force_derivative, [40., 16., 4.11], 12.0),
 "ms_d": (mi.wlc_marko_siggia_distance, mi.wlc_marko_siggia_distance_jac, mi.wlc_marko_siggia_distance_derivative, [40., 16., 4.11], 5.0),
 "ems_f": (mi.ewlc_marko_siggia_force, mi.ewlc_marko_siggia_force_jac, mi.ewlc_marko_siggia_force_derivative, [40., 16., 1500., 4.11], 15.0),
 "ems_d": (mi.ewlc_marko_siggia_distance, mi.ewlc_marko_siggia_distance_jac, mi.ewlc_marko_siggia_distance_derivative, [40., 16., 1500., 4.11], 5.0),
 "efjc_d": (mi.efjc_distance, mi.efjc_distance_jac, mi.efjc_distance_derivative, [0.7, 16., 750., 4.11], 5.0),
 "twlc_d": (mi.twlc_distance, mi.twlc_distance_jac, mi.twlc_distance_derivative, [40., 16., 1500., 440., -637., 17., 30.6, 4.11], 40.0),
}
for k, (f, j, d, p, x) in K.items():
    for xx in (x, x*0.3):
        xa = np.array([xx])
        ops = [f"c13.val {k} {enc_float(xx)} {enc_list(p, enc_float)}", f"c13.jac {k} {enc_float(xx)} {enc_list(p, enc_float)}", f"c13.der {k} {enc_float(xx)} {enc_list(p, enc_float)}"]
        a = common.run_driver(ops)
        v = dec_float(a[0]); jj = dec_list(a[1].split()[1], dec_float); dd = dec_float(a[2].split()[1])
        iv = float(f(xa, *p)[0]); ij = [float(np.asarray(r).ravel()[0]) for r in j(xa, *p)]; idv = float(np.asarray(d(xa, *p)).ravel()[0])
        def rel(a,b): return abs(a-b)/max(abs(a),abs(b),1e-300)
        print(k, xx, a[1].split()[0], "val", rel(v,iv), "jac", max(rel(a_,b_) for a_,b_ in zip(jj,ij)), "der", rel(dd,idv))
