import sys, numpy as np
sys.path.insert(0, "/tmp/vw/C15/harness"); sys.path.insert(0, "/repo")
import common
from common import enc_float, dec_float
from lumicks.pylake.population import dwelltime as dw
fl = lambda xs: "[" + ",".join(enc_float(x) for x in xs) + "]"
amps = np.array([0.3, 0.7]); taus = np.array([0.5, 4.0])
t = np.array([1.0, 2.5, 0.75, 6.0]); tmin = np.array([0.5,0.5,0.25,0.5]); tmax=np.array([10.0,10.0,8.0,np.inf]); step=np.array([0.25,0.25,0.25,0.5])
params = np.hstack([amps,taus])
ops=[]; exp=[]
for st in (None, step):
    s = "N" if st is None else fl(st)
    ops.append(f"c15.nll {fl(amps)} {fl(taus)} {fl(t)} {fl(tmin)} {fl(tmax)} {s}")
    exp.append(dw._exponential_mixture_log_likelihood(params, t, tmin, tmax, st))
    ops.append(f"c15.jac {fl(amps)} {fl(taus)} {fl(t)} {fl(tmin)} {fl(tmax)} {s}")
    exp.append(dw._exponential_mixture_log_likelihood_jacobian(params, t, tmin, tmax, st))
    ops.append(f"c15.comps {fl(amps)} {fl(taus)} {fl(t)} {fl(tmin)} {fl(tmax)} {s}")
    exp.append(dw._exponential_mixture_log_likelihood_components(amps, taus, t, tmin, tmax, st))
ops.append(f"c15.pmfsum {fl(amps)} {fl(taus)} {enc_float(0.5)} {enc_float(0.5+40*0.25)} {enc_float(0.25)} 40")
exp.append(1.0)
ans = common.run_driver(ops)
for o,a,e in zip(ops,ans,exp):
    print(o.split()[0], a[:80]); 
    if a.startswith("b"): print(dec_float(a), e)
    elif ";" in a: print([[dec_float(x) for x in r.split(",")] for r in a[1:-1].split(";")], e)
    else: print([dec_float(x) for x in a[1:-1].split(",")], e)
