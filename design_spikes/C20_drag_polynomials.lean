import Mathlib.Tactic
import Mathlib.Analysis.SpecialFunctions.Pow.Real

/-- denominator of `faxen_factor`, x = R / h -/
noncomputable def faxenDen (x : ℝ) : ℝ := 1 - 9/16*x + 1/8*x^3 - 45/256*x^4 - 1/16*x^5
noncomputable def brennerDen (x : ℝ) : ℝ :=
  1 - 9/8*x + 1/2*x^3 - 57/100*x^4 + 1/5*x^5 + 7/200*x^11 - 1/25*x^12

theorem faxenDen_lt_one (x : ℝ) (h0 : 0 < x) (h1 : x ≤ 1) : faxenDen x < 1 := by
  unfold faxenDen
  have h3 : x^3 ≤ x := by nlinarith [sq_nonneg x, mul_pos h0 h0]
  have h4 : 0 ≤ x^4 := by positivity
  have h5 : 0 ≤ x^5 := by positivity
  nlinarith

theorem faxenDen_pos (x : ℝ) (h0 : 0 ≤ x) (h1 : x ≤ 1) : 0 < faxenDen x := by
  unfold faxenDen
  have hx2 : x^2 ≤ 1 := by nlinarith
  have h3 : 0 ≤ x^3 := by positivity
  have h4 : x^4 ≤ x := by nlinarith [sq_nonneg x, sq_nonneg (x^2), mul_nonneg h0 h0]
  have h5 : x^5 ≤ x := by nlinarith [sq_nonneg x, sq_nonneg (x^2), mul_nonneg h0 h0, mul_nonneg h0 h3]
  nlinarith

theorem faxenDen_strictAnti (x y : ℝ) (hx : 0 ≤ x) (hxy : x < y) (hy : y ≤ 1) : faxenDen y < faxenDen x := by
  unfold faxenDen
  have hd : 0 < y - x := by linarith
  -- y^n - x^n = (y - x) * (sum); bound the positive cubic term by 3/8 * (y - x)
  have hx1 : x ≤ 1 := by linarith
  have hy0 : 0 ≤ y := by linarith
  have h3 : y^3 - x^3 ≤ 3 * (y - x) := by
    have e : y^3 - x^3 = (y - x) * (y^2 + y*x + x^2) := by ring
    have hb : y^2 + y*x + x^2 ≤ 3 := by nlinarith [mul_nonneg hx hy0]
    rw [e]; nlinarith
  have h4 : 0 ≤ y^4 - x^4 := by
    have e : y^4 - x^4 = (y - x) * (y^3 + y^2*x + y*x^2 + x^3) := by ring
    have : 0 ≤ y^3 + y^2*x + y*x^2 + x^3 := by positivity
    rw [e]; exact mul_nonneg hd.le this
  have h5 : 0 ≤ y^5 - x^5 := by
    have e : y^5 - x^5 = (y - x) * (y^4 + y^3*x + y^2*x^2 + y*x^3 + x^4) := by ring
    have : 0 ≤ y^4 + y^3*x + y^2*x^2 + y*x^3 + x^4 := by positivity
    rw [e]; exact mul_nonneg hd.le this
  nlinarith

theorem brennerDen_factor (x : ℝ) : brennerDen x =
    (1 - x) * (x^11/25 + x^10/200 + x^9/200 + x^8/200 + x^7/200 + x^6/200 + x^5/200
      - 39*x^4/200 + 3*x^3/8 - x^2/8 - x/8 + 1) := by
  unfold brennerDen; ring

theorem brennerDen_pos (x : ℝ) (h0 : 0 ≤ x) (h1 : x < 1) : 0 < brennerDen x := by
  rw [brennerDen_factor]
  apply mul_pos (by linarith)
  have hx2 : x^2 ≤ x := by nlinarith
  have hx4 : x^4 ≤ x^2 := by nlinarith [sq_nonneg x, mul_nonneg h0 h0]
  have : 0 ≤ x^11/25 + x^10/200 + x^9/200 + x^8/200 + x^7/200 + x^6/200 + x^5/200 + 3*x^3/8 := by positivity
  nlinarith

/-- viscosity of water: sum of a_i * x^{b_i} with a_i > 0 > b_i is strictly decreasing -/
theorem rpow_term_strictAnti (a b x y : ℝ) (ha : 0 < a) (hb : b < 0) (hx : 0 < x) (hxy : x < y) :
    a * y ^ b < a * x ^ b := by
  have := Real.rpow_lt_rpow_of_neg hx hxy hb
  nlinarith
#print axioms faxenDen_strictAnti
#print axioms brennerDen_pos
