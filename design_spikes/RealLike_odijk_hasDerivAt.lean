import Pl.Basic
import Mathlib.Analysis.SpecialFunctions.Sqrt
import Mathlib.Analysis.SpecialFunctions.Log.Deriv
import Mathlib.Analysis.SpecialFunctions.Pow.Real

noncomputable instance : RealLike ℝ where
  sqrt := Real.sqrt
  exp := Real.exp
  log := Real.log

open Model

theorem odijkDistance_real (f Lp Lc St kT : ℝ) :
    odijkDistance f Lp Lc St kT = Lc * (1 - 1 / 2 * Real.sqrt (kT / (f * Lp)) + f / St) := by
  simp only [odijkDistance, RealLike.sqrt]; norm_num

theorem odijkDistanceDeriv_real (f Lp Lc St kT : ℝ) :
    odijkDistanceDeriv f Lp Lc St kT = Lc * (0.25 * (1/f) * Real.sqrt (kT * (1/f) / Lp) + 1 / St) := by
  simp only [odijkDistanceDeriv, RealLike.sqrt]; norm_num

theorem odijk_hasDerivAt (f Lp Lc St kT : ℝ) (hf : 0 < f) (hLp : 0 < Lp) (hkT : 0 < kT) (hSt : 0 < St) :
    HasDerivAt (fun f => odijkDistance f Lp Lc St kT) (odijkDistanceDeriv f Lp Lc St kT) f := by
  have hfun : (fun f => odijkDistance f Lp Lc St kT) = fun f => Lc * (1 - 1 / 2 * Real.sqrt (kT / (f * Lp)) + f / St) := by
    funext f; exact odijkDistance_real ..
  rw [hfun, odijkDistanceDeriv_real]
  have hpos : 0 < kT / (f * Lp) := by positivity
  have h1 : HasDerivAt (fun f : ℝ => kT / (f * Lp)) (-(kT * Lp) / (f * Lp)^2) f := by
    have h2 : HasDerivAt (fun f : ℝ => kT / (f * Lp)) ((0 * (f * Lp) - kT * (1 * Lp)) / (f * Lp)^2) f :=
      (hasDerivAt_const f kT).div ((hasDerivAt_id' f).mul_const Lp) (by positivity)
    exact h2.congr_deriv (by ring)
  have h2 := h1.sqrt hpos.ne'
  have h3 : HasDerivAt (fun y => Lc * (1 - 1 / 2 * Real.sqrt (kT / (y * Lp)) + y / St))
      (Lc * (0 - 1 / 2 * (-(kT * Lp) / (f * Lp) ^ 2 / (2 * Real.sqrt (kT / (f * Lp)))) + 1 / St)) f :=
    (((hasDerivAt_const f (1:ℝ)).sub (h2.const_mul (1/2))).add ((hasDerivAt_id f).div_const St)).const_mul Lc
  have hs : Real.sqrt (kT * (1 / f) / Lp) = Real.sqrt (kT / (f * Lp)) := by
    congr 1; field_simp
  rw [hs]
  have hsq : Real.sqrt (kT / (f * Lp)) ^ 2 = kT / (f * Lp) := Real.sq_sqrt hpos.le
  have hsne : Real.sqrt (kT / (f * Lp)) ≠ 0 := (Real.sqrt_pos.mpr hpos).ne'
  convert h3 using 1
  set s := Real.sqrt (kT / (f * Lp)) with hs_def
  have key : s * s = kT / (f * Lp) := by rw [← sq]; exact hsq
  have : (0.25:ℝ) * (1 / f) * s = - (1 / 2 * (-(kT * Lp) / (f * Lp) ^ 2 / (2 * s))) := by
    rw [eq_comm, neg_eq_iff_eq_neg]
    field_simp
    have : kT = s * s * (f * Lp) := by rw [key]; field_simp
    nlinarith [this]
  rw [this]; ring

#print axioms odijk_hasDerivAt
