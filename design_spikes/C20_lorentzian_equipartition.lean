import Mathlib.Analysis.SpecialFunctions.ImproperIntegrals
import Mathlib.Tactic

open Real MeasureTheory Set

/-- `passive_power_spectrum_model` -/
noncomputable def lorentzian (f fc D : ℝ) : ℝ := (D / π ^ 2) / (f ^ 2 + fc ^ 2)

theorem lorentzian_equipartition (fc D : ℝ) (hfc : 0 < fc) :
    ∫ f in Ioi (0:ℝ), lorentzian f fc D = D / (2 * π * fc) := by
  have hpi : π ≠ 0 := Real.pi_ne_zero
  -- rewrite integrand as constant * g (fc⁻¹ * f)
  have hfun : ∀ f : ℝ, lorentzian f fc D = (D / (π ^ 2 * fc ^ 2)) * (fun u : ℝ => (1 + u ^ 2)⁻¹) (fc⁻¹ * f) := by
    intro f
    unfold lorentzian
    have : (1 + (fc⁻¹ * f) ^ 2) = (f ^ 2 + fc ^ 2) / fc ^ 2 := by field_simp; ring
    simp only [this]
    field_simp
  simp_rw [hfun]
  rw [integral_const_mul]
  rw [integral_comp_mul_left_Ioi (fun u : ℝ => (1 + u ^ 2)⁻¹) 0 (inv_pos.mpr hfc)]
  simp only [mul_zero, inv_inv, smul_eq_mul]
  rw [integral_Ioi_inv_one_add_sq, arctan_zero]
  field_simp
  ring

#print axioms lorentzian_equipartition
