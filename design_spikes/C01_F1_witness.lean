namespace M
/-- Python `l[i:j]` for step 1, `i j : Int` (already-resolved, no `None`). -/
def pyNorm (n : Nat) (i : Int) : Nat :=
  if i < 0 then (if i + n < 0 then 0 else (i + n).toNat) else min i.toNat n
def pySlice {α} (l : List α) (i j : Int) : List α :=
  let a := pyNorm l.length i
  let b := pyNorm l.length j
  (l.take b).drop a

structure Cont where
  start : Int
  dt : Int
  data : List Int
deriving Repr, DecidableEq

def Cont.samples (c : Cont) : List (Int × Int) :=
  c.data.zipIdx.map fun (v, i) => (c.start + i * c.dt, v)

def toIndex (start dt t : Int) : Int := (t - start + dt - 1) / dt

def Cont.sliceOld (c : Cont) (a b : Int) : Cont :=
  let fraction := (a - c.start) % c.dt
  let a' := max (if fraction = 0 then a else a + c.dt - fraction) c.start
  { start := a', dt := c.dt, data := pySlice c.data (toIndex c.start c.dt a') (toIndex c.start c.dt b) }

def Cont.slice (c : Cont) (a b : Int) : Cont :=
  let fraction := (a - c.start) % c.dt
  let a' := max (if fraction = 0 then a else a + c.dt - fraction) c.start
  { start := a', dt := c.dt, data := pySlice c.data (toIndex c.start c.dt a') (max (toIndex c.start c.dt b) 0) }

def inWin (a b : Int) (s : Int × Int) : Bool := a ≤ s.1 && s.1 < b

-- F1 witness: the unfixed arithmetic returns samples for a window entirely before the data
theorem F1_witness :
    (Cont.sliceOld ⟨1000, 10, [0,1,2,3,4,5,6,7,8,9]⟩ 0 990).samples ≠
      (Cont.samples ⟨1000, 10, [0,1,2,3,4,5,6,7,8,9]⟩).filter (inWin 0 990) := by decide

example : (Cont.slice ⟨1000, 10, [0,1,2,3,4,5,6,7,8,9]⟩ 0 990).samples =
      (Cont.samples ⟨1000, 10, [0,1,2,3,4,5,6,7,8,9]⟩).filter (inWin 0 990) := by decide
end M
#print axioms M.F1_witness
