import Mathlib.Analysis.SpecialFunctions.Trigonometric.Inverse
import Mathlib.Analysis.SpecialFunctions.Sqrt
import Mathlib.Tactic

open Real

/-- trigonometric branch (root index 2) of pylake's `calc_cubic_root`, depressed cubic -/
noncomputable def trigRoot2 (p q : ℝ) : ℝ :=
  let sqmp := √(-p)
  let F := 3 * √3 * q / (2 * sqmp ^ 3)
  2 / √3 * sqmp * cos (1 / 3 * arcsin F + π / 6)

theorem trigRoot2_is_root (p q : ℝ) (hdet : q * q / 4 + p * p * p / 27 < 0) :
    (trigRoot2 p q) ^ 3 + p * trigRoot2 p q + q = 0 := by
  have hp : p < 0 := by
    by_contra h
    push Not at h
    have : 0 ≤ p * p * p := by positivity
    nlinarith [mul_self_nonneg q]
  have hmp : 0 < -p := by linarith
  set s := √(-p) with hs
  have hspos : 0 < s := Real.sqrt_pos.mpr hmp
  have hs2 : s ^ 2 = -p := Real.sq_sqrt hmp.le
  have h3pos : (0:ℝ) < √3 := Real.sqrt_pos.mpr (by norm_num)
  have h3sq : (√3 : ℝ) ^ 2 = 3 := Real.sq_sqrt (by norm_num)
  set F := 3 * √3 * q / (2 * s ^ 3) with hF
  -- |F| ≤ 1
  have hs6 : s ^ 6 = -(p * p * p) := by
    have : s ^ 6 = (s ^ 2) ^ 3 := by ring
    rw [this, hs2]; ring
  have hF2 : F ^ 2 < 1 := by
    have : F ^ 2 = 27 * q ^ 2 / (4 * s ^ 6) := by
      rw [hF]; field_simp; nlinarith [h3sq]
    rw [this, div_lt_one (by positivity)]
    rw [hs6]; nlinarith
  have hFabs : -1 ≤ F ∧ F ≤ 1 := by
    constructor <;> nlinarith
  set θ := 1 / 3 * arcsin F + π / 6 with hθ
  have h3θ : 3 * θ = arcsin F + π / 2 := by rw [hθ]; ring
  have hcos3 : cos (3 * θ) = -F := by
    rw [h3θ, cos_add_pi_div_two, sin_arcsin hFabs.1 hFabs.2]
  have hc := cos_three_mul θ
  rw [hcos3] at hc
  -- now algebra
  show (2 / √3 * s * cos θ) ^ 3 + p * (2 / √3 * s * cos θ) + q = 0
  have hpeq : p = -(s ^ 2) := by linarith
  have hFq : q = F * (2 * s ^ 3) / (3 * √3) := by
    rw [hF]; field_simp
  rw [hpeq, hFq]
  have hF' : F = -(4 * cos θ ^ 3 - 3 * cos θ) := by linarith
  rw [hF']
  field_simp
  rw [h3sq]
  ring

#print axioms trigRoot2_is_root
