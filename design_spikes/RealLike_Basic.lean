/-- Numeric operations shared by the executable (`Float`) and the logical (`ℝ`) reading of a formula. -/
class RealLike (α : Type) extends Add α, Sub α, Mul α, Div α, Neg α, OfScientific α where
  sqrt : α → α
  exp : α → α
  log : α → α

instance : RealLike Float where
  sqrt := Float.sqrt
  exp := Float.exp
  log := Float.log

namespace Model
variable {α : Type} [RealLike α]
open RealLike

/-- `ewlc_odijk_distance` -/
def odijkDistance (f Lp Lc St kT : α) : α :=
  Lc * (1.0 - 1.0 / 2.0 * sqrt (kT / (f * Lp)) + f / St)

/-- `ewlc_odijk_distance_derivative` -/
def odijkDistanceDeriv (f Lp Lc St kT : α) : α :=
  let x0 := 1.0 / f
  Lc * (0.25 * x0 * sqrt (kT * x0 / Lp) + 1.0 / St)
end Model

#eval Model.odijkDistance (10.0 : Float) 40.0 16.0 1500.0 4.11
