/-! Viterbi with back pointers over an abstract ordered score type (C16 spike). -/
namespace Vit

class ScoreLaws (S : Type) [Add S] [LE S] : Prop where
  le_refl : ∀ a : S, a ≤ a
  le_trans : ∀ a b c : S, a ≤ b → b ≤ c → a ≤ c
  le_total : ∀ a b : S, a ≤ b ∨ b ≤ a
  add_le_add_right : ∀ a b c : S, a ≤ b → a + c ≤ b + c

variable {S : Type} [Add S] [LE S] [DecidableRel (fun a b : S => a ≤ b)]

/-- `np.argmax` over indices `0..n` (inclusive), first maximum. -/
def argmaxUpTo (f : Nat → S) : Nat → Nat
  | 0 => 0
  | n + 1 => let b := argmaxUpTo f n; if f (n + 1) ≤ f b then b else n + 1

def psiOf (k : Nat) (logA : Nat → Nat → S) (delta : Nat → S) (j : Nat) : Nat :=
  argmaxUpTo (fun i => delta i + logA i j) k

def stepDelta (k : Nat) (logA : Nat → Nat → S) (delta : Nat → S) (b : Nat → S) (j : Nat) : S :=
  delta (psiOf k logA delta j) + logA (psiOf k logA delta j) j + b j

/-- forward pass: final delta and the back-pointer rows (latest first) -/
def forward (k : Nat) (logA : Nat → Nat → S) :
    (Nat → S) → List (Nat → S) → List (Nat → Nat) → (Nat → S) × List (Nat → Nat)
  | delta, [], psis => (delta, psis)
  | delta, b :: bs, psis => forward k logA (stepDelta k logA delta b) bs (psiOf k logA delta :: psis)

/-- follow back pointers (latest first) from the final state; path is returned latest first -/
def backtrackR : List (Nat → Nat) → Nat → List Nat
  | [], j => [j]
  | psi :: rest, j => j :: backtrackR rest (psi j)

def viterbi (k : Nat) (logPi : Nat → S) (logA : Nat → Nat → S) : List (Nat → S) → List Nat
  | [] => []
  | b0 :: bs =>
    let r := forward k logA (fun j => logPi j + b0 j) bs []
    (backtrackR r.2 (argmaxUpTo r.1 k)).reverse

/-- joint log-score; observations and path both latest first -/
def scoreR (logPi : Nat → S) (logA : Nat → Nat → S) : List (Nat → S) → List Nat → Option S
  | [b0], [s0] => some (logPi s0 + b0 s0)
  | b :: bs, s :: s' :: ss =>
    match scoreR logPi logA bs (s' :: ss) with
    | some v => some (v + logA s' s + b s)
    | none => none
  | _, _ => none

def score (logPi : Nat → S) (logA : Nat → Nat → S) (B : List (Nat → S)) (p : List Nat) : Option S :=
  scoreR logPi logA B.reverse p.reverse

section proofs
variable [L : ScoreLaws S]

theorem argmax_le (f : Nat → S) : ∀ n, argmaxUpTo f n ≤ n
  | 0 => Nat.le_refl 0
  | n + 1 => by
    have ih := argmax_le f n
    simp only [argmaxUpTo]
    split <;> omega

theorem argmax_max (f : Nat → S) : ∀ n i, i ≤ n → f i ≤ f (argmaxUpTo f n)
  | 0, i, h => by
    have : i = 0 := by omega
    subst this; exact L.le_refl _
  | n + 1, i, h => by
    simp only [argmaxUpTo]
    by_cases hc : f (n + 1) ≤ f (argmaxUpTo f n)
    · simp only [hc, if_true]
      by_cases hi : i ≤ n
      · exact argmax_max f n i hi
      · have : i = n + 1 := by omega
        subst this; exact hc
    · simp only [hc, if_false]
      by_cases hi : i ≤ n
      · have h1 := argmax_max f n i hi
        have h2 : f (argmaxUpTo f n) ≤ f (n + 1) := by
          rcases L.le_total (f (n+1)) (f (argmaxUpTo f n)) with h | h
          · exact absurd h hc
          · exact h
        exact L.le_trans _ _ _ h1 h2
      · have : i = n + 1 := by omega
        subst this; exact L.le_refl _

/-- Invariant carried by the forward pass. `Bd` = processed observations, latest first. -/
def Inv (k : Nat) (logPi : Nat → S) (logA : Nat → Nat → S)
    (Bd : List (Nat → S)) (delta : Nat → S) (psis : List (Nat → Nat)) : Prop :=
  ∀ j, j ≤ k →
    (backtrackR psis j).length = Bd.length ∧
    (∀ s ∈ backtrackR psis j, s ≤ k) ∧
    (backtrackR psis j).head? = some j ∧
    scoreR logPi logA Bd (backtrackR psis j) = some (delta j) ∧
    ∀ q, q.length = Bd.length → (∀ s ∈ q, s ≤ k) → q.head? = some j →
      ∃ v, scoreR logPi logA Bd q = some v ∧ v ≤ delta j

theorem inv_base (k : Nat) (logPi : Nat → S) (logA : Nat → Nat → S) (b0 : Nat → S) :
    Inv k logPi logA [b0] (fun j => logPi j + b0 j) [] := by
  intro j hj
  refine ⟨rfl, ?_, rfl, rfl, ?_⟩
  · intro s hs; simp [backtrackR] at hs; omega
  · intro q hlen _ hhead
    match q, hlen, hhead with
    | [s], _, hh =>
      simp at hh; subst hh
      exact ⟨_, rfl, L.le_refl _⟩

theorem inv_step (k : Nat) (logPi : Nat → S) (logA : Nat → Nat → S)
    (Bd : List (Nat → S)) (hBd : Bd ≠ []) (delta : Nat → S) (psis : List (Nat → Nat)) (b : Nat → S)
    (h : Inv k logPi logA Bd delta psis) :
    Inv k logPi logA (b :: Bd) (stepDelta k logA delta b) (psiOf k logA delta :: psis) := by
  intro j hj
  have hpsi : psiOf k logA delta j ≤ k := argmax_le _ _
  obtain ⟨hlen, hmem, hhead, hsc, hopt⟩ := h (psiOf k logA delta j) hpsi
  refine ⟨by simp [backtrackR, hlen], ?_, rfl, ?_, ?_⟩
  · intro s hs
    simp only [backtrackR, List.mem_cons] at hs
    rcases hs with rfl | hs
    · exact hj
    · exact hmem s hs
  · -- score of the reconstructed path
    cases hbt : backtrackR psis (psiOf k logA delta j) with
    | nil => rw [hbt] at hhead; simp at hhead
    | cons s' ss =>
      rw [hbt] at hhead hsc
      simp at hhead; subst hhead
      simp only [backtrackR, hbt, scoreR, hsc, stepDelta]
  · intro q hqlen hqmem hqhead
    match q, hqlen, hqhead with
    | [s], hl, _ =>
      exfalso; apply hBd
      cases Bd with
      | nil => rfl
      | cons _ _ => simp at hl
    | s :: s' :: ss, hl, hh =>
      simp at hh; subst hh
      have hs'k : s' ≤ k := hqmem s' (by simp)
      obtain ⟨_, _, _, _, hopt'⟩ := h s' hs'k
      obtain ⟨v, hv, hvle⟩ := hopt' (s' :: ss) (by simpa using hl)
        (fun x hx => hqmem x (List.mem_cons_of_mem _ hx)) rfl
      refine ⟨v + logA s' s + b s, by simp [scoreR, hv], ?_⟩
      have h1 : v + logA s' s ≤ delta s' + logA s' s := L.add_le_add_right _ _ _ hvle
      have h2 : delta s' + logA s' s ≤
          delta (psiOf k logA delta s) + logA (psiOf k logA delta s) s :=
        argmax_max (fun i => delta i + logA i s) k s' hs'k
      exact L.add_le_add_right _ _ _ (L.le_trans _ _ _ h1 h2)

theorem inv_forward (k : Nat) (logPi : Nat → S) (logA : Nat → Nat → S) :
    ∀ (bs : List (Nat → S)) (Bd : List (Nat → S)) (_ : Bd ≠ []) (delta : Nat → S) (psis : List (Nat → Nat)),
      Inv k logPi logA Bd delta psis →
      Inv k logPi logA (bs.reverse ++ Bd) (forward k logA delta bs psis).1 (forward k logA delta bs psis).2
  | [], Bd, _, delta, psis, h => by simpa [forward] using h
  | b :: bs, Bd, hBd, delta, psis, h => by
    have := inv_forward k logPi logA bs (b :: Bd) (by simp) _ _ (inv_step k logPi logA Bd hBd delta psis b h)
    simpa [forward, List.reverse_cons, List.append_assoc] using this

/-- **Viterbi is optimal**: every state path of the right length over states `0..k` scores at most
the decoded path. -/
theorem viterbi_optimal (k : Nat) (logPi : Nat → S) (logA : Nat → Nat → S)
    (B : List (Nat → S)) (hB : B ≠ []) (q : List Nat) (hq : q.length = B.length)
    (hqk : ∀ s ∈ q, s ≤ k) :
    ∃ v w, score logPi logA B q = some v ∧
      score logPi logA B (viterbi k logPi logA B) = some w ∧ v ≤ w ∧
      (viterbi k logPi logA B).length = B.length ∧ ∀ s ∈ viterbi k logPi logA B, s ≤ k := by
  match B, hB with
  | b0 :: bs, _ =>
    have hinv := inv_forward k logPi logA bs [b0] (by simp) _ [] (inv_base k logPi logA b0)
    generalize hr : forward k logA (fun j => logPi j + b0 j) bs [] = r at hinv
    have hjm : argmaxUpTo r.1 k ≤ k := argmax_le _ _
    obtain ⟨hlen, hmem, _, hsc, _⟩ := hinv (argmaxUpTo r.1 k) hjm
    -- the competitor path, latest first
    have hqr_len : q.reverse.length = (bs.reverse ++ [b0]).length := by simp [hq]
    have hqne : q.reverse ≠ [] := by
      intro h; rw [h] at hqr_len; simp at hqr_len
    obtain ⟨j, tl, hjt⟩ := List.exists_cons_of_ne_nil hqne
    have hjk : j ≤ k := hqk j (by
      have : j ∈ q.reverse := by rw [hjt]; simp
      simpa using this)
    obtain ⟨_, _, _, _, hopt⟩ := hinv j hjk
    obtain ⟨v, hv, hvle⟩ := hopt q.reverse hqr_len (fun s hs => hqk s (by simpa using hs)) (by rw [hjt]; rfl)
    refine ⟨v, r.1 (argmaxUpTo r.1 k), ?_, ?_, ?_, ?_, ?_⟩
    · simpa [score, List.reverse_cons] using hv
    · simp only [score, viterbi, hr, List.reverse_reverse, List.reverse_cons]
      exact hsc
    · exact L.le_trans _ _ _ hvle (argmax_max r.1 k j hjk)
    · simp only [viterbi, hr, List.length_reverse]; simpa using hlen
    · intro s hs
      simp only [viterbi, hr, List.mem_reverse] at hs
      exact hmem s hs
end proofs
end Vit
#print axioms Vit.viterbi_optimal
