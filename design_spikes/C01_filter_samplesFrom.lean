namespace M2

def samplesFrom (t0 dt : Int) : List Int → List (Int × Int)
  | [] => []
  | v :: vs => (t0, v) :: samplesFrom (t0 + dt) dt vs

def inWin (a b : Int) (s : Int × Int) : Bool := a ≤ s.1 && s.1 < b

/-- ceil((x)/dt) for dt > 0 as computed by the code: (x + dt - 1) / dt -/
def cdiv (x dt : Int) : Int := (x + dt - 1) / dt

theorem cdiv_le_iff {x dt : Int} (hdt : 0 < dt) (k : Int) : cdiv x dt ≤ k ↔ x ≤ k * dt := by
  unfold cdiv
  constructor
  · intro h
    have := Int.lt_mul_ediv_self_add hdt (x := x + dt - 1)
    have h2 : (x + dt - 1) / dt * dt ≤ k * dt := Int.mul_le_mul_of_nonneg_right h (Int.le_of_lt hdt)
    rw [Int.mul_comm dt] at this
    omega
  · intro h
    have : x + dt - 1 < (k + 1) * dt := by rw [Int.add_mul]; omega
    have := (Int.ediv_lt_iff_lt_mul hdt).mpr this
    omega

theorem cdiv_sub (x dt : Int) (hdt : 0 < dt) : cdiv (x - dt) dt = cdiv x dt - 1 := by
  unfold cdiv
  have : x - dt + dt - 1 = (x + dt - 1) + (-1) * dt := by omega
  rw [this, Int.add_mul_ediv_right _ _ (by omega)]
  omega

theorem filter_samplesFrom (dt : Int) (hdt : 0 < dt) (a b : Int) :
    ∀ (l : List Int) (t0 : Int),
      (samplesFrom t0 dt l).filter (inWin a b) =
        samplesFrom (t0 + (cdiv (a - t0) dt).toNat * dt) dt
          ((l.take (cdiv (b - t0) dt).toNat).drop (cdiv (a - t0) dt).toNat) := by
  intro l
  induction l with
  | nil => intro t0; simp [samplesFrom]
  | cons v vs ih =>
    intro t0
    have hL : cdiv (a - (t0 + dt)) dt = cdiv (a - t0) dt - 1 := by
      have : a - (t0 + dt) = (a - t0) - dt := by omega
      rw [this, cdiv_sub _ _ hdt]
    have hH : cdiv (b - (t0 + dt)) dt = cdiv (b - t0) dt - 1 := by
      have : b - (t0 + dt) = (b - t0) - dt := by omega
      rw [this, cdiv_sub _ _ hdt]
    have hLle : cdiv (a - t0) dt ≤ 0 ↔ a ≤ t0 := by
      rw [cdiv_le_iff hdt]; omega
    have hHle : cdiv (b - t0) dt ≤ 0 ↔ b ≤ t0 := by
      rw [cdiv_le_iff hdt]; omega
    simp only [samplesFrom, List.filter_cons, inWin]
    rw [ih (t0 + dt), hL, hH]
    generalize hLdef : cdiv (a - t0) dt = L at *
    generalize hHdef : cdiv (b - t0) dt = H at *
    by_cases h1 : a ≤ t0
    · have hL0 : L ≤ 0 := hLle.mpr h1
      have hLn : L.toNat = 0 := by omega
      have hLn' : (L - 1).toNat = 0 := by omega
      by_cases h2 : t0 < b
      · have hH0 : 0 < H := by
          by_cases h : 0 < H
          · exact h
          · exact absurd (hHle.mpr (by omega)) (by omega)
        obtain ⟨m, hm⟩ : ∃ m : Nat, (H - 1).toNat = m ∧ H.toNat = m + 1 := ⟨(H-1).toNat, rfl, by omega⟩
        rw [hLn, hLn', hm.1, hm.2]
        simp [h1, h2, samplesFrom]
      · have hH0 : H ≤ 0 := hHle.mpr (by omega)
        have hHn : H.toNat = 0 := by omega
        have hHn' : (H - 1).toNat = 0 := by omega
        rw [hLn, hLn', hHn, hHn']
        simp [h1, h2, samplesFrom]
    · have hL0 : 0 < L := by
        by_cases h : 0 < L
        · exact h
        · exact absurd (hLle.mp (by omega)) h1
      obtain ⟨k, hk1, hk2⟩ : ∃ k : Nat, (L - 1).toNat = k ∧ L.toNat = k + 1 := ⟨(L-1).toNat, rfl, by omega⟩
      have hshift : t0 + dt + (k : Int) * dt = t0 + ((k + 1 : Nat) : Int) * dt := by
        rw [Int.natCast_add, Int.add_mul]; omega
      by_cases hH0 : 0 < H
      · obtain ⟨m, hm⟩ : ∃ m : Nat, (H - 1).toNat = m ∧ H.toNat = m + 1 := ⟨(H-1).toNat, rfl, by omega⟩
        rw [hk1, hk2, hm.1, hm.2, hshift]
        simp [h1]
      · have hHn : H.toNat = 0 := by omega
        have hHn' : (H - 1).toNat = 0 := by omega
        rw [hk1, hk2, hHn, hHn']
        simp [h1, samplesFrom]
end M2
#print axioms M2.filter_samplesFrom
