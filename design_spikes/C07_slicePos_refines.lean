/-! C07 spike: ImageStack (start, stop, step) arithmetic refines Python list slicing (positive steps). -/
namespace Stk

/-- CPython `slice.indices(n)` start/stop for a positive step. -/
def normPos (n : Int) : Option Int → Int → Int
  | none, dflt => dflt
  | some a, _ => if a < 0 then max (a + n) 0 else min a n

/-- `len(range(start, stop, c))` for `c > 0`. -/
def rangeLen (start stop c : Int) : Nat := if start < stop then ((stop - start - 1) / c + 1).toNat else 0

/-- `list(range(start, stop, c))` -/
def rangeStep (start stop c : Int) : List Int :=
  (List.range (rangeLen start stop c)).map fun (i : Nat) => start + (i : Int) * c

structure Stack where
  s0 : Int
  s1 : Int
  st : Int
deriving Repr

/-- `ImageStack.num_frames` -/
def Stack.numFrames (s : Stack) : Int := (max (-1) (s.s1 - s.s0 - 1)) / s.st + 1

/-- underlying page index of every visible frame -/
def Stack.frames (s : Stack) : List Int :=
  (List.range s.numFrames.toNat).map fun (i : Nat) => s.s0 + (i : Int) * s.st

inductive Res where
  | ok (s : Stack)
  | empty
  | reverse
deriving Repr

/-- `ImageStack.__getitem__` for a slice with positive step `c` (after `indices`) -/
def Stack.slicePos (s : Stack) (a b : Option Int) (c : Int) : Res :=
  let n := s.numFrames
  let start := normPos n a 0
  let stop := normPos n b n
  let ns := s.s0 + s.st * start
  let ne := s.s0 + s.st * stop
  let nstep := s.st * c
  if ne = ns ∨ (ne - ns).sign ≠ nstep.sign then Res.empty
  else if nstep < 0 then Res.reverse
  else Res.ok ⟨ns, ne, nstep⟩

theorem mul_ediv_cancel_shift (st c d : Int) (hst : 0 < st) (hc : 0 < c) (hd : 0 < d) :
    (st * d - 1) / (st * c) = (d - 1) / c := by
  -- d - 1 = q * c + r
  have hq := Int.mul_ediv_add_emod (d - 1) c
  have hr0 := Int.emod_nonneg (d - 1) (Int.ne_of_gt hc)
  have hr1 := Int.emod_lt_of_pos (d - 1) hc
  generalize (d - 1) / c = q at *
  generalize (d - 1) % c = r at *
  have hd' : d = c * q + r + 1 := by omega
  have hstc : 0 < st * c := Int.mul_pos hst hc
  -- st*d - 1 = (st*c) * q + (st*(r+1) - 1)
  have e : st * d - 1 = (st * (r + 1) - 1) + (st * c) * q := by
    rw [hd']
    have : st * (c * q + r + 1) = st * c * q + st * (r + 1) := by
      rw [show c * q + r + 1 = c * q + (r + 1) by omega, Int.mul_add, Int.mul_assoc]
    omega
  rw [e, Int.add_mul_ediv_left _ _ (Int.ne_of_gt hstc)]
  have h0 : 0 ≤ st * (r + 1) - 1 := by
    have : st * 1 ≤ st * (r + 1) := Int.mul_le_mul_of_nonneg_left (by omega) (Int.le_of_lt hst)
    omega
  have h1 : st * (r + 1) - 1 < st * c := by
    have : st * (r + 1) ≤ st * c := Int.mul_le_mul_of_nonneg_left (by omega) (Int.le_of_lt hst)
    omega
  rw [Int.ediv_eq_zero_of_lt h0 h1]
  omega

/-- Positive-step slicing of a stack selects exactly `frames[start:stop:c]`. -/
theorem slicePos_refines (s : Stack) (hst : 0 < s.st) (a b : Option Int) (c : Int) (hc : 0 < c)
    (s' : Stack) (h : s.slicePos a b c = Res.ok s') :
    s'.frames = (rangeStep (normPos s.numFrames a 0) (normPos s.numFrames b s.numFrames) c).map
      (fun i => s.s0 + i * s.st) ∧ 0 < s'.st := by
  unfold Stack.slicePos at h
  simp only at h
  generalize hstart : normPos s.numFrames a 0 = start at *
  generalize hstop : normPos s.numFrames b s.numFrames = stop at *
  split at h
  · cases h
  · rename_i hne
    split at h
    · cases h
    · rename_i hpos
      injection h with h
      subst h
      have hstc : 0 < s.st * c := Int.mul_pos hst hc
      -- not empty and same sign → stop > start
      have hlt : start < stop := by
        have hne' : ¬ (s.s0 + s.st * stop = s.s0 + s.st * start) := fun e => hne (Or.inl e)
        have hsg : (s.s0 + s.st * stop - (s.s0 + s.st * start)).sign = (s.st * c).sign :=
          Decidable.byContradiction fun hh => hne (Or.inr hh)
        rw [Int.sign_eq_one_of_pos hstc] at hsg
        have : 0 < s.s0 + s.st * stop - (s.s0 + s.st * start) := Int.sign_eq_one_iff_pos.mp hsg
        have h2 : s.st * start < s.st * stop := by omega
        exact Int.lt_of_mul_lt_mul_left h2 (Int.le_of_lt hst)
      refine ⟨?_, hstc⟩
      have hd : 0 < stop - start := by omega
      -- frame count
      have hcount : (Stack.numFrames ⟨s.s0 + s.st * start, s.s0 + s.st * stop, s.st * c⟩).toNat
          = rangeLen start stop c := by
        unfold Stack.numFrames rangeLen
        simp only [hlt, if_true]
        have e1 : s.s0 + s.st * stop - (s.s0 + s.st * start) - 1 = s.st * (stop - start) - 1 := by
          rw [Int.mul_sub]; omega
        have hge : 0 ≤ s.st * (stop - start) - 1 := by
          have : s.st * 1 ≤ s.st * (stop - start) := Int.mul_le_mul_of_nonneg_left (by omega) (Int.le_of_lt hst)
          omega
        rw [e1, Int.max_eq_right (by omega), mul_ediv_cancel_shift _ _ _ hst hc hd]
      unfold Stack.frames rangeStep
      rw [hcount, List.map_map]
      apply List.map_congr_left
      intro i _
      simp only [Function.comp]
      rw [Int.add_mul, Int.mul_comm s.st start, Int.mul_assoc, Int.mul_comm c s.st, ← Int.mul_assoc]
      omega
end Stk
#print axioms Stk.slicePos_refines
