import Verif.Props.C11
namespace Verif.C11
open Verif

/-- RECOVERY (active calibration): if the peak of the detector spectrum is what the model predicts
    for a sensor with displacement sensitivity `R₀` — thermal background plus `P_theory/(R₀²·Δf)` —
    the reported `R_d` is `R₀`, the measured drag is `k_BT/(R₀²D)` and `κ = 2π f_c k_BT/(R₀² D)` -/
theorem active_recovers_generating_sensitivity (m : Mdl ℝ) (dr : Drive ℝ) (g fc D sfc sD R0 : ℝ)
    (hR : 0 < R0) (hdf : dr.df ≠ 0) (hP : 0 < m.theoreticalPower dr fc)
    (hmax : dr.maxP = m.physicalPsd dr.freq fc D * g + m.theoreticalPower dr fc / (R0 ^ 2 * dr.df)) :
    ∀ r, r = activeResults m dr g fc D sfc sD →
    r.rd * 1e-6 = R0 ∧ r.measured = kT m.o.temp / (R0 ^ 2 * D) ∧
    r.kappa * 1e-3 = 2 * Real.pi * (kT m.o.temp / (R0 ^ 2 * D)) * fc := by
  rintro r rfl
  obtain ⟨hp, ht, hrd, hg, hk, -⟩ := active_fields m dr g fc D sfc sD
  have hpe : (activeResults m dr g fc D sfc sD).pExp = m.theoreticalPower dr fc / R0 ^ 2 := by
    rw [hp, hmax]; field_simp; ring
  have hratio : (activeResults m dr g fc D sfc sD).pTheory / (activeResults m dr g fc D sfc sD).pExp
      = R0 ^ 2 := by
    rw [hpe, ht]; field_simp
  have hs : Real.sqrt ((activeResults m dr g fc D sfc sD).pTheory
      / (activeResults m dr g fc D sfc sD).pExp) = R0 := by
    rw [hratio, Real.sqrt_sq hR.le]
  have h1 : (activeResults m dr g fc D sfc sD).rd * 1e-6 = R0 := by rw [hrd, hs]; ring
  have h2 : (activeResults m dr g fc D sfc sD).measured = kT m.o.temp / (R0 ^ 2 * D) := by
    rw [hg, hs]; ring_nf
  refine ⟨h1, h2, ?_⟩
  rw [hk, h2]; ring
example : (0:ℝ) < 1 ∧ drive₀.df ≠ 0 ∧ 0 < (build oBulk).theoreticalPower drive₀ 1 := by
  refine ⟨one_pos, by simp [drive₀], ?_⟩
  simp [Mdl.theoreticalPower, build, oBulk, drivingPowerLorentzian, drive₀]
  norm_num

end Verif.C11
