-- Root of the `Verif` library: executable models, helper lemmas, property theorems.
import Verif.Py
import Verif.Proto
import Verif.Driver
import Verif.Props.C01
