
/-! ### coefficient chains: the tables `da_dLc, …` are the partial derivatives of the coefficient maps
    (generated uniformly; every proof is `differentiate structurally, then field_simp; ring`) -/

theorem OF.a_Lp (d Lp Lc St kT : ℝ) :
    HasDerivAt (fun Lp => OF.a d Lp Lc St kT) 0 Lp := by
  simp only [OF.a]
  exact hasDerivAt_const _ _

theorem OF.a_Lc (d Lp Lc St kT : ℝ) (hLp : 0 < Lp) (hLc : 0 < Lc) (hSt : 0 < St) (hkT : 0 < kT) :
    HasDerivAt (fun Lc => OF.a d Lp Lc St kT) (OF.da_dLc d Lp Lc St kT) Lc := by
  apply HasDerivAt.congr_deriv
  · simp only [OF.a, RealLike.sq, RealLike.cube]
    deriv_auto
    all_goals side_goal
  · simp only [OF.da_dLc, RealLike.sq, RealLike.cube]
    rat_close

theorem OF.a_St (d Lp Lc St kT : ℝ) (hLp : 0 < Lp) (hLc : 0 < Lc) (hSt : 0 < St) (hkT : 0 < kT) :
    HasDerivAt (fun St => OF.a d Lp Lc St kT) (OF.da_dSt d Lp Lc St kT) St := by
  apply HasDerivAt.congr_deriv
  · simp only [OF.a, RealLike.sq, RealLike.cube]
    deriv_auto
    all_goals side_goal
  · simp only [OF.da_dSt, RealLike.sq, RealLike.cube]
    rat_close

theorem OF.a_kT (d Lp Lc St kT : ℝ) :
    HasDerivAt (fun kT => OF.a d Lp Lc St kT) 0 kT := by
  simp only [OF.a]
  exact hasDerivAt_const _ _

theorem OF.a_d (d Lp Lc St kT : ℝ) (hLp : 0 < Lp) (hLc : 0 < Lc) (hSt : 0 < St) (hkT : 0 < kT) :
    HasDerivAt (fun d => OF.a d Lp Lc St kT) (OF.da_dd d Lp Lc St kT) d := by
  apply HasDerivAt.congr_deriv
  · simp only [OF.a, RealLike.sq, RealLike.cube]
    deriv_auto
    all_goals side_goal
  · simp only [OF.da_dd, RealLike.sq, RealLike.cube]
    rat_close

theorem OF.b_Lp (d Lp Lc St kT : ℝ) :
    HasDerivAt (fun Lp => OF.b d Lp Lc St kT) 0 Lp := by
  simp only [OF.b]
  exact hasDerivAt_const _ _

theorem OF.b_Lc (d Lp Lc St kT : ℝ) (hLp : 0 < Lp) (hLc : 0 < Lc) (hSt : 0 < St) (hkT : 0 < kT) :
    HasDerivAt (fun Lc => OF.b d Lp Lc St kT) (OF.db_dLc d Lp Lc St kT) Lc := by
  apply HasDerivAt.congr_deriv
  · simp only [OF.b, RealLike.sq, RealLike.cube]
    deriv_auto
    all_goals side_goal
  · simp only [OF.db_dLc, RealLike.sq, RealLike.cube]
    rat_close

theorem OF.b_St (d Lp Lc St kT : ℝ) (hLp : 0 < Lp) (hLc : 0 < Lc) (hSt : 0 < St) (hkT : 0 < kT) :
    HasDerivAt (fun St => OF.b d Lp Lc St kT) (OF.db_dSt d Lp Lc St kT) St := by
  apply HasDerivAt.congr_deriv
  · simp only [OF.b, RealLike.sq, RealLike.cube]
    deriv_auto
    all_goals side_goal
  · simp only [OF.db_dSt, RealLike.sq, RealLike.cube]
    rat_close

theorem OF.b_kT (d Lp Lc St kT : ℝ) :
    HasDerivAt (fun kT => OF.b d Lp Lc St kT) 0 kT := by
  simp only [OF.b]
  exact hasDerivAt_const _ _

theorem OF.b_d (d Lp Lc St kT : ℝ) (hLp : 0 < Lp) (hLc : 0 < Lc) (hSt : 0 < St) (hkT : 0 < kT) :
    HasDerivAt (fun d => OF.b d Lp Lc St kT) (OF.db_dd d Lp Lc St kT) d := by
  apply HasDerivAt.congr_deriv
  · simp only [OF.b, RealLike.sq, RealLike.cube]
    deriv_auto
    all_goals side_goal
  · simp only [OF.db_dd, RealLike.sq, RealLike.cube]
    rat_close

theorem OF.c_Lp (d Lp Lc St kT : ℝ) (hLp : 0 < Lp) (hLc : 0 < Lc) (hSt : 0 < St) (hkT : 0 < kT) :
    HasDerivAt (fun Lp => OF.c d Lp Lc St kT) (OF.dc_dLp d Lp Lc St kT) Lp := by
  apply HasDerivAt.congr_deriv
  · simp only [OF.c, RealLike.sq, RealLike.cube]
    deriv_auto
    all_goals side_goal
  · simp only [OF.dc_dLp, RealLike.sq, RealLike.cube]
    rat_close

theorem OF.c_Lc (d Lp Lc St kT : ℝ) :
    HasDerivAt (fun Lc => OF.c d Lp Lc St kT) 0 Lc := by
  simp only [OF.c]
  exact hasDerivAt_const _ _

theorem OF.c_St (d Lp Lc St kT : ℝ) (hLp : 0 < Lp) (hLc : 0 < Lc) (hSt : 0 < St) (hkT : 0 < kT) :
    HasDerivAt (fun St => OF.c d Lp Lc St kT) (OF.dc_dSt d Lp Lc St kT) St := by
  apply HasDerivAt.congr_deriv
  · simp only [OF.c, RealLike.sq, RealLike.cube]
    deriv_auto
    all_goals side_goal
  · simp only [OF.dc_dSt, RealLike.sq, RealLike.cube]
    rat_close

theorem OF.c_kT (d Lp Lc St kT : ℝ) (hLp : 0 < Lp) (hLc : 0 < Lc) (hSt : 0 < St) (hkT : 0 < kT) :
    HasDerivAt (fun kT => OF.c d Lp Lc St kT) (OF.dc_dkT d Lp Lc St kT) kT := by
  apply HasDerivAt.congr_deriv
  · simp only [OF.c, RealLike.sq, RealLike.cube]
    deriv_auto
    all_goals side_goal
  · simp only [OF.dc_dkT, RealLike.sq, RealLike.cube]
    rat_close

theorem OF.c_d (d Lp Lc St kT : ℝ) :
    HasDerivAt (fun d => OF.c d Lp Lc St kT) 0 d := by
  simp only [OF.c]
  exact hasDerivAt_const _ _

theorem WD.a_Lp (f Lp Lc kT : ℝ) (hLp : 0 < Lp) (hLc : 0 < Lc) (hkT : 0 < kT) :
    HasDerivAt (fun Lp => WD.a f Lp Lc kT) (WD.da_dLp f Lp Lc kT) Lp := by
  apply HasDerivAt.congr_deriv
  · simp only [WD.a, RealLike.sq, RealLike.cube]
    deriv_auto
    all_goals side_goal
  · simp only [WD.da_dLp, RealLike.sq, RealLike.cube]
    rat_close

theorem WD.a_Lc (f Lp Lc kT : ℝ) (hLp : 0 < Lp) (hLc : 0 < Lc) (hkT : 0 < kT) :
    HasDerivAt (fun Lc => WD.a f Lp Lc kT) (WD.da_dLc f Lp Lc kT) Lc := by
  apply HasDerivAt.congr_deriv
  · simp only [WD.a, RealLike.sq, RealLike.cube]
    deriv_auto
    all_goals side_goal
  · simp only [WD.da_dLc, RealLike.sq, RealLike.cube]
    rat_close

theorem WD.a_kT (f Lp Lc kT : ℝ) (hLp : 0 < Lp) (hLc : 0 < Lc) (hkT : 0 < kT) :
    HasDerivAt (fun kT => WD.a f Lp Lc kT) (WD.da_dkT f Lp Lc kT) kT := by
  apply HasDerivAt.congr_deriv
  · simp only [WD.a, RealLike.sq, RealLike.cube]
    deriv_auto
    all_goals side_goal
  · simp only [WD.da_dkT, RealLike.sq, RealLike.cube]
    rat_close

theorem WD.a_f (f Lp Lc kT : ℝ) (hLp : 0 < Lp) (hLc : 0 < Lc) (hkT : 0 < kT) :
    HasDerivAt (fun f => WD.a f Lp Lc kT) (WD.da_df f Lp Lc kT) f := by
  apply HasDerivAt.congr_deriv
  · simp only [WD.a, RealLike.sq, RealLike.cube]
    deriv_auto
    all_goals side_goal
  · simp only [WD.da_df, RealLike.sq, RealLike.cube]
    rat_close

theorem WD.b_Lp (f Lp Lc kT : ℝ) (hLp : 0 < Lp) (hLc : 0 < Lc) (hkT : 0 < kT) :
    HasDerivAt (fun Lp => WD.b f Lp Lc kT) (WD.db_dLp f Lp Lc kT) Lp := by
  apply HasDerivAt.congr_deriv
  · simp only [WD.b, RealLike.sq, RealLike.cube]
    deriv_auto
    all_goals side_goal
  · simp only [WD.db_dLp, RealLike.sq, RealLike.cube]
    rat_close

theorem WD.b_Lc (f Lp Lc kT : ℝ) (hLp : 0 < Lp) (hLc : 0 < Lc) (hkT : 0 < kT) :
    HasDerivAt (fun Lc => WD.b f Lp Lc kT) (WD.db_dLc f Lp Lc kT) Lc := by
  apply HasDerivAt.congr_deriv
  · simp only [WD.b, RealLike.sq, RealLike.cube]
    deriv_auto
    all_goals side_goal
  · simp only [WD.db_dLc, RealLike.sq, RealLike.cube]
    rat_close

theorem WD.b_kT (f Lp Lc kT : ℝ) (hLp : 0 < Lp) (hLc : 0 < Lc) (hkT : 0 < kT) :
    HasDerivAt (fun kT => WD.b f Lp Lc kT) (WD.db_dkT f Lp Lc kT) kT := by
  apply HasDerivAt.congr_deriv
  · simp only [WD.b, RealLike.sq, RealLike.cube]
    deriv_auto
    all_goals side_goal
  · simp only [WD.db_dkT, RealLike.sq, RealLike.cube]
    rat_close

theorem WD.b_f (f Lp Lc kT : ℝ) (hLp : 0 < Lp) (hLc : 0 < Lc) (hkT : 0 < kT) :
    HasDerivAt (fun f => WD.b f Lp Lc kT) (WD.db_df f Lp Lc kT) f := by
  apply HasDerivAt.congr_deriv
  · simp only [WD.b, RealLike.sq, RealLike.cube]
    deriv_auto
    all_goals side_goal
  · simp only [WD.db_df, RealLike.sq, RealLike.cube]
    rat_close

theorem WD.c_Lp (f Lp Lc kT : ℝ) (hLp : 0 < Lp) (hLc : 0 < Lc) (hkT : 0 < kT) :
    HasDerivAt (fun Lp => WD.c f Lp Lc kT) (WD.dc_dLp f Lp Lc kT) Lp := by
  apply HasDerivAt.congr_deriv
  · simp only [WD.c, RealLike.sq, RealLike.cube]
    deriv_auto
    all_goals side_goal
  · simp only [WD.dc_dLp, RealLike.sq, RealLike.cube]
    rat_close

theorem WD.c_Lc (f Lp Lc kT : ℝ) (hLp : 0 < Lp) (hLc : 0 < Lc) (hkT : 0 < kT) :
    HasDerivAt (fun Lc => WD.c f Lp Lc kT) (WD.dc_dLc f Lp Lc kT) Lc := by
  apply HasDerivAt.congr_deriv
  · simp only [WD.c, RealLike.sq, RealLike.cube]
    deriv_auto
    all_goals side_goal
  · simp only [WD.dc_dLc, RealLike.sq, RealLike.cube]
    rat_close

theorem WD.c_kT (f Lp Lc kT : ℝ) (hLp : 0 < Lp) (hLc : 0 < Lc) (hkT : 0 < kT) :
    HasDerivAt (fun kT => WD.c f Lp Lc kT) (WD.dc_dkT f Lp Lc kT) kT := by
  apply HasDerivAt.congr_deriv
  · simp only [WD.c, RealLike.sq, RealLike.cube]
    deriv_auto
    all_goals side_goal
  · simp only [WD.dc_dkT, RealLike.sq, RealLike.cube]
    rat_close

theorem WD.c_f (f Lp Lc kT : ℝ) (hLp : 0 < Lp) (hLc : 0 < Lc) (hkT : 0 < kT) :
    HasDerivAt (fun f => WD.c f Lp Lc kT) (WD.dc_df f Lp Lc kT) f := by
  apply HasDerivAt.congr_deriv
  · simp only [WD.c, RealLike.sq, RealLike.cube]
    deriv_auto
    all_goals side_goal
  · simp only [WD.dc_df, RealLike.sq, RealLike.cube]
    rat_close

theorem EF.a_Lp (d Lp Lc St kT : ℝ) (hLp : 0 < Lp) (hLc : 0 < Lc) (hSt : 0 < St) (hkT : 0 < kT) :
    HasDerivAt (fun Lp => EF.a d Lp Lc St kT) (EF.da_dLp d Lp Lc St kT) Lp := by
  apply HasDerivAt.congr_deriv
  · simp only [EF.a, RealLike.sq, RealLike.cube, EF.denom1, EF.denom2, EF.quad]
    deriv_auto
    all_goals side_goal
  · simp only [EF.da_dLp, RealLike.sq, RealLike.cube, EF.denom1, EF.denom2, EF.quad]
    rat_close

theorem EF.a_Lc (d Lp Lc St kT : ℝ) (hLp : 0 < Lp) (hLc : 0 < Lc) (hSt : 0 < St) (hkT : 0 < kT) :
    HasDerivAt (fun Lc => EF.a d Lp Lc St kT) (EF.da_dLc d Lp Lc St kT) Lc := by
  apply HasDerivAt.congr_deriv
  · simp only [EF.a, RealLike.sq, RealLike.cube, EF.denom1, EF.denom2, EF.quad]
    deriv_auto
    all_goals side_goal
  · simp only [EF.da_dLc, RealLike.sq, RealLike.cube, EF.denom1, EF.denom2, EF.quad]
    rat_close

theorem EF.a_St (d Lp Lc St kT : ℝ) (hLp : 0 < Lp) (hLc : 0 < Lc) (hSt : 0 < St) (hkT : 0 < kT) :
    HasDerivAt (fun St => EF.a d Lp Lc St kT) (EF.da_dSt d Lp Lc St kT) St := by
  apply HasDerivAt.congr_deriv
  · simp only [EF.a, RealLike.sq, RealLike.cube, EF.denom1, EF.denom2, EF.quad]
    deriv_auto
    all_goals side_goal
  · simp only [EF.da_dSt, RealLike.sq, RealLike.cube, EF.denom1, EF.denom2, EF.quad]
    rat_close

theorem EF.a_kT (d Lp Lc St kT : ℝ) (hLp : 0 < Lp) (hLc : 0 < Lc) (hSt : 0 < St) (hkT : 0 < kT) :
    HasDerivAt (fun kT => EF.a d Lp Lc St kT) (EF.da_dkT d Lp Lc St kT) kT := by
  apply HasDerivAt.congr_deriv
  · simp only [EF.a, RealLike.sq, RealLike.cube, EF.denom1, EF.denom2, EF.quad]
    deriv_auto
    all_goals side_goal
  · simp only [EF.da_dkT, RealLike.sq, RealLike.cube, EF.denom1, EF.denom2, EF.quad]
    rat_close

theorem EF.a_d (d Lp Lc St kT : ℝ) (hLp : 0 < Lp) (hLc : 0 < Lc) (hSt : 0 < St) (hkT : 0 < kT) :
    HasDerivAt (fun d => EF.a d Lp Lc St kT) (EF.da_dd d Lp Lc St kT) d := by
  apply HasDerivAt.congr_deriv
  · simp only [EF.a, RealLike.sq, RealLike.cube, EF.denom1, EF.denom2, EF.quad]
    deriv_auto
    all_goals side_goal
  · simp only [EF.da_dd, RealLike.sq, RealLike.cube, EF.denom1, EF.denom2, EF.quad]
    rat_close

theorem EF.b_Lp (d Lp Lc St kT : ℝ) (hLp : 0 < Lp) (hLc : 0 < Lc) (hSt : 0 < St) (hkT : 0 < kT) :
    HasDerivAt (fun Lp => EF.b d Lp Lc St kT) (EF.db_dLp d Lp Lc St kT) Lp := by
  apply HasDerivAt.congr_deriv
  · simp only [EF.b, RealLike.sq, RealLike.cube, EF.denom1, EF.denom2, EF.quad]
    deriv_auto
    all_goals side_goal
  · simp only [EF.db_dLp, RealLike.sq, RealLike.cube, EF.denom1, EF.denom2, EF.quad]
    rat_close

theorem EF.b_Lc (d Lp Lc St kT : ℝ) (hLp : 0 < Lp) (hLc : 0 < Lc) (hSt : 0 < St) (hkT : 0 < kT) :
    HasDerivAt (fun Lc => EF.b d Lp Lc St kT) (EF.db_dLc d Lp Lc St kT) Lc := by
  apply HasDerivAt.congr_deriv
  · simp only [EF.b, RealLike.sq, RealLike.cube, EF.denom1, EF.denom2, EF.quad]
    deriv_auto
    all_goals side_goal
  · simp only [EF.db_dLc, RealLike.sq, RealLike.cube, EF.denom1, EF.denom2, EF.quad]
    rat_close

theorem EF.b_St (d Lp Lc St kT : ℝ) (hLp : 0 < Lp) (hLc : 0 < Lc) (hSt : 0 < St) (hkT : 0 < kT) :
    HasDerivAt (fun St => EF.b d Lp Lc St kT) (EF.db_dSt d Lp Lc St kT) St := by
  apply HasDerivAt.congr_deriv
  · simp only [EF.b, RealLike.sq, RealLike.cube, EF.denom1, EF.denom2, EF.quad]
    deriv_auto
    all_goals side_goal
  · simp only [EF.db_dSt, RealLike.sq, RealLike.cube, EF.denom1, EF.denom2, EF.quad]
    rat_close

theorem EF.b_kT (d Lp Lc St kT : ℝ) (hLp : 0 < Lp) (hLc : 0 < Lc) (hSt : 0 < St) (hkT : 0 < kT) :
    HasDerivAt (fun kT => EF.b d Lp Lc St kT) (EF.db_dkT d Lp Lc St kT) kT := by
  apply HasDerivAt.congr_deriv
  · simp only [EF.b, RealLike.sq, RealLike.cube, EF.denom1, EF.denom2, EF.quad]
    deriv_auto
    all_goals side_goal
  · simp only [EF.db_dkT, RealLike.sq, RealLike.cube, EF.denom1, EF.denom2, EF.quad]
    rat_close

theorem EF.b_d (d Lp Lc St kT : ℝ) (hLp : 0 < Lp) (hLc : 0 < Lc) (hSt : 0 < St) (hkT : 0 < kT) :
    HasDerivAt (fun d => EF.b d Lp Lc St kT) (EF.db_dd d Lp Lc St kT) d := by
  apply HasDerivAt.congr_deriv
  · simp only [EF.b, RealLike.sq, RealLike.cube, EF.denom1, EF.denom2, EF.quad]
    deriv_auto
    all_goals side_goal
  · simp only [EF.db_dd, RealLike.sq, RealLike.cube, EF.denom1, EF.denom2, EF.quad]
    rat_close

theorem EF.c_Lp (d Lp Lc St kT : ℝ) (hLp : 0 < Lp) (hLc : 0 < Lc) (hSt : 0 < St) (hkT : 0 < kT) :
    HasDerivAt (fun Lp => EF.c d Lp Lc St kT) (EF.dc_dLp d Lp Lc St kT) Lp := by
  apply HasDerivAt.congr_deriv
  · simp only [EF.c, RealLike.sq, RealLike.cube, EF.denom1, EF.denom2, EF.quad]
    deriv_auto
    all_goals side_goal
  · simp only [EF.dc_dLp, RealLike.sq, RealLike.cube, EF.denom1, EF.denom2, EF.quad]
    rat_close

theorem EF.c_Lc (d Lp Lc St kT : ℝ) (hLp : 0 < Lp) (hLc : 0 < Lc) (hSt : 0 < St) (hkT : 0 < kT) :
    HasDerivAt (fun Lc => EF.c d Lp Lc St kT) (EF.dc_dLc d Lp Lc St kT) Lc := by
  apply HasDerivAt.congr_deriv
  · simp only [EF.c, RealLike.sq, RealLike.cube, EF.denom1, EF.denom2, EF.quad]
    deriv_auto
    all_goals side_goal
  · simp only [EF.dc_dLc, RealLike.sq, RealLike.cube, EF.denom1, EF.denom2, EF.quad]
    rat_close

theorem EF.c_St (d Lp Lc St kT : ℝ) (hLp : 0 < Lp) (hLc : 0 < Lc) (hSt : 0 < St) (hkT : 0 < kT) :
    HasDerivAt (fun St => EF.c d Lp Lc St kT) (EF.dc_dSt d Lp Lc St kT) St := by
  apply HasDerivAt.congr_deriv
  · simp only [EF.c, RealLike.sq, RealLike.cube, EF.denom1, EF.denom2, EF.quad]
    deriv_auto
    all_goals side_goal
  · simp only [EF.dc_dSt, RealLike.sq, RealLike.cube, EF.denom1, EF.denom2, EF.quad]
    rat_close

theorem EF.c_kT (d Lp Lc St kT : ℝ) (hLp : 0 < Lp) (hLc : 0 < Lc) (hSt : 0 < St) (hkT : 0 < kT) :
    HasDerivAt (fun kT => EF.c d Lp Lc St kT) (EF.dc_dkT d Lp Lc St kT) kT := by
  apply HasDerivAt.congr_deriv
  · simp only [EF.c, RealLike.sq, RealLike.cube, EF.denom1, EF.denom2, EF.quad]
    deriv_auto
    all_goals side_goal
  · simp only [EF.dc_dkT, RealLike.sq, RealLike.cube, EF.denom1, EF.denom2, EF.quad]
    rat_close

theorem EF.c_d (d Lp Lc St kT : ℝ) (hLp : 0 < Lp) (hLc : 0 < Lc) (hSt : 0 < St) (hkT : 0 < kT) :
    HasDerivAt (fun d => EF.c d Lp Lc St kT) (EF.dc_dd d Lp Lc St kT) d := by
  apply HasDerivAt.congr_deriv
  · simp only [EF.c, RealLike.sq, RealLike.cube, EF.denom1, EF.denom2, EF.quad]
    deriv_auto
    all_goals side_goal
  · simp only [EF.dc_dd, RealLike.sq, RealLike.cube, EF.denom1, EF.denom2, EF.quad]
    rat_close

theorem ED.a_Lp (f Lp Lc St kT : ℝ) (hLp : 0 < Lp) (hLc : 0 < Lc) (hSt : 0 < St) (hkT : 0 < kT) :
    HasDerivAt (fun Lp => ED.a f Lp Lc St kT) (ED.da_dLp f Lp Lc St kT) Lp := by
  apply HasDerivAt.congr_deriv
  · simp only [ED.a, RealLike.sq, RealLike.cube, ED.cpoly, ED.bpoly]
    deriv_auto
    all_goals side_goal
  · simp only [ED.da_dLp, RealLike.sq, RealLike.cube, ED.cpoly, ED.bpoly]
    rat_close

theorem ED.a_Lc (f Lp Lc St kT : ℝ) (hLp : 0 < Lp) (hLc : 0 < Lc) (hSt : 0 < St) (hkT : 0 < kT) :
    HasDerivAt (fun Lc => ED.a f Lp Lc St kT) (ED.da_dLc f Lp Lc St kT) Lc := by
  apply HasDerivAt.congr_deriv
  · simp only [ED.a, RealLike.sq, RealLike.cube, ED.cpoly, ED.bpoly]
    deriv_auto
    all_goals side_goal
  · simp only [ED.da_dLc, RealLike.sq, RealLike.cube, ED.cpoly, ED.bpoly]
    rat_close

theorem ED.a_St (f Lp Lc St kT : ℝ) (hLp : 0 < Lp) (hLc : 0 < Lc) (hSt : 0 < St) (hkT : 0 < kT) :
    HasDerivAt (fun St => ED.a f Lp Lc St kT) (ED.da_dSt f Lp Lc St kT) St := by
  apply HasDerivAt.congr_deriv
  · simp only [ED.a, RealLike.sq, RealLike.cube, ED.cpoly, ED.bpoly]
    deriv_auto
    all_goals side_goal
  · simp only [ED.da_dSt, RealLike.sq, RealLike.cube, ED.cpoly, ED.bpoly]
    rat_close

theorem ED.a_kT (f Lp Lc St kT : ℝ) (hLp : 0 < Lp) (hLc : 0 < Lc) (hSt : 0 < St) (hkT : 0 < kT) :
    HasDerivAt (fun kT => ED.a f Lp Lc St kT) (ED.da_dkT f Lp Lc St kT) kT := by
  apply HasDerivAt.congr_deriv
  · simp only [ED.a, RealLike.sq, RealLike.cube, ED.cpoly, ED.bpoly]
    deriv_auto
    all_goals side_goal
  · simp only [ED.da_dkT, RealLike.sq, RealLike.cube, ED.cpoly, ED.bpoly]
    rat_close

theorem ED.a_f (f Lp Lc St kT : ℝ) (hLp : 0 < Lp) (hLc : 0 < Lc) (hSt : 0 < St) (hkT : 0 < kT) :
    HasDerivAt (fun f => ED.a f Lp Lc St kT) (ED.da_df f Lp Lc St kT) f := by
  apply HasDerivAt.congr_deriv
  · simp only [ED.a, RealLike.sq, RealLike.cube, ED.cpoly, ED.bpoly]
    deriv_auto
    all_goals side_goal
  · simp only [ED.da_df, RealLike.sq, RealLike.cube, ED.cpoly, ED.bpoly]
    rat_close

theorem ED.b_Lp (f Lp Lc St kT : ℝ) (hLp : 0 < Lp) (hLc : 0 < Lc) (hSt : 0 < St) (hkT : 0 < kT) :
    HasDerivAt (fun Lp => ED.b f Lp Lc St kT) (ED.db_dLp f Lp Lc St kT) Lp := by
  apply HasDerivAt.congr_deriv
  · simp only [ED.b, RealLike.sq, RealLike.cube, ED.cpoly, ED.bpoly]
    deriv_auto
    all_goals side_goal
  · simp only [ED.db_dLp, RealLike.sq, RealLike.cube, ED.cpoly, ED.bpoly]
    rat_close

theorem ED.b_Lc (f Lp Lc St kT : ℝ) (hLp : 0 < Lp) (hLc : 0 < Lc) (hSt : 0 < St) (hkT : 0 < kT) :
    HasDerivAt (fun Lc => ED.b f Lp Lc St kT) (ED.db_dLc f Lp Lc St kT) Lc := by
  apply HasDerivAt.congr_deriv
  · simp only [ED.b, RealLike.sq, RealLike.cube, ED.cpoly, ED.bpoly]
    deriv_auto
    all_goals side_goal
  · simp only [ED.db_dLc, RealLike.sq, RealLike.cube, ED.cpoly, ED.bpoly]
    rat_close

theorem ED.b_St (f Lp Lc St kT : ℝ) (hLp : 0 < Lp) (hLc : 0 < Lc) (hSt : 0 < St) (hkT : 0 < kT) :
    HasDerivAt (fun St => ED.b f Lp Lc St kT) (ED.db_dSt f Lp Lc St kT) St := by
  apply HasDerivAt.congr_deriv
  · simp only [ED.b, RealLike.sq, RealLike.cube, ED.cpoly, ED.bpoly]
    deriv_auto
    all_goals side_goal
  · simp only [ED.db_dSt, RealLike.sq, RealLike.cube, ED.cpoly, ED.bpoly]
    rat_close

theorem ED.b_kT (f Lp Lc St kT : ℝ) (hLp : 0 < Lp) (hLc : 0 < Lc) (hSt : 0 < St) (hkT : 0 < kT) :
    HasDerivAt (fun kT => ED.b f Lp Lc St kT) (ED.db_dkT f Lp Lc St kT) kT := by
  apply HasDerivAt.congr_deriv
  · simp only [ED.b, RealLike.sq, RealLike.cube, ED.cpoly, ED.bpoly]
    deriv_auto
    all_goals side_goal
  · simp only [ED.db_dkT, RealLike.sq, RealLike.cube, ED.cpoly, ED.bpoly]
    rat_close

theorem ED.b_f (f Lp Lc St kT : ℝ) (hLp : 0 < Lp) (hLc : 0 < Lc) (hSt : 0 < St) (hkT : 0 < kT) :
    HasDerivAt (fun f => ED.b f Lp Lc St kT) (ED.db_df f Lp Lc St kT) f := by
  apply HasDerivAt.congr_deriv
  · simp only [ED.b, RealLike.sq, RealLike.cube, ED.cpoly, ED.bpoly]
    deriv_auto
    all_goals side_goal
  · simp only [ED.db_df, RealLike.sq, RealLike.cube, ED.cpoly, ED.bpoly]
    rat_close

theorem ED.c_Lp (f Lp Lc St kT : ℝ) (hLp : 0 < Lp) (hLc : 0 < Lc) (hSt : 0 < St) (hkT : 0 < kT) :
    HasDerivAt (fun Lp => ED.c f Lp Lc St kT) (ED.dc_dLp f Lp Lc St kT) Lp := by
  apply HasDerivAt.congr_deriv
  · simp only [ED.c, RealLike.sq, RealLike.cube, ED.cpoly, ED.bpoly]
    deriv_auto
    all_goals side_goal
  · simp only [ED.dc_dLp, RealLike.sq, RealLike.cube, ED.cpoly, ED.bpoly]
    rat_close

theorem ED.c_Lc (f Lp Lc St kT : ℝ) (hLp : 0 < Lp) (hLc : 0 < Lc) (hSt : 0 < St) (hkT : 0 < kT) :
    HasDerivAt (fun Lc => ED.c f Lp Lc St kT) (ED.dc_dLc f Lp Lc St kT) Lc := by
  apply HasDerivAt.congr_deriv
  · simp only [ED.c, RealLike.sq, RealLike.cube, ED.cpoly, ED.bpoly]
    deriv_auto
    all_goals side_goal
  · simp only [ED.dc_dLc, RealLike.sq, RealLike.cube, ED.cpoly, ED.bpoly]
    rat_close

theorem ED.c_St (f Lp Lc St kT : ℝ) (hLp : 0 < Lp) (hLc : 0 < Lc) (hSt : 0 < St) (hkT : 0 < kT) :
    HasDerivAt (fun St => ED.c f Lp Lc St kT) (ED.dc_dSt f Lp Lc St kT) St := by
  apply HasDerivAt.congr_deriv
  · simp only [ED.c, RealLike.sq, RealLike.cube, ED.cpoly, ED.bpoly]
    deriv_auto
    all_goals side_goal
  · simp only [ED.dc_dSt, RealLike.sq, RealLike.cube, ED.cpoly, ED.bpoly]
    rat_close

theorem ED.c_kT (f Lp Lc St kT : ℝ) (hLp : 0 < Lp) (hLc : 0 < Lc) (hSt : 0 < St) (hkT : 0 < kT) :
    HasDerivAt (fun kT => ED.c f Lp Lc St kT) (ED.dc_dkT f Lp Lc St kT) kT := by
  apply HasDerivAt.congr_deriv
  · simp only [ED.c, RealLike.sq, RealLike.cube, ED.cpoly, ED.bpoly]
    deriv_auto
    all_goals side_goal
  · simp only [ED.dc_dkT, RealLike.sq, RealLike.cube, ED.cpoly, ED.bpoly]
    rat_close

theorem ED.c_f (f Lp Lc St kT : ℝ) (hLp : 0 < Lp) (hLc : 0 < Lc) (hSt : 0 < St) (hkT : 0 < kT) :
    HasDerivAt (fun f => ED.c f Lp Lc St kT) (ED.dc_df f Lp Lc St kT) f := by
  apply HasDerivAt.congr_deriv
  · simp only [ED.c, RealLike.sq, RealLike.cube, ED.cpoly, ED.bpoly]
    deriv_auto
    all_goals side_goal
  · simp only [ED.dc_df, RealLike.sq, RealLike.cube, ED.cpoly, ED.bpoly]
    rat_close
