import Verif.Props.C06
namespace Verif.C06
open Verif.Py

/-! ## Programs of selecting operations never show other data -/

/-- `g` is a window of `f`: rows `r0 ≤ r < r1`, columns `c0 ≤ c < c1` of it, in place and in order -/
def SubImg {α} (g f : List (List α)) : Prop := ∃ r0 r1 c0 c1, g = takeCols ((f.take r1).drop r0) c0 c1

def widest {α} (f : List (List α)) : Nat := f.foldr (fun r m => max r.length m) 0

theorem le_widest {α} (f : List (List α)) : ∀ r ∈ f, r.length ≤ widest f := by
  induction f with
  | nil => intro r hr; cases hr
  | cons x xs ih =>
    intro r hr
    simp only [widest, List.foldr_cons]
    rcases List.mem_cons.mp hr with rfl | h
    · omega
    · have := ih r h; unfold widest at this; omega

theorem takeCols_all {α} (f : List (List α)) (c : Nat) (h : ∀ r ∈ f, r.length ≤ c) : takeCols f 0 c = f := by
  unfold takeCols
  conv => rhs; rw [← List.map_id f]
  apply List.map_congr_left
  intro r hr
  simp [List.take_of_length_le (h r hr)]

/-- a window of rows only -/
theorem SubImg.rows {α} (f : List (List α)) (r0 r1 : Nat) : SubImg ((f.take r1).drop r0) f :=
  ⟨r0, r1, 0, widest f, (takeCols_all _ _ (fun r hr =>
    le_widest f r (List.mem_of_mem_take (List.mem_of_mem_drop hr)))).symm⟩

theorem SubImg.refl {α} (f : List (List α)) : SubImg f f := by
  have := SubImg.rows f 0 f.length
  simpa using this

/-- a window of columns only -/
theorem SubImg.cols {α} (f : List (List α)) (c0 c1 : Nat) : SubImg (takeCols f c0 c1) f :=
  ⟨0, f.length, c0, c1, by simp⟩

theorem takeCols_take {α} (f : List (List α)) (c0 c1 k : Nat) : (takeCols f c0 c1).take k = takeCols (f.take k) c0 c1 := by
  simp [takeCols, List.map_take]

theorem takeCols_drop {α} (f : List (List α)) (c0 c1 k : Nat) : (takeCols f c0 c1).drop k = takeCols (f.drop k) c0 c1 := by
  simp [takeCols, List.map_drop]

/-- a window of a window is a window -/
theorem SubImg.trans {α} {h g f : List (List α)} (hg : SubImg h g) (gf : SubImg g f) : SubImg h f := by
  obtain ⟨r0, r1, c0, c1, rfl⟩ := hg
  obtain ⟨s0, s1, d0, d1, rfl⟩ := gf
  refine ⟨s0 + r0, min s1 (s0 + r1), d0 + c0, min d1 (d0 + c1), ?_⟩
  rw [takeCols_take, takeCols_drop, takeCols_takeCols, crop_crop]

/-- the operations that only select: time slices (`[a:b]` in either form), crops, recalibration -/
def KOp.selects : KOp → Bool
  | .slice _ _ | .get _ | .crop _ _ | .cropF _ _ | .kbp _ => true
  | _ => false

theorem sliceTime_subImg (v w : KView) (a b : Int) (h : v.sliceTime a b = .view w) : SubImg w.img v.img := by
  unfold KView.sliceTime at h
  split at h
  · cases h
  · split at h
    · cases h
    · simp only at h
      split at h
      · cases h
      · split at h
        · cases h
        · injection h with h; rw [← h]; exact SubImg.cols _ _ _

theorem apply_subImg (v w : KView) (op : KOp) (hs : op.selects = true) (h : v.apply op = .view w) :
    SubImg w.img v.img := by
  cases op with
  | slice a b => exact sliceTime_subImg v w a b h
  | get item =>
    cases item with
    | scalar => cases h
    | window a b step =>
      simp only [KView.apply, KView.getitem] at h
      split at h
      · cases h
      · split at h
        · cases h
        · split at h
          · exact sliceTime_subImg v w _ _ h
          · cases h
  | crop lo hi =>
    simp only [KView.apply, KView.crop] at h
    split at h
    · cases h
    · split at h
      · cases h
      · injection h with h; rw [← h]; exact SubImg.rows _ _ _
  | cropF lo hi =>
    simp only [KView.apply, KView.cropF] at h
    split at h
    · cases h
    · split at h
      · cases h
      · injection h with h; rw [← h]; exact SubImg.rows _ _ _
  | kbp len =>
    simp only [KView.apply, KView.kbp] at h
    split at h
    · cases h
    · split at h
      · cases h
      · injection h with h; rw [← h]; exact SubImg.refl _
  | flip => cases hs
  | down tf pf => cases hs
  | downWith red tf pf => cases hs

/-- **For every program of selecting operations, of any length:** if it yields a kymograph at all, the image shown is
    a window of the source image — rows and lines of the source, in place and in order, never other data.  (Otherwise
    the result is the empty kymograph or one of the documented errors.) -/
theorem selecting_program_shows_window (prog : List KOp) (hsel : ∀ op ∈ prog, op.selects = true) (v w : KView)
    (h : runK v prog = .view w) : SubImg w.img v.img := by
  induction prog generalizing v with
  | nil => injection h with h; rw [← h]; exact SubImg.refl _
  | cons op ops ih =>
    simp only [runK] at h
    cases hop : v.apply op with
    | view v' =>
      rw [hop] at h
      simp only at h
      have h1 := apply_subImg v v' op (hsel op (by simp)) hop
      split at h
      · injection h with h; rw [← h]; exact h1
      · exact SubImg.trans (ih (fun o ho => hsel o (by simp [ho])) v' h) h1
    | empty => rw [hop] at h; cases h
    | err e => rw [hop] at h; cases h

/-- non-vacuity: `exKymo["110ns":][crop 1..2]` shows row 1, lines 1.. of the source -/
example : (match runK exKymo [.get (.window (.str "110ns") .none false), .crop 1 2] with
    | .view w => decide (values w.img = [[5, 6]]) | _ => false) = true := by decide +kernel

end Verif.C06
