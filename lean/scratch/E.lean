import Verif.Props.C06
namespace Verif.C06
open Verif.Py

/-- **Line time of a time slice.**  When the lines of the kymograph start `T` ns apart, every time slice that shows at
    least two lines reports the line time `T`; a slice of a single line reports the bare scan time of one line (there is
    no second line to measure a period from). -/
theorem slice_line_time (v : KView) (hu : v.processed = false) (hd : v.rangesDefined = true) (T : Int)
    (hT : ∀ k (h : k + 1 < (lineRanges v.img v.delta).length),
      (lineRanges v.img v.delta)[k + 1].1 - (lineRanges v.img v.delta)[k].1 = T)
    (a b : Int) (w : KView) (hw : v.sliceTime a b = .view w) :
    (searchsortedLeft (starts v) a + 2 ≤ searchsortedLeft (starts v) b → w.lineTimeNs = (T : Rat)) ∧
    (searchsortedLeft (starts v) b = searchsortedLeft (starts v) a + 1 → w.lineTimeNs = v.scanTimeNs) := by
  have hle : searchsortedLeft (starts v) b ≤ (lineRanges v.img v.delta).length := by
    have := searchsortedLeft_le_length (starts v) b
    simpa [starts] using this
  have hlt : w.lineTimeNs = (match ((lineRanges v.img v.delta).take (searchsortedLeft (starts v) b)).drop
        (searchsortedLeft (starts v) a) with
      | r0 :: r1 :: _ => ((r1.1 - r0.1 : Int) : Rat)
      | _ => v.scanTimeNs) := by
    unfold KView.sliceTime at hw
    simp only [hu, Bool.false_eq_true, ↓reduceIte, KView.ranges, hd] at hw
    split at hw
    · cases hw
    · split at hw
      · cases hw
      · injection hw with hw
        subst hw
        rfl
  generalize searchsortedLeft (starts v) a = i at *
  generalize searchsortedLeft (starts v) b = j at *
  constructor
  · intro h2
    have hl : (((lineRanges v.img v.delta).take j).drop i) = (lineRanges v.img v.delta)[i] :: (lineRanges v.img v.delta)[i + 1] :: ((lineRanges v.img v.delta).take j).drop (i + 2) := by
      have l1 : i < ((lineRanges v.img v.delta).take j).length := by simp; omega
      have l2 : i + 1 < ((lineRanges v.img v.delta).take j).length := by simp; omega
      rw [List.drop_eq_getElem_cons l1, List.drop_eq_getElem_cons l2]
      simp [List.getElem_take]
    rw [hlt, hl]
    simp only
    rw [hT i (by omega)]
  · intro h1
    have hl : (((lineRanges v.img v.delta).take j).drop i) = [(lineRanges v.img v.delta)[i]] := by
      have l1 : i < ((lineRanges v.img v.delta).take j).length := by simp; omega
      rw [List.drop_eq_getElem_cons l1]
      have : ((lineRanges v.img v.delta).take j).drop (i + 1) = [] := by
        apply List.drop_eq_nil_of_le; simp; omega
      simp [this, List.getElem_take]
    rw [hlt, hl]

/-- non-vacuity: the three lines of `exKymo` start 100 ns apart; `kymo[150:]` shows two of them and reports 100 ns -/
example : (match exKymo.sliceTime 150 1000 with | .view w => decide (w.lineTimeNs = 100 ∧ w.numLines = 2) | _ => false) = true := by
  decide +kernel

end Verif.C06
