import Verif.Props.C06
namespace Verif.C06
open Verif.Py

/-! ## Compositions at the level of views -/

/-- **Crop of a crop.**  Two successive `crop_by_distance` calls show the rows the index arithmetic of the two row
    windows gives (`crop_crop`), keep the pixel size, and the position offsets add up. -/
theorem crop_crop_view (v w u : KView) (lo1 hi1 lo2 hi2 : Rat) (h1l : 0 ≤ lo1) (h1h : 0 ≤ hi1) (h2l : 0 ≤ lo2)
    (h2h : 0 ≤ hi2) (hpx : 0 < v.px) (hw : v.crop lo1 hi1 = .view w) (hu : w.crop lo2 hi2 = .view u) :
    u.img = (v.img.take (min (hi1 / v.px).ceil.toNat ((lo1 / v.px).floor.toNat + (hi2 / v.px).ceil.toNat))).drop
      ((lo1 / v.px).floor.toNat + (lo2 / v.px).floor.toNat) ∧
    u.px = v.px ∧
    u.offset = v.offset + (((lo1 / v.px).floor + (lo2 / v.px).floor : Int) : Rat) * v.px := by
  have c1 := crop_rows v lo1 hi1 h1l h1h hpx
  simp only [hw] at c1
  obtain ⟨_, _, hwi, _, hwp, hwo⟩ := c1
  have c2 := crop_rows w lo2 hi2 h2l h2h (by rw [hwp]; exact hpx)
  simp only [hu] at c2
  obtain ⟨_, _, hui, _, hup, huo⟩ := c2
  rw [hwp] at hui hup huo
  refine ⟨?_, hup, ?_⟩
  · rw [hui, hwi]; exact crop_crop v.img _ _ _ _
  · rw [huo, hwo, Rat.intCast_add, Rat.add_mul, Rat.add_assoc]

/-- non-vacuity of `crop_crop_view` -/
example : (match exKymo.crop 0 2 with
    | .view w => (match w.crop 1 2 with | .view u => decide (values u.img = [[4, 5, 6]]) | _ => false)
    | _ => false) = true := by decide +kernel

/-- **Flip of a flip** shows the photon counts of the original. -/
theorem flip_flip_view (v : KView) (n : Nat) (hr : Rect v.img n) :
    (match v.flip with
     | .view w => (match w.flip with | .view u => values u.img = values v.img | _ => False)
     | _ => False) := by
  have h1 := flip_rows v n hr
  cases hf : v.flip with
  | view w =>
    rw [hf] at h1
    simp only
    have hrw : Rect w.img n := by
      unfold KView.flip at hf
      injection hf with hf
      rw [← hf]
      intro r hrm
      simp only at hrm
      obtain ⟨k, hk, rfl⟩ := List.mem_iff_getElem.mp hrm
      simp only [List.getElem_zipWith, List.length_zipWith]
      simp only [List.length_zipWith, List.length_reverse, Nat.min_self] at hk
      rw [hr _ (List.getElem_mem _), hr _ (List.mem_reverse.mp (List.getElem_mem _))]; simp
    have h2 := flip_rows w n hrw
    cases hf2 : w.flip with
    | view u =>
      rw [hf2] at h2
      simp only
      rw [h2.1, h1.1, List.reverse_reverse]
    | empty => rw [hf2] at h2; exact h2
    | err e => rw [hf2] at h2; exact h2
  | empty => rw [hf] at h1; exact h1
  | err e => rw [hf] at h1; exact h1

/-- **Slice of a slice of frames / rows / columns, any bounds** (negative, `None`, out of range): the composition of two
    Python slices is the window computed by index arithmetic on the normalised bounds. -/
theorem pySliceOpt_pySliceOpt {α} (l : List α) (a b c d : Option Int) :
    pySliceOpt (pySliceOpt l a b) c d =
      let l1 := pyNorm l.length (a.getD 0)
      let u1 := pyNorm l.length (b.getD l.length)
      let m := (pySliceOpt l a b).length
      (l.take (min u1 (l1 + pyNorm m (d.getD m)))).drop (l1 + pyNorm m (c.getD 0)) := by
  simp only [pySliceOpt, pySlice]
  exact crop_crop l _ _ _ _

end Verif.C06
