import Verif.Props.C06
import scratch.H
namespace Verif.C06
open Verif.Py

theorem stamp_view (r : SRes) (w : SView) (h : r.stamp = .view w) : ∃ w', r = .view w' ∧ w.frames = w'.frames := by
  cases r with
  | view w' => injection h with h; exact ⟨w', rfl, by rw [← h]; rfl⟩
  | empty => cases h
  | err e => cases h

theorem index_frames (v w : SView) (i : Int) (y0 y1 x0 x1 : Option Int) (h : v.index i y0 y1 x0 x1 = .view w) :
    ∀ g ∈ w.frames, ∃ f ∈ v.frames, g = cropFrame f y0 y1 x0 x1 := by
  rw [scan_index_refines] at h
  split at h
  · cases h
  · rename_i f hf
    split at h
    · cases h
    · injection h with h
      rw [← h]
      intro g hg
      simp only [List.mem_singleton] at hg
      refine ⟨f, ?_, hg⟩
      unfold pyIndex at hf
      split at hf
      · split at hf
        · cases hf
        · exact List.mem_of_getElem? hf
      · exact List.mem_of_getElem? hf

theorem slice_frames (v w : SView) (a b y0 y1 x0 x1 : Option Int) (h : v.slice a b y0 y1 x0 x1 = .view w) :
    ∀ g ∈ w.frames, ∃ f ∈ v.frames, g = cropFrame f y0 y1 x0 x1 := by
  rw [scan_slice_refines] at h
  split at h
  · cases h
  · split at h
    · cases h
    · injection h with h
      rw [← h]
      intro g hg
      simp only [List.mem_map] at hg
      obtain ⟨f, hf, rfl⟩ := hg
      exact ⟨f, mem_pySliceOpt hf, rfl⟩

theorem apply_frames (v w : SView) (op : SOp) (h : v.apply op = .view w) :
    ∀ g ∈ w.frames, ∃ f ∈ v.frames, ∃ y0 y1 x0 x1, g = cropFrame f y0 y1 x0 x1 := by
  intro g hg
  cases op with
  | cropxy y0 y1 x0 x1 =>
    obtain ⟨f, hf, e⟩ := slice_frames v w _ _ _ _ _ _ h g hg
    exact ⟨f, hf, _, _, _, _, e⟩
  | index i y0 y1 x0 x1 =>
    obtain ⟨w', hw', hfr⟩ := stamp_view _ w h
    obtain ⟨f, hf, e⟩ := index_frames v w' _ _ _ _ _ hw' g (hfr ▸ hg)
    exact ⟨f, hf, _, _, _, _, e⟩
  | slice a b y0 y1 x0 x1 =>
    obtain ⟨w', hw', hfr⟩ := stamp_view _ w h
    obtain ⟨f, hf, e⟩ := slice_frames v w' _ _ _ _ _ _ hw' g (hfr ▸ hg)
    exact ⟨f, hf, _, _, _, _, e⟩
  | sliceT a b =>
    obtain ⟨w', hw', hfr⟩ := stamp_view _ w h
    obtain ⟨f, hf, e⟩ := slice_frames v w' _ _ _ _ _ _ hw' g (hfr ▸ hg)
    exact ⟨f, hf, _, _, _, _, e⟩
  | get fi sp =>
    simp only [SView.apply, SView.getitem] at h
    split at h
    · cases h
    · split at h
      · cases h
      · split at h
        · obtain ⟨w', hw', hfr⟩ := stamp_view _ w h
          obtain ⟨f, hf, e⟩ := index_frames v w' _ _ _ _ _ hw' g (hfr ▸ hg)
          exact ⟨f, hf, _, _, _, _, e⟩
        · obtain ⟨w', hw', hfr⟩ := stamp_view _ w h
          obtain ⟨f, hf, e⟩ := slice_frames v w' _ _ _ _ _ _ hw' g (hfr ▸ hg)
          exact ⟨f, hf, _, _, _, _, e⟩

/-- on a rectangular frame the pixel crop is a window (negative / open / out-of-range bounds normalised as Python does) -/
theorem cropFrame_subImg (f : Frame) (n : Nat) (hr : Rect f n) (y0 y1 x0 x1 : Option Int) :
    SubImg (cropFrame f y0 y1 x0 x1) f ∧ ∃ m, Rect (cropFrame f y0 y1 x0 x1) m := by
  have e : cropFrame f y0 y1 x0 x1 =
      takeCols ((f.take (pyNorm f.length (y1.getD f.length))).drop (pyNorm f.length (y0.getD 0)))
        (pyNorm n (x0.getD 0)) (pyNorm n (x1.getD n)) := by
    unfold cropFrame takeCols
    simp only [pySliceOpt, pySlice]
    apply List.map_congr_left
    intro row hrow
    rw [hr row (List.mem_of_mem_take (List.mem_of_mem_drop hrow))]
  refine ⟨⟨_, _, _, _, e⟩, min (pyNorm n (x1.getD n)) n - pyNorm n (x0.getD 0), ?_⟩
  rw [e]
  intro row hrow
  simp only [takeCols, List.mem_map] at hrow
  obtain ⟨r, hrm, rfl⟩ := hrow
  simp [hr r (List.mem_of_mem_take (List.mem_of_mem_drop hrm))]

/-- **For every program of scan operations, of any length** (frame indices and slices with any bounds, time windows,
    items as the user writes them, pixel crops): if it yields a scan at all, every frame shown is a window — rows and
    columns in place and in order — of one of the source's frames. -/
theorem scan_program_shows_windows (prog : List SOp) (v w : SView) (hrect : ∀ f ∈ v.frames, ∃ n, Rect f n)
    (h : runS v prog = .view w) :
    (∀ g ∈ w.frames, ∃ f ∈ v.frames, SubImg g f) ∧ ∀ g ∈ w.frames, ∃ n, Rect g n := by
  induction prog generalizing v with
  | nil =>
    injection h with h; rw [← h]
    exact ⟨fun g hg => ⟨g, hg, SubImg.refl g⟩, hrect⟩
  | cons op ops ih =>
    simp only [runS] at h
    cases hop : v.apply op with
    | view v' =>
      rw [hop] at h
      simp only at h
      have h1 := apply_frames v v' op hop
      have hrect' : ∀ f ∈ v'.frames, ∃ n, Rect f n := by
        intro g hg
        obtain ⟨f, hf, y0, y1, x0, x1, rfl⟩ := h1 g hg
        obtain ⟨n, hn⟩ := hrect f hf
        exact (cropFrame_subImg f n hn y0 y1 x0 x1).2
      obtain ⟨ih1, ih2⟩ := ih v' hrect' h
      refine ⟨?_, ih2⟩
      intro g hg
      obtain ⟨f', hf', hs'⟩ := ih1 g hg
      obtain ⟨f, hf, y0, y1, x0, x1, rfl⟩ := h1 f' hf'
      obtain ⟨n, hn⟩ := hrect f hf
      exact ⟨f, hf, SubImg.trans hs' (cropFrame_subImg f n hn y0 y1 x0 x1).1⟩
    | empty => rw [hop] at h; cases h
    | err e => rw [hop] at h; cases h

/-- non-vacuity: `scan[1:]["…":, :, 1:]` on the three frames of `exScan3` -/
example : (match runS exScan3 [.slice (some 1) none none none none none, .get (.slice (.num (-1)) .none false) [.slice none none false, .slice (some 1) none false]] with
    | .view w => decide (w.frames.map values = [[[3]]]) | _ => false) = true := by decide +kernel

end Verif.C06
