import Verif.Props.C06
import scratch.H
import scratch.I
import scratch.G
namespace Verif.C06
open Verif.Py

theorem stamp_fastRows (r : SRes) (w : SView) (h : r.stamp = .view w) : ∃ w', r = .view w' ∧ w.fastRows = w'.fastRows := by
  cases r with
  | view w' => injection h with h; exact ⟨w', rfl, by rw [← h]; rfl⟩
  | empty => cases h
  | err e => cases h

theorem index_fastRows (v w : SView) (i : Int) (y0 y1 x0 x1 : Option Int) (h : v.index i y0 y1 x0 x1 = .view w) :
    w.fastRows = v.fastRows := by
  rw [scan_index_refines] at h
  split at h
  · cases h
  · split at h
    · cases h
    · injection h with h; rw [← h]

theorem slice_fastRows (v w : SView) (a b y0 y1 x0 x1 : Option Int) (h : v.slice a b y0 y1 x0 x1 = .view w) :
    w.fastRows = v.fastRows := by
  rw [scan_slice_refines] at h
  split at h
  · cases h
  · split at h
    · cases h
    · injection h with h; rw [← h]

theorem apply_fastRows (v w : SView) (op : SOp) (h : v.apply op = .view w) : w.fastRows = v.fastRows := by
  cases op with
  | cropxy y0 y1 x0 x1 => exact slice_fastRows v w _ _ _ _ _ _ h
  | index i y0 y1 x0 x1 =>
    obtain ⟨w', hw', e⟩ := stamp_fastRows _ w h
    rw [e]; exact index_fastRows v w' _ _ _ _ _ hw'
  | slice a b y0 y1 x0 x1 =>
    obtain ⟨w', hw', e⟩ := stamp_fastRows _ w h
    rw [e]; exact slice_fastRows v w' _ _ _ _ _ _ hw'
  | sliceT a b =>
    obtain ⟨w', hw', e⟩ := stamp_fastRows _ w h
    rw [e]; exact slice_fastRows v w' _ _ _ _ _ _ hw'
  | get fi sp =>
    simp only [SView.apply, SView.getitem] at h
    split at h
    · cases h
    · split at h
      · cases h
      · split at h
        · obtain ⟨w', hw', e⟩ := stamp_fastRows _ w h
          rw [e]; exact index_fastRows v w' _ _ _ _ _ hw'
        · obtain ⟨w', hw', e⟩ := stamp_fastRows _ w h
          rw [e]; exact slice_fastRows v w' _ _ _ _ _ _ hw'

theorem runS_fastRows (prog : List SOp) (v w : SView) (h : runS v prog = .view w) : w.fastRows = v.fastRows := by
  induction prog generalizing v with
  | nil => injection h with h; rw [← h]
  | cons op ops ih =>
    simp only [runS] at h
    cases hop : v.apply op with
    | view v' => rw [hop] at h; simp only at h; rw [ih v' h, apply_fastRows v v' op hop]
    | empty => rw [hop] at h; cases h
    | err e => rw [hop] at h; cases h

/-- **Pixel time after any program of scan operations**, for either orientation of the fast axis: if fast-axis
    neighbours of the source are `pt` apart, every scan the program yields that can report a pixel time reports `pt`
    (extends `scan_slice_keeps_fast_step` from one frame slice to all programs, time windows and user-style items
    included). -/
theorem scan_program_pixel_time (prog : List SOp) (v w : SView) (hrect : ∀ f ∈ v.frames, ∃ n, Rect f n)
    (h : runS v prog = .view w) (pt : Int) (hstep : FastStep v pt) (t : Int) (ht : w.pixelTime = some t) : t = pt := by
  refine scan_pixel_time_of_fast_step w pt t ?_ ht
  have hfr := runS_fastRows prog v w h
  obtain ⟨hwin, _⟩ := scan_program_shows_windows prog v w hrect h
  intro g hg r c p q hp hq
  obtain ⟨f, hf, r0, r1, c0, c1, rfl⟩ := hwin g hg
  have hp' := pixAt_window f r0 r1 c0 c1 r c p hp
  have hq' := pixAt_window f r0 r1 c0 c1 _ _ q hq
  refine hstep f hf (r0 + r) (c0 + c) p q hp' ?_
  rw [hfr] at hq'
  rw [← hq']
  cases v.fastRows <;> simp only [Bool.false_eq_true, ↓reduceIte] <;> congr 1

end Verif.C06
