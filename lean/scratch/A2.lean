import Verif.Props.C06
namespace Verif.C06
open Verif.Py

/-- the lines lie inside `[t0, t1]`, each has positive length, and an earlier line ends before a later one starts -/
def RangesOk (rs : List (Int × Int)) (t0 t1 : Int) : Prop :=
  rs.Pairwise (fun r r' => r.2 ≤ r'.1) ∧ ∀ r ∈ rs, t0 ≤ r.1 ∧ r.1 < r.2 ∧ r.2 ≤ t1

/-- the window invariant of a kymograph view: its own `[start, stop]` contains every line it shows -/
def KWf (v : KView) : Prop := RangesOk (lineRanges v.img v.delta) v.tStart v.tStop

theorem rangesOk_sorted (rs : List (Int × Int)) (t0 t1 : Int) (h : RangesOk rs t0 t1) :
    (rs.map (·.1)).Pairwise (· ≤ ·) := by
  rw [List.pairwise_map]
  refine List.Pairwise.imp_of_mem ?_ h.1
  intro r r' hr _ hle
  have := (h.2 r hr).2.1
  omega

theorem mem_take_drop {α} (l : List α) (i j : Nat) (x : α) (hx : x ∈ (l.take j).drop i) :
    ∃ k, ∃ (hk : k < l.length), i ≤ k ∧ k < j ∧ l[k] = x := by
  obtain ⟨k, hk, rfl⟩ := List.mem_iff_getElem.mp hx
  simp only [List.length_drop, List.length_take] at hk
  refine ⟨i + k, by omega, by omega, by omega, ?_⟩
  simp [List.getElem_drop, List.getElem_take]

theorem rangesOk_window (rs : List (Int × Int)) (t0 t1 : Int) (h : RangesOk rs t0 t1) (i j : Nat) (hij : i < j)
    (hj : j ≤ rs.length) (b : Int) :
    let newStart := ((rs.map (·.1))[i]?).getD 0
    let newStop := if j < (rs.map (·.1)).length then ((rs.map (·.1))[j]?).getD 0
      else max (min b t1) ((rs.getLast?.map (·.2)).getD 0)
    RangesOk ((rs.take j).drop i) newStart newStop ∧ t0 ≤ newStart ∧ newStop ≤ t1 ∧
      (((rs.take j).drop i).head?.map (·.1)) = some newStart := by
  intro newStart newStop
  have hi : i < rs.length := by omega
  have hpw := List.pairwise_iff_getElem.mp h.1
  have hS : newStart = rs[i].1 := by
    simp only [newStart, List.getElem?_map, List.getElem?_eq_getElem hi, Option.map_some, Option.getD_some]
  have hmi := h.2 rs[i] (List.getElem_mem hi)
  have hlastidx : rs.length - 1 < rs.length := by omega
  have hlast : (rs.getLast?.map (·.2)).getD 0 = rs[rs.length - 1].2 := by
    rw [List.getLast?_eq_getElem?, List.getElem?_eq_getElem hlastidx]; rfl
  have hml := h.2 rs[rs.length - 1] (List.getElem_mem hlastidx)
  have hT : (j < rs.length → newStop = (rs[j]?.map (·.1)).getD 0) ∧
      (¬ j < rs.length → newStop = max (min b t1) rs[rs.length - 1].2) := by
    constructor
    · intro hlt; simp only [newStop, List.length_map, hlt, ↓reduceIte, List.getElem?_map]
    · intro hge; simp only [newStop, List.length_map, hge, ↓reduceIte, hlast]
  refine ⟨⟨(h.1.sublist (List.take_sublist j rs)).sublist (List.drop_sublist i _), ?_⟩, ?_, ?_, ?_⟩
  · intro r hr
    obtain ⟨k, hk, hik, hkj, rfl⟩ := mem_take_drop rs i j r hr
    have hmk := h.2 rs[k] (List.getElem_mem hk)
    refine ⟨?_, hmk.2.1, ?_⟩
    · rw [hS]
      by_cases hki : k = i
      · subst hki; omega
      · have := hpw i k hi hk (by omega); omega
    · by_cases hlt : j < rs.length
      · rw [hT.1 hlt, List.getElem?_eq_getElem hlt]
        have := hpw k j hk hlt hkj
        simpa using this
      · rw [hT.2 hlt]
        by_cases hkl : k = rs.length - 1
        · subst hkl; omega
        · have := hpw k (rs.length - 1) hk hlastidx (by omega); omega
  · rw [hS]; omega
  · by_cases hlt : j < rs.length
    · rw [hT.1 hlt, List.getElem?_eq_getElem hlt]
      have := h.2 rs[j] (List.getElem_mem hlt)
      simp only [Option.map_some, Option.getD_some]; omega
    · rw [hT.2 hlt]; omega
  · rw [hS, List.head?_drop, List.getElem?_take, if_pos hij, List.getElem?_eq_getElem hi]; rfl


/-- what a time slice that shows something is made of -/
theorem sliceTime_view (v : KView) (hu : v.processed = false) (hd : v.rangesDefined = true) (a b : Int) (w : KView)
    (hw : v.sliceTime a b = .view w) :
    searchsortedLeft (starts v) a < searchsortedLeft (starts v) b ∧
    w.img = takeCols v.img (searchsortedLeft (starts v) a) (searchsortedLeft (starts v) b) ∧
    w.delta = v.delta ∧ w.processed = false ∧ w.rangesDefined = true ∧
    w.tStart = ((starts v)[searchsortedLeft (starts v) a]?).getD 0 ∧
    w.tStop = (if searchsortedLeft (starts v) b < (starts v).length then ((starts v)[searchsortedLeft (starts v) b]?).getD 0
      else max (min b v.tStop) (((lineRanges v.img v.delta).getLast?.map (·.2)).getD 0)) := by
  have hle := searchsortedLeft_le_length (starts v) b
  unfold KView.sliceTime at hw
  simp only [hu, Bool.false_eq_true, ↓reduceIte, KView.ranges, hd] at hw
  split at hw
  · cases hw
  · split at hw
    · cases hw
    · rename_i h1 h2
      have h1' : ¬ searchsortedLeft (starts v) a = (starts v).length := h1
      have h2' : ¬ searchsortedLeft (starts v) a ≥ searchsortedLeft (starts v) b := h2
      injection hw with hw
      subst hw
      refine ⟨by omega, rfl, rfl, rfl, rfl, rfl, rfl⟩

/-- **The time window of a time slice.**  If the kymograph's `[start, stop]` contains its lines (in order, not
    overlapping), then so does the slice's; the slice starts exactly with its first line, its window lies inside the
    parent's, and its line ranges are the parent's ranges of the selected lines. -/
theorem slice_window (v : KView) (n : Nat) (hr : Rect v.img n) (hne : v.img ≠ [])
    (hu : v.processed = false) (hd : v.rangesDefined = true) (wf : KWf v) (a b : Int) (w : KView)
    (hw : v.sliceTime a b = .view w) :
    KWf w ∧ v.tStart ≤ w.tStart ∧ w.tStop ≤ v.tStop ∧ (starts w).head? = some w.tStart ∧
    lineRanges w.img w.delta =
      ((lineRanges v.img v.delta).take (searchsortedLeft (starts v) b)).drop (searchsortedLeft (starts v) a) := by
  obtain ⟨hij, himg, hdelta, _, _, hs0, hs1⟩ := sliceTime_view v hu hd a b w hw
  have hlen : (starts v).length = n := by
    cases himg' : v.img with
    | nil => exact absurd himg' hne
    | cons r0 rs =>
      have : r0.length = n := hr r0 (by rw [himg']; simp)
      simp [starts, lineRanges, himg', numCols, this]
  have hlej := searchsortedLeft_le_length (starts v) b
  have hrs : lineRanges w.img w.delta =
      ((lineRanges v.img v.delta).take (searchsortedLeft (starts v) b)).drop (searchsortedLeft (starts v) a) := by
    rw [himg, hdelta]; exact slice_ranges_sublist v.img n hr v.delta _ _ (by omega)
  have hlen' : (lineRanges v.img v.delta).length = (starts v).length := by simp [starts]
  have key := rangesOk_window (lineRanges v.img v.delta) v.tStart v.tStop wf _ _ hij (by omega) b
  simp only at key
  obtain ⟨k1, k2, k3, k4⟩ := key
  refine ⟨?_, ?_, ?_, ?_, hrs⟩
  · unfold KWf; rw [hrs, hs0, hs1]; exact k1
  · rw [hs0]; exact k2
  · rw [hs1]; exact k3
  · rw [hs0]; simp only [starts, hrs, List.head?_map]; exact k4

/-- `kymo[:]` (both bounds `None`) shows every line: the image is unchanged. -/
theorem getitem_all (v : KView) (n : Nat) (hr : Rect v.img n) (hne : v.img ≠ []) (hn : 0 < n)
    (hu : v.processed = false) (hd : v.rangesDefined = true) (wf : KWf v) :
    (match v.getitem (.window .none .none false) with | .view w => w.img = v.img | _ => False) := by
  have hlen : (starts v).length = n := by
    cases himg' : v.img with
    | nil => exact absurd himg' hne
    | cons r0 rs =>
      have : r0.length = n := hr r0 (by rw [himg']; simp)
      simp [starts, lineRanges, himg', numCols, this]
  have hsorted : (starts v).Pairwise (· ≤ ·) := rangesOk_sorted _ _ _ wf
  have hmem : ∀ k (hk : k < (starts v).length), v.tStart ≤ (starts v)[k] ∧ (starts v)[k] < v.tStop := by
    intro k hk
    have hk' : k < (lineRanges v.img v.delta).length := by simpa [starts] using hk
    have := wf.2 _ (List.getElem_mem hk')
    have e : (starts v)[k] = (lineRanges v.img v.delta)[k].1 := by simp [starts]
    rw [e]; omega
  have h0 : searchsortedLeft (starts v) v.tStart = 0 := by
    apply searchsortedLeft_unique (starts v) hsorted v.tStart 0 (Nat.zero_le _)
    intro k hk; have := hmem k hk; omega
  have h1 : searchsortedLeft (starts v) v.tStop = n := by
    apply searchsortedLeft_unique (starts v) hsorted v.tStop n (Nat.le_of_eq hlen.symm)
    intro k hk; have := hmem k hk; omega
  have hg : v.getitem (.window .none .none false) = v.sliceTime v.tStart v.tStop := by
    simp [KView.getitem, hu, KView.resolve]
  have h := slice_lines v hu hd hsorted v.tStart v.tStop
  rw [hg]
  cases hres : v.sliceTime v.tStart v.tStop with
  | view w =>
    rw [hres] at h
    simp only
    rw [h.2.1, h0, h1]
    simp only [takeCols, List.drop_zero]
    conv => rhs; rw [← List.map_id v.img]
    apply List.map_congr_left
    intro r hrm
    rw [← hr r hrm]; simp
  | empty => rw [hres] at h; exact absurd (by omega : searchsortedLeft (starts v) v.tStart < searchsortedLeft (starts v) v.tStop) h.2
  | err e => rw [hres] at h; exact h.2

/-- non-vacuity of `KWf`: three lines of two pixels, window `[90, 400]`; `kymo["110ns":"-100ns"]` keeps the middle
    line and its window is `[200, 300]` -/
def exKymo : KView :=
  { img := [[⟨1, 100, 110⟩, ⟨2, 200, 210⟩, ⟨3, 300, 310⟩], [⟨4, 120, 130⟩, ⟨5, 220, 230⟩, ⟨6, 320, 330⟩]],
    rangesDefined := true, delta := 10, px := 1, unit := 0, pxUm := some 1, lineTimeNs := 100, scanTimeNs := 40,
    processed := false, offset := 0, tStart := 90, tStop := 400 }

example : KWf exKymo := by
  unfold KWf RangesOk exKymo
  decide

example : (match exKymo.getitem (.window (.str "20ns") (.str "-100ns") false) with
    | .view w => decide (values w.img = [[2], [5]] ∧ w.tStart = 200 ∧ w.tStop = 300)
    | _ => false) = true := by decide +kernel

end Verif.C06
