import Verif.Props.C06
namespace Verif.C06
open Verif.Py

/-! ## `Kymo.__getitem__` as the user calls it; the kymograph's own time window -/

/-- A scalar item or a slice with a step is refused with `IndexError` whatever the state of the kymograph; a processed
    kymograph refuses every other item with `NotImplementedError` — before the bounds are even looked at. -/
theorem getitem_validation (v : KView) (a b : KBound) :
    v.getitem .scalar = .err .indexError ∧
    v.getitem (.window a b true) = .err .indexError ∧
    (v.processed = true → v.getitem (.window a b false) = .err .notImplemented) := by
  refine ⟨rfl, rfl, ?_⟩
  intro hp
  simp [KView.getitem, hp]

/-- Resolution of the bounds: `None` is the kymograph's own start / stop, an integer is taken as it is, a time string
    that `Timeindex` reads as `ns` nanoseconds counts from the start (`ns ≥ 0`) or back from the stop (`ns < 0`), a
    string it does not accept is a `RuntimeError`; the lines are then selected by `sliceTime`, to which `slice_lines`,
    `slice_empty_iff`, `slice_compose` apply. -/
theorem getitem_resolves (v : KView) (hu : v.processed = false) (a b : KBound) :
    (∀ t, v.resolve t .none = some t) ∧ (∀ d t, v.resolve d (.ts t) = some t) ∧
    (∀ d s ns, C01.parseTime s = some ns → v.resolve d (.str s) = some (if ns ≥ 0 then v.tStart + ns else v.tStop + ns)) ∧
    (∀ d s, C01.parseTime s = none → v.resolve d (.str s) = none) ∧
    (∀ a' b', v.resolve v.tStart a = some a' → v.resolve v.tStop b = some b' →
      v.getitem (.window a b false) = v.sliceTime a' b') ∧
    (v.resolve v.tStart a = none ∨ v.resolve v.tStop b = none →
      v.getitem (.window a b false) = .err .runtimeError) := by
  refine ⟨fun _ => rfl, fun _ _ => rfl, ?_, ?_, ?_, ?_⟩
  · intro d s ns h; simp [KView.resolve, h, C01.resolve]
  · intro d s h; simp [KView.resolve, h]
  · intro a' b' ha hb; simp [KView.getitem, hu, ha, hb]
  · intro h
    simp only [KView.getitem, hu, Bool.false_eq_true, ↓reduceIte]
    rcases h with h | h
    · rw [h]
    · rw [h]; split
      · rename_i h1 h2; cases h2
      · rfl

end Verif.C06
