import Verif.Props.C06
namespace Verif.C06
open Verif.Py

/-! ## Scans: `scan[item]` as the user calls it -/

theorem axis_check_error (x : SAxisItem) (e : Err) (h : x.check = .error e) : e = .indexError := by
  cases x with
  | slice a b step =>
    simp only [SAxisItem.check] at h
    split at h
    · injection h with h; exact h.symm
    · cases h
  | int => injection h with h; exact h.symm
  | other => injection h with h; exact h.symm

theorem mapM_check_error (sp : List SAxisItem) (h : ∃ x ∈ sp, ∃ e, x.check = .error e) :
    sp.mapM SAxisItem.check = .error .indexError := by
  induction sp with
  | nil => obtain ⟨x, hx, _⟩ := h; cases hx
  | cons y ys ih =>
    rw [List.mapM_cons]
    cases hy : y.check with
    | error e => rw [axis_check_error y e hy]; rfl
    | ok r =>
      obtain ⟨x, hx, e, he⟩ := h
      have hx' : x ∈ ys := by
        rcases List.mem_cons.mp hx with rfl | hx'
        · rw [hy] at he; cases he
        · exact hx'
      rw [ih ⟨x, hx', e, he⟩]; rfl

/-- Refused items: a frame item that is neither an integer nor a slice, a frame slice with a step — `IndexError`
    whatever else is written; with an integer frame index, any spatial item that is not a slice without step (a scalar,
    a stepped slice, anything else) — `IndexError` as well, before any frame is looked up. -/
theorem scan_getitem_validation (v : SView) (a b : SBound) (i : Int) (sp : List SAxisItem) :
    v.getitem .other sp = .err .indexError ∧
    v.getitem (.slice a b true) sp = .err .indexError ∧
    ((∃ x ∈ sp, ∃ e, x.check = .error e) → v.getitem (.int i) sp = .err .indexError) := by
  refine ⟨rfl, rfl, ?_⟩
  intro h
  simp only [SView.getitem, mapM_check_error sp h]

/-- How a bound of the frame slice is read: `None` stays open; an integer below `_FIRST_TIMESTAMP` is a frame index
    as it stands; an integer from `_FIRST_TIMESTAMP` on is looked up in the frame starts / stops; a time string that
    `Timeindex` reads as `ns` is the timestamp `start + ns` (`ns ≥ 0`) or `stop + ns` (`ns < 0`) of the scan's own window,
    then treated like an integer; a string `Timeindex` rejects is a `RuntimeError`. -/
theorem scan_bound_resolution (v : SView) (isStart : Bool) :
    v.timeToFrameB isStart .none = .ok none ∧
    (∀ n, n < firstTimestamp → v.timeToFrameB isStart (.num n) = .ok (some n)) ∧
    (∀ t, firstTimestamp ≤ t → v.timeToFrameB isStart (.num t) = .ok (some (v.timeToFrame t isStart))) ∧
    (∀ s, C01.parseTime s = none → v.timeToFrameB isStart (.str s) = .error .runtimeError) ∧
    (∀ s ns, C01.parseTime s = some ns →
      v.timeToFrameB isStart (.str s) = v.timeToFrameB isStart (.num (if ns ≥ 0 then v.tStart + ns else v.tStop + ns))) := by
  refine ⟨rfl, ?_, ?_, ?_, ?_⟩
  · intro n h; simp [SView.timeToFrameB, h]
  · intro t h; have : ¬ t < firstTimestamp := by omega
    simp [SView.timeToFrameB, this]
  · intro s h; simp [SView.timeToFrameB, h]
  · intro s ns h; simp [SView.timeToFrameB, h, C01.resolve]

/-- Accepted items select what `scan_index_refines` / `scan_slice_refines` describe (rows from the first spatial slice,
    columns from the second, a missing one is the full axis), and the result gets its start / stop stamped. -/
theorem scan_getitem_refines (v : SView) (i : Int) (a b : SBound) (a' b' y0 y1 x0 x1 : Option Int)
    (ha : v.timeToFrameB true a = .ok a') (hb : v.timeToFrameB false b = .ok b') :
    v.getitem (.int i) [] = (v.index i none none none none).stamp ∧
    v.getitem (.int i) [.slice y0 y1 false] = (v.index i y0 y1 none none).stamp ∧
    v.getitem (.int i) [.slice y0 y1 false, .slice x0 x1 false] = (v.index i y0 y1 x0 x1).stamp ∧
    v.getitem (.slice a b false) [] = (v.slice a' b' none none none none).stamp ∧
    v.getitem (.slice a b false) [.slice y0 y1 false] = (v.slice a' b' y0 y1 none none).stamp ∧
    v.getitem (.slice a b false) [.slice y0 y1 false, .slice x0 x1 false] = (v.slice a' b' y0 y1 x0 x1).stamp := by
  refine ⟨rfl, rfl, rfl, ?_, ?_, ?_⟩ <;> simp [SView.getitem, ha, hb, SAxisItem.check, pure, Except.pure, bind, Except.bind]

/-- Time → frame index, stop bound: the number of frames that stop before the timestamp. -/
theorem time_to_frame_stop (v : SView) (t : Int) (hs : (v.ranges.map (·.2)).Pairwise (· ≤ ·)) (c : Nat)
    (hc : c < (v.ranges.map (·.2)).length) :
    ((c : Int) < v.timeToFrame t false) ↔ (v.ranges.map (·.2))[c] < t := by
  unfold SView.timeToFrame
  simp only [Bool.false_eq_true, ↓reduceIte, Int.ofNat_lt]
  exact lt_searchsortedLeft_iff _ hs t c hc

/-- frame start / stop timestamps of a scan view -/
abbrev sStarts (v : SView) : List Int := v.ranges.map (·.1)
abbrev sStops (v : SView) : List Int := v.ranges.map (·.2)

theorem pySliceOpt_none_none {α} (l : List α) : pySliceOpt l none none = l := by
  have : ¬ ((l.length : Int) < 0) := by omega
  simp [pySliceOpt, pySlice, pyNorm, this]

theorem cropFrame_none (f : Frame) : cropFrame f none none none none = f := by
  simp [cropFrame, pySliceOpt_none_none]

/-- **A time window on a scan.**  With frame starts and frame stops in order, `scan[a:b]` for two timestamps keeps
    exactly the frames that start at or after `a` AND stop before `b` (the frames lying inside the window), as one
    contiguous run of the frame list, with start / stop stamped; no such frame: the empty scan. -/
theorem scan_time_window (v : SView) (a b : Int) (ha : firstTimestamp ≤ a) (hb : firstTimestamp ≤ b)
    (hs : (sStarts v).Pairwise (· ≤ ·)) (he : (sStops v).Pairwise (· ≤ ·))
    (hne : ∀ f ∈ v.frames, emptyAxis f = false) :
    (∀ c (h1 : c < (sStarts v).length) (h2 : c < (sStops v).length),
      (searchsortedLeft (sStarts v) a ≤ c ∧ c < searchsortedLeft (sStops v) b) ↔
        (a ≤ (sStarts v)[c] ∧ (sStops v)[c] < b)) ∧
    v.getitem (.slice (.num a) (.num b) false) [] =
      (if (v.frames.take (searchsortedLeft (sStops v) b)).drop (searchsortedLeft (sStarts v) a) = []
       then .empty
       else .view ({ v with frames :=
          (v.frames.take (searchsortedLeft (sStops v) b)).drop (searchsortedLeft (sStarts v) a) }).stamp) := by
  constructor
  · intro c h1 h2
    have e1 := lt_searchsortedLeft_iff _ hs a c h1
    have e2 := lt_searchsortedLeft_iff _ he b c h2
    omega
  · have na : ¬ a < firstTimestamp := by omega
    have nb : ¬ b < firstTimestamp := by omega
    generalize hiA : searchsortedLeft (sStarts v) a = iA
    generalize hiB : searchsortedLeft (sStops v) b = iB
    have hget : v.getitem (.slice (.num a) (.num b) false) [] =
        (v.slice (some (iA : Int)) (some (iB : Int)) none none none none).stamp := by
      simp [SView.getitem, SView.timeToFrameB, na, nb, SView.timeToFrame, hiA, hiB, pure, Except.pure]
    have hfs : pySliceOpt v.frames (some (iA : Int)) (some (iB : Int)) = (v.frames.take iB).drop iA := by
      simp only [pySliceOpt, Option.getD_some]
      rw [C01.pySlice_nonneg _ _ _ (by omega) (by omega)]
      simp
    rw [hget, scan_slice_refines, hfs]
    by_cases hnil : (v.frames.take iB).drop iA = []
    · simp [hnil, SRes.stamp]
    · have hany : ((v.frames.take iB).drop iA).any (fun f => emptyAxis (cropFrame f none none none none)) = false := by
        rw [List.any_eq_false]
        intro f hf
        rw [cropFrame_none]
        have := hne f (List.mem_of_mem_take (List.mem_of_mem_drop hf))
        simp [this]
      have hmap : ((v.frames.take iB).drop iA).map (fun f => cropFrame f none none none none) = (v.frames.take iB).drop iA := by
        conv => rhs; rw [← List.map_id ((v.frames.take iB).drop iA)]
        apply List.map_congr_left
        intro f _; rw [cropFrame_none]; rfl
      simp only [hnil, ↓reduceIte, hany, Bool.false_eq_true, hmap, SRes.stamp]

/-- The start a `__getitem__` stamps on its result is the start of the first frame it shows (dead time or not). -/
theorem scan_stamp_start (w : SView) : w.stamp.tStart = ((w.ranges.head?).map (·.1)).getD 0 := by
  unfold SView.stamp
  by_cases h : w.numFrames > 1
  · simp only [h, ↓reduceIte]
    unfold SView.deadRanges
    split
    · rename_i s0 s1 rest heq
      cases hr : w.ranges with
      | nil => rw [hr] at heq; cases heq
      | cons r rs =>
        rw [hr] at heq
        simp only [List.map_cons, List.cons.injEq] at heq
        simp [heq.1]
    · rfl
  · simp only [h, ↓reduceIte]

/-- non-vacuity: three one-pixel-row frames; `scan["100ns":"-50ns"]` on the window `[0, 700]`, read as timestamps
    `firstTimestamp + …` -/
def exScan3 : SView :=
  ⟨[[[⟨1, firstTimestamp + 0, firstTimestamp + 10⟩, ⟨1, firstTimestamp + 20, firstTimestamp + 30⟩]],
    [[⟨2, firstTimestamp + 200, firstTimestamp + 210⟩, ⟨2, firstTimestamp + 220, firstTimestamp + 230⟩]],
    [[⟨3, firstTimestamp + 400, firstTimestamp + 410⟩, ⟨3, firstTimestamp + 420, firstTimestamp + 430⟩]]], 10, false,
    firstTimestamp, firstTimestamp + 700⟩

example : (match exScan3.getitem (.slice (.str "100ns") (.str "-50ns") false) [] with
    | .view w => decide (w.frames.map values = [[[2, 2]], [[3, 3]]] ∧ w.tStart = firstTimestamp + 200 ∧
        w.tStop = firstTimestamp + 600)
    | _ => false) = true := by decide +kernel

end Verif.C06
