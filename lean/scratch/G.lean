import Verif.Props.C06
import scratch.H
namespace Verif.C06
open Verif.Py

/-- pixels that are neighbours along the position axis (same line) are `pt` apart in time -/
def RowStep (img : Img) (pt : Int) : Prop :=
  ∀ r c p q, pixAt img r c = some p → pixAt img (r + 1) c = some q → q.tmean - p.tmean = pt

theorem pixAt_window (f : Img) (r0 r1 c0 c1 r c : Nat) (p : Pix)
    (h : pixAt (takeCols ((f.take r1).drop r0) c0 c1) r c = some p) : pixAt f (r0 + r) (c0 + c) = some p := by
  unfold pixAt takeCols at h
  rw [List.getElem?_map, takeCols_getElem?] at h
  unfold pixAt
  split at h
  · cases hrow : f[r0 + r]? with
    | none => rw [hrow] at h; cases h
    | some row =>
      rw [hrow] at h
      simp only [Option.map_some, Option.bind_some] at h ⊢
      rw [takeCols_getElem?] at h
      split at h
      · exact h
      · cases h
  · cases h

theorem RowStep.sub {g f : Img} {pt : Int} (h : SubImg g f) (hs : RowStep f pt) : RowStep g pt := by
  obtain ⟨r0, r1, c0, c1, rfl⟩ := h
  intro r c p q hp hq
  have hp' := pixAt_window f r0 r1 c0 c1 r c p hp
  have hq' := pixAt_window f r0 r1 c0 c1 (r + 1) c q hq
  exact hs (r0 + r) (c0 + c) p q hp' (by rw [← hq']; congr 1)

/-- **Pixel time after any program of selecting operations.**  If neighbouring pixels of a line of the source are `pt`
    apart, every processed kymograph the program yields that can report a pixel time at all reports `pt` (the code reads
    it off the timestamps of pixels `[0,0]` and `[1,0]` of the derived object). -/
theorem selecting_program_pixel_time (prog : List KOp) (hsel : ∀ op ∈ prog, op.selects = true) (v w : KView)
    (h : runK v prog = .view w) (pt : Int) (hs : RowStep v.img pt) (hp : w.processed = true) (t : Int)
    (ht : w.pixelTime = .ok t) : t = pt := by
  have hsub := RowStep.sub (selecting_program_shows_window prog hsel v w h) hs
  unfold KView.pixelTime at ht
  simp only [hp, Bool.not_true, Bool.false_eq_true, ↓reduceIte] at ht
  split at ht
  · cases ht
  · split at ht
    · rename_i a b ha hb
      injection ht with ht
      rw [← ht]
      exact hsub 0 0 a b ha hb
    · cases ht

/-- non-vacuity: in `exKymo` the two pixels of every line are 20 ns apart; cropping after a time slice keeps that -/
example : RowStep exKymo.img 20 := by
  intro r c p q hp hq
  match r, c with
  | 0, 0 => simp [pixAt, exKymo] at hp hq; subst hp hq; decide
  | 0, 1 => simp [pixAt, exKymo] at hp hq; subst hp hq; decide
  | 0, 2 => simp [pixAt, exKymo] at hp hq; subst hp hq; decide
  | 0, c + 3 => simp [pixAt, exKymo] at hp
  | 1, c => simp [pixAt, exKymo] at hq
  | r + 2, c => simp [pixAt, exKymo] at hp

example : (match runK exKymo [.slice 150 1000, .crop 0 2] with
    | .view w => (match w.pixelTime with | .ok t => decide (t = 20 ∧ w.processed = true) | _ => false) | _ => false) = true := by decide +kernel

end Verif.C06
