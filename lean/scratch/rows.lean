set_option linter.unusedTactic false
set_option linter.unreachableTactic false
/-! ### rows: the assembled Jacobian rows / derivative, with the implicit-function root derivatives,
    are the derivatives of any differentiable branch of simple roots (generated uniformly) -/

open Filter Topology in
theorem OF.row_Lp (d Lp Lc St kT : ℝ) (hLp : 0 < Lp) (hLc : 0 < Lc) (hSt : 0 < St) (hkT : 0 < kT) (y : ℝ → ℝ) (y' : ℝ) (hy : HasDerivAt y y' Lp)
    (hroot : ∀ᶠ v in 𝓝 Lp, cubicPoly (OF.a d v Lc St kT) (OF.b d v Lc St kT) (OF.c d v Lc St kT) (y v) = 0)
    (hsimple : cubicPoly' (OF.a d Lp Lc St kT) (OF.b d Lp Lc St kT) (y Lp) ≠ 0) :
    y' = (OF.jacWith (implicitDerivs (OF.a d Lp Lc St kT) (OF.b d Lp Lc St kT) (y Lp)) d Lp Lc St kT).getD 0 0 := by
  rw [implicit_row y _ _ _ y' _ _ _ Lp hy (OF.a_Lp d Lp Lc St kT) (OF.b_Lp d Lp Lc St kT) (OF.c_Lp d Lp Lc St kT hLp hLc hSt hkT) hroot hsimple]
  simp only [OF.jacWith, OF.derWith, implicitDerivs, List.getD_cons_succ, List.getD_cons_zero] <;>
    first | (norm_num; done) | (norm_num; ring1)

open Filter Topology in
theorem OF.row_Lc (d Lp Lc St kT : ℝ) (hLp : 0 < Lp) (hLc : 0 < Lc) (hSt : 0 < St) (hkT : 0 < kT) (y : ℝ → ℝ) (y' : ℝ) (hy : HasDerivAt y y' Lc)
    (hroot : ∀ᶠ v in 𝓝 Lc, cubicPoly (OF.a d Lp v St kT) (OF.b d Lp v St kT) (OF.c d Lp v St kT) (y v) = 0)
    (hsimple : cubicPoly' (OF.a d Lp Lc St kT) (OF.b d Lp Lc St kT) (y Lc) ≠ 0) :
    y' = (OF.jacWith (implicitDerivs (OF.a d Lp Lc St kT) (OF.b d Lp Lc St kT) (y Lc)) d Lp Lc St kT).getD 1 0 := by
  rw [implicit_row y _ _ _ y' _ _ _ Lc hy (OF.a_Lc d Lp Lc St kT hLp hLc hSt hkT) (OF.b_Lc d Lp Lc St kT hLp hLc hSt hkT) (OF.c_Lc d Lp Lc St kT) hroot hsimple]
  simp only [OF.jacWith, OF.derWith, implicitDerivs, List.getD_cons_succ, List.getD_cons_zero] <;>
    first | (norm_num; done) | (norm_num; ring1)

open Filter Topology in
theorem OF.row_St (d Lp Lc St kT : ℝ) (hLp : 0 < Lp) (hLc : 0 < Lc) (hSt : 0 < St) (hkT : 0 < kT) (y : ℝ → ℝ) (y' : ℝ) (hy : HasDerivAt y y' St)
    (hroot : ∀ᶠ v in 𝓝 St, cubicPoly (OF.a d Lp Lc v kT) (OF.b d Lp Lc v kT) (OF.c d Lp Lc v kT) (y v) = 0)
    (hsimple : cubicPoly' (OF.a d Lp Lc St kT) (OF.b d Lp Lc St kT) (y St) ≠ 0) :
    y' = (OF.jacWith (implicitDerivs (OF.a d Lp Lc St kT) (OF.b d Lp Lc St kT) (y St)) d Lp Lc St kT).getD 2 0 := by
  rw [implicit_row y _ _ _ y' _ _ _ St hy (OF.a_St d Lp Lc St kT hLp hLc hSt hkT) (OF.b_St d Lp Lc St kT hLp hLc hSt hkT) (OF.c_St d Lp Lc St kT hLp hLc hSt hkT) hroot hsimple]
  simp only [OF.jacWith, OF.derWith, implicitDerivs, List.getD_cons_succ, List.getD_cons_zero] <;>
    first | (norm_num; done) | (norm_num; ring1)

open Filter Topology in
theorem OF.row_kT (d Lp Lc St kT : ℝ) (hLp : 0 < Lp) (hLc : 0 < Lc) (hSt : 0 < St) (hkT : 0 < kT) (y : ℝ → ℝ) (y' : ℝ) (hy : HasDerivAt y y' kT)
    (hroot : ∀ᶠ v in 𝓝 kT, cubicPoly (OF.a d Lp Lc St v) (OF.b d Lp Lc St v) (OF.c d Lp Lc St v) (y v) = 0)
    (hsimple : cubicPoly' (OF.a d Lp Lc St kT) (OF.b d Lp Lc St kT) (y kT) ≠ 0) :
    y' = (OF.jacWith (implicitDerivs (OF.a d Lp Lc St kT) (OF.b d Lp Lc St kT) (y kT)) d Lp Lc St kT).getD 3 0 := by
  rw [implicit_row y _ _ _ y' _ _ _ kT hy (OF.a_kT d Lp Lc St kT) (OF.b_kT d Lp Lc St kT) (OF.c_kT d Lp Lc St kT hLp hLc hSt hkT) hroot hsimple]
  simp only [OF.jacWith, OF.derWith, implicitDerivs, List.getD_cons_succ, List.getD_cons_zero] <;>
    first | (norm_num; done) | (norm_num; ring1)

open Filter Topology in
theorem OF.row_d (d Lp Lc St kT : ℝ) (hLp : 0 < Lp) (hLc : 0 < Lc) (hSt : 0 < St) (hkT : 0 < kT) (y : ℝ → ℝ) (y' : ℝ) (hy : HasDerivAt y y' d)
    (hroot : ∀ᶠ v in 𝓝 d, cubicPoly (OF.a v Lp Lc St kT) (OF.b v Lp Lc St kT) (OF.c v Lp Lc St kT) (y v) = 0)
    (hsimple : cubicPoly' (OF.a d Lp Lc St kT) (OF.b d Lp Lc St kT) (y d) ≠ 0) :
    y' = OF.derWith (implicitDerivs (OF.a d Lp Lc St kT) (OF.b d Lp Lc St kT) (y d)) d Lp Lc St kT := by
  rw [implicit_row y _ _ _ y' _ _ _ d hy (OF.a_d d Lp Lc St kT hLp hLc hSt hkT) (OF.b_d d Lp Lc St kT hLp hLc hSt hkT) (OF.c_d d Lp Lc St kT) hroot hsimple]
  simp only [OF.jacWith, OF.derWith, implicitDerivs, List.getD_cons_succ, List.getD_cons_zero] <;>
    first | (norm_num; done) | (norm_num; ring1)

open Filter Topology in
theorem WD.row_Lp (f Lp Lc kT : ℝ) (hLp : 0 < Lp) (hLc : 0 < Lc) (hkT : 0 < kT) (y : ℝ → ℝ) (y' : ℝ) (hy : HasDerivAt y y' Lp)
    (hroot : ∀ᶠ v in 𝓝 Lp, cubicPoly (WD.a f v Lc kT) (WD.b f v Lc kT) (WD.c f v Lc kT) (y v) = 0)
    (hsimple : cubicPoly' (WD.a f Lp Lc kT) (WD.b f Lp Lc kT) (y Lp) ≠ 0) :
    y' = (WD.jacWith (implicitDerivs (WD.a f Lp Lc kT) (WD.b f Lp Lc kT) (y Lp)) f Lp Lc kT).getD 0 0 := by
  rw [implicit_row y _ _ _ y' _ _ _ Lp hy (WD.a_Lp f Lp Lc kT hLp hLc hkT) (WD.b_Lp f Lp Lc kT hLp hLc hkT) (WD.c_Lp f Lp Lc kT hLp hLc hkT) hroot hsimple]
  simp only [WD.jacWith, WD.derWith, implicitDerivs, List.getD_cons_succ, List.getD_cons_zero] <;>
    first | (norm_num; done) | (norm_num; ring1)

open Filter Topology in
theorem WD.row_Lc (f Lp Lc kT : ℝ) (hLp : 0 < Lp) (hLc : 0 < Lc) (hkT : 0 < kT) (y : ℝ → ℝ) (y' : ℝ) (hy : HasDerivAt y y' Lc)
    (hroot : ∀ᶠ v in 𝓝 Lc, cubicPoly (WD.a f Lp v kT) (WD.b f Lp v kT) (WD.c f Lp v kT) (y v) = 0)
    (hsimple : cubicPoly' (WD.a f Lp Lc kT) (WD.b f Lp Lc kT) (y Lc) ≠ 0) :
    y' = (WD.jacWith (implicitDerivs (WD.a f Lp Lc kT) (WD.b f Lp Lc kT) (y Lc)) f Lp Lc kT).getD 1 0 := by
  rw [implicit_row y _ _ _ y' _ _ _ Lc hy (WD.a_Lc f Lp Lc kT hLp hLc hkT) (WD.b_Lc f Lp Lc kT hLp hLc hkT) (WD.c_Lc f Lp Lc kT hLp hLc hkT) hroot hsimple]
  simp only [WD.jacWith, WD.derWith, implicitDerivs, List.getD_cons_succ, List.getD_cons_zero] <;>
    first | (norm_num; done) | (norm_num; ring1)

open Filter Topology in
theorem WD.row_kT (f Lp Lc kT : ℝ) (hLp : 0 < Lp) (hLc : 0 < Lc) (hkT : 0 < kT) (y : ℝ → ℝ) (y' : ℝ) (hy : HasDerivAt y y' kT)
    (hroot : ∀ᶠ v in 𝓝 kT, cubicPoly (WD.a f Lp Lc v) (WD.b f Lp Lc v) (WD.c f Lp Lc v) (y v) = 0)
    (hsimple : cubicPoly' (WD.a f Lp Lc kT) (WD.b f Lp Lc kT) (y kT) ≠ 0) :
    y' = (WD.jacWith (implicitDerivs (WD.a f Lp Lc kT) (WD.b f Lp Lc kT) (y kT)) f Lp Lc kT).getD 2 0 := by
  rw [implicit_row y _ _ _ y' _ _ _ kT hy (WD.a_kT f Lp Lc kT hLp hLc hkT) (WD.b_kT f Lp Lc kT hLp hLc hkT) (WD.c_kT f Lp Lc kT hLp hLc hkT) hroot hsimple]
  simp only [WD.jacWith, WD.derWith, implicitDerivs, List.getD_cons_succ, List.getD_cons_zero] <;>
    first | (norm_num; done) | (norm_num; ring1)

open Filter Topology in
theorem WD.row_f (f Lp Lc kT : ℝ) (hLp : 0 < Lp) (hLc : 0 < Lc) (hkT : 0 < kT) (y : ℝ → ℝ) (y' : ℝ) (hy : HasDerivAt y y' f)
    (hroot : ∀ᶠ v in 𝓝 f, cubicPoly (WD.a v Lp Lc kT) (WD.b v Lp Lc kT) (WD.c v Lp Lc kT) (y v) = 0)
    (hsimple : cubicPoly' (WD.a f Lp Lc kT) (WD.b f Lp Lc kT) (y f) ≠ 0) :
    y' = WD.derWith (implicitDerivs (WD.a f Lp Lc kT) (WD.b f Lp Lc kT) (y f)) f Lp Lc kT := by
  rw [implicit_row y _ _ _ y' _ _ _ f hy (WD.a_f f Lp Lc kT hLp hLc hkT) (WD.b_f f Lp Lc kT hLp hLc hkT) (WD.c_f f Lp Lc kT hLp hLc hkT) hroot hsimple]
  simp only [WD.jacWith, WD.derWith, implicitDerivs, List.getD_cons_succ, List.getD_cons_zero] <;>
    first | (norm_num; done) | (norm_num; ring1)

open Filter Topology in
theorem EF.row_Lp (d Lp Lc St kT : ℝ) (hLp : 0 < Lp) (hLc : 0 < Lc) (hSt : 0 < St) (hkT : 0 < kT) (y : ℝ → ℝ) (y' : ℝ) (hy : HasDerivAt y y' Lp)
    (hroot : ∀ᶠ v in 𝓝 Lp, cubicPoly (EF.a d v Lc St kT) (EF.b d v Lc St kT) (EF.c d v Lc St kT) (y v) = 0)
    (hsimple : cubicPoly' (EF.a d Lp Lc St kT) (EF.b d Lp Lc St kT) (y Lp) ≠ 0) :
    y' = (EF.jacWith (implicitDerivs (EF.a d Lp Lc St kT) (EF.b d Lp Lc St kT) (y Lp)) d Lp Lc St kT).getD 0 0 := by
  rw [implicit_row y _ _ _ y' _ _ _ Lp hy (EF.a_Lp d Lp Lc St kT hLp hLc hSt hkT) (EF.b_Lp d Lp Lc St kT hLp hLc hSt hkT) (EF.c_Lp d Lp Lc St kT hLp hLc hSt hkT) hroot hsimple]
  simp only [EF.jacWith, EF.derWith, implicitDerivs, List.getD_cons_succ, List.getD_cons_zero] <;>
    first | (norm_num; done) | (norm_num; ring1)

open Filter Topology in
theorem EF.row_Lc (d Lp Lc St kT : ℝ) (hLp : 0 < Lp) (hLc : 0 < Lc) (hSt : 0 < St) (hkT : 0 < kT) (y : ℝ → ℝ) (y' : ℝ) (hy : HasDerivAt y y' Lc)
    (hroot : ∀ᶠ v in 𝓝 Lc, cubicPoly (EF.a d Lp v St kT) (EF.b d Lp v St kT) (EF.c d Lp v St kT) (y v) = 0)
    (hsimple : cubicPoly' (EF.a d Lp Lc St kT) (EF.b d Lp Lc St kT) (y Lc) ≠ 0) :
    y' = (EF.jacWith (implicitDerivs (EF.a d Lp Lc St kT) (EF.b d Lp Lc St kT) (y Lc)) d Lp Lc St kT).getD 1 0 := by
  rw [implicit_row y _ _ _ y' _ _ _ Lc hy (EF.a_Lc d Lp Lc St kT hLp hLc hSt hkT) (EF.b_Lc d Lp Lc St kT hLp hLc hSt hkT) (EF.c_Lc d Lp Lc St kT hLp hLc hSt hkT) hroot hsimple]
  simp only [EF.jacWith, EF.derWith, implicitDerivs, List.getD_cons_succ, List.getD_cons_zero] <;>
    first | (norm_num; done) | (norm_num; ring1)

open Filter Topology in
theorem EF.row_St (d Lp Lc St kT : ℝ) (hLp : 0 < Lp) (hLc : 0 < Lc) (hSt : 0 < St) (hkT : 0 < kT) (y : ℝ → ℝ) (y' : ℝ) (hy : HasDerivAt y y' St)
    (hroot : ∀ᶠ v in 𝓝 St, cubicPoly (EF.a d Lp Lc v kT) (EF.b d Lp Lc v kT) (EF.c d Lp Lc v kT) (y v) = 0)
    (hsimple : cubicPoly' (EF.a d Lp Lc St kT) (EF.b d Lp Lc St kT) (y St) ≠ 0) :
    y' = (EF.jacWith (implicitDerivs (EF.a d Lp Lc St kT) (EF.b d Lp Lc St kT) (y St)) d Lp Lc St kT).getD 2 0 := by
  rw [implicit_row y _ _ _ y' _ _ _ St hy (EF.a_St d Lp Lc St kT hLp hLc hSt hkT) (EF.b_St d Lp Lc St kT hLp hLc hSt hkT) (EF.c_St d Lp Lc St kT hLp hLc hSt hkT) hroot hsimple]
  simp only [EF.jacWith, EF.derWith, implicitDerivs, List.getD_cons_succ, List.getD_cons_zero] <;>
    first | (norm_num; done) | (norm_num; ring1)

open Filter Topology in
theorem EF.row_kT (d Lp Lc St kT : ℝ) (hLp : 0 < Lp) (hLc : 0 < Lc) (hSt : 0 < St) (hkT : 0 < kT) (y : ℝ → ℝ) (y' : ℝ) (hy : HasDerivAt y y' kT)
    (hroot : ∀ᶠ v in 𝓝 kT, cubicPoly (EF.a d Lp Lc St v) (EF.b d Lp Lc St v) (EF.c d Lp Lc St v) (y v) = 0)
    (hsimple : cubicPoly' (EF.a d Lp Lc St kT) (EF.b d Lp Lc St kT) (y kT) ≠ 0) :
    y' = (EF.jacWith (implicitDerivs (EF.a d Lp Lc St kT) (EF.b d Lp Lc St kT) (y kT)) d Lp Lc St kT).getD 3 0 := by
  rw [implicit_row y _ _ _ y' _ _ _ kT hy (EF.a_kT d Lp Lc St kT hLp hLc hSt hkT) (EF.b_kT d Lp Lc St kT hLp hLc hSt hkT) (EF.c_kT d Lp Lc St kT hLp hLc hSt hkT) hroot hsimple]
  simp only [EF.jacWith, EF.derWith, implicitDerivs, List.getD_cons_succ, List.getD_cons_zero] <;>
    first | (norm_num; done) | (norm_num; ring1)

open Filter Topology in
theorem EF.row_d (d Lp Lc St kT : ℝ) (hLp : 0 < Lp) (hLc : 0 < Lc) (hSt : 0 < St) (hkT : 0 < kT) (y : ℝ → ℝ) (y' : ℝ) (hy : HasDerivAt y y' d)
    (hroot : ∀ᶠ v in 𝓝 d, cubicPoly (EF.a v Lp Lc St kT) (EF.b v Lp Lc St kT) (EF.c v Lp Lc St kT) (y v) = 0)
    (hsimple : cubicPoly' (EF.a d Lp Lc St kT) (EF.b d Lp Lc St kT) (y d) ≠ 0) :
    y' = EF.derWith (implicitDerivs (EF.a d Lp Lc St kT) (EF.b d Lp Lc St kT) (y d)) d Lp Lc St kT := by
  rw [implicit_row y _ _ _ y' _ _ _ d hy (EF.a_d d Lp Lc St kT hLp hLc hSt hkT) (EF.b_d d Lp Lc St kT hLp hLc hSt hkT) (EF.c_d d Lp Lc St kT hLp hLc hSt hkT) hroot hsimple]
  simp only [EF.jacWith, EF.derWith, implicitDerivs, List.getD_cons_succ, List.getD_cons_zero] <;>
    first | (norm_num; done) | (norm_num; ring1)

open Filter Topology in
theorem ED.row_Lp (f Lp Lc St kT : ℝ) (hLp : 0 < Lp) (hLc : 0 < Lc) (hSt : 0 < St) (hkT : 0 < kT) (y : ℝ → ℝ) (y' : ℝ) (hy : HasDerivAt y y' Lp)
    (hroot : ∀ᶠ v in 𝓝 Lp, cubicPoly (ED.a f v Lc St kT) (ED.b f v Lc St kT) (ED.c f v Lc St kT) (y v) = 0)
    (hsimple : cubicPoly' (ED.a f Lp Lc St kT) (ED.b f Lp Lc St kT) (y Lp) ≠ 0) :
    y' = (ED.jacWith (implicitDerivs (ED.a f Lp Lc St kT) (ED.b f Lp Lc St kT) (y Lp)) f Lp Lc St kT).getD 0 0 := by
  rw [implicit_row y _ _ _ y' _ _ _ Lp hy (ED.a_Lp f Lp Lc St kT hLp hLc hSt hkT) (ED.b_Lp f Lp Lc St kT hLp hLc hSt hkT) (ED.c_Lp f Lp Lc St kT hLp hLc hSt hkT) hroot hsimple]
  simp only [ED.jacWith, ED.derWith, implicitDerivs, List.getD_cons_succ, List.getD_cons_zero] <;>
    first | (norm_num; done) | (norm_num; ring1)

open Filter Topology in
theorem ED.row_Lc (f Lp Lc St kT : ℝ) (hLp : 0 < Lp) (hLc : 0 < Lc) (hSt : 0 < St) (hkT : 0 < kT) (y : ℝ → ℝ) (y' : ℝ) (hy : HasDerivAt y y' Lc)
    (hroot : ∀ᶠ v in 𝓝 Lc, cubicPoly (ED.a f Lp v St kT) (ED.b f Lp v St kT) (ED.c f Lp v St kT) (y v) = 0)
    (hsimple : cubicPoly' (ED.a f Lp Lc St kT) (ED.b f Lp Lc St kT) (y Lc) ≠ 0) :
    y' = (ED.jacWith (implicitDerivs (ED.a f Lp Lc St kT) (ED.b f Lp Lc St kT) (y Lc)) f Lp Lc St kT).getD 1 0 := by
  rw [implicit_row y _ _ _ y' _ _ _ Lc hy (ED.a_Lc f Lp Lc St kT hLp hLc hSt hkT) (ED.b_Lc f Lp Lc St kT hLp hLc hSt hkT) (ED.c_Lc f Lp Lc St kT hLp hLc hSt hkT) hroot hsimple]
  simp only [ED.jacWith, ED.derWith, implicitDerivs, List.getD_cons_succ, List.getD_cons_zero] <;>
    first | (norm_num; done) | (norm_num; ring1)

open Filter Topology in
theorem ED.row_St (f Lp Lc St kT : ℝ) (hLp : 0 < Lp) (hLc : 0 < Lc) (hSt : 0 < St) (hkT : 0 < kT) (y : ℝ → ℝ) (y' : ℝ) (hy : HasDerivAt y y' St)
    (hroot : ∀ᶠ v in 𝓝 St, cubicPoly (ED.a f Lp Lc v kT) (ED.b f Lp Lc v kT) (ED.c f Lp Lc v kT) (y v) = 0)
    (hsimple : cubicPoly' (ED.a f Lp Lc St kT) (ED.b f Lp Lc St kT) (y St) ≠ 0) :
    y' = (ED.jacWith (implicitDerivs (ED.a f Lp Lc St kT) (ED.b f Lp Lc St kT) (y St)) f Lp Lc St kT).getD 2 0 := by
  rw [implicit_row y _ _ _ y' _ _ _ St hy (ED.a_St f Lp Lc St kT hLp hLc hSt hkT) (ED.b_St f Lp Lc St kT hLp hLc hSt hkT) (ED.c_St f Lp Lc St kT hLp hLc hSt hkT) hroot hsimple]
  simp only [ED.jacWith, ED.derWith, implicitDerivs, List.getD_cons_succ, List.getD_cons_zero] <;>
    first | (norm_num; done) | (norm_num; ring1)

open Filter Topology in
theorem ED.row_kT (f Lp Lc St kT : ℝ) (hLp : 0 < Lp) (hLc : 0 < Lc) (hSt : 0 < St) (hkT : 0 < kT) (y : ℝ → ℝ) (y' : ℝ) (hy : HasDerivAt y y' kT)
    (hroot : ∀ᶠ v in 𝓝 kT, cubicPoly (ED.a f Lp Lc St v) (ED.b f Lp Lc St v) (ED.c f Lp Lc St v) (y v) = 0)
    (hsimple : cubicPoly' (ED.a f Lp Lc St kT) (ED.b f Lp Lc St kT) (y kT) ≠ 0) :
    y' = (ED.jacWith (implicitDerivs (ED.a f Lp Lc St kT) (ED.b f Lp Lc St kT) (y kT)) f Lp Lc St kT).getD 3 0 := by
  rw [implicit_row y _ _ _ y' _ _ _ kT hy (ED.a_kT f Lp Lc St kT hLp hLc hSt hkT) (ED.b_kT f Lp Lc St kT hLp hLc hSt hkT) (ED.c_kT f Lp Lc St kT hLp hLc hSt hkT) hroot hsimple]
  simp only [ED.jacWith, ED.derWith, implicitDerivs, List.getD_cons_succ, List.getD_cons_zero] <;>
    first | (norm_num; done) | (norm_num; ring1)

open Filter Topology in
theorem ED.row_f (f Lp Lc St kT : ℝ) (hLp : 0 < Lp) (hLc : 0 < Lc) (hSt : 0 < St) (hkT : 0 < kT) (y : ℝ → ℝ) (y' : ℝ) (hy : HasDerivAt y y' f)
    (hroot : ∀ᶠ v in 𝓝 f, cubicPoly (ED.a v Lp Lc St kT) (ED.b v Lp Lc St kT) (ED.c v Lp Lc St kT) (y v) = 0)
    (hsimple : cubicPoly' (ED.a f Lp Lc St kT) (ED.b f Lp Lc St kT) (y f) ≠ 0) :
    y' = ED.derWith (implicitDerivs (ED.a f Lp Lc St kT) (ED.b f Lp Lc St kT) (y f)) f Lp Lc St kT := by
  rw [implicit_row y _ _ _ y' _ _ _ f hy (ED.a_f f Lp Lc St kT hLp hLc hSt hkT) (ED.b_f f Lp Lc St kT hLp hLc hSt hkT) (ED.c_f f Lp Lc St kT hLp hLc hSt hkT) hroot hsimple]
  simp only [ED.jacWith, ED.derWith, implicitDerivs, List.getD_cons_succ, List.getD_cons_zero] <;>
    first | (norm_num; done) | (norm_num; ring1)

