import Verif.Props.C06
namespace Verif.C06
open Verif.Py

/-! ## Down-sampling: the timestamps of a block -/

/-- `m` is the extreme element of `xs` for the order `R` (`≤`: the smallest, `≥`: the largest) -/
def IsExtr (R : Int → Int → Prop) (m : Int) (xs : List Int) : Prop := (∀ x ∈ xs, R m x) ∧ m ∈ xs

/-- a component of a pixel that `Pix.add` combines with a selecting operation (`tmin` with `min`, `tmax` with `max`) -/
structure Sel (R : Int → Int → Prop) (g : Pix → Int) (op : Int → Int → Int) : Prop where
  add : ∀ a b, g (Pix.add a b) = op (g a) (g b)
  sel : ∀ a b, op a b = a ∨ op a b = b
  le : ∀ a b, R (op a b) a ∧ R (op a b) b
  refl : ∀ a, R a a
  trans : ∀ a b c, R a b → R b c → R a c

theorem selMin : Sel (· ≤ ·) (·.tmin) min :=
  ⟨fun _ _ => rfl, fun a b => by omega, fun a b => by omega, fun a => Int.le_refl a, fun _ _ _ => Int.le_trans⟩

theorem selMax : Sel (· ≥ ·) (·.tmax) max :=
  ⟨fun _ _ => rfl, fun a b => by omega, fun a b => by omega, fun a => Int.le_refl a, fun _ _ _ h1 h2 => Int.le_trans h2 h1⟩

variable {R : Int → Int → Prop} {g : Pix → Int} {op : Int → Int → Int}

theorem foldl_add_extr (S : Sel R g op) (ps : List Pix) (p : Pix) :
    IsExtr R (g (ps.foldl Pix.add p)) (g p :: ps.map g) := by
  induction ps generalizing p with
  | nil => exact ⟨fun x hx => by simp at hx; rw [hx]; exact S.refl _, by simp⟩
  | cons q qs ih =>
    have h := ih (Pix.add p q)
    rw [S.add] at h
    simp only [List.foldl_cons, List.map_cons]
    constructor
    · intro x hx
      simp only [List.mem_cons] at hx
      rcases hx with rfl | rfl | hx
      · exact S.trans _ _ _ (h.1 (op (g p) (g q)) (by simp)) (S.le (g p) (g q)).1
      · exact S.trans _ _ _ (h.1 (op (g p) (g q)) (by simp)) (S.le (g p) (g q)).2
      · exact h.1 x (by simp [hx])
    · have := h.2
      simp only [List.mem_cons] at this ⊢
      rcases this with h0 | h0
      · rcases S.sel (g p) (g q) with e | e <;> rw [e] at h0 <;> simp [h0]
      · exact Or.inr (Or.inr h0)

theorem sumPix_extr (S : Sel R g op) (l : List Pix) (hl : l ≠ []) : IsExtr R (g (sumPix l)) (l.map g) := by
  cases l with
  | nil => exact absurd rfl hl
  | cons p ps => exact foldl_add_extr S ps p

/-- the values of `g` on the pixels `k ≤ c < k + t` of a row -/
def winG (g : Pix → Int) (k t : Nat) (r : List Pix) : List Int := ((r.drop k).take t).map g

theorem winG_zipWith (S : Sel R g op) (k t : Nat) (a b : List Pix) :
    winG g k t (List.zipWith Pix.add a b) = List.zipWith op (winG g k t a) (winG g k t b) := by
  unfold winG
  rw [List.drop_zipWith, List.take_zipWith, List.map_zipWith, List.zipWith_map]
  congr 1
  funext x y
  exact S.add x y

theorem extr_zipWith (S : Sel R g op) (m : Int) (A B C : List Int) (hlen : A.length = B.length)
    (h : IsExtr R m (List.zipWith op A B ++ C)) : IsExtr R m (A ++ (B ++ C)) := by
  constructor
  · intro x hx
    simp only [List.mem_append] at hx
    rcases hx with hx | hx | hx
    · obtain ⟨c, hc, rfl⟩ := List.mem_iff_getElem.mp hx
      have hz : op A[c] (B[c]'(by omega)) ∈ List.zipWith op A B ++ C := by
        apply List.mem_append_left
        apply List.mem_iff_getElem.mpr
        exact ⟨c, by simp; omega, by simp⟩
      exact S.trans _ _ _ (h.1 _ hz) (S.le _ _).1
    · obtain ⟨c, hc, rfl⟩ := List.mem_iff_getElem.mp hx
      have hz : op (A[c]'(by omega)) B[c] ∈ List.zipWith op A B ++ C := by
        apply List.mem_append_left
        apply List.mem_iff_getElem.mpr
        exact ⟨c, by simp; omega, by simp⟩
      exact S.trans _ _ _ (h.1 _ hz) (S.le _ _).2
    · exact h.1 x (by simp [hx])
  · have := h.2
    simp only [List.mem_append] at this ⊢
    rcases this with h0 | h0
    · obtain ⟨c, hc, e⟩ := List.mem_iff_getElem.mp h0
      simp only [List.length_zipWith] at hc
      simp only [List.getElem_zipWith] at e
      rcases S.sel (A[c]'(by omega)) (B[c]'(by omega)) with e' | e'
      · left; rw [← e, e']; exact List.getElem_mem _
      · right; left; rw [← e, e']; exact List.getElem_mem _
    · exact Or.inr (Or.inr h0)

theorem foldl_zipWith_extr (S : Sel R g op) (k t n : Nat) (m : Int) (rs : List (List Pix)) (hr : Rect rs n)
    (acc : List Pix) (ha : acc.length = n) (C : List Int)
    (h : IsExtr R m (winG g k t (rs.foldl (fun acc x => List.zipWith Pix.add acc x) acc) ++ C)) :
    IsExtr R m (winG g k t acc ++ (rs.flatMap (winG g k t) ++ C)) := by
  induction rs generalizing acc C with
  | nil => simpa using h
  | cons x xs ih =>
    have hx : x.length = n := hr x (by simp)
    have hl : (List.zipWith Pix.add acc x).length = n := by simp [ha, hx]
    have h1 := ih (fun r hrm => hr r (by simp [hrm])) (List.zipWith Pix.add acc x) hl C h
    rw [winG_zipWith S] at h1
    have h2 := extr_zipWith S m _ _ _ (by simp [winG, ha, hx]) h1
    simpa [List.flatMap_cons, List.append_assoc] using h2

/-- **Timestamps of a binned pixel.**  Each entry of the down-sampled image carries, as its first timestamp, the
    smallest first timestamp found among ALL pixels of its two-dimensional block (it is one of them, and none is
    smaller), and as its last timestamp the largest last timestamp of the block — the quantities the line ranges of a
    position-binned kymograph are made of. -/
theorem down_entry_timestamps (img : Img) (n : Nat) (hr : Rect img n) (pf tf : Nat) (hpf : 0 < pf) (htf : 0 < tf) (i : Nat)
    (hi : i < (blockReduce img pf tf).length) (j : Nat) (hj : j < ((blockReduce img pf tf)[i]).length) :
    IsExtr (· ≤ ·) (((blockReduce img pf tf)[i])[j]).tmin ((block2d ((img.drop (i * pf)).take pf) tf j).map (·.tmin)) ∧
    IsExtr (· ≥ ·) (((blockReduce img pf tf)[i])[j]).tmax ((block2d ((img.drop (i * pf)).take pf) tf j).map (·.tmax)) := by
  have hi' : i < img.length / pf := by rw [← down_shape img pf tf hpf]; exact hi
  obtain ⟨hrow, hchunk⟩ := down_entry img pf tf hpf htf i hi
  have hshape := (down_entry_sum img n hr pf tf hpf htf i hi).1
  have hmul : i * pf + pf ≤ img.length := by
    have := Nat.div_mul_le_self img.length pf
    have : (i + 1) * pf ≤ img.length / pf * pf := Nat.mul_le_mul_right pf (by omega)
    rw [Nat.add_mul] at this; omega
  have hbl : ((img.drop (i * pf)).take pf).length = pf := by simp; omega
  have hbr : Rect ((img.drop (i * pf)).take pf) n := fun r hrm => hr r (List.mem_of_mem_drop (List.mem_of_mem_take hrm))
  generalize hband : (img.drop (i * pf)).take pf = band at *
  cases band with
  | nil => simp at hbl; omega
  | cons r0 rs =>
    have h0 : r0.length = n := hbr r0 (by simp)
    have hrs : Rect rs n := fun r hrm => hbr r (by simp [hrm])
    have hlen : (addRows (r0 :: rs)).length = n := (foldl_zipWith_spec 0 0 n rs hrs r0 h0).1
    have hj' : j < (chunks tf (addRows (r0 :: rs))).length := by
      rw [hrow, List.length_map] at hj; exact hj
    have hjn : j < n / tf := by rw [← hshape]; exact hj
    have e : ((blockReduce img pf tf)[i])[j] = sumPix ((chunks tf (addRows (r0 :: rs)))[j]) := by
      simp only [hrow, List.getElem_map]
    have hwin : (chunks tf (addRows (r0 :: rs)))[j] ≠ [] := by
      rw [hchunk j hj']
      intro hnil
      have hlen' := congrArg List.length hnil
      simp only [List.length_take, List.length_drop, hlen, List.length_nil] at hlen'
      have : j * tf + tf ≤ n := by
        have := Nat.div_mul_le_self n tf
        have : (j + 1) * tf ≤ n / tf * tf := Nat.mul_le_mul_right tf (by omega)
        rw [Nat.add_mul] at this; omega
      omega
    have key : ∀ {R : Int → Int → Prop} {g : Pix → Int} {op : Int → Int → Int} (S : Sel R g op),
        IsExtr R (g (((blockReduce img pf tf)[i])[j])) ((block2d (r0 :: rs) tf j).map g) := by
      intro R g op S
      have h1 := sumPix_extr S _ hwin
      rw [hchunk j hj'] at h1
      rw [e, hchunk j hj']
      have h2 := foldl_zipWith_extr S (j * tf) tf n _ rs hrs r0 h0 []
        (by simpa [winG, addRows] using h1)
      have e2 : addRows (r0 :: rs) = rs.foldl (fun acc x => List.zipWith Pix.add acc x) r0 := rfl
      have e3 : ((block2d (r0 :: rs) tf j).map g) = winG g (j * tf) tf r0 ++ (rs.flatMap (winG g (j * tf) tf) ++ []) := by
        simp only [block2d, List.flatMap_cons, List.map_append, List.map_flatMap, List.append_nil]; rfl
      rw [e3, e2]; exact h2
    exact ⟨key selMin, key selMax⟩

end Verif.C06
