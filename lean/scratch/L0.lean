/-
  C13 — helper lemmas: the `ℝ` reading of the model's formulas, a small derivative tactic, the
  implicit-function identity for a simple root of a cubic, and list lemmas for the index routing.
-/
import Verif.Model.C13
import Verif.NumReal
import Mathlib.Analysis.Calculus.Deriv.Inv
import Mathlib.Analysis.Calculus.Deriv.Pow
import Mathlib.Analysis.Calculus.Deriv.Inverse
import Mathlib.Analysis.SpecialFunctions.Sqrt
import Mathlib.Analysis.SpecialFunctions.Trigonometric.DerivHyp
import Mathlib.Tactic.FieldSimp
import Mathlib.Tactic.Ring
import Mathlib.Tactic.Linarith
import Mathlib.Tactic.Positivity
import Mathlib.Tactic.LinearCombination

namespace Verif.C13
open Verif RealLike

noncomputable instance : RealLikeH ℝ where
  sinh := Real.sinh
  cosh := Real.cosh

/-- one step of structural differentiation of `fun x => e x` (constants are recognised as such;
    `div`/`sub` must be tried before `mul`/`add`, which would unfold them) -/
macro "deriv_step" : tactic => `(tactic| first
  | exact hasDerivAt_const _ _
  | exact hasDerivAt_id' _
  | apply HasDerivAt.div
  | apply HasDerivAt.sub
  | apply HasDerivAt.neg
  | apply HasDerivAt.add
  | apply HasDerivAt.mul
  | apply HasDerivAt.sqrt)

/-- differentiate a rational (+ sqrt) expression structurally; leaves the side goals `denominator ≠ 0` -/
macro "deriv_auto" : tactic => `(tactic| repeat' deriv_step)

/-! ### closed forms -/

theorem odijk_distance_hasDerivAt (f Lp Lc St kT : ℝ) (hf : 0 < f) (hLp : 0 < Lp) (hkT : 0 < kT)
    (hSt : 0 < St) :
    HasDerivAt (fun f => odijkDistance f Lp Lc St kT) (odijkDistanceDeriv f Lp Lc St kT) f := by
  have hpos : 0 < kT / (f * Lp) := by positivity
  have hs2 : Real.sqrt (kT / (f * Lp)) ^ 2 = kT / (f * Lp) := Real.sq_sqrt hpos.le
  have hsp : 0 < Real.sqrt (kT / (f * Lp)) := Real.sqrt_pos.mpr hpos
  apply HasDerivAt.congr_deriv
  · simp only [odijkDistance]
    deriv_auto
    all_goals positivity
  · simp only [odijkDistanceDeriv, RealLike.sqrt]
    have e : kT * (1.0 / f) / Lp = kT / (f * Lp) := by norm_num; field_simp
    rw [e]
    generalize Real.sqrt (kT / (f * Lp)) = s at *
    have hk : kT = s ^ 2 * (f * Lp) := by rw [hs2]; field_simp
    subst hk
    norm_num
    field_simp
    first | ring1 | (ring_nf; simp)

/-- discharge a `denominator ≠ 0` side goal from positivity or a hypothesis in context -/
macro "side_goal" : tactic =>
  `(tactic| first | positivity | assumption | (norm_num <;> first | assumption | positivity))

/-- close `computed derivative = the code's expression` for rational expressions -/
macro "rat_close" : tactic =>
  `(tactic| ((try norm_num); (try field_simp); (try first | ring1 | (ring_nf; simp))))

/-- the square-root term of the Odijk model: replace `kT` by `s² f Lp` -/
theorem odijk_sqrt_facts (f Lp kT : ℝ) (hf : 0 < f) (hLp : 0 < Lp) (hkT : 0 < kT) :
    0 < Real.sqrt (kT / (f * Lp)) ∧ kT = Real.sqrt (kT / (f * Lp)) ^ 2 * (f * Lp) := by
  have hpos : 0 < kT / (f * Lp) := by positivity
  refine ⟨Real.sqrt_pos.mpr hpos, ?_⟩
  rw [Real.sq_sqrt hpos.le]; field_simp

theorem odijk_jac_Lp (f Lp Lc St kT : ℝ) (hf : 0 < f) (hLp : 0 < Lp) (hkT : 0 < kT) (hSt : 0 < St) :
    HasDerivAt (fun Lp => odijkDistance f Lp Lc St kT) ((odijkDistanceJac f Lp Lc St kT).getD 0 0) Lp := by
  obtain ⟨hsp, hk⟩ := odijk_sqrt_facts f Lp kT hf hLp hkT
  have hpos : 0 < kT / (f * Lp) := by positivity
  apply HasDerivAt.congr_deriv
  · simp only [odijkDistance]
    deriv_auto
    all_goals positivity
  · simp only [odijkDistanceJac, RealLike.sqrt, List.getD_cons_zero]
    generalize Real.sqrt (kT / (f * Lp)) = s at *
    subst hk
    rat_close

theorem odijk_jac_Lc (f Lp Lc St kT : ℝ) (hSt : 0 < St) :
    HasDerivAt (fun Lc => odijkDistance f Lp Lc St kT) ((odijkDistanceJac f Lp Lc St kT).getD 1 0) Lc := by
  apply HasDerivAt.congr_deriv
  · simp only [odijkDistance]
    deriv_auto
  · simp only [odijkDistanceJac, RealLike.sqrt, List.getD_cons_succ, List.getD_cons_zero]
    rat_close

theorem odijk_jac_St (f Lp Lc St kT : ℝ) (hSt : 0 < St) :
    HasDerivAt (fun St => odijkDistance f Lp Lc St kT) ((odijkDistanceJac f Lp Lc St kT).getD 2 0) St := by
  apply HasDerivAt.congr_deriv
  · simp only [odijkDistance]
    deriv_auto
    all_goals positivity
  · simp only [odijkDistanceJac, RealLike.sqrt, List.getD_cons_succ, List.getD_cons_zero]
    rat_close

theorem odijk_jac_kT (f Lp Lc St kT : ℝ) (hf : 0 < f) (hLp : 0 < Lp) (hkT : 0 < kT) (hSt : 0 < St) :
    HasDerivAt (fun kT => odijkDistance f Lp Lc St kT) ((odijkDistanceJac f Lp Lc St kT).getD 3 0) kT := by
  obtain ⟨hsp, hk⟩ := odijk_sqrt_facts f Lp kT hf hLp hkT
  have hpos : 0 < kT / (f * Lp) := by positivity
  apply HasDerivAt.congr_deriv
  · simp only [odijkDistance]
    deriv_auto
    all_goals positivity
  · simp only [odijkDistanceJac, RealLike.sqrt, List.getD_cons_succ, List.getD_cons_zero]
    generalize Real.sqrt (kT / (f * Lp)) = s at *
    subst hk
    rat_close

/-! Marko–Siggia force -/

theorem ms_force_hasDerivAt (d Lp Lc kT : ℝ) (hLp : 0 < Lp) (hLc : 0 < Lc) (hd : d < Lc) :
    HasDerivAt (fun d => msForce d Lp Lc kT) (msForceDeriv d Lp Lc kT) d := by
  have h1 : Lc - d ≠ 0 := by linarith
  have h2 : (1:ℝ) - d / Lc ≠ 0 := by
    have : d / Lc < 1 := by rw [div_lt_one hLc]; exact hd
    linarith
  apply HasDerivAt.congr_deriv
  · simp only [msForce, RealLike.sq]
    deriv_auto
    all_goals side_goal
  · simp only [msForceDeriv, RealLike.sq, RealLike.cube]
    rat_close

theorem ms_jac_Lp (d Lp Lc kT : ℝ) (hLp : 0 < Lp) (hLc : 0 < Lc) (hd : d < Lc) :
    HasDerivAt (fun Lp => msForce d Lp Lc kT) ((msForceJac d Lp Lc kT).getD 0 0) Lp := by
  have h1 : Lc - d ≠ 0 := by linarith
  have h2 : (1:ℝ) - d / Lc ≠ 0 := by
    have : d / Lc < 1 := by rw [div_lt_one hLc]; exact hd
    linarith
  apply HasDerivAt.congr_deriv
  · simp only [msForce, RealLike.sq]
    deriv_auto
    all_goals side_goal
  · simp only [msForceJac, RealLike.sq, RealLike.cube, List.getD_cons_succ, List.getD_cons_zero]
    rat_close

theorem ms_jac_Lc (d Lp Lc kT : ℝ) (hLp : 0 < Lp) (hLc : 0 < Lc) (hd : d < Lc) :
    HasDerivAt (fun Lc => msForce d Lp Lc kT) ((msForceJac d Lp Lc kT).getD 1 0) Lc := by
  have h1 : Lc - d ≠ 0 := by linarith
  have h2 : (1:ℝ) - d / Lc ≠ 0 := by
    have : d / Lc < 1 := by rw [div_lt_one hLc]; exact hd
    linarith
  apply HasDerivAt.congr_deriv
  · simp only [msForce, RealLike.sq]
    deriv_auto
    all_goals side_goal
  · simp only [msForceJac, RealLike.sq, RealLike.cube, List.getD_cons_succ, List.getD_cons_zero]
    rat_close

theorem ms_jac_kT (d Lp Lc kT : ℝ) (hLp : 0 < Lp) (hLc : 0 < Lc) (hd : d < Lc) :
    HasDerivAt (fun kT => msForce d Lp Lc kT) ((msForceJac d Lp Lc kT).getD 2 0) kT := by
  have h1 : Lc - d ≠ 0 := by linarith
  have h2 : (1:ℝ) - d / Lc ≠ 0 := by
    have : d / Lc < 1 := by rw [div_lt_one hLc]; exact hd
    linarith
  apply HasDerivAt.congr_deriv
  · simp only [msForce, RealLike.sq]
    deriv_auto
    all_goals side_goal
  · simp only [msForceJac, RealLike.sq, RealLike.cube, List.getD_cons_succ, List.getD_cons_zero]
    rat_close

/-! ### the implicit-function identity for a simple root of `y³ + a y² + b y + c` -/

open Filter Topology in
theorem cubic_implicit (y a b c : ℝ → ℝ) (y' a' b' c' t : ℝ)
    (hy : HasDerivAt y y' t) (ha : HasDerivAt a a' t) (hb : HasDerivAt b b' t) (hc : HasDerivAt c c' t)
    (hroot : ∀ᶠ s in 𝓝 t, y s * y s * y s + a s * (y s * y s) + b s * y s + c s = 0)
    (hsimple : 3 * y t * y t + 2 * a t * y t + b t ≠ 0) :
    y' = (-(y t * y t)) / (3 * y t * y t + 2 * a t * y t + b t) * a'
        + (-(y t)) / (3 * y t * y t + 2 * a t * y t + b t) * b'
        + (-1) / (3 * y t * y t + 2 * a t * y t + b t) * c' := by
  have hG : HasDerivAt (fun s => y s * y s * y s + a s * (y s * y s) + b s * y s + c s)
      ((y' * y t + y t * y') * y t + y t * y t * y' + (a' * (y t * y t) + a t * (y' * y t + y t * y'))
        + (b' * y t + b t * y') + c') t :=
    ((((hy.mul hy).mul hy).add (ha.mul (hy.mul hy))).add (hb.mul hy)).add hc
  have h0 : HasDerivAt (fun s => y s * y s * y s + a s * (y s * y s) + b s * y s + c s) 0 t :=
    (hasDerivAt_const t (0:ℝ)).congr_of_eventuallyEq hroot
  have e := hG.unique h0
  have key : y' * (3 * y t * y t + 2 * a t * y t + b t) = -(y t * y t) * a' + -(y t) * b' + -1 * c' := by
    linear_combination e
  rw [← mul_div_cancel_right₀ y' hsimple, key]
  ring
