import Verif.Props.C06
namespace Verif.C06
open Verif.Py

/-- photon counts of the pixels `k ≤ c < k + t` of a row, added up -/
def winSum (k t : Nat) (r : List Pix) : Int := (((r.drop k).take t).map (·.v)).sum

theorem sum_append_int (a b : List Int) : (a ++ b).sum = a.sum + b.sum := by
  induction a with
  | nil => simp
  | cons x xs ih => simp [ih]; omega

theorem foldl_add_v (ps : List Pix) (p : Pix) : (ps.foldl Pix.add p).v = p.v + (ps.map (·.v)).sum := by
  induction ps generalizing p with
  | nil => simp
  | cons q qs ih => simp [ih, Pix.add]; omega

theorem sumPix_v (l : List Pix) : (sumPix l).v = (l.map (·.v)).sum := by
  cases l with
  | nil => rfl
  | cons p ps => simp [sumPix, foldl_add_v]

theorem sum_zipWith_add (a b : List Pix) (h : a.length = b.length) :
    ((List.zipWith Pix.add a b).map (·.v)).sum = (a.map (·.v)).sum + (b.map (·.v)).sum := by
  induction a generalizing b with
  | nil => cases b with
    | nil => simp
    | cons y ys => simp at h
  | cons x xs ih =>
    cases b with
    | nil => simp at h
    | cons y ys =>
      have := ih ys (by simpa using h)
      simp only [List.zipWith_cons_cons, List.map_cons, List.sum_cons, this, Pix.add]
      omega

theorem winSum_zipWith (k t : Nat) (a b : List Pix) (h : a.length = b.length) :
    winSum k t (List.zipWith Pix.add a b) = winSum k t a + winSum k t b := by
  unfold winSum
  rw [List.drop_zipWith, List.take_zipWith]
  apply sum_zipWith_add
  simp [h]

theorem foldl_zipWith_spec (k t n : Nat) (rs : List (List Pix)) (hr : Rect rs n) (acc : List Pix) (ha : acc.length = n) :
    (rs.foldl (fun acc x => List.zipWith Pix.add acc x) acc).length = n ∧
    winSum k t (rs.foldl (fun acc x => List.zipWith Pix.add acc x) acc) = winSum k t acc + (rs.map (winSum k t)).sum := by
  induction rs generalizing acc with
  | nil => simp [ha]
  | cons x xs ih =>
    have hx : x.length = n := hr x (by simp)
    have hl : (List.zipWith Pix.add acc x).length = n := by simp [ha, hx]
    have := ih (fun r hrm => hr r (by simp [hrm])) (List.zipWith Pix.add acc x) hl
    simp only [List.foldl_cons, List.map_cons, List.sum_cons]
    refine ⟨this.1, ?_⟩
    rw [this.2, winSum_zipWith k t acc x (by omega)]
    omega

theorem block2d_sum (band : List (List Pix)) (tf j : Nat) :
    ((block2d band tf j).map (·.v)).sum = (band.map (winSum (j * tf) tf)).sum := by
  unfold block2d
  induction band with
  | nil => simp
  | cons r rs ih => simp only [List.flatMap_cons, List.map_append, sum_append_int, ih, List.map_cons, List.sum_cons]; rfl

/-- **Binning adds up exactly the pixels of the block.**  On a rectangular image with `n` lines, row `i` of the
    down-sampled image has `⌊n / tf⌋` entries and entry `j` holds the sum of the photon counts of ALL pixels of the
    two-dimensional block — source rows `i·pf … i·pf + pf − 1` × lines `j·tf … j·tf + tf − 1` — although the code adds
    the rows of a band first and then the lines (specification: a plain sum over the block, as for `down_with_entry`). -/
theorem down_entry_sum (img : Img) (n : Nat) (hr : Rect img n) (pf tf : Nat) (hpf : 0 < pf) (htf : 0 < tf) (i : Nat)
    (hi : i < (blockReduce img pf tf).length) :
    ((blockReduce img pf tf)[i]).length = n / tf ∧
    ∀ j (hj : j < ((blockReduce img pf tf)[i]).length),
      (((blockReduce img pf tf)[i])[j]).v = ((block2d ((img.drop (i * pf)).take pf) tf j).map (·.v)).sum := by
  have hi' : i < img.length / pf := by rw [← down_shape img pf tf hpf]; exact hi
  obtain ⟨hrow, hchunk⟩ := down_entry img pf tf hpf htf i hi
  -- the band of source rows
  have hmul : i * pf + pf ≤ img.length := by
    have := Nat.div_mul_le_self img.length pf
    have : (i + 1) * pf ≤ img.length / pf * pf := Nat.mul_le_mul_right pf (by omega)
    rw [Nat.add_mul] at this; omega
  have hbl : ((img.drop (i * pf)).take pf).length = pf := by simp; omega
  have hbr : Rect ((img.drop (i * pf)).take pf) n := fun r hrm => hr r (List.mem_of_mem_drop (List.mem_of_mem_take hrm))
  generalize hband : (img.drop (i * pf)).take pf = band at *
  cases band with
  | nil => simp at hbl; omega
  | cons r0 rs =>
    have h0 : r0.length = n := hbr r0 (by simp)
    have hrs : Rect rs n := fun r hrm => hbr r (by simp [hrm])
    have hlen : (addRows (r0 :: rs)).length = n := (foldl_zipWith_spec 0 0 n rs hrs r0 h0).1
    have hcl : (chunks tf (addRows (r0 :: rs))).length = n / tf := by rw [chunks_length tf htf, hlen]
    constructor
    · rw [hrow, List.length_map, hcl]
    · intro j hj
      have hj' : j < (chunks tf (addRows (r0 :: rs))).length := by
        rw [hrow, List.length_map] at hj; exact hj
      have e : ((blockReduce img pf tf)[i])[j] = sumPix ((chunks tf (addRows (r0 :: rs)))[j]) := by
        simp only [hrow, List.getElem_map]
      rw [e, hchunk j hj', sumPix_v, block2d_sum]
      have := (foldl_zipWith_spec (j * tf) tf n rs hrs r0 h0).2
      simp only [List.map_cons, List.sum_cons]
      exact this

end Verif.C06
