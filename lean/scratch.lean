import Verif.Lemmas.C15
#print axioms Verif.C15.pmf_disc_eq_spec
#print axioms Verif.C15.pdf_cont_eq_spec
