import Verif.Lemmas.C19
namespace Verif.C19
example (f : File) (upDen : Prim → Ans) {h : Heap} {i : Nat} {o : Obj} (ho : h[i]? = some o)
    (ha : o.alive = true) {p : Prim}  :
    denAt f upDen h i p = denOne f upDen o p := by
  unfold denAt
  rw [ho]
  simp only [ha, Bool.not_true, Bool.false_eq_true, if_false]
  trace_state
  sorry
#print axioms denAt_nonself
end Verif.C19
