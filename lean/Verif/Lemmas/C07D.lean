/-
  Helper lemmas for C07, deepening round D: kymograph content (`np.sum` over the window rows, swapped axes, inversion of
  `Stack.toKymo`), timestamps under frame selection, time-like bounds end to end, re-tethering.
-/
import Verif.Lemmas.C07

namespace Verif.C07
open Verif.Py

/-! ### kymograph content -/

theorem pySliceOpt_some {α} (l : List α) (i j : Int) : pySliceOpt l (some i) (some j) = pySlice l i j := rfl

theorem getD_pySlice (row : List Int) (a b : Int) (x : Nat) (ha : 0 ≤ a) (hb : 0 ≤ b) (hx : a + x < b) :
    (pySlice row a b).getD x 0 = row.getD (a.toNat + x) 0 := by
  rw [pySlice_nonneg' _ _ _ ha hb]
  simp only [List.getD_eq_getElem?_getD, List.getElem?_drop, List.getElem?_take]
  rw [if_pos (by omega)]

/-- specification side of a reduction: the entries of one column combined in order -/
def foldCol (red : Reduce) : List Int → Int
  | [] => 0
  | v :: vs => vs.foldl red.op v

theorem getD_zipWith (f : Int → Int → Int) (a b : List Int) (n x : Nat) (ha : a.length = n) (hb : b.length = n) (hx : x < n) :
    (List.zipWith f a b).getD x 0 = f (a.getD x 0) (b.getD x 0) ∧ (List.zipWith f a b).length = n := by
  refine ⟨?_, by simp [ha, hb]⟩
  simp only [List.getD_eq_getElem?_getD, List.getElem?_zipWith]
  rw [List.getElem?_eq_getElem (by omega), List.getElem?_eq_getElem (by omega)]
  simp

theorem foldl_zipWith_getD (f : Int → Int → Int) (n x : Nat) (hx : x < n) : ∀ (rs : List (List Int)) (acc : List Int),
    acc.length = n → (∀ r ∈ rs, r.length = n) →
    (rs.foldl (List.zipWith f) acc).length = n ∧
      (rs.foldl (List.zipWith f) acc).getD x 0 = (rs.map (·.getD x 0)).foldl f (acc.getD x 0)
  | [], acc, ha, _ => by simp [ha]
  | r :: rs, acc, ha, hr => by
    have hr0 := hr r (by simp)
    have hz := getD_zipWith f acc r n x ha hr0 hx
    have ih := foldl_zipWith_getD f n x hx rs (List.zipWith f acc r) hz.2 (fun q hq => hr q (by simp [hq]))
    simp only [List.foldl_cons, List.map_cons]
    refine ⟨ih.1, ?_⟩
    rw [ih.2, hz.1]

theorem foldRows_getD (red : Reduce) (rows : List (List Int)) (n x : Nat) (hlen : ∀ r ∈ rows, r.length = n) (hx : x < n) :
    (foldRows red rows).getD x 0 = foldCol red (rows.map (·.getD x 0)) := by
  cases rows with
  | nil => simp [foldRows, foldCol]
  | cons r rs =>
    have := foldl_zipWith_getD red.op n x hx rs r (hlen r (by simp)) (fun q hq => hlen q (by simp [hq]))
    simp only [foldRows, foldCol, List.map_cons]; exact this.2

theorem foldCol_sum (l : List Int) : foldCol .sum l = l.sum := by
  cases l with
  | nil => rfl
  | cons v vs =>
    simp only [foldCol, List.sum_cons]
    have : ∀ (vs : List Int) (a : Int), vs.foldl Reduce.sum.op a = a + vs.sum := by
      intro vs
      induction vs with
      | nil => intro a; simp
      | cons w ws ih => intro a; simp only [List.foldl_cons, List.sum_cons, ih, Reduce.op]; omega
    exact this vs v

theorem foldCol_max (l : List Int) (hne : l ≠ []) : foldCol .max l ∈ l ∧ ∀ v ∈ l, v ≤ foldCol .max l := by
  cases l with
  | nil => exact absurd rfl hne
  | cons v vs =>
    have : ∀ (vs : List Int) (a : Int), (vs.foldl Reduce.max.op a = a ∨ vs.foldl Reduce.max.op a ∈ vs) ∧
        a ≤ vs.foldl Reduce.max.op a ∧ ∀ u ∈ vs, u ≤ vs.foldl Reduce.max.op a := by
      intro vs
      induction vs with
      | nil => intro a; simp
      | cons w ws ih =>
        intro a
        simp only [List.foldl_cons]
        obtain ⟨h1, h2, h3⟩ := ih (Reduce.max.op a w)
        have hop : (Reduce.max.op a w = a ∨ Reduce.max.op a w = w) ∧ a ≤ Reduce.max.op a w ∧ w ≤ Reduce.max.op a w := by
          simp only [Reduce.op]; split <;> omega
        refine ⟨?_, by omega, ?_⟩
        · rcases h1 with h1 | h1
          · rcases hop.1 with h | h
            · left; rw [h1, h]
            · right; rw [h1, h]; simp
          · right; exact List.mem_cons_of_mem _ h1
        · intro u hu
          rcases List.mem_cons.mp hu with rfl | hu
          · omega
          · exact h3 u hu
    obtain ⟨h1, h2, h3⟩ := this vs v
    simp only [foldCol]
    refine ⟨?_, ?_⟩
    · rcases h1 with h1 | h1
      · rw [h1]; simp
      · exact List.mem_cons_of_mem _ h1
    · intro u hu
      rcases List.mem_cons.mp hu with rfl | hu
      · exact h2
      · exact h3 u hu

theorem foldCol_min (l : List Int) (hne : l ≠ []) : foldCol .min l ∈ l ∧ ∀ v ∈ l, foldCol .min l ≤ v := by
  cases l with
  | nil => exact absurd rfl hne
  | cons v vs =>
    have : ∀ (vs : List Int) (a : Int), (vs.foldl Reduce.min.op a = a ∨ vs.foldl Reduce.min.op a ∈ vs) ∧
        vs.foldl Reduce.min.op a ≤ a ∧ ∀ u ∈ vs, vs.foldl Reduce.min.op a ≤ u := by
      intro vs
      induction vs with
      | nil => intro a; simp
      | cons w ws ih =>
        intro a
        simp only [List.foldl_cons]
        obtain ⟨h1, h2, h3⟩ := ih (Reduce.min.op a w)
        have hop : (Reduce.min.op a w = a ∨ Reduce.min.op a w = w) ∧ Reduce.min.op a w ≤ a ∧ Reduce.min.op a w ≤ w := by
          simp only [Reduce.op]; split <;> omega
        refine ⟨?_, by omega, ?_⟩
        · rcases h1 with h1 | h1
          · rcases hop.1 with h | h
            · left; rw [h1, h]
            · right; rw [h1, h]; simp
          · right; exact List.mem_cons_of_mem _ h1
        · intro u hu
          rcases List.mem_cons.mp hu with rfl | hu
          · omega
          · exact h3 u hu
    obtain ⟨h1, h2, h3⟩ := this vs v
    simp only [foldCol]
    refine ⟨?_, ?_⟩
    · rcases h1 with h1 | h1
      · rw [h1]; simp
      · exact List.mem_cons_of_mem _ h1
    · intro u hu
      rcases List.mem_cons.mp hu with rfl | hu
      · exact h2
      · exact h3 u hu

theorem swapAxes_getElem? (n : Nat) (lines : List (List Int)) (x : Nat) (hx : x < n) :
    (swapAxes n lines)[x]? = some (lines.map fun l => l.getD x 0) := by
  unfold swapAxes
  rw [List.getElem?_map, List.getElem?_range hx]; rfl

theorem swapAxes_length (n : Nat) (lines : List (List Int)) : (swapAxes n lines).length = n := by
  unfold swapAxes; simp


theorem toKymo_inv (s : Stack) (pages : List Page) (raw : Int → List (List Int)) (x1 y1 x2 y2 w : Int) (red : Reduce)
    (k : Kymo) (hk : s.toKymo pages raw (some (x1, y1, x2, y2)) w red = some (.ok k)) :
    ∃ r r', s.ranges pages false false = some r ∧ kymoTimes r = .ok (k.lineTime, k.exposure, k.start) ∧
      y1 = y2 ∧ 0 ≤ w ∧ 0 ≤ y1 - w ∧ y2 + w + 1 ≤ s.roi.height ∧
      s.roi.crop (some (max x1 0)) (some (max (x2 + 1) 0)) (some (y1 - w)) (some (y2 + w + 1)) = .ok r' ∧
      k.image = swapAxes r'.width.toNat (s.frames.map fun p => kymoLine red w (r'.apply (raw p))) := by
  unfold Stack.toKymo at hk
  cases hr : s.ranges pages false false with
  | none => rw [hr] at hk; cases hk
  | some r =>
    rw [hr] at hk
    simp only [Option.bind_eq_bind, Option.bind_some] at hk
    cases ht : kymoTimes r with
    | error e => rw [ht] at hk; cases hk
    | ok v =>
      obtain ⟨lt, ex, st⟩ := v
      rw [ht] at hk
      simp only at hk
      cases hs : s.kymoStack x1 y1 x2 y2 w with
      | error e => rw [hs] at hk; cases hk
      | ok ks =>
        rw [hs] at hk
        simp only [Option.some.injEq, Except.ok.injEq] at hk
        unfold Stack.kymoStack kymoWindow at hs
        by_cases hy : y1 ≠ y2
        · rw [if_pos hy] at hs; cases hs
        · rw [if_neg hy] at hs
          by_cases hw : w < 0
          · rw [if_pos hw] at hs; cases hs
          · rw [if_neg hw] at hs
            simp only at hs
            by_cases hwin : y1 - w < 0 ∨ y2 + w + 1 > s.roi.height
            · rw [if_pos hwin] at hs; cases hs
            · rw [if_neg hwin] at hs
              simp only [bind, Except.bind] at hs
              unfold Stack.cropPixels at hs
              cases hc : s.roi.crop (some (max x1 0)) (some (max (x2 + 1) 0)) (some (y1 - w)) (some (y2 + w + 1)) with
              | error e => rw [hc] at hs; cases hs
              | ok r' =>
                rw [hc] at hs
                simp only [Except.map, Except.ok.injEq] at hs
                subst hs
                subst hk
                refine ⟨r, r', rfl, ht, by omega, by omega, by omega, by omega, rfl, rfl⟩
theorem cropBound_some_nonneg (dim dflt v : Int) (hv : 0 ≤ v) : cropBound dim dflt (some v) = min v dim := by
  unfold cropBound
  simp only [Option.getD_some]
  rw [if_neg (by omega), Int.max_eq_left hv]

theorem roi_crop_some_inv (r r' : Roi) (a b c d : Int) (ha : 0 ≤ a) (hb : 0 ≤ b) (hc : 0 ≤ c) (hd : 0 ≤ d)
    (h : r.crop (some a) (some b) (some c) (some d) = .ok r') :
    r'.xMin = min a r.width + r.xMin ∧ r'.xMax = min b r.width + r.xMin ∧
    r'.yMin = min c r.height + r.yMin ∧ r'.yMax = min d r.height + r.yMin ∧
    r'.xMin < r'.xMax ∧ r'.yMin < r'.yMax := by
  unfold Roi.crop Roi.make at h
  simp only [cropBound_some_nonneg _ _ _ ha, cropBound_some_nonneg _ _ _ hb, cropBound_some_nonneg _ _ _ hc,
    cropBound_some_nonneg _ _ _ hd] at h
  split at h
  · cases h
  · split at h
    · cases h
    · injection h with h
      subst h
      refine ⟨rfl, rfl, rfl, rfl, ?_, ?_⟩ <;> simp only <;> omega

theorem length_pySlice_within {α} (l : List α) (c d : Int) (hc : 0 ≤ c) (hcd : c ≤ d) (hd : d ≤ l.length) :
    ((pySlice l c d).length : Int) = d - c := by
  rw [pySlice_nonneg' _ _ _ hc (by omega)]
  simp only [List.length_drop, List.length_take]; omega

theorem all_zip_drop (c : Int) : ∀ (l : List (Int × Int)),
    ((l.zip (l.drop 1)).all (fun (x, y) => y.1 - x.1 == c) = true ↔
      ∀ i (h : i + 1 < l.length), l[i + 1].1 - l[i].1 = c)
  | [] => by simp
  | [a] => by simp
  | a :: b :: rest => by
    have ih := all_zip_drop c (b :: rest)
    simp only [List.drop_one, List.tail_cons] at ih ⊢
    rw [List.zip_cons_cons, List.all_cons, Bool.and_eq_true, ih]
    constructor
    · rintro ⟨h0, hs⟩ i hi
      cases i with
      | zero => simpa using h0
      | succ i => exact hs i (by simp only [List.length_cons] at hi ⊢; omega)
    · intro h
      refine ⟨by simpa using h 0 (by simp), fun i hi => h (i + 1) (by simp only [List.length_cons] at hi ⊢; omega)⟩


/-! ### slices with a step commute with `map`; membership -/

theorem pySliceStep_map {α β} (f : α → β) (l : List α) (a b : Option Int) (c : Nat) :
    pySliceStep (l.map f) a b c = (pySliceStep l a b c).map f := by
  unfold pySliceStep
  simp only [List.length_map, ← List.map_take, ← List.map_drop]
  exact everyNth_map f c _ _ (Nat.le_refl _)

theorem mem_everyNth {α} (c : Nat) (x : α) : ∀ (n : Nat) (l : List α), l.length ≤ n → x ∈ everyNth c l → x ∈ l := by
  intro n
  induction n with
  | zero =>
    intro l hl h
    have : l = [] := List.eq_nil_of_length_eq_zero (by omega)
    subst this; rw [everyNth_nil] at h; exact h
  | succ n ih =>
    intro l hl h
    cases l with
    | nil => rw [everyNth_nil] at h; exact h
    | cons y ys =>
      rw [everyNth_cons, List.mem_cons] at h
      rcases h with h | h
      · rw [h]; simp
      · have := ih (ys.drop (c - 1)) (by simp at hl ⊢; omega) h
        exact List.mem_cons_of_mem _ (List.mem_of_mem_drop this)

theorem mem_pySliceStep {α} {l : List α} {a b : Option Int} {c : Nat} {x : α} (h : x ∈ pySliceStep l a b c) : x ∈ l := by
  unfold pySliceStep at h
  exact List.mem_of_mem_take (List.mem_of_mem_drop (mem_everyNth c x _ _ (Nat.le_refl _) h))

theorem pyIndex_map {α β} (f : α → β) (l : List α) (i : Int) : pyIndex (l.map f) i = (pyIndex l i).map f := by
  unfold pyIndex
  simp only [List.length_map, List.getElem?_map]
  split
  · split <;> simp
  · rfl

/-! ### timestamps of the visible frames -/

/-- every visible frame is a page of the file(s) -/
def Stack.Paged (s : Stack) (pages : List Page) : Prop := ∀ p ∈ s.frames, 0 ≤ p ∧ p < pages.length

/-- the range of page `p` as `frame_timestamp_ranges(include_dead_time = dead)` reports it (non-legacy files) -/
def pageRange (pages : List Page) (dead : Bool) (p : Int) : Int × Int :=
  match pageAt pages p with
  | some pg => (pg.start, if dead then pg.stop else pg.expStop)
  | none => (0, 0)

theorem filterMap_eq_map {α β} (f : α → Option β) (g : α → β) : ∀ (l : List α), (∀ x ∈ l, f x = some (g x)) →
    l.filterMap f = l.map g
  | [], _ => rfl
  | x :: xs, h => by
    rw [List.filterMap_cons, h x (by simp), List.map_cons, filterMap_eq_map f g xs (fun y hy => h y (by simp [hy]))]

theorem ranges_eq_map (s : Stack) (pages : List Page) (hp : s.Paged pages) (dead : Bool) :
    s.ranges pages dead false = some (s.frames.map (pageRange pages dead)) := by
  have hsome : ∀ p ∈ s.frames, ∃ pg, pageAt pages p = some pg := by
    intro p hpm
    obtain ⟨h0, h1⟩ := hp p hpm
    unfold pageAt
    rw [if_neg (by omega)]
    exact ⟨pages[p.toNat]'(by omega), List.getElem?_eq_getElem (by omega)⟩
  have hfm : s.frames.filterMap (pageAt pages) = s.frames.map (fun p => (pageAt pages p).getD ⟨0, 0, 0⟩) := by
    apply filterMap_eq_map
    intro p hpm
    obtain ⟨pg, hpg⟩ := hsome p hpm
    rw [hpg]; rfl
  unfold Stack.ranges
  simp only [hfm, List.length_map, ne_eq, not_true_eq_false, if_false, Bool.false_eq_true]
  cases dead
  · simp only [Bool.false_eq_true, if_false, List.map_map, Option.some.injEq]
    apply List.map_congr_left
    intro p hpm
    obtain ⟨pg, hpg⟩ := hsome p hpm
    simp [pageRange, hpg]
  · simp only [if_true, List.map_map, Option.some.injEq]
    apply List.map_congr_left
    intro p hpm
    obtain ⟨pg, hpg⟩ := hsome p hpm
    simp [pageRange, hpg]


theorem everyNth_one {α} : ∀ (n : Nat) (l : List α), l.length ≤ n → everyNth 1 l = l := by
  intro n
  induction n with
  | zero =>
    intro l hl
    have : l = [] := List.eq_nil_of_length_eq_zero (by omega)
    subst this; exact everyNth_nil 1
  | succ n ih =>
    intro l hl
    cases l with
    | nil => exact everyNth_nil 1
    | cons x xs =>
      rw [everyNth_cons]
      simp only [Nat.sub_self, List.drop_zero]
      rw [ih xs (by simp at hl; omega)]

theorem pySliceStep_one {α} (l : List α) (i j : Int) : pySliceStep l (some i) (some j) 1 = pySlice l i j := by
  unfold pySliceStep sliceIndicesPos pySlice
  simp only
  exact everyNth_one _ _ (Nat.le_refl _)

theorem cropBound_none (dim dflt : Int) (h0 : 0 ≤ dflt) (h1 : dflt ≤ dim) : cropBound dim dflt none = dflt := by
  unfold cropBound
  simp only [Option.getD_none]
  rw [if_neg (by omega)]
  omega

/-! ### re-defining a tether on a rotated stack (at `ℝ`) -/

theorem cos_sq_add_sin_sq (e : Pt ℝ × Pt ℝ) (h : e.1.x ≠ e.2.x ∨ e.1.y ≠ e.2.y) :
    tCos e * tCos e + tSin e * tSin e = 1 := by
  have hr := tLen_pos e h
  have hsq := tLen_sq e
  unfold tCos tSin
  generalize tLen e = r at *
  field_simp
  linear_combination (-1 : ℝ) * hsq

theorem unrotate_rotate (e : Pt ℝ × Pt ℝ) (h : e.1.x ≠ e.2.x ∨ e.1.y ≠ e.2.y) (p : Pt ℝ) :
    unrotate e (rotate e p) = p := by
  have hcs := cos_sq_add_sin_sq e h
  cases p with
  | mk px py =>
    simp only [unrotate, rotate]
    congr 1
    · linear_combination (px - tCx e) * hcs
    · linear_combination (py - tCy e) * hcs

/-- the raw ends after re-defining the tether through `p`, `q` of the current (rotated, cropped) image -/
theorem withTether_ends (t : Tether ℝ) (e : Pt ℝ × Pt ℝ) (he : t.ends = some e) (p q : Pt ℝ) :
    (t.withTether p q).ends = some (unrotate e ⟨p.x + t.offX, p.y + t.offY⟩, unrotate e ⟨q.x + t.offX, q.y + t.offY⟩) ∧
    (t.withTether p q).offX = t.offX ∧ (t.withTether p q).offY = t.offY := by
  refine ⟨?_, ?_, ?_⟩
  · simp only [Tether.withTether, he, Tether.new, Option.map_some, unrotate]
    congr 2 <;> (congr 1 <;> ring)
  · simp only [Tether.withTether, he, Tether.new]
  · simp only [Tether.withTether, he, Tether.new]


/-- The invariant of every stack the code builds: positive step, ROI inside the raw pages and not empty, every visible
    frame a page of the file(s). -/
def Stack.Good (s : Stack) (H W : Nat) (pages : List Page) : Prop :=
  0 < s.st ∧ s.roi.Within H W ∧ s.Paged pages


/-! ### programs of NumPy index expressions (specification side) -/

/-- One NumPy index expression `[a:b:c, ra:rb, ca:cb]`. -/
structure Idx where
  a : Option Int
  b : Option Int
  c : Option Int
  ra : Option Int
  rb : Option Int
  ca : Option Int
  cb : Option Int

/-- the same as an operation of the stack: `stack[a:b:c, ra:rb, ca:cb]` -/
def Idx.toOp (i : Idx) : Op := .tuple [.slice i.a i.b i.c, .slice i.ra i.rb none, .slice i.ca i.cb none]

/-- NumPy: `array[a:b:c, ra:rb, ca:cb]` on a `[frame][row][column]` array -/
def Idx.np {α} (arr : List (List (List α))) (i : Idx) : List (List (List α)) :=
  (pySliceStep arr i.a i.b (i.c.getD 1).toNat).map fun img => pySlice2 img i.ca i.cb i.ra i.rb


end Verif.C07
