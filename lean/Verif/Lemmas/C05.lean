/-
  Helper lemmas for C05 (core Lean only).
-/
import Verif.Model.C05
import Verif.Props.C01

namespace Verif.C05
open Verif.Py

/-- Declarative meaning of a pattern: `*` matches any (possibly empty) run of characters, `?` exactly
    one character, a literal itself. -/
inductive Matches : List Pat → List Char → Prop where
  | nil : Matches [] []
  | lit (c : Char) {ps cs} : Matches ps cs → Matches (.lit c :: ps) (c :: cs)
  | any1 (d : Char) {ps cs} : Matches ps cs → Matches (.any1 :: ps) (d :: cs)
  | star (pre : List Char) {ps cs} : Matches ps cs → Matches (.star :: ps) (pre ++ cs)

theorem matches_star_cons {ps : List Pat} {c : Char} {cs : List Char}
    (h : Matches (.star :: ps) cs) : Matches (.star :: ps) (c :: cs) := by
  cases h with
  | star pre h' => exact Matches.star (c :: pre) h'

theorem globMatch_sound : ∀ (ps : List Pat) (s : List Char), globMatch ps s = true → Matches ps s := by
  intro ps s
  fun_induction globMatch ps s with
  | case1 => intro _; exact Matches.nil
  | case2 => intro h; cases h
  | case3 ps ih => intro h; exact Matches.star [] (ih h)
  | case4 ps c cs ih1 ih2 =>
    intro h
    rw [Bool.or_eq_true] at h
    rcases h with h | h
    · exact Matches.star [] (ih1 h)
    · exact matches_star_cons (ih2 h)
  | case5 ps d cs ih => intro h; exact Matches.any1 d (ih h)
  | case6 => intro h; cases h
  | case7 c ps d cs ih =>
    intro h
    rw [Bool.and_eq_true] at h
    have hc : c = d := by simpa using h.1
    subst hc
    exact Matches.lit c (ih h.2)
  | case8 => intro h; cases h

theorem globMatch_star_append (ps : List Pat) :
    ∀ (pre cs : List Char), globMatch ps cs = true → globMatch (.star :: ps) (pre ++ cs) = true := by
  intro pre
  induction pre with
  | nil =>
    intro cs h
    cases cs with
    | nil => simpa [globMatch] using h
    | cons c cs => simp [globMatch, h]
  | cons p pre ih =>
    intro cs h
    have := ih cs h
    simp [globMatch, this]

theorem globMatch_complete : ∀ {ps : List Pat} {s : List Char}, Matches ps s → globMatch ps s = true := by
  intro ps s h
  induction h with
  | nil => simp [globMatch]
  | lit c _ ih => simp [globMatch, ih]
  | any1 d _ ih => simp [globMatch, ih]
  | star pre _ ih => exact globMatch_star_append _ pre _ ih

/-! ### calibration filter -/

theorem mem_insertCal (x y : CalItem) (l : List CalItem) : y ∈ insertCal x l ↔ y = x ∨ y ∈ l := by
  induction l with
  | nil => simp [insertCal]
  | cons z zs ih =>
    unfold insertCal
    split
    · simp
    · simp only [List.mem_cons, ih]
      constructor
      · rintro (h | h | h) <;> simp [h]
      · rintro (h | h | h) <;> simp [h]

theorem mem_sorted (items : List CalItem) (x : CalItem) : x ∈ sortCal items ↔ x ∈ items := by
  induction items with
  | nil => simp [sortCal]
  | cons y ys ih => simp only [sortCal, mem_insertCal, ih, List.mem_cons]

theorem insertCal_pairwise (x : CalItem) (l : List CalItem)
    (h : l.Pairwise (fun a b => a.time ≤ b.time)) :
    (insertCal x l).Pairwise (fun a b => a.time ≤ b.time) := by
  induction l with
  | nil => simp [insertCal]
  | cons z zs ih =>
    unfold insertCal
    rw [List.pairwise_cons] at h
    split
    · rename_i hle
      refine List.pairwise_cons.mpr ⟨?_, List.pairwise_cons.mpr h⟩
      intro y hy
      rcases List.mem_cons.mp hy with h1 | h1
      · subst h1; exact hle
      · have := h.1 y h1; omega
    · rename_i hnle
      refine List.pairwise_cons.mpr ⟨?_, ih h.2⟩
      intro y hy
      rcases (mem_insertCal x y zs).mp hy with h1 | h1
      · subst h1; omega
      · exact h.1 y h1

theorem sorted_pairwise (items : List CalItem) :
    (sortCal items).Pairwise (fun a b => a.time ≤ b.time) := by
  induction items with
  | nil => simp [sortCal]
  | cons x xs ih => exact insertCal_pairwise x _ ih

theorem getLast?_mem {α} {l : List α} {x : α} (h : l.getLast? = some x) : x ∈ l :=
  List.mem_of_getLast? h

/-- In a list sorted by time the last element of a filtered sublist dominates that sublist. -/
theorem getLast_max (l : List CalItem) (hs : l.Pairwise (fun a b => a.time ≤ b.time)) (p : CalItem)
    (h : l.getLast? = some p) : ∀ y ∈ l, y.time ≤ p.time := by
  intro y hy
  obtain ⟨l', rfl⟩ : ∃ l', l = l' ++ [p] := by
    have := List.getLast?_eq_some_iff.mp h
    exact this
  rw [List.pairwise_append] at hs
  rcases List.mem_append.mp hy with h1 | h1
  · exact hs.2.2 y h1 p (by simp)
  · simp at h1; subst h1; omega

end Verif.C05

namespace Verif.C05

theorem filter_insertCal (x : CalItem) (t : Int) (l : List CalItem) :
    (insertCal x l).filter (fun y => decide (y.time = t)) =
      if x.time = t then x :: l.filter (fun y => decide (y.time = t)) else l.filter (fun y => decide (y.time = t)) := by
  induction l with
  | nil => simp [insertCal, List.filter_cons]
  | cons z zs ih =>
    unfold insertCal
    split
    · simp [List.filter_cons]
    · rename_i hnle
      rw [List.filter_cons, ih]
      by_cases hx : x.time = t
      · have hz : ¬ z.time = t := by omega
        simp [hx, hz, List.filter_cons]
      · simp [hx, List.filter_cons]


theorem mem_of_lookup_eq_some {α β} [BEq α] [LawfulBEq α] (l : List (α × β)) (a : α) (b : β)
    (h : l.lookup a = some b) : (a, b) ∈ l := by
  induction l with
  | nil => simp [List.lookup] at h
  | cons x xs ih =>
    obtain ⟨k, v⟩ := x
    by_cases hk : a = k
    · subst hk
      simp [List.lookup] at h
      subst h
      exact List.mem_cons_self
    · have : (a == k) = false := by simpa using hk
      simp only [List.lookup, this] at h
      exact List.mem_cons_of_mem _ (ih h)

theorem lookup_of_mem_nodup {α β} [BEq α] [LawfulBEq α] (l : List (α × β)) (h : (l.map (·.1)).Nodup) (a : α) (b : β)
    (hm : (a, b) ∈ l) : l.lookup a = some b := by
  induction l with
  | nil => cases hm
  | cons x xs ih =>
    simp only [List.map_cons, List.nodup_cons] at h
    simp only [List.mem_cons] at hm
    rcases hm with hm | hm
    · subst hm; simp [List.lookup]
    · have hne : ¬ a = x.1 := by
        intro he
        exact h.1 (he ▸ List.mem_map_of_mem (f := (·.1)) hm)
      have : (a == x.1) = false := by simpa using hne
      obtain ⟨x1, x2⟩ := x
      simp only [List.lookup, this]
      exact ih h.2 hm


/-! ### datasets -/

theorem reread_samples (s : C01.Src) : (reread s).samples = s.samples := by
  cases s <;> rfl


theorem reread_idem (s : C01.Src) : reread (reread s) = reread s := by
  cases s <;> rfl


theorem crop_cont_dt (s : C01.Src) (a b : Int) (c' : C01.Cont) (h : cropChannel s a b = .cont c') :
    ∃ c, s = .cont c ∧ c'.dt = c.dt := by
  unfold cropChannel C01.Src.getitem at h
  cases s with
  | cont c =>
    refine ⟨c, rfl, ?_⟩
    split at h
    · simp only [C01.Src.cont.injEq] at h; rw [h]
    · simp only [C01.Src.slice, C01.Src.cont.injEq] at h; rw [← h]; rfl
  | ts l => split at h <;> simp [C01.Src.slice] at h
  | tags t => split at h <;> simp [C01.Src.slice] at h


end Verif.C05
