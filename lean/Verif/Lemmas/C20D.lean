/-
  C20 (deepening round D) — helper lemmas: Stokes drag / characteristic frequencies of the bead itself (small-bead
  limit), `x == 0` at `ℝ`, and the Kestin–Khalifa–Correia salt-solution models
  (`salty_water.py`): the `ℝ` reading of `zero_pressure_viscosity` and `_density_of_salt_solution`, the sign and
  size of the water exponent `log10(μ_w/1002)` on the validity range, monotonicity of the concentration exponent,
  bounds of the temperature polynomials of the density correlation on `[293.15, 423.15] K`.
-/
import Verif.Lemmas.C20
import Mathlib.Analysis.Complex.ExponentialBounds
import Mathlib.Analysis.Real.Pi.Bounds

set_option linter.unusedSimpArgs false

namespace Verif.C20
open Verif Filter Topology

/-! ### glue: Stokes drag, `x == 0`, the characteristic frequencies at the bead's own Stokes drag -/

theorem sphereFriction_real (eta d : ℝ) : sphereFriction eta d = 3 * Real.pi * eta * d := by
  simp only [sphereFriction, RealLike.pi]; norm_num

theorem isZero_real (x : ℝ) : isZero x = decide (x = 0) := by
  simp only [isZero, RealLike.le]
  have z : (0.0 : ℝ) = 0 := by norm_num
  rw [z]
  by_cases h : x = 0
  · subst h; simp
  · simp only [h, decide_false]
    rcases lt_or_gt_of_ne h with h' | h'
    · have : ¬ (0:ℝ) ≤ x := not_le.mpr h'
      simp [this]
    · have : ¬ x ≤ (0:ℝ) := not_le.mpr h'
      simp [this]

theorem wall_arith (η d corr : ℝ) (hη : 0 < η) (hd : 0.01 ≤ d) (hc : 1 < corr) :
    0 < sphereFriction η (d * 10e-7) ∧ sphereFriction η (d * 10e-7) < sphereFriction η (d * 10e-7) * corr ∧
      sphereFriction η (d * 10e-7) = 3 * Real.pi * η * (d * 1e-6) := by
  rw [sphereFriction_real]
  have hpi := Real.pi_pos
  have hd' : (0:ℝ) < d * 10e-7 := by norm_num; linarith
  have hc' : 0 < 3 * Real.pi * η * (d * 10e-7) := by positivity
  refine ⟨hc', by nlinarith, by norm_num⟩

/-- with the Stokes drag `γ₀ = 6πηR` of the bead itself: `f_ν = η / (π ρ R²)` -/
theorem frequencyNu_stokes (eta rho R : ℝ) (heta : 0 < eta) (hrho : 0 < rho) (hR : 0 < R) :
    frequencyNu (sphereFriction eta (2 * R)) rho R = eta / (Real.pi * rho * R ^ 2) := by
  have hpi := Real.pi_pos
  rw [frequencyNu_real, sphereFriction_real]
  field_simp
  ring

/-- … and `f_m = 9η / (4π ρ_bead R²)` -/
theorem frequencyM_stokes (eta rhoB R : ℝ) (hR : 0 < R) :
    frequencyM (sphereFriction eta (2 * R)) R rhoB = 9 * eta / (4 * Real.pi * R ^ 2 * rhoB) := by
  have hpi := Real.pi_pos
  simp only [frequencyM, sphereFriction_real, RealLike.pi]
  norm_num
  by_cases hb : rhoB = 0
  · subst hb; simp
  · field_simp
    ring

/-! ### `_poly` at `ℝ` -/

theorem toNat2 : Int.toNat 2 = 2 := rfl
theorem toNat3 : Int.toNat 3 = 3 := rfl
theorem toNat4 : Int.toNat 4 = 4 := rfl

theorem npow_real (x : ℝ) (n : ℕ) : RealLike.npow x n = x ^ n := by
  induction n with
  | zero => simp only [RealLike.npow]; norm_num
  | succ k ih =>
    cases k with
    | zero => simp [RealLike.npow]
    | succ j =>
      show RealLike.npow x (j + 1) * x = _
      rw [ih, ← pow_succ]

theorem poly123_real (m a b c : ℝ) : poly m [1, 2, 3] [a, b, c] = a * m + b * m ^ 2 + c * m ^ 3 := by
  simp only [poly, ipow, List.zipWith, List.foldl, npow_real, toNat2, toNat3, toNat4]
  norm_num [toNat2]
  try ring

theorem poly1234_real (u a b c d : ℝ) :
    poly u [1, 2, 3, 4] [a, b, c, d] = a * u + b * u ^ 2 + c * u ^ 3 + d * u ^ 4 := by
  simp only [poly, ipow, List.zipWith, List.foldl, npow_real, toNat2, toNat3, toNat4]
  norm_num [toNat2]
  try ring

theorem poly012_real (u a b c : ℝ) : poly u [0, 1, 2] [a, b, c] = a + b * u + c * u ^ 2 := by
  simp only [poly, ipow, List.zipWith, List.foldl, npow_real, toNat2, toNat3, toNat4]
  norm_num [toNat2]
  try ring

theorem polym22_real (u a b c d e : ℝ) :
    poly u [-2, -1, 0, 1, 2] [a, b, c, d, e] = a * (1 / u ^ 2) + b * (1 / u) + c + d * u + e * u ^ 2 := by
  simp only [poly, ipow, List.zipWith, List.foldl, npow_real, toNat2, toNat3, toNat4]
  norm_num [toNat2]
  try ring

/-! ### Kestin Eq. 3: the water exponent -/

/-- the exponent of Eq. 3: `log10(μ_w(t)/1002) = P(20 − t) / (96 + t)` -/
noncomputable def waterExp (t : ℝ) : ℝ :=
  (1.2378 * (20 - t) + -1.303e-3 * (20 - t) ^ 2 + 3.06e-6 * (20 - t) ^ 3 + 2.55e-8 * (20 - t) ^ 4) / (96 + t)

theorem muW_real (t : ℝ) : muW t = 1002 * (10 : ℝ) ^ waterExp t := by
  simp only [muW, poly1234_real, RPow.rpow, waterExp]
  norm_num

theorem muW_pos (t : ℝ) : 0 < muW t := by
  rw [muW_real]
  have := Real.rpow_pos_of_pos (by norm_num : (0:ℝ) < 10) (waterExp t)
  positivity

/-- `np.log10(μ_w / 1002)` is the exponent itself -/
theorem log10_muW (t : ℝ) : log10 (muW t / 1002.0) = waterExp t := by
  have h10 : Real.log 10 ≠ 0 := by
    have := Real.log_pos (by norm_num : (1:ℝ) < 10); exact this.ne'
  simp only [log10, RealLike.log, muW_real]
  have e : (1002 * (10:ℝ) ^ waterExp t / 1002.0) = (10:ℝ) ^ waterExp t := by norm_num
  have e10 : (10.0 : ℝ) = 10 := by norm_num
  rw [e, e10, Real.log_rpow (by norm_num)]
  field_simp

/-- on the validity range of the salt model the water exponent lies in `[−1, 0]` (water at `t ≥ 20 °C` is less
    viscous than at 20 °C, and by less than a factor 10 up to 150 °C) -/
theorem waterExp_bounds (t : ℝ) (h0 : 20 ≤ t) (h1 : t ≤ 150) : -1 ≤ waterExp t ∧ waterExp t ≤ 0 := by
  unfold waterExp
  have hden : (0:ℝ) < 96 + t := by linarith
  obtain ⟨v, hv⟩ : ∃ v : ℝ, v = t - 20 := ⟨_, rfl⟩
  have hv0 : 0 ≤ v := by linarith
  have hv1 : v ≤ 130 := by linarith
  have ht : (20:ℝ) - t = -v := by linarith
  rw [ht]
  have v2 : v ^ 2 ≤ 130 * v := by nlinarith
  have v2' : 0 ≤ v ^ 2 := by positivity
  have v3 : v ^ 3 ≤ 16900 * v := by nlinarith
  have v3' : 0 ≤ v ^ 3 := by positivity
  have v4 : v ^ 4 ≤ 2197000 * v := by nlinarith [mul_nonneg hv0 v3', mul_nonneg hv0 (sub_nonneg.mpr v3)]
  have v4' : 0 ≤ v ^ 4 := by positivity
  constructor
  · rw [le_div_iff₀ hden]
    have e : (1.2378 * -v + -1.303e-3 * (-v) ^ 2 + 3.06e-6 * (-v) ^ 3 + 2.55e-8 * (-v) ^ 4 : ℝ)
        = -1.2378 * v - 1.303e-3 * v ^ 2 - 3.06e-6 * v ^ 3 + 2.55e-8 * v ^ 4 := by ring
    rw [e]
    nlinarith
  · apply div_nonpos_of_nonpos_of_nonneg _ hden.le
    have e : (1.2378 * -v + -1.303e-3 * (-v) ^ 2 + 3.06e-6 * (-v) ^ 3 + 2.55e-8 * (-v) ^ 4 : ℝ)
        = -1.2378 * v - 1.303e-3 * v ^ 2 - 3.06e-6 * v ^ 3 + 2.55e-8 * v ^ 4 := by ring
    rw [e]
    nlinarith

/-! ### Eq. 2, 4, 5: the concentration exponent -/

/-- `A(m) + B(m)·q`, the exponent of Eq. 2 at water exponent `q` -/
noncomputable def saltExp (q m : ℝ) : ℝ :=
  (3.324e-2 * m + 3.624e-3 * m ^ 2 + -1.879e-4 * m ^ 3) + (-3.96e-2 * m + 1.02e-2 * m ^ 2 + -7.02e-4 * m ^ 3) * q

theorem zpv_real (t m : ℝ) : zeroPressureViscosity t m = muW t * (10 : ℝ) ^ saltExp (waterExp t) m := by
  simp only [zeroPressureViscosity, poly123_real, RPow.rpow, log10_muW, saltExp]
  norm_num

/-- the exponent grows by at least `0.033` per mol/kg on `[0, 6]`, for every water exponent in `[−1, 0]` -/
theorem saltExp_slope (q m₁ m₂ : ℝ) (hq0 : -1 ≤ q) (hq1 : q ≤ 0) (h0 : 0 ≤ m₁) (h12 : m₁ ≤ m₂) (h6 : m₂ ≤ 6) :
    0.033 * (m₂ - m₁) ≤ saltExp q m₂ - saltExp q m₁ := by
  unfold saltExp
  obtain ⟨s, hs⟩ : ∃ s : ℝ, s = m₁ + m₂ := ⟨_, rfl⟩
  obtain ⟨r, hr⟩ : ∃ r : ℝ, r = m₁ ^ 2 + m₁ * m₂ + m₂ ^ 2 := ⟨_, rfl⟩
  have hd : 0 ≤ m₂ - m₁ := by linarith
  have hs0 : 0 ≤ s := by linarith
  have hs12 : s ≤ 12 := by linarith
  have hrs : r ≤ s ^ 2 := by rw [hr, hs]; nlinarith [mul_nonneg h0 (by linarith : (0:ℝ) ≤ m₂)]
  have hrs' : 3 / 4 * s ^ 2 ≤ r := by rw [hr, hs]; nlinarith [sq_nonneg (m₁ - m₂)]
  -- the difference quotient at q = 0 and at q = −1
  have g0 : 0.033 ≤ 3.324e-2 + 3.624e-3 * s - 1.879e-4 * r := by nlinarith
  have g1 : 0.033 ≤ (3.324e-2 + 3.96e-2) + (3.624e-3 - 1.02e-2) * s + (-1.879e-4 + 7.02e-4) * r := by
    nlinarith [sq_nonneg (s - 8.5)]
  have key : 0.033 ≤ (3.324e-2 + 3.624e-3 * s - 1.879e-4 * r) + (-3.96e-2 + 1.02e-2 * s - 7.02e-4 * r) * q := by
    have e : (3.324e-2 + 3.624e-3 * s - 1.879e-4 * r) + (-3.96e-2 + 1.02e-2 * s - 7.02e-4 * r) * q
        = (1 + q) * (3.324e-2 + 3.624e-3 * s - 1.879e-4 * r)
          + (-q) * ((3.324e-2 + 3.96e-2) + (3.624e-3 - 1.02e-2) * s + (-1.879e-4 + 7.02e-4) * r) := by ring
    rw [e]
    have a1 := mul_le_mul_of_nonneg_left g0 (by linarith : (0:ℝ) ≤ 1 + q)
    have a2 := mul_le_mul_of_nonneg_left g1 (by linarith : (0:ℝ) ≤ -q)
    linarith
  have e : ((3.324e-2 * m₂ + 3.624e-3 * m₂ ^ 2 + -1.879e-4 * m₂ ^ 3) + (-3.96e-2 * m₂ + 1.02e-2 * m₂ ^ 2 + -7.02e-4 * m₂ ^ 3) * q)
      - ((3.324e-2 * m₁ + 3.624e-3 * m₁ ^ 2 + -1.879e-4 * m₁ ^ 3) + (-3.96e-2 * m₁ + 1.02e-2 * m₁ ^ 2 + -7.02e-4 * m₁ ^ 3) * q)
      = (m₂ - m₁) * ((3.324e-2 + 3.624e-3 * s - 1.879e-4 * r) + (-3.96e-2 + 1.02e-2 * s - 7.02e-4 * r) * q) := by
    rw [hs, hr]; ring
  rw [e]
  nlinarith [mul_le_mul_of_nonneg_left key hd]

/-- the exponent increases strictly with the molality on `[0, 6]` for every water exponent in `[−1, 0]` -/
theorem saltExp_strictMono (q m₁ m₂ : ℝ) (hq0 : -1 ≤ q) (hq1 : q ≤ 0) (h0 : 0 ≤ m₁) (h12 : m₁ < m₂) (h6 : m₂ ≤ 6) :
    saltExp q m₁ < saltExp q m₂ := by
  have := saltExp_slope q m₁ m₂ hq0 hq1 h0 h12.le h6
  nlinarith

/-- `10^x ≥ 1 + 2x` (`ln 10 > 2`) -/
theorem ten_rpow_ge (x : ℝ) (hx : 0 ≤ x) : 1 + 2 * x ≤ (10:ℝ) ^ x := by
  have hlog : 2 ≤ Real.log 10 := by
    rw [Real.le_log_iff_exp_le (by norm_num)]
    have e : Real.exp 2 = Real.exp 1 * Real.exp 1 := by rw [← Real.exp_add]; norm_num
    have h1 := Real.exp_one_lt_d9
    have h0 := Real.exp_pos 1
    rw [e]; nlinarith
  rw [Real.rpow_def_of_pos (by norm_num)]
  have := Real.add_one_le_exp (Real.log 10 * x)
  nlinarith

/-- the zero-pressure viscosity grows by at least 6.6 % per mol/kg -/
theorem zpv_growth (t m₁ m₂ : ℝ) (ht0 : 20 ≤ t) (ht1 : t ≤ 150) (h0 : 0 ≤ m₁) (h12 : m₁ ≤ m₂) (h6 : m₂ ≤ 6) :
    zeroPressureViscosity t m₁ * (1 + 0.066 * (m₂ - m₁)) ≤ zeroPressureViscosity t m₂ := by
  rw [zpv_real, zpv_real]
  obtain ⟨q0, q1⟩ := waterExp_bounds t ht0 ht1
  have hE := saltExp_slope (waterExp t) m₁ m₂ q0 q1 h0 h12 h6
  have hsplit : (10:ℝ) ^ saltExp (waterExp t) m₂ =
      (10:ℝ) ^ saltExp (waterExp t) m₁ * (10:ℝ) ^ (saltExp (waterExp t) m₂ - saltExp (waterExp t) m₁) := by
    rw [← Real.rpow_add (by norm_num)]; ring_nf
  have hd : 0 ≤ saltExp (waterExp t) m₂ - saltExp (waterExp t) m₁ := by nlinarith
  have hg := ten_rpow_ge _ hd
  have hz : 0 < muW t * (10:ℝ) ^ saltExp (waterExp t) m₁ :=
    mul_pos (muW_pos t) (Real.rpow_pos_of_pos (by norm_num) _)
  rw [hsplit, ← mul_assoc]
  apply mul_le_mul_of_nonneg_left _ hz.le
  nlinarith

theorem zpv_pos (t m : ℝ) : 0 < zeroPressureViscosity t m := by
  rw [zpv_real]; exact mul_pos (muW_pos t) (Real.rpow_pos_of_pos (by norm_num) _)

/-! ### Eq. 8–10: the pressure coefficient -/

theorem betaW_real (t : ℝ) : betaW t = -1.297 + 5.74e-2 * t + -6.97e-4 * t ^ 2 + 4.47e-6 * t ^ 3 + -1.05e-8 * t ^ 4 := by
  simp only [betaW, poly, ipow, List.zipWith, List.foldl, npow_real, toNat2, toNat3, toNat4]
  norm_num [toNat2]

/-- the pressure coefficient of water on 20–150 °C (it rises from −0.39 to 1.40) -/
theorem betaW_bounds (t : ℝ) (h0 : 20 ≤ t) (h1 : t ≤ 150) : -0.5 ≤ betaW t ∧ betaW t ≤ 2 := by
  rw [betaW_real]
  obtain ⟨v, rfl⟩ : ∃ v : ℝ, t = v + 20 := ⟨t - 20, by ring⟩
  have hv0 : 0 ≤ v := by linarith
  have hv1 : 0 ≤ 130 - v := by linarith
  constructor
  · have q : 0 ≤ 0.034548 - 4.54e-4 * v + 2.265e-6 * v ^ 2 := by nlinarith [sq_nonneg (v - 100.2)]
    nlinarith [mul_nonneg hv0 q, mul_nonneg (pow_nonneg hv0 3) hv1]
  · have i : 1.59e-4 ≤ 4.54e-4 - 3.63e-6 * v + 1.05e-8 * v ^ 2 := by
      nlinarith [mul_nonneg hv1 (by linarith : (0:ℝ) ≤ 215 - v)]
    nlinarith [mul_nonneg (sq_nonneg v) (sub_nonneg.mpr i), sq_nonneg (v - 108)]

/-! ### continuity in the molality (the salt models join pure water continuously) -/

theorem zpv_continuous (t : ℝ) : Continuous (fun m => zeroPressureViscosity t m) := by
  simp only [zpv_real, saltExp]
  have h : Continuous (fun m : ℝ => (10:ℝ) ^ ((3.324e-2 * m + 3.624e-3 * m ^ 2 + -1.879e-4 * m ^ 3) +
      (-3.96e-2 * m + 1.02e-2 * m ^ 2 + -7.02e-4 * m ^ 3) * waterExp t)) := by
    exact (Real.continuous_const_rpow (by norm_num : (10:ℝ) ≠ 0)).comp (by fun_prop)
  exact continuous_const.mul h

theorem pf_real (t m : ℝ) : pressureFactor t m =
    (0.545 + 2.8e-3 * t - betaW t) *
      (2.5 * (m / (6.044 + 2.8e-3 * t + 3.6e-5 * t ^ 2)) + -2 * (m / (6.044 + 2.8e-3 * t + 3.6e-5 * t ^ 2)) ^ 2
        + 0.5 * (m / (6.044 + 2.8e-3 * t + 3.6e-5 * t ^ 2)) ^ 3) + betaW t := by
  simp only [pressureFactor, poly123_real, poly012_real]
  norm_num

theorem pf_continuous (t : ℝ) : Continuous (fun m => pressureFactor t m) := by
  simp only [pf_real]
  fun_prop

theorem saltViscosity_continuous (t p : ℝ) : Continuous (fun m => saltViscosity t m p) := by
  unfold saltViscosity
  have h1 := zpv_continuous t
  have h2 := pf_continuous t
  fun_prop

/-- the pressure coefficient changes by at most `0.625` per mol/kg and stays above `−2` (20–150 °C, `m ≤ 6`) -/
theorem pf_lipschitz (t m₁ m₂ : ℝ) (ht0 : 20 ≤ t) (ht1 : t ≤ 150) (h0 : 0 ≤ m₁) (h12 : m₁ ≤ m₂) (h6 : m₂ ≤ 6) :
    |pressureFactor t m₂ - pressureFactor t m₁| ≤ 0.625 * (m₂ - m₁) ∧ -2 ≤ pressureFactor t m₂ := by
  obtain ⟨b0, b1⟩ := betaW_bounds t ht0 ht1
  rw [pf_real, pf_real]
  obtain ⟨ms, hms⟩ : ∃ ms : ℝ, ms = 6.044 + 2.8e-3 * t + 3.6e-5 * t ^ 2 := ⟨_, rfl⟩
  obtain ⟨e, he⟩ : ∃ e : ℝ, e = 0.545 + 2.8e-3 * t - betaW t := ⟨_, rfl⟩
  rw [← hms, ← he]
  have hms6 : 6 ≤ ms := by rw [hms]; nlinarith [sq_nonneg t]
  have hms0 : 0 < ms := by linarith
  have he1 : |e| ≤ 1.5 := by rw [abs_le, he]; constructor <;> linarith
  obtain ⟨x₁, hx₁⟩ : ∃ x : ℝ, x = m₁ / ms := ⟨_, rfl⟩
  obtain ⟨x₂, hx₂⟩ : ∃ x : ℝ, x = m₂ / ms := ⟨_, rfl⟩
  rw [← hx₁, ← hx₂]
  have hx1 : 0 ≤ x₁ := by rw [hx₁]; exact div_nonneg h0 hms0.le
  have hx12 : x₁ ≤ x₂ := by rw [hx₁, hx₂]; exact div_le_div_of_nonneg_right h12 hms0.le
  have hx2 : x₂ ≤ 1 := by rw [hx₂, div_le_one hms0]; linarith
  have hd : 0 ≤ m₂ - m₁ := by linarith
  have hu : x₂ - x₁ ≤ (m₂ - m₁) / 6 := by
    have : x₂ - x₁ = (m₂ - m₁) / ms := by rw [hx₁, hx₂]; ring
    rw [this]
    exact div_le_div_of_nonneg_left hd (by norm_num) hms6
  have hu0 : 0 ≤ x₂ - x₁ := by linarith
  obtain ⟨K, hK⟩ : ∃ K : ℝ, K = 2.5 - 2 * (x₁ + x₂) + 0.5 * (x₁ ^ 2 + x₁ * x₂ + x₂ ^ 2) := ⟨_, rfl⟩
  have hK1 : |K| ≤ 2.5 := by
    rw [abs_le, hK]
    constructor
    · nlinarith [sq_nonneg x₁, sq_nonneg x₂, mul_nonneg hx1 (hx1.trans hx12)]
    · nlinarith [mul_nonneg hx1 (hx1.trans hx12)]
  have hB2 : 0 ≤ 2.5 * x₂ + -2 * x₂ ^ 2 + 0.5 * x₂ ^ 3 ∧ 2.5 * x₂ + -2 * x₂ ^ 2 + 0.5 * x₂ ^ 3 ≤ 1 := by
    have hx20 : 0 ≤ x₂ := hx1.trans hx12
    constructor
    · have : 0 ≤ x₂ * (2.5 - 2 * x₂ + 0.5 * x₂ ^ 2) := mul_nonneg hx20 (by nlinarith)
      nlinarith
    · have : 0 ≤ (1 - x₂) * ((1 - x₂) * (1 - 0.5 * x₂)) :=
        mul_nonneg (by linarith) (mul_nonneg (by linarith) (by linarith))
      nlinarith
  constructor
  · have ediff : (e * (2.5 * x₂ + -2 * x₂ ^ 2 + 0.5 * x₂ ^ 3) + betaW t) - (e * (2.5 * x₁ + -2 * x₁ ^ 2 + 0.5 * x₁ ^ 3) + betaW t)
        = (e * K) * (x₂ - x₁) := by rw [hK]; ring
    rw [ediff, abs_mul, abs_mul, abs_of_nonneg hu0]
    have h1 : |e| * |K| ≤ 1.5 * 2.5 := mul_le_mul he1 hK1 (abs_nonneg _) (by norm_num)
    have h2 : |e| * |K| * (x₂ - x₁) ≤ 1.5 * 2.5 * ((m₂ - m₁) / 6) :=
      mul_le_mul h1 hu hu0 (by norm_num)
    linarith
  · obtain ⟨e0, e1⟩ := abs_le.mp he1
    have : -1.5 ≤ e * (2.5 * x₂ + -2 * x₂ ^ 2 + 0.5 * x₂ ^ 3) := by
      by_cases hs : 0 ≤ e
      · have := mul_nonneg hs hB2.1; linarith
      · have hs' : e < 0 := not_le.mp hs
        nlinarith [mul_le_mul_of_nonneg_left hB2.2 (by linarith : (0:ℝ) ≤ -e)]
    linarith

/-- the full viscosity (Eq. 1: zero-pressure value × pressure correction) increases with the molality -/
theorem saltViscosity_strictMono (t p m₁ m₂ : ℝ) (ht0 : 20 ≤ t) (ht1 : t ≤ 150) (hp0 : 0 ≤ p) (hp1 : p ≤ 35)
    (h0 : 0 ≤ m₁) (h12 : m₁ < m₂) (h6 : m₂ ≤ 6) : saltViscosity t m₁ p < saltViscosity t m₂ p := by
  unfold saltViscosity
  have hZ1 := zpv_pos t m₁
  have hg := zpv_growth t m₁ m₂ ht0 ht1 h0 h12.le h6
  obtain ⟨hl, hlow⟩ := pf_lipschitz t m₁ m₂ ht0 ht1 h0 h12.le h6
  obtain ⟨l0, l1⟩ := abs_le.mp hl
  generalize zeroPressureViscosity t m₁ = Z₁ at *
  generalize zeroPressureViscosity t m₂ = Z₂ at *
  generalize pressureFactor t m₁ = π₁ at *
  generalize pressureFactor t m₂ = π₂ at *
  obtain ⟨Δ, hΔ⟩ : ∃ Δ : ℝ, Δ = m₂ - m₁ := ⟨_, rfl⟩
  rw [← hΔ] at hg l0 l1
  have hΔ0 : 0 < Δ := by linarith
  obtain ⟨q, hq⟩ : ∃ q : ℝ, q = p / 1000 := ⟨_, rfl⟩
  have hq0 : 0 ≤ q := by rw [hq]; positivity
  have hq1 : q ≤ 0.035 := by rw [hq]; linarith
  have e1 : ∀ π : ℝ, π * p / 1000.0 = π * q := by intro π; rw [hq]; norm_num; ring
  rw [e1, e1]
  have c2 : 0.93 ≤ 1 + π₂ * q := by nlinarith
  have sA : Z₁ * (1 + 0.066 * Δ) * (1 + π₂ * q) ≤ Z₂ * (1 + π₂ * q) :=
    mul_le_mul_of_nonneg_right hg (by linarith)
  have dq : -(0.625 * Δ) * 0.035 ≤ (π₂ - π₁) * q := by nlinarith
  have br : 0 < (π₂ - π₁) * q + 0.066 * Δ * (1 + π₂ * q) := by nlinarith
  have sB : Z₁ * (1 + 0.066 * Δ) * (1 + π₂ * q) - Z₁ * (1 + π₁ * q)
      = Z₁ * ((π₂ - π₁) * q + 0.066 * Δ * (1 + π₂ * q)) := by ring
  have := mul_pos hZ1 br
  have e10 : (1.0e-6 : ℝ) = 1e-6 := by norm_num
  have e11 : (1.0 : ℝ) = 1 := by norm_num
  rw [e11]
  nlinarith

/-! ### `_density_of_salt_solution` at `ℝ`: specific volume as a quadratic in the salt mass fraction -/

noncomputable def dT1 (k : ℝ) : ℝ :=
  1.006741e2 * (1 / k ^ 2) + -1.127522 * (1 / k) + 5.916365e-3 + -1.035794e-5 * k + 9.270048e-9 * k ^ 2
noncomputable def dT2 (k : ℝ) : ℝ :=
  1.042948 * (1 / k ^ 2) + -1.1933677e-2 * (1 / k) + 5.307535e-5 + -1.0688768e-7 * k + 8.492739e-11 * k ^ 2
noncomputable def dT3 (k : ℝ) : ℝ := 1.23268e-9 + -6.861928e-12 * k + 0.0 * k ^ 2
noncomputable def dA1 (k : ℝ) : ℝ := -2.5166e-3 + 1.11766e-5 * k + -1.70552e-8 * k ^ 2
noncomputable def dA2 (k : ℝ) : ℝ := 2.84851e-3 + -1.54305e-5 * k + 2.23982e-8 * k ^ 2
noncomputable def dA3 (k : ℝ) : ℝ := -1.5106e-5 + 8.4605e-8 * k + -1.2715e-10 * k ^ 2
noncomputable def dA4 (k : ℝ) : ℝ := 2.7676e-5 + -1.5694e-7 * k + 2.3102e-10 * k ^ 2
noncomputable def dT8 (k : ℝ) : ℝ := 6.4633e-8 + -4.1671e-10 * k + 6.8599e-13 * k ^ 2

/-- mass fraction of NaCl at molality `m`: `x / (1 + x)`, `x = 58.4428 m / 1000` kg salt per kg water -/
noncomputable def wfrac (m : ℝ) : ℝ := (m * 58.4428 / 1000) / (1 + m * 58.4428 / 1000)

/-- the specific volume [m³/kg] of the correlation at absolute temperature `k`, pressure `p`, mass fraction `w` -/
noncomputable def specVol (k p w : ℝ) : ℝ :=
  (dT1 k - dT2 k * p - dT3 k * p ^ 2 - 0.5 * dT8 k * p ^ 2) + w * (dA1 k - dA3 k * p) + w ^ 2 * (dA2 k - dA4 k * p)

theorem saltDensity_real (t m p : ℝ) : saltDensity t m p = 1 / specVol (t + 273.15) p (wfrac m) := by
  simp only [saltDensity, polym22_real, poly012_real, List.foldl, specVol, wfrac, dT1, dT2, dT3, dA1, dA2, dA3, dA4, dT8]
  norm_num
  ring

theorem wfrac_zero : wfrac 0 = 0 := by simp [wfrac]

theorem wfrac_bounds (m : ℝ) (h0 : 0 ≤ m) (h6 : m ≤ 6) : 0 ≤ wfrac m ∧ wfrac m ≤ 0.26 := by
  unfold wfrac
  have hx : 0 ≤ m * 58.4428 / 1000 := by positivity
  constructor
  · positivity
  · rw [div_le_iff₀ (by linarith)]; nlinarith

theorem wfrac_strictMono (m₁ m₂ : ℝ) (h0 : 0 ≤ m₁) (h12 : m₁ < m₂) : wfrac m₁ < wfrac m₂ := by
  unfold wfrac
  have h1 : 0 ≤ m₁ * 58.4428 / 1000 := by positivity
  have h2 : 0 ≤ m₂ * 58.4428 / 1000 := by nlinarith
  rw [div_lt_div_iff₀ (by linarith) (by linarith)]
  nlinarith

theorem wfrac_continuous : ContinuousAt wfrac 0 := by
  unfold wfrac
  apply ContinuousAt.div (by fun_prop) (by fun_prop)
  norm_num

/-! bounds of the temperature polynomials on `[293.15, 423.15] K` (20–150 °C) -/

theorem dT1_lb (k : ℝ) (h0 : 293.15 ≤ k) (h1 : k ≤ 423.15) : 9.9e-4 ≤ dT1 k := by
  have hk : 0 < k := by linarith
  have e : dT1 k = (1.006741e2 + -1.127522 * k + 5.916365e-3 * k ^ 2 + -1.035794e-5 * k ^ 3 + 9.270048e-9 * k ^ 4) / k ^ 2 := by
    unfold dT1; field_simp
  rw [e, le_div_iff₀ (by positivity)]
  obtain ⟨x, rfl⟩ : ∃ x : ℝ, k = x + 293.15 := ⟨k - 293.15, by ring⟩
  have hx : 0 ≤ x := by linarith
  nlinarith [pow_nonneg hx 2, pow_nonneg hx 3, pow_nonneg hx 4]

theorem dT2_ub (k : ℝ) (h0 : 293.15 ≤ k) (h1 : k ≤ 423.15) : dT2 k ≤ 1e-6 := by
  have hk : 0 < k := by linarith
  have e : dT2 k = (1.042948 + -1.1933677e-2 * k + 5.307535e-5 * k ^ 2 + -1.0688768e-7 * k ^ 3 + 8.492739e-11 * k ^ 4) / k ^ 2 := by
    unfold dT2; field_simp
  rw [e, div_le_iff₀ (by positivity)]
  obtain ⟨x, rfl⟩ : ∃ x : ℝ, k = x + 293.15 := ⟨k - 293.15, by ring⟩
  have hx : 0 ≤ x := by linarith
  have hx1 : x ≤ 130 := by linarith
  have x2 : x ^ 2 ≤ 130 * x := by nlinarith
  have x3 : 0 ≤ x ^ 3 := by positivity
  have x4 : x ^ 4 ≤ 130 ^ 4 := pow_le_pow_left₀ hx hx1 4
  nlinarith

theorem dT3_nonpos (k : ℝ) (h0 : 293.15 ≤ k) : dT3 k ≤ 0 := by unfold dT3; nlinarith
theorem dT8_ub (k : ℝ) (h0 : 293.15 ≤ k) (h1 : k ≤ 423.15) : dT8 k ≤ 1.2e-8 := by
  unfold dT8; nlinarith [mul_nonneg (sub_nonneg.mpr h0) (sub_nonneg.mpr h1)]
theorem dA1_bounds (k : ℝ) (h0 : 293.15 ≤ k) (h1 : k ≤ 423.15) : -8.5e-4 ≤ dA1 k ∧ dA1 k ≤ -6.5e-4 := by
  unfold dA1
  constructor
  · nlinarith [mul_nonneg (sub_nonneg.mpr h0) (sub_nonneg.mpr h1)]
  · nlinarith [sq_nonneg (k - 327.66)]
theorem dA2_bounds (k : ℝ) (h0 : 293.15 ≤ k) (h1 : k ≤ 423.15) : 1.8e-4 ≤ dA2 k ∧ dA2 k ≤ 3.4e-4 := by
  unfold dA2
  constructor
  · nlinarith [sq_nonneg (k - 344.46)]
  · nlinarith [mul_nonneg (sub_nonneg.mpr h0) (sub_nonneg.mpr h1)]
theorem dA3_bounds (k : ℝ) (h0 : 293.15 ≤ k) (h1 : k ≤ 423.15) : -2.1e-6 ≤ dA3 k ∧ dA3 k ≤ 0 := by
  unfold dA3
  constructor
  · nlinarith [mul_nonneg (sub_nonneg.mpr h0) (sub_nonneg.mpr h1)]
  · nlinarith [sq_nonneg (k - 332.7)]
theorem dA4_bounds (k : ℝ) (h0 : 293.15 ≤ k) (h1 : k ≤ 423.15) : 0 ≤ dA4 k ∧ dA4 k ≤ 2.7e-6 := by
  unfold dA4
  constructor
  · nlinarith [sq_nonneg (k - 339.67)]
  · nlinarith [mul_nonneg (sub_nonneg.mpr h0) (sub_nonneg.mpr h1)]

/-- the specific volume is positive on the whole validity range -/
theorem specVol_pos (k p w : ℝ) (h0 : 293.15 ≤ k) (h1 : k ≤ 423.15) (hp0 : 0 ≤ p) (hp1 : p ≤ 35) (hw0 : 0 ≤ w)
    (hw1 : w ≤ 0.26) : 5e-4 < specVol k p w := by
  unfold specVol
  have a := dT1_lb k h0 h1
  have b := dT2_ub k h0 h1
  have c := dT3_nonpos k h0
  have d := dT8_ub k h0 h1
  obtain ⟨e1, e2⟩ := dA1_bounds k h0 h1
  obtain ⟨f1, f2⟩ := dA2_bounds k h0 h1
  obtain ⟨g1, g2⟩ := dA3_bounds k h0 h1
  obtain ⟨i1, i2⟩ := dA4_bounds k h0 h1
  have hp2 : p ^ 2 ≤ 1225 := by nlinarith
  have hp2' : 0 ≤ p ^ 2 := by positivity
  have t2 : dT2 k * p ≤ 1e-6 * 35 := by nlinarith
  have t3 : dT3 k * p ^ 2 ≤ 0 := mul_nonpos_of_nonpos_of_nonneg c hp2'
  have t8 : 0.5 * dT8 k * p ^ 2 ≤ 0.5 * 1.2e-8 * 1225 := by nlinarith
  have al : -8.5e-4 ≤ dA1 k - dA3 k * p := by nlinarith [mul_nonneg (neg_nonneg.mpr g2) hp0]
  have be : 0 ≤ dA2 k - dA4 k * p := by nlinarith
  have wa : -8.5e-4 * 0.26 ≤ w * (dA1 k - dA3 k * p) := by nlinarith
  have wb : 0 ≤ w ^ 2 * (dA2 k - dA4 k * p) := by positivity
  nlinarith

/-- … and decreases strictly with the salt mass fraction (salt water is denser) -/
theorem specVol_strictAnti (k p w₁ w₂ : ℝ) (h0 : 293.15 ≤ k) (h1 : k ≤ 423.15) (hp0 : 0 ≤ p) (hp1 : p ≤ 35)
    (hw0 : 0 ≤ w₁) (hw12 : w₁ < w₂) (hw1 : w₂ ≤ 0.26) : specVol k p w₂ < specVol k p w₁ := by
  unfold specVol
  obtain ⟨e1, e2⟩ := dA1_bounds k h0 h1
  obtain ⟨f1, f2⟩ := dA2_bounds k h0 h1
  obtain ⟨g1, g2⟩ := dA3_bounds k h0 h1
  obtain ⟨i1, i2⟩ := dA4_bounds k h0 h1
  have al : dA1 k - dA3 k * p ≤ -6.5e-4 + 2.1e-6 * 35 := by nlinarith
  have be : dA2 k - dA4 k * p ≤ 3.4e-4 := by nlinarith [mul_nonneg i1 hp0]
  have hs : 0 ≤ w₁ + w₂ := by linarith
  have hs1 : w₁ + w₂ ≤ 0.52 := by linarith
  have key : (dA1 k - dA3 k * p) + (dA2 k - dA4 k * p) * (w₁ + w₂) < 0 := by nlinarith
  have hd : 0 < w₂ - w₁ := by linarith
  nlinarith [mul_pos hd (neg_pos.mpr key)]

/-! ### the complex drag near a surface at non-negative frequencies -/

/-- complex drag near a surface at a non-negative frequency, written out (`S = √(f/f_ν)`) -/
noncomputable def surfaceDragNN (nu R l f : ℝ) : ℝ × ℝ :=
  let S := Real.sqrt (f / nu)
  let r := f / nu
  let er := (2 * l - R) * S / R
  let q := 9 / 16 * (R / l)
  let innerRe := 1 - S / 3 - 4 / 3 * (1 - Real.exp (-er) * Real.cos er)
  let innerIm := S / 3 + 2 / 9 * r + 4 / 3 * (Real.exp (-er) * Real.sin er)
  let d1 := 1 - q * innerRe
  let d2 := -(q * innerIm)
  let s1 := 1 + S
  let s2 := -S - 2 / 9 * r
  ((s1 * d1 + s2 * d2) / (d1 * d1 + d2 * d2), (s2 * d1 - s1 * d2) / (d1 * d1 + d2 * d2))

theorem complexDrag_surface (f g rho R l : ℝ) (hf : 0 ≤ f) (hnu : 0 < frequencyNu g rho R) :
    complexDrag f g rho R (some l) = surfaceDragNN (frequencyNu g rho R) R l f := by
  have hr : 0 ≤ f / frequencyNu g rho R := div_nonneg hf hnu.le
  simp only [complexDrag, stokesDrag, surfaceDen, cdiv, csqrtReal_nonneg _ hr, surfaceDragNN,
    RealLike.exp, RealLike.cos, RealLike.sin]
  norm_num
  constructor <;> ring_nf

theorem surfaceDragNN_zero (nu R l : ℝ) (hR : 0 < R) (hl : R ≤ l) :
    surfaceDragNN nu R l 0 = (1 / (1 - 9 / 16 * (R / l)), 0) := by
  have hl0 : 0 < l := by linarith
  have hq : 9 / 16 * (R / l) < 1 := by
    have : R / l ≤ 1 := (div_le_one hl0).mpr hl
    linarith
  have hne : 1 - 9 / 16 * (R / l) ≠ 0 := by linarith
  simp only [surfaceDragNN]
  norm_num

theorem surfaceDragNN_continuousAt (nu R l : ℝ) (hR : 0 < R) (hl : R ≤ l) :
    ContinuousAt (surfaceDragNN nu R l) 0 := by
  have hl0 : 0 < l := by linarith
  have hq : 9 / 16 * (R / l) < 1 := by
    have : R / l ≤ 1 := (div_le_one hl0).mpr hl
    linarith
  have hne : 1 - 9 / 16 * (R / l) ≠ 0 := by linarith
  unfold surfaceDragNN
  apply ContinuousAt.prodMk
  · apply ContinuousAt.div (by fun_prop) (by fun_prop)
    norm_num
    exact hne
  · apply ContinuousAt.div (by fun_prop) (by fun_prop)
    norm_num
    exact hne

/-- `e^{−x} sin x ≥ −1/20` for `x ≥ 0` (non-negative up to `π`; beyond, `e^{−x} < e^{−3} < 1/20`) -/
theorem exp_neg_mul_sin_ge (x : ℝ) (hx : 0 ≤ x) : -(1 / 20) ≤ Real.exp (-x) * Real.sin x := by
  have he := Real.exp_pos (-x)
  by_cases hpi : x ≤ Real.pi
  · have := Real.sin_nonneg_of_nonneg_of_le_pi hx hpi
    have := mul_nonneg he.le this
    linarith
  · have h3 : 3 < x := by have := Real.pi_gt_three; linarith [not_le.mp hpi]
    have hexp : Real.exp (-x) ≤ 1 / 20 := by
      have h1 : Real.exp (-x) ≤ Real.exp (-3) := Real.exp_le_exp.mpr (by linarith)
      have h2 : Real.exp (-3) ≤ 1 / 20 := by
        rw [Real.exp_neg]
        have e3 : Real.exp 3 = Real.exp 1 * Real.exp 1 * Real.exp 1 := by
          rw [← Real.exp_add, ← Real.exp_add]; norm_num
        have hgt := Real.exp_one_gt_d9
        have : (20:ℝ) ≤ Real.exp 3 := by rw [e3]; nlinarith
        rw [inv_le_comm₀ (by positivity) (by norm_num)]
        norm_num
        linarith
      linarith
    have hs := Real.neg_one_le_sin x
    nlinarith

/-- algebraic core: with `EC = e^{−ε}cos ε ≤ 1` the real part `d₁` of the denominator of Eq. D6 is at least `1 − q` -/
theorem surface_den_re_ge (S q EC : ℝ) (hS0 : 0 ≤ S) (hq0 : 0 ≤ q) (hEC : EC ≤ 1) :
    1 - q ≤ 1 - q * (1 - S / 3 - 4 / 3 * (1 - EC)) := by
  have h : 1 - S / 3 - 4 / 3 * (1 - EC) ≤ 1 := by linarith
  have := mul_le_mul_of_nonneg_left h hq0
  linarith

/-- algebraic core: the numerator of `Re γ/γ₀` is positive (`ES = e^{−ε} sin ε ≥ −1/20`, `q ≤ 9/16`) -/
theorem surface_re_num_pos (S q d1 ES : ℝ) (hS0 : 0 ≤ S) (hq0 : 0 ≤ q) (hq1 : q ≤ 9 / 16) (hd1 : 1 - q ≤ d1)
    (hES : -(1 / 20) ≤ ES) :
    0 < (1 + S) * d1 + (-S - 2 / 9 * S ^ 2) * -(q * (S / 3 + 2 / 9 * S ^ 2 + 4 / 3 * ES)) := by
  obtain ⟨v, hv⟩ : ∃ x : ℝ, x = S / 3 + 2 / 9 * S ^ 2 + 4 / 3 * ES := ⟨_, rfl⟩
  rw [← hv]
  have hvlo : S / 3 + 2 / 9 * S ^ 2 - 1 / 15 ≤ v := by rw [hv]; linarith
  have hnum : (1 + S) * d1 + (-S - 2 / 9 * S ^ 2) * -(q * v) = (1 + S) * d1 + q * ((S + 2 / 9 * S ^ 2) * v) := by ring
  rw [hnum]
  have hu0 : 0 ≤ S + 2 / 9 * S ^ 2 := by positivity
  have hd1p : 0 < d1 := by linarith
  have hmain : 1 - q ≤ (1 + S) * d1 := by
    have : d1 ≤ (1 + S) * d1 := by nlinarith
    linarith
  by_cases hv0 : 0 ≤ v
  · have : 0 ≤ q * ((S + 2 / 9 * S ^ 2) * v) := by positivity
    linarith
  · have hv' : v < 0 := not_le.mp hv0
    have hS2 : 0 ≤ S ^ 2 := sq_nonneg S
    have hu1 : S + 2 / 9 * S ^ 2 ≤ 1 / 5 := by linarith
    have hv15 : -(1 / 15) ≤ v := by linarith
    have huv : -(1 / 75) ≤ (S + 2 / 9 * S ^ 2) * v := by
      have h1 : (S + 2 / 9 * S ^ 2) * v ≥ (S + 2 / 9 * S ^ 2) * -(1 / 15) := mul_le_mul_of_nonneg_left hv15 hu0
      have h2 : (S + 2 / 9 * S ^ 2) * (1 / 15) ≤ 1 / 5 * (1 / 15) := mul_le_mul_of_nonneg_right hu1 (by norm_num)
      linarith
    have : -(q / 75) ≤ q * ((S + 2 / 9 * S ^ 2) * v) := by
      have := mul_le_mul_of_nonneg_left huv hq0
      linarith
    linarith

/-- the real part of the complex drag near a surface is positive at every non-negative frequency -/
theorem surfaceDragNN_re_pos (nu R l f : ℝ) (hnu : 0 < nu) (hf : 0 ≤ f) (hR : 0 < R) (hl : R ≤ l) :
    0 < (surfaceDragNN nu R l f).1 := by
  have hl0 : 0 < l := by linarith
  simp only [surfaceDragNN]
  have hrr : 0 ≤ f / nu := div_nonneg hf hnu.le
  obtain ⟨S, hS⟩ : ∃ S : ℝ, S = Real.sqrt (f / nu) := ⟨_, rfl⟩
  have hS0 : 0 ≤ S := by rw [hS]; exact Real.sqrt_nonneg _
  have hr : f / nu = S ^ 2 := by rw [hS, Real.sq_sqrt hrr]
  rw [← hS, hr]
  obtain ⟨er, her⟩ : ∃ e : ℝ, e = (2 * l - R) * S / R := ⟨_, rfl⟩
  have her0 : 0 ≤ er := by rw [her]; apply div_nonneg (mul_nonneg (by linarith) hS0) hR.le
  rw [← her]
  obtain ⟨q, hq⟩ : ∃ q : ℝ, q = 9 / 16 * (R / l) := ⟨_, rfl⟩
  have hq0 : 0 ≤ q := by rw [hq]; positivity
  have hq1 : q ≤ 9 / 16 := by
    have : R / l ≤ 1 := (div_le_one hl0).mpr hl
    rw [hq]; linarith
  rw [← hq]
  have hE1 : Real.exp (-er) ≤ 1 := by rw [Real.exp_le_one_iff]; linarith
  have hE0 := Real.exp_pos (-er)
  have hEC : Real.exp (-er) * Real.cos er ≤ 1 := by
    have h1 := Real.cos_le_one er
    have := mul_le_mul_of_nonneg_left h1 hE0.le
    linarith
  have hES := exp_neg_mul_sin_ge er her0
  generalize Real.exp (-er) * Real.cos er = EC at *
  generalize Real.exp (-er) * Real.sin er = ES at *
  have hd1lo := surface_den_re_ge S q EC hS0 hq0 hEC
  obtain ⟨d1, hd1⟩ : ∃ x : ℝ, x = 1 - q * (1 - S / 3 - 4 / 3 * (1 - EC)) := ⟨_, rfl⟩
  rw [← hd1] at hd1lo ⊢
  have hd1p : 0 < d1 := by linarith
  have hnum := surface_re_num_pos S q d1 ES hS0 hq0 hq1 hd1lo hES
  apply div_pos hnum
  have := mul_self_nonneg (-(q * (S / 3 + 2 / 9 * S ^ 2 + 4 / 3 * ES)))
  have := mul_pos hd1p hd1p
  linarith


/-! ### temperature dependence of Eq. 3 -/

/-- the water exponent of Eq. 3 decreases strictly with temperature on 20–150 °C -/
theorem waterExp_strictAnti (t₁ t₂ : ℝ) (h0 : 20 ≤ t₁) (h12 : t₁ < t₂) (h1 : t₂ ≤ 150) : waterExp t₂ < waterExp t₁ := by
  unfold waterExp
  obtain ⟨v₁, rfl⟩ : ∃ v : ℝ, t₁ = v + 20 := ⟨t₁ - 20, by ring⟩
  obtain ⟨v₂, rfl⟩ : ∃ v : ℝ, t₂ = v + 20 := ⟨t₂ - 20, by ring⟩
  have a0 : 0 ≤ v₁ := by linarith
  have a1 : v₁ ≤ 130 := by linarith
  have b0 : 0 ≤ v₂ := by linarith
  have b1 : v₂ ≤ 130 := by linarith
  have hd : 0 < v₂ - v₁ := by linarith
  rw [div_lt_div_iff₀ (by linarith) (by linarith)]
  have e1 : (20 - (v₁ + 20) : ℝ) = -v₁ := by ring
  have e2 : (20 - (v₂ + 20) : ℝ) = -v₂ := by ring
  rw [e1, e2]
  -- products of the two shifted temperatures, each in [0, 130]
  have p11 : v₁ * v₂ ≤ 16900 := by nlinarith
  have p11' : 0 ≤ v₁ * v₂ := mul_nonneg a0 b0
  have q1 : v₁ ^ 2 ≤ 16900 := by nlinarith
  have q2 : v₂ ^ 2 ≤ 16900 := by nlinarith
  obtain ⟨r3, hr3⟩ : ∃ r : ℝ, r = v₁ ^ 2 + v₁ * v₂ + v₂ ^ 2 := ⟨_, rfl⟩
  obtain ⟨r4, hr4⟩ : ∃ r : ℝ, r = v₁ ^ 3 + v₁ ^ 2 * v₂ + v₁ * v₂ ^ 2 + v₂ ^ 3 := ⟨_, rfl⟩
  have hr3b : r3 ≤ 50700 := by rw [hr3]; linarith
  have hr3p : 0 ≤ r3 := by rw [hr3]; positivity
  have hr4b : r4 ≤ 8788000 := by
    rw [hr4]
    have c1 : v₁ ^ 3 ≤ 130 * 16900 := by nlinarith [mul_nonneg a0 (sq_nonneg v₁)]
    have c2 : v₁ ^ 2 * v₂ ≤ 16900 * 130 := by nlinarith [mul_nonneg b0 (sq_nonneg v₁)]
    have c3 : v₁ * v₂ ^ 2 ≤ 130 * 16900 := by nlinarith [mul_nonneg a0 (sq_nonneg v₂)]
    have c4 : v₂ ^ 3 ≤ 130 * 16900 := by nlinarith [mul_nonneg b0 (sq_nonneg v₂)]
    linarith
  have hs : 0 ≤ v₁ + v₂ := by linarith
  have key : 116 * (-1.2378 - 1.303e-3 * (v₁ + v₂) - 3.06e-6 * r3 + 2.55e-8 * r4)
      + v₁ * v₂ * (-1.303e-3 - 3.06e-6 * (v₁ + v₂) + 2.55e-8 * r3) < 0 := by
    have t1 : v₁ * v₂ * (2.55e-8 * r3) ≤ 16900 * (2.55e-8 * 50700) := by
      apply mul_le_mul p11 (by linarith) (by positivity) (by norm_num)
    have t2 : v₁ * v₂ * (-1.303e-3 - 3.06e-6 * (v₁ + v₂)) ≤ 0 :=
      mul_nonpos_of_nonneg_of_nonpos p11' (by nlinarith)
    nlinarith
  have e : (1.2378 * -v₂ + -1.303e-3 * (-v₂) ^ 2 + 3.06e-6 * (-v₂) ^ 3 + 2.55e-8 * (-v₂) ^ 4) * (96 + (v₁ + 20))
      - (1.2378 * -v₁ + -1.303e-3 * (-v₁) ^ 2 + 3.06e-6 * (-v₁) ^ 3 + 2.55e-8 * (-v₁) ^ 4) * (96 + (v₂ + 20))
      = (v₂ - v₁) * (116 * (-1.2378 - 1.303e-3 * (v₁ + v₂) - 3.06e-6 * r3 + 2.55e-8 * r4)
          + v₁ * v₂ * (-1.303e-3 - 3.06e-6 * (v₁ + v₂) + 2.55e-8 * r3)) := by
    rw [hr3, hr4]; ring
  have := mul_neg_of_pos_of_neg hd key
  linarith

/-- `1 + B(m) > 0` on `[0, 6]` -/
theorem one_add_B_pos (m : ℝ) (h0 : 0 ≤ m) (h6 : m ≤ 6) : 0 < 1 + (-3.96e-2 * m + 1.02e-2 * m ^ 2 + -7.02e-4 * m ^ 3) := by
  have m3 : m ^ 3 ≤ 216 := by
    have : m ^ 3 ≤ 6 ^ 3 := pow_le_pow_left₀ h0 h6 3
    linarith
  have : 0 ≤ m ^ 2 := by positivity
  nlinarith


/-! ### density bounds, `molality_to_molarity` and the residual of `molarity_to_molality` -/

theorem dT1_ub (k : ℝ) (h0 : 293.15 ≤ k) (h1 : k ≤ 423.15) : dT1 k ≤ 2e-3 := by
  have hk : 0 < k := by linarith
  have e : dT1 k = (1.006741e2 + -1.127522 * k + 5.916365e-3 * k ^ 2 + -1.035794e-5 * k ^ 3 + 9.270048e-9 * k ^ 4) / k ^ 2 := by
    unfold dT1; field_simp
  rw [e, div_le_iff₀ (by positivity)]
  obtain ⟨x, rfl⟩ : ∃ x : ℝ, k = x + 293.15 := ⟨k - 293.15, by ring⟩
  have hx : 0 ≤ x := by linarith
  have hx1 : x ≤ 130 := by linarith
  have x3 : x ^ 3 ≤ 130 ^ 3 := pow_le_pow_left₀ hx hx1 3
  have x4 : x ^ 4 ≤ 130 ^ 4 := pow_le_pow_left₀ hx hx1 4
  nlinarith [pow_nonneg hx 2]

theorem dT2_nonneg (k : ℝ) (h0 : 293.15 ≤ k) (h1 : k ≤ 423.15) : 0 ≤ dT2 k := by
  have hk : 0 < k := by linarith
  have e : dT2 k = (1.042948 + -1.1933677e-2 * k + 5.307535e-5 * k ^ 2 + -1.0688768e-7 * k ^ 3 + 8.492739e-11 * k ^ 4) / k ^ 2 := by
    unfold dT2; field_simp
  rw [e]
  apply div_nonneg _ (by positivity)
  obtain ⟨x, rfl⟩ : ∃ x : ℝ, k = x + 293.15 := ⟨k - 293.15, by ring⟩
  have hx : 0 ≤ x := by linarith
  have hx1 : x ≤ 130 := by linarith
  have x3 : x ^ 3 ≤ 130 * x ^ 2 := by nlinarith [pow_nonneg hx 2]
  nlinarith [pow_nonneg hx 2, pow_nonneg hx 4]

theorem dT3_lb (k : ℝ) (h1 : k ≤ 423.15) : -1.7e-9 ≤ dT3 k := by unfold dT3; nlinarith
theorem dT8_nonneg (k : ℝ) : 0 ≤ dT8 k := by unfold dT8; nlinarith [sq_nonneg (k - 303.7)]

/-- the specific volume stays below 2.5e-3 m³/kg (density above 400 kg/m³) on the validity range -/
theorem specVol_ub (k p w : ℝ) (h0 : 293.15 ≤ k) (h1 : k ≤ 423.15) (hp0 : 0 ≤ p) (hp1 : p ≤ 35) (hw0 : 0 ≤ w)
    (hw1 : w ≤ 0.26) : specVol k p w < 2.5e-3 := by
  unfold specVol
  have a := dT1_ub k h0 h1
  have b := dT2_nonneg k h0 h1
  have c := dT3_lb k h1
  have d := dT8_nonneg k
  obtain ⟨e1, e2⟩ := dA1_bounds k h0 h1
  obtain ⟨f1, f2⟩ := dA2_bounds k h0 h1
  obtain ⟨g1, g2⟩ := dA3_bounds k h0 h1
  obtain ⟨i1, i2⟩ := dA4_bounds k h0 h1
  have hp2 : p ^ 2 ≤ 1225 := by nlinarith
  have hp2' : 0 ≤ p ^ 2 := by positivity
  have t2 : 0 ≤ dT2 k * p := mul_nonneg b hp0
  have t3 : -(1.7e-9 * 1225) ≤ dT3 k * p ^ 2 := by nlinarith
  have t8 : 0 ≤ 0.5 * dT8 k * p ^ 2 := by positivity
  have al : dA1 k - dA3 k * p ≤ 0 := by nlinarith
  have be : dA2 k - dA4 k * p ≤ 3.4e-4 := by nlinarith [mul_nonneg i1 hp0]
  have wa : w * (dA1 k - dA3 k * p) ≤ 0 := mul_nonpos_of_nonneg_of_nonpos hw0 al
  have hw2 : w ^ 2 ≤ 0.0676 := by nlinarith
  have wb : w ^ 2 * (dA2 k - dA4 k * p) ≤ 0.0676 * 3.4e-4 := by nlinarith [sq_nonneg w]
  nlinarith

theorem molalityToMolarity_real (t m p : ℝ) :
    molalityToMolarity t m p = m / (1000 * (1 + 58.4428 * m * 1e-3) / saltDensity t m p) := by
  simp only [molalityToMolarity]; norm_num

/-- density of the solution on the validity range: between 400 and 2000 kg/m³ -/
theorem saltDensity_bounds (t m p : ℝ) (ht0 : 20 ≤ t) (ht1 : t ≤ 150) (hp0 : 0 ≤ p) (hp1 : p ≤ 35) (h0 : 0 ≤ m)
    (h6 : m ≤ 6) : 400 < saltDensity t m p ∧ saltDensity t m p < 2000 := by
  rw [saltDensity_real]
  have k0 : (293.15:ℝ) ≤ t + 273.15 := by linarith
  have k1 : t + 273.15 ≤ (423.15:ℝ) := by linarith
  obtain ⟨a0, a1⟩ := wfrac_bounds m h0 h6
  have lo := specVol_pos (t + 273.15) p (wfrac m) k0 k1 hp0 hp1 a0 a1
  have hi := specVol_ub (t + 273.15) p (wfrac m) k0 k1 hp0 hp1 a0 a1
  have hpos : 0 < specVol (t + 273.15) p (wfrac m) := by linarith
  constructor
  · rw [lt_div_iff₀ hpos]; linarith
  · rw [div_lt_iff₀ hpos]; linarith

/-- The residual whose root `molarity_to_molality` asks `brentq` for vanishes at a molality `m` exactly when a
    solution of that molality has the molarity asked for (molarity up to 6 M, where the denominator of the residual
    is positive). -/
theorem molalityResidual_zero_iff (t c p m : ℝ) (ht0 : 20 ≤ t) (ht1 : t ≤ 150) (hp0 : 0 ≤ p) (hp1 : p ≤ 35)
    (hc0 : 0 ≤ c) (hc6 : c ≤ 6) (h0 : 0 ≤ m) (h6 : m ≤ 6) :
    molalityResidual t c p m = 0 ↔ molalityToMolarity t m p = c := by
  obtain ⟨lo, hi⟩ := saltDensity_bounds t m p ht0 ht1 hp0 hp1 h0 h6
  rw [molalityToMolarity_real]
  simp only [molalityResidual]
  generalize saltDensity t m p = ρ at *
  have hρ : 0 < ρ := by linarith
  have hden : 0 < ρ * 1e-3 - 58.4428 * c * 1e-3 := by nlinarith
  have hk : (0:ℝ) < 1000 * (1 + 58.4428 * m * 1e-3) := by positivity
  have e3 : (1.0e-3 : ℝ) = 1e-3 := by norm_num
  rw [e3]
  constructor
  · intro h
    have h' : c / (ρ * 1e-3 - 58.4428 * c * 1e-3) = m := by linarith
    rw [div_eq_iff hden.ne'] at h'
    rw [div_div_eq_mul_div, div_eq_iff hk.ne']
    nlinarith
  · intro h
    rw [div_div_eq_mul_div, div_eq_iff hk.ne'] at h
    have : c / (ρ * 1e-3 - 58.4428 * c * 1e-3) = m := by
      rw [div_eq_iff hden.ne']; nlinarith
    linarith

/-- the molality that was converted to a molarity is a root of the residual `molarity_to_molality` solves -/
theorem molalityResidual_round_trip (t p m : ℝ) (ht0 : 20 ≤ t) (ht1 : t ≤ 150) (hp0 : 0 ≤ p) (hp1 : p ≤ 35)
    (h0 : 0 ≤ m) (h6 : m ≤ 6) : molalityResidual t (molalityToMolarity t m p) p m = 0 := by
  obtain ⟨lo, hi⟩ := saltDensity_bounds t m p ht0 ht1 hp0 hp1 h0 h6
  rw [molalityToMolarity_real]
  simp only [molalityResidual]
  generalize saltDensity t m p = ρ at *
  have hρ : 0 < ρ := by linarith
  have hk : (0:ℝ) < 1000 + 58.4428 * m := by positivity
  have e3 : (1.0e-3 : ℝ) = 1e-3 := by norm_num
  rw [e3]
  have hc : m / (1000 * (1 + 58.4428 * m * 1e-3) / ρ) = m * ρ / (1000 + 58.4428 * m) := by
    field_simp
    ring
  rw [hc]
  have hden : ρ * 1e-3 - 58.4428 * (m * ρ / (1000 + 58.4428 * m)) * 1e-3 = ρ / (1000 + 58.4428 * m) := by
    field_simp
    ring
  rw [hden]
  field_simp
  ring


/-! ### the complex drag near a surface as a function of the bead radius -/

/-- the complex drag near a surface as a function of the bead radius, at the bead's own Stokes drag
    (`κ = f π ρ / η`, so `f/f_ν = κR²`, `√(f/f_ν) = R√κ`, `ε = (2l − R)√κ`) -/
noncomputable def surfaceDragOfRadius (kappa l R : ℝ) : ℝ × ℝ :=
  let S := R * Real.sqrt kappa
  let r := kappa * R ^ 2
  let er := (2 * l - R) * Real.sqrt kappa
  let q := 9 / 16 * (R / l)
  let innerRe := 1 - S / 3 - 4 / 3 * (1 - Real.exp (-er) * Real.cos er)
  let innerIm := S / 3 + 2 / 9 * r + 4 / 3 * (Real.exp (-er) * Real.sin er)
  let d1 := 1 - q * innerRe
  let d2 := -(q * innerIm)
  let s1 := 1 + S
  let s2 := -S - 2 / 9 * r
  ((s1 * d1 + s2 * d2) / (d1 * d1 + d2 * d2), (s2 * d1 - s1 * d2) / (d1 * d1 + d2 * d2))

theorem surfaceDragNN_of_radius (f eta rho l R : ℝ) (hf : 0 ≤ f) (heta : 0 < eta) (hrho : 0 < rho) (hR : 0 < R) :
    surfaceDragNN (eta / (Real.pi * rho * R ^ 2)) R l f = surfaceDragOfRadius (f * (Real.pi * rho) / eta) l R := by
  have hpi := Real.pi_pos
  have hk : 0 ≤ f * (Real.pi * rho) / eta := by positivity
  have hr : f / (eta / (Real.pi * rho * R ^ 2)) = f * (Real.pi * rho) / eta * R ^ 2 := by field_simp
  have hS : Real.sqrt (f / (eta / (Real.pi * rho * R ^ 2))) = R * Real.sqrt (f * (Real.pi * rho) / eta) := by
    rw [hr, Real.sqrt_mul hk, Real.sqrt_sq hR.le, mul_comm]
  simp only [surfaceDragNN, surfaceDragOfRadius, hS]
  simp only [hr]
  have he : (2 * l - R) * (R * Real.sqrt (f * (Real.pi * rho) / eta)) / R
      = (2 * l - R) * Real.sqrt (f * (Real.pi * rho) / eta) := by field_simp
  rw [he]

theorem surfaceDragOfRadius_zero (kappa l : ℝ) : surfaceDragOfRadius kappa l 0 = (1, 0) := by
  simp [surfaceDragOfRadius]

theorem surfaceDragOfRadius_continuousAt (kappa l : ℝ) : ContinuousAt (surfaceDragOfRadius kappa l) 0 := by
  unfold surfaceDragOfRadius
  apply ContinuousAt.prodMk
  · apply ContinuousAt.div (by fun_prop) (by fun_prop)
    norm_num
  · apply ContinuousAt.div (by fun_prop) (by fun_prop)
    norm_num


/-! ### glue of the public water functions and of the constructor -/

theorem bisect_mem (g : ℝ → ℝ) (k : ℕ) (lo hi : ℝ) (h : lo ≤ hi) : lo ≤ bisect g k lo hi ∧ bisect g k lo hi ≤ hi := by
  induction k generalizing lo hi with
  | zero => simp only [bisect, two_real]; constructor <;> linarith
  | succ k ih =>
    have hm1 : lo ≤ (lo + hi) / 2 := by linarith
    have hm2 : (lo + hi) / 2 ≤ hi := by linarith
    simp only [bisect, two_real]
    split
    · obtain ⟨a, b⟩ := ih ((lo + hi) / 2) hi hm2; exact ⟨by linarith, b⟩
    · obtain ⟨a, b⟩ := ih lo ((lo + hi) / 2) hm1; exact ⟨a, by linarith⟩

/-- whatever `molarity_to_molality` answers lies in the bracket `[0, 6]` mol/kg -/
theorem molarityToMolality_mem (t c p m : ℝ) (h : molarityToMolality t c p = .ok m) : 0 ≤ m ∧ m ≤ 6 := by
  simp only [molarityToMolality] at h
  have z : (0.0:ℝ) = 0 := by norm_num
  have s : (6.0:ℝ) = 6 := by norm_num
  split_ifs at h
  · cases h; rw [z]; norm_num
  · cases h; rw [s]; norm_num
  · cases h
    have := bisect_mem (molalityResidual t c p) 100 0 6 (by norm_num)
    rw [z, s]; exact this

theorem saltValid_real (t m p : ℝ) : saltValid t m p = true ↔ (20 ≤ t ∧ t < 150) ∧ p ≤ 35 ∧ m ≤ 6 := by
  simp only [saltValid, RealLike.le, RealLike.lt, Bool.and_eq_true, decide_eq_true_eq]
  norm_num
  tauto

theorem saltViscosity_pos (t m p : ℝ) (ht0 : 20 ≤ t) (ht1 : t ≤ 150) (hp0 : 0 ≤ p) (hp1 : p ≤ 35) (h0 : 0 ≤ m)
    (h6 : m ≤ 6) : 0 < saltViscosity t m p := by
  unfold saltViscosity
  have hz := zpv_pos t m
  obtain ⟨_, hlow⟩ := pf_lipschitz t m m ht0 ht1 h0 (le_refl _) h6
  have e1 : (1.0e-6 : ℝ) = 1e-6 := by norm_num
  have e2 : (1.0 : ℝ) = 1 := by norm_num
  have e3 : (1000.0 : ℝ) = 1000 := by norm_num
  rw [e1, e2, e3]
  have : 0 < 1 + pressureFactor t m * p / 1000 := by
    have : -2 * 35 ≤ pressureFactor t m * p := by nlinarith
    linarith
  positivity

/-- non-vacuity: plain water at 25 °C, asked through the salt model (molarity 0): the conversion answers 0 mol/kg -/
theorem molarityToMolality_zero : molarityToMolality (25:ℝ) 0 0.101325 = .ok 0.0 := by
  have hv : saltValid (25:ℝ) 0.0 0.101325 = true := by rw [saltValid_real]; norm_num
  have g0 : molalityResidual (25:ℝ) 0 0.101325 0.0 = 0 := by simp [molalityResidual]; norm_num
  simp only [molarityToMolality, hv, g0, RealLike.lt, isZero_real]
  norm_num


end Verif.C20
