/-
  Helper lemmas for C19 (core Lean only).
-/
import Verif.Model.C19

namespace Verif.C19

/-! ### the untruncated situation -/

/-- The start `s` of an object is not before any photon timeline, and the info wave, the photon timelines and
    `s` share one sampling grid (how Bluelake writes files). -/
def Untruncated (f : File) (s : Int) : Prop :=
  0 < f.dt ∧ f.dt ∣ (s - f.t0) ∧ ∀ c ch, f.chan c = some ch → ch.start ≤ s ∧ f.dt ∣ (s - ch.start)

theorem alignedStart_of_grid {g0 dt a : Int} (hg : g0 ≤ a) (hd : dt ∣ (a - g0)) :
    alignedStart g0 dt a = a := by
  unfold alignedStart
  have : (a - g0) % dt = 0 := Int.emod_eq_zero_of_dvd hd
  simp only [this, if_true]
  omega

theorem chanWindow_start {dt : Int} {c : Chan} {s e tl ce : Int}
    (h : chanWindow dt c s e = some (tl, ce)) : tl = alignedStart c.start dt s := by
  unfold chanWindow at h
  simp only at h
  split at h
  · simp only [Option.some.injEq, Prod.mk.injEq] at h; exact h.1.symm
  · cases h

/-- the photon slice a quantity of colour `c` is computed from, as a function of the window alone -/
def cwOf (f : File) (s e : Int) (c : Color) : Option (Int × Int) :=
  (f.chan c).bind fun ch => chanWindow f.dt ch s e

/-- `_get_photon_count` of an untruncated object neither moves `start` nor touches the cache. -/
theorem photonAccess_untruncated (f : File) (o : Obj) (c : Color) (hU : Untruncated f o.start) :
    photonAccess f o c = .ok (o, cwOf f o.start o.stop c) := by
  unfold photonAccess cwOf
  cases hc : f.chan c with
  | none => rfl
  | some ch =>
    obtain ⟨_, _, hch⟩ := hU
    obtain ⟨hle, hdv⟩ := hch c ch hc
    simp only [Option.bind_some]
    cases hw : chanWindow f.dt ch o.start o.stop with
    | none => rfl
    | some w =>
      obtain ⟨tl, ce⟩ := w
      have htl : tl = o.start := by
        rw [chanWindow_start hw, alignedStart_of_grid hle hdv]
      subst htl
      simp only
      have h1 : ¬ (o.start - f.dt < o.start ∧ o.start < o.start) := by omega
      simp only [h1, if_false]
      have h2 : ¬ (o.start > o.start) := by omega
      simp only [h2, if_false]

/-- the answers of the default factories as functions of the window -/
def tsAns (f : File) (s e : Int) (r : Red) : List Color → Ans
  | [] => .err .runtime
  | c :: cs =>
    match cwOf f s e c with
    | none => tsAns f s e r cs
    | some cw => .at (.ts r) s (confocalStop f e (some cw))

def defaultAns (f : File) (s e : Int) : Prim → Ans
  | .pixelTime => .at .pixelTime s e
  | .lineTime => .at .lineTime s e
  | .image c => .at (.image c) s (confocalStop f e (cwOf f s e c))
  | .ts r => tsAns f s e r allColors

theorem defaultTs_untruncated (f : File) (o : Obj) (r : Red) (hU : Untruncated f o.start) (cs : List Color) :
    defaultTs f o r cs = (o, tsAns f o.start o.stop r cs) := by
  induction cs with
  | nil => rfl
  | cons c cs ih =>
    unfold defaultTs tsAns
    rw [photonAccess_untruncated f o c hU]
    cases hw : cwOf f o.start o.stop c with
    | none => simp only; exact ih
    | some cw => rfl

/-- On an untruncated object every default factory leaves the object alone and answers with a function of
    `(start, stop)`. -/
theorem defaultPrim_untruncated (f : File) (o : Obj) (p : Prim) (hU : Untruncated f o.start) :
    defaultPrim f o p = (o, defaultAns f o.start o.stop p) := by
  cases p with
  | pixelTime => rfl
  | lineTime => rfl
  | image c =>
    show defaultImage f o c = _
    unfold defaultImage
    rw [photonAccess_untruncated f o c hU]
    rfl
  | ts r => exact defaultTs_untruncated f o r hU allColors


/-! ### skeletons: what an object is, apart from its memo tables -/

structure Skel where
  start : Int
  stop : Int
  chain : List Nat
  mode : Mode
  xf : Nat
  path : List Nat
  alive : Bool
  fr : Ans           -- what `num_frames` answers (memoised or not)
deriving DecidableEq

def Obj.skel (o : Obj) : Skel :=
  ⟨o.start, o.stop, o.chain, o.mode, o.xf, o.path, o.alive, o.frames.getD (.frames o.start o.stop)⟩

def skelH (h : Heap) : List Skel := h.map Obj.skel

theorem skel_get {h h' : Heap} (e : skelH h = skelH h') (i : Nat) :
    (h[i]?).map Obj.skel = (h'[i]?).map Obj.skel := by
  have := congrArg (fun l => l[i]?) e
  simpa [skelH, List.getElem?_map] using this

theorem skel_get_some {h h' : Heap} (e : skelH h = skelH h') {i : Nat} {o : Obj} (ho : h[i]? = some o) :
    ∃ o', h'[i]? = some o' ∧ o'.skel = o.skel := by
  have := skel_get e i
  rw [ho] at this
  cases ho' : h'[i]? with
  | none => rw [ho'] at this; cases this
  | some o' =>
    rw [ho'] at this
    simp only [Option.map_some, Option.some.injEq] at this
    exact ⟨o', rfl, this.symm⟩

theorem skel_get_none {h h' : Heap} (e : skelH h = skelH h') {i : Nat} (ho : h[i]? = none) :
    h'[i]? = none := by
  have := skel_get e i
  rw [ho] at this
  cases ho' : h'[i]? with
  | none => rfl
  | some o' => rw [ho'] at this; cases this

theorem skel_length {h h' : Heap} (e : skelH h = skelH h') : h.length = h'.length := by
  have := congrArg List.length e
  simpa [skelH] using this

/-! ### cache-free semantics (the answer of a freshly constructed object) -/

def denOne (f : File) (up : Prim → Ans) (o : Obj) (p : Prim) : Ans :=
  match route o.mode p with
  | .default => defaultAns f o.start o.stop p
  | .parent q => .app o.xf (up q)
  | .illDefined => .err .notImpl
  | .self _ => .dead

def denAt (f : File) (up : Prim → Ans) (h : Heap) (i : Nat) (p : Prim) : Ans :=
  match h[i]? with
  | none => .dead
  | some o =>
    if !o.alive then .dead
    else match route o.mode p with
      | .self q => .via p (denOne f up o q)
      | _ => denOne f up o p

def den (f : File) : List Nat → Heap → Nat → Prim → Ans
  | [], h, i, p => denAt f (fun _ => .dead) h i p
  | par :: rest, h, i, p => denAt f (fun q => den f rest h par q) h i p

theorem denOne_skel (f : File) (up : Prim → Ans) {o o' : Obj} (e : o'.skel = o.skel) (p : Prim) :
    denOne f up o' p = denOne f up o p := by
  have e1 : o'.start = o.start := congrArg Skel.start e
  have e2 : o'.stop = o.stop := congrArg Skel.stop e
  have e3 : o'.mode = o.mode := congrArg Skel.mode e
  have e4 : o'.xf = o.xf := congrArg Skel.xf e
  unfold denOne
  rw [e1, e2, e3, e4]

theorem denAt_skel (f : File) (up : Prim → Ans) {h h' : Heap} (e : skelH h = skelH h') (i : Nat) (p : Prim) :
    denAt f up h' i p = denAt f up h i p := by
  unfold denAt
  cases ho : h[i]? with
  | none => rw [skel_get_none e ho]
  | some o =>
    obtain ⟨o', ho', es⟩ := skel_get_some e ho
    rw [ho']
    have e3 : o'.mode = o.mode := congrArg Skel.mode es
    have e5 : o'.alive = o.alive := congrArg Skel.alive es
    simp only [e3, e5]
    split
    · rfl
    · split <;> simp only [denOne_skel f up es]

/-- The cache-free semantics depends on the skeleton only. -/
theorem den_skel (f : File) {h h' : Heap} (e : skelH h = skelH h') :
    ∀ (chain : List Nat) (i : Nat) (p : Prim), den f chain h' i p = den f chain h i p := by
  intro chain
  induction chain with
  | nil => intro i p; exact denAt_skel f _ e i p
  | cons par rest ih =>
    intro i p
    unfold den
    have : (fun q => den f rest h' par q) = (fun q => den f rest h par q) := by
      funext q; exact ih par q
    rw [this]
    exact denAt_skel f _ e i p

/-! ### invariants -/

/-- every live object is untruncated -/
def Calm (f : File) (h : Heap) : Prop := ∀ (i : Nat) (o : Obj), h[i]? = some o → o.alive = true → Untruncated f o.start

/-- the closure chain of an object is its parent followed by the parent's chain -/
def ChainOK (h : Heap) : Prop :=
  ∀ (i : Nat) (o : Obj), h[i]? = some o → ∀ (par : Nat) (rest : List Nat), o.chain = par :: rest →
    ∃ po : Obj, h[par]? = some po ∧ po.chain = rest

/-- **the cache invariant**: every memoised value equals its recomputation from the current state -/
def CacheOK (f : File) (h : Heap) : Prop :=
  ∀ (i : Nat) (o : Obj), h[i]? = some o → ∀ (p : Prim) (v : Ans), lookup o.cache p = some v → v = den f o.chain h i p

def Good (f : File) (h : Heap) : Prop := Calm f h ∧ ChainOK h ∧ CacheOK f h

theorem Calm_skel {f : File} {h h' : Heap} (e : skelH h = skelH h') (hc : Calm f h) : Calm f h' := by
  unfold Calm at *
  intro i o' ho' ha
  obtain ⟨o, ho, es⟩ := skel_get_some e.symm ho'
  have e1 : o.start = o'.start := congrArg Skel.start es
  have e5 : o.alive = o'.alive := congrArg Skel.alive es
  rw [← e1]; exact hc i o ho (by rw [e5]; exact ha)

theorem ChainOK_skel {h h' : Heap} (e : skelH h = skelH h') (hc : ChainOK h) : ChainOK h' := by
  unfold ChainOK at *
  intro i o' ho' par rest hch
  obtain ⟨o, ho, es⟩ := skel_get_some e.symm ho'
  have e3 : o.chain = o'.chain := congrArg Skel.chain es
  obtain ⟨po, hpo, hpc⟩ := hc i o ho par rest (by rw [e3]; exact hch)
  obtain ⟨po', hpo', eps⟩ := skel_get_some e hpo
  exact ⟨po', hpo', by rw [← hpc]; exact congrArg Skel.chain eps⟩


/-! ### list / lookup facts -/

theorem lookup_cons (p q : Prim) (v : Ans) (c : List (Prim × Ans)) :
    lookup ((p, v) :: c) q = if p = q then some v else lookup c q := by
  unfold lookup
  simp only [List.find?_cons]
  by_cases hpq : p = q
  · simp [hpq]
  · simp [hpq]

theorem get_set_self {h : Heap} {i : Nat} {o0 : Obj} (ho : h[i]? = some o0) (o : Obj) :
    (h.set i o)[i]? = some o := by
  have hi : i < h.length := by
    rcases Nat.lt_or_ge i h.length with hlt | hge
    · exact hlt
    · rw [List.getElem?_eq_none hge] at ho; cases ho
  simp [List.getElem?_set, hi]

theorem get_set_ne {h : Heap} {i j : Nat} (hij : i ≠ j) (o : Obj) : (h.set i o)[j]? = h[j]? := by
  simp [List.getElem?_set, hij]

theorem skelH_set {h : Heap} {i : Nat} {o0 o : Obj} (ho : h[i]? = some o0) (e : o.skel = o0.skel) :
    skelH (h.set i o) = skelH h := by
  apply List.ext_getElem?
  intro j
  simp only [skelH, List.getElem?_map]
  by_cases hij : i = j
  · subst hij; rw [get_set_self ho, ho]; simp [e]
  · rw [get_set_ne hij]

theorem set_same {h : Heap} {i : Nat} {o : Obj} (ho : h[i]? = some o) : h.set i o = h := by
  apply List.ext_getElem?
  intro j
  by_cases hij : i = j
  · subst hij; rw [get_set_self ho, ho]
  · rw [get_set_ne hij]

/-! ### one memoised call on a calm heap answers the cache-free semantics and only grows memo tables -/

/-- what is shown of a call: the answer, an unchanged skeleton, a still valid cache -/
def Spec (f : File) (h : Heap) (r : Heap × Ans) (a : Ans) : Prop :=
  r.2 = a ∧ skelH r.1 = skelH h ∧ CacheOK f r.1

theorem CacheOK_skel_step {f : File} {h h1 : Heap} (e : skelH h1 = skelH h) (hC : CacheOK f h1) :
    ∀ (i : Nat) (o : Obj), h1[i]? = some o → ∀ (p : Prim) (v : Ans), lookup o.cache p = some v →
      v = den f o.chain h i p := by
  intro i o ho p v hl
  rw [← den_skel f e.symm]
  exact hC i o ho p v hl

theorem storeAns_spec (f : File) (h0 h : Heap) (i : Nat) (p : Prim) (g : Nat) (v : Ans) (o : Obj)
    (e : skelH h = skelH h0) (ho : h[i]? = some o) (hC : CacheOK f h) (hv : v = den f o.chain h0 i p) :
    Spec f h0 (storeAns h i p g v) v := by
  unfold storeAns
  split
  · exact ⟨rfl, e, hC⟩
  · rw [ho]
    simp only
    split
    · have es : skelH (setObj h i { o with cache := (p, v) :: o.cache }) = skelH h := skelH_set ho rfl
      refine ⟨rfl, es.trans e, ?_⟩
      · intro j oj hoj q w hl
        rw [den_skel f (es.trans e).symm]
        by_cases hij : i = j
        · subst hij
          rw [setObj, get_set_self ho] at hoj
          cases hoj
          simp only at hl ⊢
          rw [lookup_cons] at hl
          by_cases hpq : p = q
          · subst hpq
            simp only [if_true, Option.some.injEq] at hl
            rw [← hl]; exact hv
          · simp only [hpq, if_false] at hl
            rw [← den_skel f e.symm]
            exact hC i o ho q w hl
        · rw [setObj, get_set_ne hij] at hoj
          rw [← den_skel f e.symm]
          exact hC j oj hoj q w hl
    · exact ⟨rfl, e, hC⟩

theorem denAt_nonself (f : File) (upDen : Prim → Ans) {h : Heap} {i : Nat} {o : Obj} (ho : h[i]? = some o)
    (ha : o.alive = true) {p : Prim} (hr : ∀ q, route o.mode p ≠ .self q) :
    denAt f upDen h i p = denOne f upDen o p := by
  unfold denAt
  rw [ho]
  simp only [ha, Bool.not_true, Bool.false_eq_true, if_false]

theorem evalOne_spec (f : File) (up : Heap → Prim → Heap × Ans) (upDen : Prim → Ans) (h : Heap) (i : Nat)
    (p : Prim) (o : Obj) (hG : Good f h) (ho : h[i]? = some o) (ha : o.alive = true)
    (hup : ∀ q, Spec f h (up h q) (upDen q))
    (hden : ∀ p, den f o.chain h i p = denAt f upDen h i p)
    (hr : ∀ q, route o.mode p ≠ .self q) :
    Spec f h (evalOne f up h i p) (denOne f upDen o p) := by
  obtain ⟨hCalm, _, hC⟩ := hG
  have hd : den f o.chain h i p = denOne f upDen o p := by rw [hden, denAt_nonself f upDen ho ha hr]
  unfold evalOne
  rw [ho]
  simp only
  cases hl : lookup o.cache p with
  | some v =>
    simp only
    exact ⟨by rw [hC i o ho p v hl, hd], rfl, hC⟩
  | none =>
    simp only
    cases hrt : route o.mode p with
    | default =>
      simp only
      rw [defaultPrim_untruncated f o p (hCalm i o ho ha)]
      simp only [setObj, set_same ho]
      have hv : denOne f upDen o p = defaultAns f o.start o.stop p := by unfold denOne; rw [hrt]
      rw [hv]
      exact storeAns_spec f h h i p o.gen _ o rfl ho hC (by rw [hd, hv])
    | parent q =>
      simp only
      obtain ⟨h2, h3, h4⟩ := hup q
      obtain ⟨o1, ho1, es⟩ := skel_get_some h3.symm ho
      have hv : denOne f upDen o p = .app o.xf (upDen q) := by unfold denOne; rw [hrt]
      rw [hv, h2]
      have ec : o1.chain = o.chain := congrArg Skel.chain es
      exact storeAns_spec f h (up h q).1 i p o.gen _ o1 h3 ho1 h4 (by rw [ec, hd, hv])
    | illDefined =>
      simp only
      have hv : denOne f upDen o p = .err .notImpl := by unfold denOne; rw [hrt]
      rw [hv]
      exact ⟨rfl, rfl, hC⟩
    | self q => exact absurd hrt (hr q)

theorem route_self_target {m : Mode} {p q : Prim} (h : route m p = .self q) : ∀ q', route m q ≠ .self q' := by
  cases m <;> cases p <;> simp [route] at h <;> subst h <;> intro q' <;> simp [route]

theorem evalAt_spec (f : File) (up : Heap → Prim → Heap × Ans) (upDen : Prim → Ans) (h : Heap) (i : Nat)
    (p : Prim) (hG : Good f h)
    (hup : ∀ o, h[i]? = some o → ∀ q, Spec f h (up h q) (upDen q))
    (hden : ∀ o, h[i]? = some o → ∀ p, den f o.chain h i p = denAt f upDen h i p) :
    Spec f h (evalAt f up h i p) (denAt f upDen h i p) := by
  have hC := hG.2.2
  unfold evalAt
  cases ho : h[i]? with
  | none => exact ⟨by unfold denAt; rw [ho], rfl, hC⟩
  | some o =>
    simp only
    cases ha : o.alive with
    | false =>
      simp only [Bool.not_false, if_true]
      exact ⟨by unfold denAt; rw [ho]; simp [ha], rfl, hC⟩
    | true =>
      simp only [Bool.not_true, Bool.false_eq_true, if_false]
      cases hrt : route o.mode p with
      | self q =>
        simp only
        have hdv : denAt f upDen h i p = .via p (denOne f upDen o q) := by
          unfold denAt; rw [ho]; simp only [ha, Bool.not_true, Bool.false_eq_true, if_false]; rw [hrt]
        cases hl : lookup o.cache p with
        | some v =>
          simp only
          exact ⟨by rw [hC i o ho p v hl, hden o ho p], rfl, hC⟩
        | none =>
          simp only
          obtain ⟨h2, h3, h4⟩ := evalOne_spec f up upDen h i q o hG ho ha (hup o ho) (hden o ho)
            (route_self_target hrt)
          obtain ⟨o1, ho1, es⟩ := skel_get_some h3.symm ho
          have ec : o1.chain = o.chain := congrArg Skel.chain es
          rw [hdv, h2]
          exact storeAns_spec f h _ i p o.gen _ o1 h3 ho1 h4 (by rw [ec, hden o ho p, hdv])
      | default =>
        simp only
        have := evalOne_spec f up upDen h i p o hG ho ha (hup o ho) (hden o ho) (by intro q; rw [hrt]; simp)
        rw [denAt_nonself f upDen ho ha (by intro q; rw [hrt]; simp)]; exact this
      | parent q' =>
        simp only
        have := evalOne_spec f up upDen h i p o hG ho ha (hup o ho) (hden o ho) (by intro q; rw [hrt]; simp)
        rw [denAt_nonself f upDen ho ha (by intro q; rw [hrt]; simp)]; exact this
      | illDefined =>
        simp only
        have := evalOne_spec f up upDen h i p o hG ho ha (hup o ho) (hden o ho) (by intro q; rw [hrt]; simp)
        rw [denAt_nonself f upDen ho ha (by intro q; rw [hrt]; simp)]; exact this

/-- **Every memoised call on a calm, consistent heap answers the cache-free semantics**, leaves the skeleton
    alone and keeps the cache invariant. -/
theorem evalPrim_spec (f : File) : ∀ (chain : List Nat) (h : Heap) (i : Nat) (p : Prim), Good f h →
    (∀ o, h[i]? = some o → o.chain = chain) → Spec f h (evalPrim f chain h i p) (den f chain h i p) := by
  intro chain
  induction chain with
  | nil =>
    intro h i p hG hch
    unfold evalPrim den
    apply evalAt_spec f _ _ h i p hG
    · intro o _ q; exact ⟨rfl, rfl, hG.2.2⟩
    · intro o ho p'; rw [hch o ho]; rfl
  | cons par rest ih =>
    intro h i p hG hch
    unfold evalPrim den
    apply evalAt_spec f _ _ h i p hG
    · intro o ho q
      apply ih h par q hG
      intro po hpo
      obtain ⟨po', hpo', hc⟩ := hG.2.1 i o ho par rest (hch o ho)
      rw [hpo] at hpo'; cases hpo'; exact hc
    · intro o ho p'; rw [hch o ho]; rfl

theorem evalTop_spec (f : File) (h : Heap) (i : Nat) (p : Prim) (hG : Good f h) :
    ∃ a, Spec f h (evalTop f h i p) a ∧ ∀ h', skelH h' = skelH h → Good f h' → (evalTop f h' i p).2 = a := by
  unfold evalTop
  cases ho : h[i]? with
  | none =>
    refine ⟨.dead, ⟨rfl, rfl, hG.2.2⟩, ?_⟩
    intro h' e _
    rw [skel_get_none e.symm ho]
  | some o =>
    refine ⟨den f o.chain h i p, evalPrim_spec f o.chain h i p hG (by intro o' ho'; rw [ho] at ho'; cases ho'; rfl), ?_⟩
    intro h' e hG'
    obtain ⟨o', ho', es⟩ := skel_get_some e.symm ho
    rw [ho']
    simp only
    have ec : o'.chain = o.chain := congrArg Skel.chain es
    rw [(evalPrim_spec f o'.chain h' i p hG' (by intro o2 ho2; rw [ho'] at ho2; cases ho2; rfl)).1, ec]
    exact den_skel f e.symm o.chain i p


/-! ### two heaps with the same skeleton (a history run and its twin) -/

def R (f : File) (h h' : Heap) : Prop := Good f h ∧ Good f h' ∧ skelH h = skelH h'

theorem Good_of_spec {f : File} {h : Heap} {r : Heap × Ans} {a : Ans} (hG : Good f h) (hs : Spec f h r a) :
    Good f r.1 :=
  ⟨Calm_skel hs.2.1.symm hG.1, ChainOK_skel hs.2.1.symm hG.2.1, hs.2.2⟩

/-- a stateful computation that is insensitive to memo tables -/
def Pure2 {α : Type} (f : File) (m : Heap → Heap × α) : Prop :=
  ∀ h h', R f h h' → (m h).2 = (m h').2 ∧ R f (m h).1 (m h').1 ∧ skelH (m h).1 = skelH h

theorem R_refl {f : File} {h : Heap} (hG : Good f h) : R f h h := ⟨hG, hG, rfl⟩

theorem Pure2_pure {α : Type} (f : File) (a : α) : Pure2 f (fun h => (h, a)) := by
  intro h h' hr; exact ⟨rfl, hr, rfl⟩

theorem Pure2_bind {α β : Type} {f : File} {m : Heap → Heap × α} {k : α → Heap → Heap × β}
    (hm : Pure2 f m) (hk : ∀ a, Pure2 f (k a)) : Pure2 f (fun h => k (m h).2 (m h).1) := by
  intro h h' hr
  obtain ⟨e1, r1, s1⟩ := hm h h' hr
  obtain ⟨e2, r2, s2⟩ := hk (m h).2 (m h).1 (m h').1 r1
  simp only
  rw [← e1]
  exact ⟨e2, r2, s2.trans s1⟩

theorem evalTop_pure2 (f : File) (i : Nat) (p : Prim) : Pure2 f (fun h => evalTop f h i p) := by
  intro h h' ⟨hG, hG', e⟩
  obtain ⟨a, hs, hall⟩ := evalTop_spec f h i p hG
  obtain ⟨a', hs', _⟩ := evalTop_spec f h' i p hG'
  have ha' : (evalTop f h' i p).2 = a := hall h' e.symm hG'
  refine ⟨by rw [hs.1, ha'], ⟨Good_of_spec hG hs, Good_of_spec hG' hs', ?_⟩, hs.2.1⟩
  rw [hs.2.1, hs'.2.1, e]

theorem CacheOK_set {f : File} {h : Heap} {i : Nat} {o0 o : Obj} (ho : h[i]? = some o0) (es : o.skel = o0.skel)
    (ec : o.cache = o0.cache) (hC : CacheOK f h) : CacheOK f (h.set i o) := by
  have e : skelH (h.set i o) = skelH h := skelH_set ho es
  intro j oj hoj q w hl
  rw [den_skel f e.symm]
  by_cases hij : i = j
  · subst hij
    rw [get_set_self ho] at hoj; cases hoj
    have : o.chain = o0.chain := congrArg Skel.chain es
    rw [this]; rw [ec] at hl
    exact hC i o0 ho q w hl
  · rw [get_set_ne hij] at hoj
    exact hC j oj hoj q w hl

theorem Good_set {f : File} {h : Heap} {i : Nat} {o0 o : Obj} (ho : h[i]? = some o0) (es : o.skel = o0.skel)
    (ec : o.cache = o0.cache) (hG : Good f h) : Good f (h.set i o) :=
  ⟨Calm_skel (skelH_set ho es).symm hG.1, ChainOK_skel (skelH_set ho es).symm hG.2.1, CacheOK_set ho es ec hG.2.2⟩

/-- `num_frames`: what it answers is part of the skeleton, and memoising it does not change the skeleton -/
theorem numFrames_eq (h : Heap) (i : Nat) :
    (numFrames h i).2 = (match h[i]? with | none => Ans.dead | some o => o.skel.fr) ∧
    skelH (numFrames h i).1 = skelH h ∧ ∀ f, Good f h → Good f (numFrames h i).1 := by
  unfold numFrames
  cases ho : h[i]? with
  | none => exact ⟨rfl, rfl, fun _ hG => hG⟩
  | some o =>
    simp only
    cases hf : o.frames with
    | some v => exact ⟨by simp [Obj.skel, hf], rfl, fun _ hG => hG⟩
    | none =>
      have es : ({ o with frames := some (Ans.frames o.start o.stop) } : Obj).skel = o.skel := by
        simp [Obj.skel, hf]
      exact ⟨by simp [Obj.skel, hf], skelH_set ho es, fun f hG => Good_set ho es rfl hG⟩

theorem numFrames_pure2 (f : File) (i : Nat) : Pure2 f (fun h => numFrames h i) := by
  intro h h' ⟨hG, hG', e⟩
  obtain ⟨a1, s1, g1⟩ := numFrames_eq h i
  obtain ⟨a2, s2, g2⟩ := numFrames_eq h' i
  refine ⟨?_, ⟨g1 f hG, g2 f hG', by rw [s1, s2, e]⟩, s1⟩
  rw [a1, a2]
  cases ho : h[i]? with
  | none => rw [skel_get_none e ho]
  | some o =>
    obtain ⟨o', ho', es⟩ := skel_get_some e ho
    rw [ho']; simp only [es]


theorem seq2_pure2 {f : File} {m1 m2 : Heap → Heap × Ans} (h1 : Pure2 f m1) (h2 : Pure2 f m2) :
    Pure2 f (seq2 m1 m2) := by
  intro h h' hr
  obtain ⟨e1, r1, s1⟩ := h1 h h' hr
  obtain ⟨e2, r2, s2⟩ := h2 (m1 h).1 (m1 h').1 r1
  unfold seq2
  rw [← e1]
  by_cases hE : (m1 h).2.isErr = true
  · simp only [hE, if_true]; exact ⟨e1, r1, s1⟩
  · simp only [hE]
    rw [← e2]
    exact ⟨rfl, r2, s2.trans s1⟩

theorem minMax_pure2 (f : File) (i : Nat) : Pure2 f (minMax f i) :=
  seq2_pure2 (evalTop_pure2 f i _) (evalTop_pure2 f i _)

theorem queryLive_pure2 (f : File) (i : Nat) (q : Query) {o o' : Obj} (es : o'.skel = o.skel) :
    ∀ h h', R f h h' → (queryLive f h i o q).2 = (queryLive f h' i o' q).2 ∧
      R f (queryLive f h i o q).1 (queryLive f h' i o' q).1 ∧ skelH (queryLive f h i o q).1 = skelH h := by
  have e1 : o'.start = o.start := congrArg Skel.start es
  have e2 : o'.stop = o.stop := congrArg Skel.stop es
  have e6 : o'.path = o.path := congrArg Skel.path es
  intro h h' hr
  cases q with
  | static k => exact ⟨by simp [queryLive, e6], hr, rfl⟩
  | start => exact ⟨by simp [queryLive, e1], hr, rfl⟩
  | stop => exact ⟨by simp [queryLive, e2], hr, rfl⟩
  | infowave => exact ⟨by simp [queryLive, e1, e2], hr, rfl⟩
  | prim p => exact evalTop_pure2 f i p h h' hr
  | lineRanges => exact minMax_pure2 f i h h' hr
  | shape =>
    unfold queryLive
    by_cases hs : f.isScan = true
    · simp only [hs, if_true]; exact numFrames_pure2 f i h h' hr
    · simp only [hs]; exact evalTop_pure2 f i _ h h' hr
  | duration => exact seq2_pure2 (evalTop_pure2 f i _) (evalTop_pure2 f i _) h h' hr
  | numFrames => exact numFrames_pure2 f i h h' hr
  | rgb =>
    exact seq2_pure2 (seq2_pure2 (evalTop_pure2 f i _) (evalTop_pure2 f i _)) (evalTop_pure2 f i _) h h' hr

/-- **A query never changes a skeleton, and its answer does not depend on memo tables.** -/
theorem query_pure2 (f : File) (i : Nat) (q : Query) : Pure2 f (fun h => query f h i q) := by
  intro h h' hr
  have e := hr.2.2
  simp only
  unfold query
  cases ho : h[i]? with
  | none => rw [skel_get_none e ho]; exact ⟨rfl, hr, rfl⟩
  | some o =>
    obtain ⟨o', ho', es⟩ := skel_get_some e ho
    rw [ho']
    have e5 : o'.alive = o.alive := congrArg Skel.alive es
    have e6 : o'.path = o.path := congrArg Skel.path es
    simp only [e5, e6]
    cases o.alive with
    | false => exact ⟨rfl, hr, rfl⟩
    | true =>
      simp only [Bool.not_true, Bool.false_eq_true, if_false]
      cases f.pure with
      | true => exact ⟨rfl, hr, rfl⟩
      | false => exact queryLive_pure2 f i q es h h' hr


/-! ### appending an object -/

theorem lt_of_get {h : Heap} {i : Nat} {o : Obj} (ho : h[i]? = some o) : i < h.length := by
  rcases Nat.lt_or_ge i h.length with hlt | hge
  · exact hlt
  · rw [List.getElem?_eq_none hge] at ho; cases ho

theorem get_append_old {h t : Heap} {i : Nat} {o : Obj} (ho : h[i]? = some o) : (h ++ t)[i]? = some o := by
  rw [List.getElem?_append_left (lt_of_get ho)]; exact ho

theorem get_push {h : Heap} {n : Obj} {i : Nat} {o : Obj} (ho : (h ++ [n])[i]? = some o) :
    h[i]? = some o ∨ (i = h.length ∧ o = n) := by
  rcases Nat.lt_or_ge i h.length with hlt | hge
  · left; rw [List.getElem?_append_left hlt] at ho; exact ho
  · right
    rw [List.getElem?_append_right hge] at ho
    have : i - h.length = 0 := by
      rcases Nat.eq_zero_or_pos (i - h.length) with h0 | hpos
      · exact h0
      · rw [List.getElem?_eq_none (by simp only [List.length_cons, List.length_nil]; omega)] at ho; cases ho
    rw [this] at ho
    simp only [List.getElem?_cons_zero, Option.some.injEq] at ho
    exact ⟨by omega, ho.symm⟩

theorem denAt_congr (f : File) {up up' : Prim → Ans} {h h2 : Heap} {i : Nat} (e : h2[i]? = h[i]?)
    (hu : ∀ q, up' q = up q) (p : Prim) : denAt f up' h2 i p = denAt f up h i p := by
  have : up' = up := funext hu
  subst this
  unfold denAt
  rw [e]

/-- objects made later are invisible to the semantics of earlier ones -/
theorem den_append (f : File) {h : Heap} (t : Heap) (hCh : ChainOK h) :
    ∀ (chain : List Nat) (i : Nat) (o : Obj) (p : Prim), h[i]? = some o → o.chain = chain →
      den f chain (h ++ t) i p = den f chain h i p := by
  intro chain
  induction chain with
  | nil =>
    intro i o p ho _
    unfold den
    exact denAt_congr f (by rw [get_append_old ho, ho]) (fun _ => rfl) p
  | cons par rest ih =>
    intro i o p ho hc
    obtain ⟨po, hpo, hpc⟩ := hCh i o ho par rest hc
    unfold den
    exact denAt_congr f (by rw [get_append_old ho, ho]) (fun q => ih par po q hpo hpc) p

theorem Good_push {f : File} {h : Heap} {n : Obj} (hG : Good f h) (c1 : n.cache = [])
    (hcalm : n.alive = true → Untruncated f n.start)
    (hchain : ∀ par rest, n.chain = par :: rest → ∃ po : Obj, h[par]? = some po ∧ po.chain = rest) :
    Good f (h ++ [n]) := by
  obtain ⟨hCalm, hCh, hC⟩ := hG
  refine ⟨?_, ?_, ?_⟩
  · intro i o ho ha
    rcases get_push ho with h1 | ⟨_, h2⟩
    · exact hCalm i o h1 ha
    · subst h2; exact hcalm ha
  · intro i o ho par rest hc
    rcases get_push ho with h1 | ⟨_, h2⟩
    · obtain ⟨po, hpo, hpc⟩ := hCh i o h1 par rest hc
      exact ⟨po, get_append_old hpo, hpc⟩
    · subst h2
      obtain ⟨po, hpo, hpc⟩ := hchain par rest hc
      exact ⟨po, get_append_old hpo, hpc⟩
  · intro i o ho p v hl
    rcases get_push ho with h1 | ⟨_, h2⟩
    · rw [den_append f [n] hCh o.chain i o p h1 rfl]
      exact hC i o h1 p v hl
    · subst h2
      rw [c1] at hl
      simp [lookup] at hl

theorem push_R {f : File} {h h' : Heap} {n n' : Obj} (a a' : Ans) (hr : R f h h') (es : n'.skel = n.skel)
    (c1 : n.cache = []) (c2 : n'.cache = [])
    (hcalm : n.alive = true → Untruncated f n.start)
    (hchain : ∀ par rest, n.chain = par :: rest → ∃ po : Obj, h[par]? = some po ∧ po.chain = rest) :
    R f (push h n a).1 (push h' n' a').1 := by
  obtain ⟨hG, hG', e⟩ := hr
  have e1 : n'.start = n.start := congrArg Skel.start es
  have e3 : n'.chain = n.chain := congrArg Skel.chain es
  have e5 : n'.alive = n.alive := congrArg Skel.alive es
  refine ⟨Good_push hG c1 hcalm hchain, Good_push hG' c2 (by rw [e1, e5]; exact hcalm) ?_, ?_⟩
  · intro par rest hc
    rw [e3] at hc
    obtain ⟨po, hpo, hpc⟩ := hchain par rest hc
    obtain ⟨po', hpo', eps⟩ := skel_get_some e hpo
    exact ⟨po', hpo', by rw [← hpc]; exact congrArg Skel.chain eps⟩
  · simp only [push, skelH, List.map_append, List.map_cons, List.map_nil]
    have : List.map Obj.skel h = List.map Obj.skel h' := e
    rw [this, es]

theorem skel_fields {o o' : Obj} (es : o'.skel = o.skel) :
    o'.start = o.start ∧ o'.stop = o.stop ∧ o'.chain = o.chain ∧ o'.mode = o.mode ∧ o'.xf = o.xf ∧
      o'.path = o.path ∧ o'.alive = o.alive ∧
      o'.frames.getD (.frames o'.start o'.stop) = o.frames.getD (.frames o.start o.stop) :=
  ⟨congrArg Skel.start es, congrArg Skel.stop es, congrArg Skel.chain es, congrArg Skel.mode es,
    congrArg Skel.xf es, congrArg Skel.path es, congrArg Skel.alive es, congrArg Skel.fr es⟩

theorem copyObj_skel {o o' : Obj} (es : o'.skel = o.skel) (x : Nat) : (copyObj o' x).skel = (copyObj o x).skel := by
  obtain ⟨e1, e2, e3, e4, e5, e6, e7, e8⟩ := skel_fields es
  simp only [Obj.skel, copyObj, e1, e2, e3, e4, e5, e6, e7]
  rw [e1, e2] at e8
  rw [e8]

theorem viewObj_skel {o o' : Obj} (es : o'.skel = o.skel) (i x : Nat) (m : Mode) :
    (viewObj o' i x m).skel = (viewObj o i x m).skel := by
  obtain ⟨e1, e2, e3, e4, e5, e6, e7, e8⟩ := skel_fields es
  simp only [Obj.skel, viewObj, copyObj, e1, e2, e3, e6, e7]
  rw [e1, e2] at e8
  rw [e8]

theorem scanViewObj_skel {o o' : Obj} (es : o'.skel = o.skel) (i x : Nat) :
    (scanViewObj o' i x).skel = (scanViewObj o i x).skel := by
  obtain ⟨e1, e2, e3, e4, e5, e6, e7, e8⟩ := skel_fields es
  simp only [Obj.skel, scanViewObj, viewObj, copyObj, e1, e2, e3, e6, e7, Option.getD_some]

theorem deadObj_push_R {f : File} {h h' : Heap} (a a' : Ans) (hr : R f h h') :
    R f (push h deadObj a).1 (push h' deadObj a').1 :=
  push_R a a' hr rfl rfl rfl (by intro h; cases h) (by intro par rest hc; cases hc)


/-! ### derivations -/

/-- time slices of an untruncated kymograph are untruncated (their start is the timestamp of an info-wave
    sample of the window) -/
def SliceClosed (f : File) : Prop :=
  ∀ (s e a b st s' e' : Int), Untruncated f s →
    sliceBounds (lineRangesOf f.P f.dt (pixelSpans (window f s e))) a b st = some (s', e') → Untruncated f s'

def Sim2 (f : File) (m m' : Heap → Heap × Ans) : Prop :=
  ∀ h h', R f h h' → (m h).2 = (m' h').2 ∧ R f (m h).1 (m' h').1

theorem den_root (f : File) {h : Heap} {i : Nat} {o : Obj} (ho : h[i]? = some o) (ha : o.alive = true)
    (hm : o.mode = .root) (chain : List Nat) (p : Prim) :
    den f chain h i p = defaultAns f o.start o.stop p := by
  have key : ∀ up, denAt f up h i p = defaultAns f o.start o.stop p := by
    intro up
    rw [denAt_nonself f up ho ha (by intro q; rw [hm]; simp [route])]
    unfold denOne
    rw [hm]; simp [route]
  cases chain with
  | nil => unfold den; exact key _
  | cons par rest => unfold den; exact key _

theorem tsAns_window (f : File) (s e : Int) (r : Red) (cs : List Color) {s1 e1 : Int}
    (h : (tsAns f s e r cs).windowOf = some (s1, e1)) : s1 = s := by
  induction cs with
  | nil => simp [tsAns, Ans.windowOf] at h
  | cons c cs ih =>
    unfold tsAns at h
    cases hw : cwOf f s e c with
    | none => rw [hw] at h; exact ih h
    | some cw =>
      rw [hw] at h
      simp only [Ans.windowOf, Option.some.injEq, Prod.mk.injEq] at h
      exact h.1.symm

theorem seq2_pair {m1 m2 : Heap → Heap × Ans} {h : Heap} {v w : Ans} (hp : (seq2 m1 m2 h).2 = .pair v w) :
    v = (m1 h).2 := by
  unfold seq2 at hp
  cases hE : (m1 h).2.isErr with
  | true =>
    rw [hE] at hp
    simp only [if_true] at hp
    rw [hp] at hE; simp [Ans.isErr] at hE
  | false =>
    rw [hE] at hp
    simp only [Bool.false_eq_true, if_false] at hp
    cases hE2 : (m2 (m1 h).1).2.isErr with
    | true =>
      rw [hE2] at hp
      simp only [if_true] at hp
      rw [hp] at hE2; simp [Ans.isErr] at hE2
    | false =>
      rw [hE2] at hp
      simp only [Bool.false_eq_true, if_false, Ans.pair.injEq] at hp
      exact hp.1.symm

theorem sliceFinish_sim (f : File) (hS : SliceClosed f) {h2 h2' : Heap} (hr : R f h2 h2') (i x : Nat)
    (a b : Option Int) {o o' : Obj} (es : o'.skel = o.skel) (r : Ans)
    (hv : ∀ v w, r = .pair v w → ∀ s e, v.windowOf = some (s, e) → Untruncated f s) :
    (sliceFinish f h2 i x a b o r).2 = (sliceFinish f h2' i x a b o' r).2 ∧
      R f (sliceFinish f h2 i x a b o r).1 (sliceFinish f h2' i x a b o' r).1 := by
  obtain ⟨e1, e2, _, _, _, e6, _, _⟩ := skel_fields es
  have e := hr.2.2
  cases ho2 : h2[i]? with
  | none =>
    have ho2' := skel_get_none e ho2
    unfold sliceFinish
    rw [ho2, ho2']
    cases r <;> exact ⟨rfl, deadObj_push_R _ _ hr⟩
  | some o2 =>
    obtain ⟨o2', ho2', es2⟩ := skel_get_some e ho2
    obtain ⟨_, f2, f3, _, _, _, f7, _⟩ := skel_fields es2
    unfold sliceFinish
    rw [ho2, ho2']
    cases r with
    | pair v w =>
      simp only
      cases hw : v.windowOf with
      | none => exact ⟨rfl, deadObj_push_R _ _ hr⟩
      | some se =>
        obtain ⟨s, e0⟩ := se
        simp only [e1, e2, e6, f2]
        split
        · exact ⟨rfl, deadObj_push_R _ _ hr⟩
        · cases hb : sliceBounds (lineRangesOf f.P f.dt (pixelSpans (window f s e0))) (a.getD o.start)
              (b.getD o.stop) o2.stop with
          | none => exact ⟨rfl, deadObj_push_R _ _ hr⟩
          | some se' =>
            obtain ⟨s', e'⟩ := se'
            simp only
            refine ⟨rfl, push_R _ _ hr ?_ rfl rfl ?_ ?_⟩
            · have := copyObj_skel es2 x
              simp only [Obj.skel, copyObj] at this ⊢
              simp only [Skel.mk.injEq] at this
              obtain ⟨_, _, g3, g4, g5, g6, g7, _⟩ := this
              simp only [g3, g4, g5, g6, g7, Option.getD_none]
            · intro _
              exact hS s e0 _ _ _ s' e' (hv v w rfl s e0 hw) hb
            · intro par rest hc
              exact hr.1.2.1 i o2 ho2 par rest hc
    | int n => exact ⟨rfl, deadObj_push_R _ _ hr⟩
    | static p k => exact ⟨rfl, deadObj_push_R _ _ hr⟩
    | iw s e => exact ⟨rfl, deadObj_push_R _ _ hr⟩
    | «at» p s e => exact ⟨rfl, deadObj_push_R _ _ hr⟩
    | frames s e => exact ⟨rfl, deadObj_push_R _ _ hr⟩
    | app x a => exact ⟨rfl, deadObj_push_R _ _ hr⟩
    | via p a => exact ⟨rfl, deadObj_push_R _ _ hr⟩
    | err e => exact ⟨rfl, deadObj_push_R _ _ hr⟩
    | dead => exact ⟨rfl, deadObj_push_R _ _ hr⟩


theorem evalTop_den (f : File) {h : Heap} {i : Nat} {o : Obj} (hG : Good f h) (ho : h[i]? = some o) (p : Prim) :
    (evalTop f h i p).2 = den f o.chain h i p := by
  unfold evalTop
  rw [ho]
  exact (evalPrim_spec f o.chain h i p hG (by intro o' ho'; rw [ho] at ho'; cases ho'; rfl)).1

theorem chain_in_skel {h h2 : Heap} (e : skelH h2 = skelH h) {i : Nat} {o : Obj} (ho : h[i]? = some o) :
    ∃ o1 : Obj, h2[i]? = some o1 ∧ o1.chain = o.chain := by
  obtain ⟨o1, ho1, es⟩ := skel_get_some e.symm ho
  exact ⟨o1, ho1, congrArg Skel.chain es⟩

theorem deriveLive_sim (f : File) (hS : SliceClosed f) (i x : Nat) (d : Derive) {h h' : Heap} {o o' : Obj}
    (hr : R f h h') (ho : h[i]? = some o) (es : o'.skel = o.skel) (ha : o.alive = true) :
    (deriveLive f h i x o d).2 = (deriveLive f h' i x o' d).2 ∧
      R f (deriveLive f h i x o d).1 (deriveLive f h' i x o' d).1 := by
  obtain ⟨e1, e2, e3, e4, e5, e6, e7, e8⟩ := skel_fields es
  have hU : Untruncated f o.start := hr.1.1 i o ho ha
  have hcopy : ∀ par rest, (copyObj o x).chain = par :: rest → ∃ po : Obj, h[par]? = some po ∧ po.chain = rest :=
    fun par rest hc => hr.1.2.1 i o ho par rest hc
  cases d with
  | placeholder => exact ⟨rfl, deadObj_push_R _ _ hr⟩
  | pureDerive =>
    exact ⟨by simp [deriveLive, push, e6], push_R _ _ hr (copyObj_skel es x) rfl rfl (fun _ => hU) hcopy⟩
  | copy =>
    exact ⟨by simp [deriveLive, push, e6], push_R _ _ hr (copyObj_skel es x) rfl rfl (fun _ => hU) hcopy⟩
  | view m =>
    refine ⟨by simp [deriveLive, push, e6], push_R _ _ hr (viewObj_skel es i x m) rfl rfl (fun _ => hU) ?_⟩
    intro par rest hc
    simp only [viewObj, List.cons.injEq] at hc
    obtain ⟨h1, h2⟩ := hc
    subst h1; subst h2
    exact ⟨o, ho, rfl⟩
  | slice a b =>
    unfold deriveLive
    rw [e4]
    by_cases hm : o.mode = .root
    · simp only [hm, ne_eq, not_true_eq_false, if_false]
      obtain ⟨q1, q2, _⟩ := minMax_pure2 f i h h' hr
      rw [← q1]
      apply sliceFinish_sim f hS q2 i x a b es
      intro v w hp s e hw
      have hv : v = (evalTop f h i (.ts .min)).2 := seq2_pair hp
      rw [hv, evalTop_den f hr.1 ho, den_root f ho ha hm] at hw
      have : s = o.start := tsAns_window f o.start o.stop .min allColors hw
      rw [this]; exact hU
    · simp only [hm, ne_eq, not_false_eq_true, if_true]
      exact ⟨rfl, deadObj_push_R _ _ hr⟩
  | scanFail e =>
    obtain ⟨_, q2, _⟩ := numFrames_pure2 f i h h' hr
    exact ⟨rfl, deadObj_push_R _ _ q2⟩
  | scanEmpty =>
    obtain ⟨_, q2, _⟩ := numFrames_pure2 f i h h' hr
    exact ⟨by simp [deriveLive, push, e6], deadObj_push_R _ _ q2⟩
  | scanCrop =>
    obtain ⟨_, q2, q3⟩ := numFrames_pure2 f i h h' hr
    refine ⟨by simp [deriveLive, push, e6], push_R _ _ q2 (scanViewObj_skel es i x) rfl rfl (fun _ => hU) ?_⟩
    intro par rest hc
    simp only [scanViewObj, viewObj, List.cons.injEq] at hc
    obtain ⟨h1, h2⟩ := hc
    subst h1; subst h2
    exact chain_in_skel q3 ho
  | scanView =>
    obtain ⟨_, q2, q3⟩ := numFrames_pure2 f i h h' hr
    obtain ⟨r1, r2, r3⟩ := minMax_pure2 f i _ _ q2
    unfold deriveLive
    rw [← r1]
    have hch : ∀ par rest, (scanViewObj o i x).chain = par :: rest →
        ∃ po : Obj, (minMax f i (numFrames h i).1).1[par]? = some po ∧ po.chain = rest := by
      intro par rest hc
      simp only [scanViewObj, viewObj, List.cons.injEq] at hc
      obtain ⟨h1, h2⟩ := hc
      subst h1; subst h2
      exact chain_in_skel (r3.trans q3) ho
    unfold scanViewFinish
    cases (minMax f i (numFrames h i).1).2 with
    | pair v w => exact ⟨rfl, push_R _ _ r2 (scanViewObj_skel es i x) rfl rfl (fun _ => hU) hch⟩
    | int n => exact ⟨rfl, deadObj_push_R _ _ r2⟩
    | static p k => exact ⟨rfl, deadObj_push_R _ _ r2⟩
    | iw s e => exact ⟨rfl, deadObj_push_R _ _ r2⟩
    | «at» p s e => exact ⟨rfl, deadObj_push_R _ _ r2⟩
    | frames s e => exact ⟨rfl, deadObj_push_R _ _ r2⟩
    | app x a => exact ⟨rfl, deadObj_push_R _ _ r2⟩
    | via p a => exact ⟨rfl, deadObj_push_R _ _ r2⟩
    | err e => exact ⟨rfl, deadObj_push_R _ _ r2⟩
    | dead => exact ⟨rfl, deadObj_push_R _ _ r2⟩

/-- **A derivation acts alike on two heaps with the same skeleton** (whatever their memo tables hold). -/
theorem derive_sim (f : File) (hS : SliceClosed f) (i x : Nat) (d : Derive) :
    Sim2 f (fun h => derive f h i x d) (fun h => derive f h i x d) := by
  intro h h' hr
  have e := hr.2.2
  simp only
  unfold derive
  cases ho : h[i]? with
  | none => rw [skel_get_none e ho]; exact ⟨rfl, deadObj_push_R _ _ hr⟩
  | some o =>
    obtain ⟨o', ho', es⟩ := skel_get_some e ho
    rw [ho']
    have e7 : o'.alive = o.alive := congrArg Skel.alive es
    simp only [e7]
    cases ha : o.alive with
    | false => exact ⟨rfl, deadObj_push_R _ _ hr⟩
    | true =>
      simp only [Bool.not_true, Bool.false_eq_true, if_false]
      exact deriveLive_sim f hS i x d hr ho es ha

theorem step_sim (f : File) (hS : SliceClosed f) (x : Nat) (op : Op) :
    Sim2 f (fun h => step f h x op) (fun h => step f h x op) := by
  cases op with
  | q i q =>
    intro h h' hr
    obtain ⟨a, b, _⟩ := query_pure2 f i q h h' hr
    exact ⟨a, b⟩
  | d i d => exact derive_sim f hS i x d

/-- a query step keeps the heap within its skeleton class -/
theorem step_query_R (f : File) (x i : Nat) (q : Query) {h h' : Heap} (hr : R f h h') :
    R f (step f h x (.q i q)).1 h' := by
  obtain ⟨_, b, c⟩ := query_pure2 f i q h h (R_refl hr.1)
  exact ⟨b.1, hr.2.1, c.trans hr.2.2⟩


/-! ### histories and their twins -/

/-- what the twin of step `n` is asked: the derivations made before it (with their labels), then the step -/
def twinOf (L : List (Nat × Op)) (n : Nat) : List (Nat × Op) :=
  ((L.take n).filter fun a => a.2.isDerive) ++ (L.drop n).take 1

def lastAns (r : Heap × List Ans) : Ans := (r.2.getLast?).getD .dead

theorem runL_length (f : File) : ∀ (L : List (Nat × Op)) (h : Heap), (runL f h L).2.length = L.length := by
  intro L
  induction L with
  | nil => intro h; rfl
  | cons a rest ih => intro h; obtain ⟨x, op⟩ := a; simp [runL, ih]

theorem lastAns_cons (f : File) (h : Heap) (x : Nat) (op : Op) (T : List (Nat × Op)) (hT : T ≠ []) :
    lastAns (runL f h ((x, op) :: T)) = lastAns (runL f (step f h x op).1 T) := by
  unfold lastAns
  simp only [runL]
  have hne : (runL f (step f h x op).1 T).2 ≠ [] := by
    intro h0
    have := runL_length f T (step f h x op).1
    rw [h0] at this
    cases T with
    | nil => exact hT rfl
    | cons a t => simp at this
  rw [List.getLast?_cons_of_ne_nil hne]

theorem twinOf_ne_nil {L : List (Nat × Op)} {n : Nat} (hn : n < L.length) : twinOf L n ≠ [] := by
  unfold twinOf
  intro h0
  have h1 := (List.append_eq_nil_iff.mp h0).2
  have h2 : (L.drop n).length = L.length - n := List.length_drop
  cases hd : L.drop n with
  | nil => rw [hd] at h2; simp at h2; omega
  | cons a t => rw [hd] at h1; simp at h1

/-- **Main simulation**: the `n`-th answer of a history equals what its twin answers, for any two calm heaps
    with the same skeleton. -/
theorem run_twin (f : File) (hS : SliceClosed f) :
    ∀ (L : List (Nat × Op)) (h h' : Heap) (n : Nat), R f h h' → n < L.length →
      (runL f h L).2[n]? = some (lastAns (runL f h' (twinOf L n))) := by
  intro L
  induction L with
  | nil => intro h h' n _ hn; cases hn
  | cons a rest ih =>
    intro h h' n hr hn
    obtain ⟨x, op⟩ := a
    cases n with
    | zero =>
      have : twinOf ((x, op) :: rest) 0 = [(x, op)] := by simp [twinOf]
      rw [this]
      simp only [runL, List.getElem?_cons_zero, lastAns, List.getLast?_singleton, Option.getD_some]
      rw [(step_sim f hS x op h h' hr).1]
    | succ n =>
      have hn' : n < rest.length := by simpa using hn
      simp only [runL, List.getElem?_cons_succ]
      cases op with
      | q i q =>
        have : twinOf ((x, Op.q i q) :: rest) (n + 1) = twinOf rest n := by simp [twinOf, Op.isDerive]
        rw [this]
        exact ih _ h' n (step_query_R f x i q hr) hn'
      | d i d =>
        have : twinOf ((x, Op.d i d) :: rest) (n + 1) = (x, Op.d i d) :: twinOf rest n := by
          simp [twinOf, Op.isDerive]
        rw [this, lastAns_cons f h' x _ _ (twinOf_ne_nil hn')]
        exact ih _ _ n (step_sim f hS x (.d i d) h h' hr).2 hn'

theorem runL_good (f : File) (hS : SliceClosed f) :
    ∀ (L : List (Nat × Op)) (h : Heap), Good f h → Good f (runL f h L).1 := by
  intro L
  induction L with
  | nil => intro h hG; exact hG
  | cons a rest ih =>
    intro h hG
    obtain ⟨x, op⟩ := a
    simp only [runL]
    exact ih _ (step_sim f hS x op h h (R_refl hG)).2.1

theorem Good_init (f : File) (s e : Int) (hU : Untruncated f s) : Good f [initObj s e] := by
  refine ⟨?_, ?_, ?_⟩
  · intro i o ho _
    cases i with
    | zero => simp at ho; subst ho; exact hU
    | succ i => simp at ho
  · intro i o ho par rest hc
    cases i with
    | zero => simp at ho; subst ho; simp [initObj] at hc
    | succ i => simp at ho
  · intro i o ho p v hl
    cases i with
    | zero => simp at ho; subst ho; simp [initObj, lookup] at hl
    | succ i => simp at ho

theorem label_length : ∀ (ops : List Op) (x : Nat), (labelFrom x ops).length = ops.length := by
  intro ops
  induction ops with
  | nil => intro x; rfl
  | cons a t ih => intro x; simp [labelFrom, ih]

/-- `num_frames` asked twice: the second call returns the memoised value and changes nothing. -/
theorem numFrames_twice (h : Heap) (i : Nat) :
    numFrames (numFrames h i).1 i = ((numFrames h i).1, (numFrames h i).2) := by
  unfold numFrames
  cases ho : h[i]? with
  | none => simp [ho]
  | some o =>
    simp only
    cases hf : o.frames with
    | some v => simp [ho, hf]
    | none =>
      simp only [setObj]
      rw [get_set_self ho]


/-! ### the repair -/

theorem fixStart_shape (f : File) (o : Obj) {o2 : Obj} (hp : fixStart f o = .ok o2) :
    o2 = { o with start := o2.start, cache := [], gen := o.gen + 1 } := by
  unfold fixStart at hp
  split at hp
  · cases hp
  · split at hp
    · cases hp
    · cases hp; rfl

theorem photonAccess_shape (f : File) (o : Obj) (c : Color) {o' : Obj} {w : Option (Int × Int)}
    (hp : photonAccess f o c = .ok (o', w)) :
    o' = { o with start := o'.start } ∨ o' = { o with start := o'.start, cache := [], gen := o.gen + 1 } := by
  unfold photonAccess at hp
  cases hc : f.chan c with
  | none => rw [hc] at hp; cases hp; left; rfl
  | some ch =>
    rw [hc] at hp
    simp only at hp
    cases hw : chanWindow f.dt ch o.start o.stop with
    | none => rw [hw] at hp; cases hp; left; rfl
    | some tw =>
      obtain ⟨tl, ce⟩ := tw
      rw [hw] at hp
      simp only at hp
      generalize ho1 : (if tl - f.dt < o.start ∧ o.start < tl then { o with start := tl } else o) = o1 at hp
      have h1 : o1 = { o with start := o1.start } := by
        rw [← ho1]; split <;> rfl
      split at hp
      · cases hfx : fixStart f o1 with
        | error er => rw [hfx] at hp; cases hp
        | ok o2 =>
          rw [hfx] at hp
          cases hp
          right
          have := fixStart_shape f _ hfx
          rw [this, h1]
      · cases hp
        left
        exact h1

/-- after a photon-count access the source object is a freshly constructed object at its (possibly repaired)
    start, apart from the identity of its (empty) memo table -/
theorem photonAccess_init (f : File) (s e : Int) (c : Color) {o' : Obj} {w : Option (Int × Int)}
    (hp : photonAccess f (initObj s e) c = .ok (o', w)) :
    o'.skel = (initObj o'.start e).skel ∧ o'.cache = [] := by
  rcases photonAccess_shape f _ c hp with h | h
  · rw [h]; exact ⟨rfl, rfl⟩
  · rw [h]; exact ⟨rfl, rfl⟩

theorem Good_single (f : File) (o : Obj) (hc : o.cache = []) (hch : o.chain = []) (hU : Untruncated f o.start) :
    Good f [o] := by
  refine ⟨?_, ?_, ?_⟩
  · intro i o1 ho _
    cases i with
    | zero => simp at ho; subst ho; exact hU
    | succ i => simp at ho
  · intro i o1 ho par rest hc1
    cases i with
    | zero => simp at ho; subst ho; rw [hch] at hc1; cases hc1
    | succ i => simp at ho
  · intro i o1 ho p v hl
    cases i with
    | zero => simp at ho; subst ho; rw [hc] at hl; simp [lookup] at hl
    | succ i => simp at ho


/-! ### time slices start at an info-wave sample of the window: `SliceClosed` holds for every file -/

open Verif.Py

theorem stamp_mem {t dt : Int} {l : List Nat} {x : Int × Nat} (h : x ∈ stamp t dt l) :
    ∃ m : Nat, m < l.length ∧ x.1 = t + m * dt := by
  induction l generalizing t with
  | nil => simp [stamp] at h
  | cons c cs ih =>
    simp only [stamp, List.mem_cons] at h
    rcases h with h | h
    · exact ⟨0, by simp, by rw [h]; simp⟩
    · obtain ⟨m, hm, hx⟩ := ih h
      refine ⟨m + 1, by simp; omega, ?_⟩
      rw [hx]; push_cast; rw [Int.add_mul]; omega

theorem cdiv_mul_ge (x d : Int) (hd : 0 < d) : x ≤ cdiv x d * d := by
  unfold cdiv
  have h1 := Int.ediv_mul_add_emod (x + d - 1) d
  have h2 := Int.emod_lt_of_pos (x + d - 1) hd
  have h3 := Int.emod_nonneg (x + d - 1) (Int.ne_of_gt hd)
  omega

theorem alignedStart_ge (g0 dt a : Int) (hd : 0 < dt) : a ≤ alignedStart g0 dt a := by
  unfold alignedStart
  have h2 := Int.emod_lt_of_pos (a - g0) hd
  simp only
  split <;> omega

theorem window_mem (f : File) (hd : 0 < f.dt) (s e : Int) {x : Int × Nat} (h : x ∈ window f s e) :
    s ≤ x.1 ∧ f.dt ∣ (x.1 - f.t0) := by
  unfold window at h
  simp only at h
  obtain ⟨m, hm, hx⟩ := stamp_mem h
  generalize hi : gridIdx f.t0 f.dt f.iw.length (alignedStart f.t0 f.dt s) = i at hm hx
  have hlen : i < f.iw.length := by
    have : ((f.iw.drop i).take (gridIdx f.t0 f.dt f.iw.length e - i)).length ≤ f.iw.length - i := by
      rw [List.length_take, List.length_drop]; omega
    omega
  have hge : cdiv (alignedStart f.t0 f.dt s - f.t0) f.dt ≤ (i : Int) := by
    unfold gridIdx at hi
    omega
  have h1 := cdiv_mul_ge (alignedStart f.t0 f.dt s - f.t0) f.dt hd
  have h2 := alignedStart_ge f.t0 f.dt s hd
  have h3 : cdiv (alignedStart f.t0 f.dt s - f.t0) f.dt * f.dt ≤ (i : Int) * f.dt :=
    Int.mul_le_mul_of_nonneg_right hge (Int.le_of_lt hd)
  have h4 : (0 : Int) ≤ (m : Int) * f.dt := Int.mul_nonneg (Int.natCast_nonneg m) (Int.le_of_lt hd)
  refine ⟨by omega, ?_⟩
  refine ⟨(i : Int) + m, ?_⟩
  rw [hx, Int.mul_add, Int.mul_comm f.dt i, Int.mul_comm f.dt m]; omega

theorem mem_chunksOf {α} {k : Nat} : ∀ (fuel : Nat) (l g : List α), g ∈ chunksOf k fuel l → g ≠ [] ∧ ∀ x ∈ g, x ∈ l := by
  intro fuel
  induction fuel with
  | zero => intro l g h; simp [chunksOf] at h
  | succ n ih =>
    intro l g h
    unfold chunksOf at h
    split at h
    · simp at h
    · rename_i hk
      have hk' : ¬ k = 0 ∧ ¬ l.length < k := by
        constructor
        · intro h0; exact hk (Or.inl h0)
        · intro h0; exact hk (Or.inr h0)
      simp only [List.mem_cons] at h
      rcases h with h | h
      · subst h
        refine ⟨?_, fun x hx => List.mem_of_mem_take hx⟩
        intro h0
        have := congrArg List.length h0
        rw [List.length_take] at this
        simp only [List.length_nil] at this
        omega
      · obtain ⟨h1, h2⟩ := ih _ g h
        exact ⟨h1, fun x hx => List.mem_of_mem_drop (h2 x hx)⟩

theorem mem_groupsOf {α} {k : Nat} : ∀ (fuel : Nat) (l g : List α), g ∈ groupsOf k fuel l → g ≠ [] ∧ ∀ x ∈ g, x ∈ l := by
  intro fuel
  induction fuel with
  | zero => intro l g h; simp [groupsOf] at h
  | succ n ih =>
    intro l g h
    unfold groupsOf at h
    split at h
    · simp at h
    · rename_i hk
      have hk' : ¬ k = 0 ∧ ¬ l = [] := by
        constructor
        · intro h0; exact hk (Or.inl h0)
        · intro h0; exact hk (Or.inr h0)
      simp only [List.mem_cons] at h
      rcases h with h | h
      · subst h
        refine ⟨?_, fun x hx => List.mem_of_mem_take hx⟩
        intro h0
        have := congrArg List.length h0
        rw [List.length_take] at this
        have hl : 0 < l.length := List.length_pos_iff.mpr hk'.2
        simp only [List.length_nil] at this
        omega
      · obtain ⟨h1, h2⟩ := ih _ g h
        exact ⟨h1, fun x hx => List.mem_of_mem_drop (h2 x hx)⟩

theorem headD_mem {α} {g : List α} (d : α) (h : g ≠ []) : g.headD d ∈ g := by
  cases g with
  | nil => exact absurd rfl h
  | cons a t => simp

theorem pixelSpans_mem {w : List (Int × Nat)} {sp : Int × Int} (h : sp ∈ pixelSpans w) :
    ∃ x ∈ w, sp.1 = x.1 := by
  unfold pixelSpans at h
  simp only [List.mem_map] at h
  obtain ⟨px, hpx, rfl⟩ := h
  obtain ⟨hne, hsub⟩ := mem_chunksOf _ _ _ hpx
  exact ⟨px.headD (0, 0), (List.mem_filter.mp (hsub _ (headD_mem _ hne))).1, rfl⟩

theorem lineRangesOf_mem {P : Nat} {dt : Int} {spans : List (Int × Int)} {r : Int × Int}
    (h : r ∈ lineRangesOf P dt spans) : ∃ sp ∈ spans, r.1 = sp.1 := by
  unfold lineRangesOf at h
  simp only [List.mem_map] at h
  obtain ⟨ln, hln, rfl⟩ := h
  obtain ⟨hne, hsub⟩ := mem_groupsOf _ _ _ hln
  exact ⟨ln.headD (0, 0), hsub _ (headD_mem _ hne), rfl⟩

theorem sliceBounds_mem {ranges : List (Int × Int)} {a b st s' e' : Int}
    (h : sliceBounds ranges a b st = some (s', e')) : ∃ r ∈ ranges, s' = r.1 := by
  unfold sliceBounds at h
  simp only at h
  split at h
  · cases h
  · rename_i hne
    split at h
    · cases h
    · simp only [Option.some.injEq, Prod.mk.injEq] at h
      have hle : searchsortedLeft (ranges.map (·.1)) a ≤ (ranges.map (·.1)).length := by
        unfold searchsortedLeft; exact (List.takeWhile_sublist _).length_le
      have hlt : searchsortedLeft (ranges.map (·.1)) a < (ranges.map (·.1)).length := by omega
      have hget : (ranges.map (·.1)).getD (searchsortedLeft (ranges.map (·.1)) a) 0
          = (ranges.map (·.1))[searchsortedLeft (ranges.map (·.1)) a] := by
        rw [List.getD_eq_getElem?_getD, List.getElem?_eq_getElem hlt]; rfl
      have hm : s' ∈ ranges.map (·.1) := by
        rw [← h.1, hget]; exact List.getElem_mem hlt
      simp only [List.mem_map] at hm
      obtain ⟨r, hr, hrs⟩ := hm
      exact ⟨r, hr, hrs.symm⟩

theorem Untruncated_later {f : File} {s s' : Int} (hU : Untruncated f s) (hle : s ≤ s') (hd : f.dt ∣ (s' - f.t0)) :
    Untruncated f s' := by
  obtain ⟨h0, h1, h2⟩ := hU
  refine ⟨h0, hd, ?_⟩
  intro c ch hc
  obtain ⟨g1, g2⟩ := h2 c ch hc
  refine ⟨by omega, ?_⟩
  have : s' - ch.start = (s' - f.t0) - (s - f.t0) + (s - ch.start) := by omega
  rw [this]
  exact Int.dvd_add (Int.dvd_sub hd h1) g2

/-- time slices of an untruncated kymograph are untruncated -/
theorem sliceClosed (f : File) : SliceClosed f := by
  intro s e a b st s' e' hU hb
  obtain ⟨r, hr, hs⟩ := sliceBounds_mem hb
  obtain ⟨sp, hsp, h1⟩ := lineRangesOf_mem hr
  obtain ⟨x, hx, h2⟩ := pixelSpans_mem hsp
  obtain ⟨g1, g2⟩ := window_mem f hU.1 s e hx
  rw [hs, h1, h2]
  exact Untruncated_later hU g1 g2

/-! ### objects made later are invisible to earlier ones -/

/-- `h2` extends `h`: every object of `h` is still there with the same skeleton -/
def Pre (h h2 : Heap) : Prop :=
  ∀ (j : Nat) (o : Obj), h[j]? = some o → ∃ o2 : Obj, h2[j]? = some o2 ∧ o2.skel = o.skel

theorem Pre_skel {h h' h2 h2' : Heap} (e : skelH h' = skelH h) (e2 : skelH h2' = skelH h2) (hp : Pre h h2) :
    Pre h' h2' := by
  intro j o' ho'
  obtain ⟨o, ho, es⟩ := skel_get_some e ho'
  obtain ⟨o2, ho2, es2⟩ := hp j o ho
  obtain ⟨o2', ho2', es2'⟩ := skel_get_some e2.symm ho2
  exact ⟨o2', ho2', by rw [es2', es2, es]⟩

theorem denAt_pt (f : File) {up up2 : Prim → Ans} {h h2 : Heap} {i : Nat} {o o2 : Obj} (ho : h[i]? = some o)
    (ho2 : h2[i]? = some o2) (es : o2.skel = o.skel) (hu : ∀ q, up2 q = up q) (p : Prim) :
    denAt f up2 h2 i p = denAt f up h i p := by
  have : up2 = up := funext hu
  subst this
  unfold denAt
  rw [ho, ho2]
  have e3 : o2.mode = o.mode := congrArg Skel.mode es
  have e5 : o2.alive = o.alive := congrArg Skel.alive es
  simp only [e3, e5]
  split
  · rfl
  · split <;> simp only [denOne_skel f up2 es]

theorem den_pre (f : File) {h h2 : Heap} (hCh : ChainOK h) (hp : Pre h h2) :
    ∀ (chain : List Nat) (i : Nat) (o : Obj) (p : Prim), h[i]? = some o → o.chain = chain →
      den f chain h2 i p = den f chain h i p := by
  intro chain
  induction chain with
  | nil =>
    intro i o p ho _
    obtain ⟨o2, ho2, es⟩ := hp i o ho
    unfold den
    exact denAt_pt f ho ho2 es (fun _ => rfl) p
  | cons par rest ih =>
    intro i o p ho hc
    obtain ⟨o2, ho2, es⟩ := hp i o ho
    obtain ⟨po, hpo, hpc⟩ := hCh i o ho par rest hc
    unfold den
    exact denAt_pt f ho ho2 es (fun q => ih par po q hpo hpc) p

/-- a memo-insensitive computation addressed to object `j` answers alike on a heap and on any extension -/
def Pure2p (f : File) (j : Nat) (m : Heap → Heap × Ans) : Prop :=
  ∀ h h2, Good f h → Good f h2 → Pre h h2 → (∃ o, h[j]? = some o) →
    (m h2).2 = (m h).2 ∧ Good f (m h).1 ∧ Good f (m h2).1 ∧ Pre (m h).1 (m h2).1 ∧ ∃ o, (m h).1[j]? = some o

theorem Pure2p_of (f : File) (j : Nat) {m : Heap → Heap × Ans} (hm : Pure2 f m)
    (ha : ∀ h h2, Good f h → Good f h2 → Pre h h2 → (∃ o, h[j]? = some o) → (m h2).2 = (m h).2) : Pure2p f j m := by
  intro h h2 hG hG2 hp hj
  obtain ⟨_, r1, s1⟩ := hm h h (R_refl hG)
  obtain ⟨_, r2, s2⟩ := hm h2 h2 (R_refl hG2)
  refine ⟨ha h h2 hG hG2 hp hj, r1.1, r2.1, Pre_skel s1 s2 hp, ?_⟩
  obtain ⟨o, ho⟩ := hj
  obtain ⟨o1, ho1, _⟩ := skel_get_some s1.symm ho
  exact ⟨o1, ho1⟩

theorem evalTop_pure2p (f : File) (j : Nat) (p : Prim) : Pure2p f j (fun h => evalTop f h j p) := by
  apply Pure2p_of f j (evalTop_pure2 f j p)
  intro h h2 hG hG2 hp ⟨o, ho⟩
  obtain ⟨o2, ho2, es⟩ := hp j o ho
  rw [evalTop_den f hG ho, evalTop_den f hG2 ho2]
  have : o2.chain = o.chain := congrArg Skel.chain es
  rw [this]
  exact den_pre f hG.2.1 hp o.chain j o p ho rfl

theorem numFrames_pure2p (f : File) (j : Nat) : Pure2p f j (fun h => numFrames h j) := by
  apply Pure2p_of f j (numFrames_pure2 f j)
  intro h h2 _ _ hp ⟨o, ho⟩
  obtain ⟨o2, ho2, es⟩ := hp j o ho
  rw [(numFrames_eq h j).1, (numFrames_eq h2 j).1, ho, ho2]
  simp only [es]

theorem seq2_pure2p {f : File} {j : Nat} {m1 m2 : Heap → Heap × Ans} (h1 : Pure2p f j m1) (h2 : Pure2p f j m2) :
    Pure2p f j (seq2 m1 m2) := by
  intro h hx hG hGx hp hj
  obtain ⟨a1, g1, gx1, p1, j1⟩ := h1 h hx hG hGx hp hj
  obtain ⟨a2, g2, gx2, p2, j2⟩ := h2 _ _ g1 gx1 p1 j1
  unfold seq2
  rw [a1]
  cases hE : (m1 h).2.isErr with
  | true => simp only [if_true]; exact ⟨a1, g1, gx1, p1, j1⟩
  | false =>
    simp only [Bool.false_eq_true, if_false]
    rw [a2]
    exact ⟨rfl, g2, gx2, p2, j2⟩

theorem Pure2p_pure (f : File) (j : Nat) (a : Ans) : Pure2p f j (fun h => (h, a)) := by
  intro h h2 hG hG2 hp hj; exact ⟨rfl, hG, hG2, hp, hj⟩

theorem queryLive_pure2p (f : File) (j : Nat) (q : Query) {o o2 : Obj} (es : o2.skel = o.skel) :
    ∀ h h2, Good f h → Good f h2 → Pre h h2 → (∃ o, h[j]? = some o) →
      (queryLive f h2 j o2 q).2 = (queryLive f h j o q).2 := by
  obtain ⟨e1, e2, _, _, _, e6, _, _⟩ := skel_fields es
  intro h h2 hG hG2 hp hj
  cases q with
  | static k => simp [queryLive, e6]
  | start => simp [queryLive, e1]
  | stop => simp [queryLive, e2]
  | infowave => simp [queryLive, e1, e2]
  | prim p => exact (evalTop_pure2p f j p h h2 hG hG2 hp hj).1
  | lineRanges => exact (seq2_pure2p (evalTop_pure2p f j _) (evalTop_pure2p f j _) h h2 hG hG2 hp hj).1
  | shape =>
    unfold queryLive
    cases f.isScan with
    | true => exact (numFrames_pure2p f j h h2 hG hG2 hp hj).1
    | false => exact (evalTop_pure2p f j _ h h2 hG hG2 hp hj).1
  | duration => exact (seq2_pure2p (evalTop_pure2p f j _) (evalTop_pure2p f j _) h h2 hG hG2 hp hj).1
  | numFrames => exact (numFrames_pure2p f j h h2 hG hG2 hp hj).1
  | rgb =>
    exact (seq2_pure2p (seq2_pure2p (evalTop_pure2p f j _) (evalTop_pure2p f j _)) (evalTop_pure2p f j _)
      h h2 hG hG2 hp hj).1

theorem query_pre (f : File) (j : Nat) (q : Query) (h h2 : Heap) (hG : Good f h) (hG2 : Good f h2) (hp : Pre h h2)
    (hj : ∃ o, h[j]? = some o) : (query f h2 j q).2 = (query f h j q).2 := by
  obtain ⟨o, ho⟩ := hj
  obtain ⟨o2, ho2, es⟩ := hp j o ho
  unfold query
  rw [ho, ho2]
  have e7 : o2.alive = o.alive := congrArg Skel.alive es
  have e6 : o2.path = o.path := congrArg Skel.path es
  simp only [e7, e6]
  cases o.alive with
  | false => rfl
  | true =>
    simp only [Bool.not_true, Bool.false_eq_true, if_false]
    cases f.pure with
    | true => rfl
    | false => exact queryLive_pure2p f j q es h h2 hG hG2 hp ⟨o, ho⟩

theorem push_pre {h hA : Heap} (e : skelH hA = skelH h) (n : Obj) (a : Ans) : Pre h (push hA n a).1 := by
  intro j o ho
  obtain ⟨o1, ho1, es⟩ := skel_get_some e.symm ho
  exact ⟨o1, get_append_old ho1, es⟩

theorem sliceFinish_push (f : File) (h2 : Heap) (i x : Nat) (a b : Option Int) (o : Obj) (r : Ans) :
    ∃ n ans, sliceFinish f h2 i x a b o r = push h2 n ans := by
  unfold sliceFinish
  split
  · split
    · split
      · exact ⟨_, _, rfl⟩
      · split <;> exact ⟨_, _, rfl⟩
    · exact ⟨_, _, rfl⟩
  · exact ⟨_, _, rfl⟩

theorem derive_pre (f : File) (h : Heap) (hG : Good f h) (i x : Nat) (d : Derive) : Pre h (derive f h i x d).1 := by
  unfold derive
  cases ho : h[i]? with
  | none => exact push_pre rfl _ _
  | some o =>
    simp only
    cases o.alive with
    | false => exact push_pre rfl _ _
    | true =>
      simp only [Bool.not_true, Bool.false_eq_true, if_false]
      have sN : skelH (numFrames h i).1 = skelH h := (numFrames_eq h i).2.1
      have gN : Good f (numFrames h i).1 := (numFrames_eq h i).2.2 f hG
      cases d with
      | placeholder => exact push_pre rfl _ _
      | pureDerive => exact push_pre rfl _ _
      | copy => exact push_pre rfl _ _
      | view m => exact push_pre rfl _ _
      | slice a b =>
        show Pre h (if o.mode ≠ .root then push h deadObj (.err .notImpl)
          else sliceFinish f (minMax f i h).1 i x a b o (minMax f i h).2).1
        split
        · exact push_pre rfl _ _
        · obtain ⟨n, ans, hs⟩ := sliceFinish_push f (minMax f i h).1 i x a b o (minMax f i h).2
          rw [hs]
          exact push_pre (minMax_pure2 f i h h (R_refl hG)).2.2 _ _
      | scanFail e => exact push_pre sN _ _
      | scanEmpty => exact push_pre sN _ _
      | scanCrop => exact push_pre sN _ _
      | scanView =>
        show Pre h (scanViewFinish (minMax f i (numFrames h i).1).1 i x o (minMax f i (numFrames h i).1).2).1
        unfold scanViewFinish
        have := (minMax_pure2 f i _ _ (R_refl gN)).2.2
        split <;> exact push_pre (this.trans sN) _ _

/-- `_get_photon_count` changes `start` only by the repair (which empties the memo table and replaces it) or by
    the sub-sample workaround (which moves it forward by less than one sample period). -/
theorem photonAccess_start (f : File) (o : Obj) (c : Color) {o' : Obj} {w : Option (Int × Int)}
    (hp : photonAccess f o c = .ok (o', w)) :
    (o'.start = o.start ∧ o'.cache = o.cache ∧ o'.gen = o.gen) ∨ (o'.cache = [] ∧ o'.gen = o.gen + 1) ∨
      (o.start < o'.start ∧ o'.start - f.dt < o.start ∧ o'.cache = o.cache ∧ o'.gen = o.gen) := by
  unfold photonAccess at hp
  cases hc : f.chan c with
  | none => rw [hc] at hp; cases hp; left; exact ⟨rfl, rfl, rfl⟩
  | some ch =>
    rw [hc] at hp
    simp only at hp
    cases hw : chanWindow f.dt ch o.start o.stop with
    | none => rw [hw] at hp; cases hp; left; exact ⟨rfl, rfl, rfl⟩
    | some tw =>
      obtain ⟨tl, ce⟩ := tw
      rw [hw] at hp
      simp only at hp
      generalize ho1 : (if tl - f.dt < o.start ∧ o.start < tl then { o with start := tl } else o) = o1 at hp
      have h1 : (o1.start = o.start ∨ (o.start < o1.start ∧ o1.start - f.dt < o.start)) ∧ o1.cache = o.cache ∧
          o1.gen = o.gen := by
        rw [← ho1]
        split
        · rename_i hs; exact ⟨Or.inr ⟨hs.2, hs.1⟩, rfl, rfl⟩
        · exact ⟨Or.inl rfl, rfl, rfl⟩
      split at hp
      · cases hfx : fixStart f o1 with
        | error er => rw [hfx] at hp; cases hp
        | ok o2 =>
          rw [hfx] at hp
          cases hp
          right; left
          have := fixStart_shape f _ hfx
          rw [this]
          exact ⟨rfl, by simp [h1.2.2]⟩
      · cases hp
        rcases h1.1 with h | h
        · left; exact ⟨h, h1.2.1, h1.2.2⟩
        · right; right; exact ⟨h.1, h.2, h1.2.1, h1.2.2⟩

/-! # the buffer model (clause 3: aliasing) — `Verif.C19.Alias` -/

namespace Alias

/-! ## lemmas -/

theorem cropL_map {α β} (f : α → β) (cols lo hi : Nat) (l : List α) :
    (cropL cols lo hi l).map f = cropL cols lo hi (l.map f) := by
  simp [cropL, List.map_take, List.map_drop]

theorem flipL_map {α β} (f : α → β) (cols : Nat) : ∀ (fuel : Nat) (l : List α),
    (flipL cols fuel l).map f = flipL cols fuel (l.map f)
  | 0, l => rfl
  | n + 1, l => by
    simp only [flipL, List.length_map]
    split
    · rfl
    · simp [flipL_map f cols n, List.map_drop, List.map_take]

theorem content_length (mem : List (List Int)) (a : Arr) : (content mem a).length = a.idx.length := by
  simp [content]

theorem content_append (mem ext : List (List Int)) (c : Arr) (h : c.buf < mem.length) :
    content (mem ++ ext) c = content mem c := by
  simp [content, List.getD_eq_getElem?_getD, List.getElem?_append_left h]

theorem content_set_ne (mem : List (List Int)) (b : Nat) (x : List Int) (c : Arr) (h : c.buf ≠ b) :
    content (mem.set b x) c = content mem c := by
  simp [content, List.getD_eq_getElem?_getD, List.getElem?_set_ne (Ne.symm h)]

theorem map_range_getD (l : List Int) : (List.range l.length).map (fun p => l.getD p 0) = l := by
  apply List.ext_getElem
  · simp
  · intro i h1 h2
    simp [List.getD_eq_getElem?_getD, List.getElem?_eq_getElem h2]

theorem content_fresh (mem : List (List Int)) (v : List Int) (w : Bool) :
    content (mem ++ [v]) ⟨mem.length, List.range v.length, w⟩ = v := by
  simp [content, List.getD_eq_getElem?_getD]
  exact map_range_getD v

theorem mem_storeA (st : St) (i : Nat) (k : Key) (a : Arr) (j : Nat) (k' : Key) (c : Arr)
    (h : (k', c) ∈ (storeA st i k a).caches.getD j []) :
    (j = i ∧ k' = k ∧ c = a) ∨ (k', c) ∈ st.caches.getD j [] := by
  simp only [storeA, List.getD_eq_getElem?_getD] at h ⊢
  by_cases hj : i = j
  · subst hj
    by_cases hl : i < st.caches.length
    · simp [List.getElem?_set_self hl] at h
      rcases h with h | h
      · exact Or.inl ⟨rfl, h.1, h.2⟩
      · exact Or.inr (by simpa using h)
    · rw [List.getElem?_eq_none (by simp; omega)] at h
      simp at h
  · rw [List.getElem?_set_ne hj] at h
    exact Or.inr h

theorem mem_caches_append (caches : List (List (Key × Arr))) (j : Nat) (e : Key × Arr)
    (h : e ∈ (caches ++ [[]]).getD j []) : e ∈ caches.getD j [] := by
  simp only [List.getD_eq_getElem?_getD] at h ⊢
  by_cases hj : j < caches.length
  · rwa [List.getElem?_append_left hj] at h
  · rw [List.getElem?_append_right (by omega)] at h
    by_cases h0 : j - caches.length = 0
    · simp [h0] at h
    · rw [List.getElem?_eq_none (by simp; omega)] at h
      simp at h

/-! ### the invariant -/

/-- for the quantity `k`: the closure chain of every object is its parent followed by the parent's chain, and the value-level
    path of the object is its transformation followed by the parent's path -/
def PathOKk (k : Key) (objs : List Sk) (paths : List (List Xf)) : Prop :=
  objs.length = paths.length ∧
  ∀ (i : Nat) (o : Sk), objs[i]? = some o →
    (o.xf k = none ∧ paths[i]? = some []) ∨
    (∃ (x : Xf) (par : Nat) (rest : List Nat) (op : Sk) (pp : List Xf), o.xf k = some x ∧ o.chain k = par :: rest ∧
      objs[par]? = some op ∧ op.chain k = rest ∧ paths[par]? = some pp ∧ paths[i]? = some (x :: pp))

def PathOK (objs : List Sk) (paths : Key → List (List Xf)) : Prop := ∀ k, PathOKk k objs (paths k)

/-- every array in a memo table is read-only and reads what the value semantics computes for its object -/
def CacheInv (cols : Nat) (src : Key → List Int) (st : St) (paths : Key → List (List Xf)) : Prop :=
  ∀ i k a, (k, a) ∈ st.caches.getD i [] →
    a.w = false ∧ a.buf < st.mem.length ∧ ∃ p, (paths k)[i]? = some p ∧ content st.mem a = valOf cols src p k

/-- no writeable array that was handed out reads a buffer that an array in a memo table reads -/
def OutInv (st : St) : Prop :=
  ∀ h ∈ st.outs, h.w = true → h.buf < st.mem.length ∧ ∀ i k c, (k, c) ∈ st.caches.getD i [] → c.buf ≠ h.buf

/-- post-condition of a memoised array method -/
structure GetOK (cols : Nat) (src : Key → List Int) (paths : Key → List (List Xf)) (st : St) (p : List Xf) (k : Key)
    (st' : St) (a : Arr) : Prop where
  objs : st'.objs = st.objs
  outs : st'.outs = st.outs
  ext : ∃ e, st'.mem = st.mem ++ e
  cache : CacheInv cols src st' paths
  out : OutInv st'
  ro : a.w = false
  lt : a.buf < st'.mem.length
  val : content st'.mem a = valOf cols src p k
  prot : ∀ h ∈ st.outs, h.w = true → h.buf ≠ a.buf

theorem fresh_ok (cols : Nat) (src : Key → List Int) (paths : Key → List (List Xf)) (st : St) (v : List Int) (i : Nat) (k : Key)
    (p : List Xf) (hC : CacheInv cols src st paths) (hO : OutInv st) (hv : v = valOf cols src p k)
    (hp : (paths k)[i]? = some p) :
    GetOK cols src paths st p k (storeA { st with mem := st.mem ++ [v] } i k ⟨st.mem.length, List.range v.length, false⟩)
      ⟨st.mem.length, List.range v.length, false⟩ := by
  refine ⟨rfl, rfl, ⟨[v], rfl⟩, ?_, ?_, rfl, by simp [storeA], ?_, ?_⟩
  · intro j k' c hc
    rcases mem_storeA _ i k _ j k' c hc with ⟨rfl, rfl, rfl⟩ | hc
    · exact ⟨rfl, by simp [storeA], p, hp, by simpa [storeA, hv] using content_fresh st.mem v false⟩
    · obtain ⟨h1, h2, q, h3, h4⟩ := hC j k' c hc
      exact ⟨h1, by simp [storeA]; omega, q, h3, by simpa [storeA, content_append _ _ c h2] using h4⟩
  · intro h hh hw
    obtain ⟨h1, h2⟩ := hO h hh hw
    refine ⟨by simp [storeA]; omega, ?_⟩
    intro j k' c hc
    rcases mem_storeA _ i k _ j k' c hc with ⟨rfl, rfl, rfl⟩ | hc
    · simp; omega
    · exact h2 j k' c hc
  · subst hv; simpa [storeA] using content_fresh st.mem _ false
  · intro h hh hw
    have := (hO h hh hw).1
    simp; omega

theorem view_ok (cols : Nat) (src : Key → List Int) (paths : Key → List (List Xf)) (st0 st : St) (i : Nat) (k : Key)
    (p pp : List Xf) (a1 : Arr) (idx : List Nat) (g : GetOK cols src paths st0 pp k st a1)
    (hv : content st.mem { a1 with idx := idx, w := false } = valOf cols src p k) (hp : (paths k)[i]? = some p) :
    GetOK cols src paths st0 p k (storeA st i k { a1 with idx := idx, w := false }) { a1 with idx := idx, w := false } := by
  refine ⟨by simpa [storeA] using g.objs, by simpa [storeA] using g.outs, by simpa [storeA] using g.ext, ?_, ?_, rfl,
    by simpa [storeA] using g.lt, by simpa [storeA] using hv, g.prot⟩
  · intro j k' c hc
    rcases mem_storeA _ i k _ j k' c hc with ⟨rfl, rfl, rfl⟩ | hc
    · exact ⟨rfl, by simpa [storeA] using g.lt, p, hp, by simpa [storeA] using hv⟩
    · simpa [storeA] using g.cache j k' c hc
  · intro h hh hw
    have hh' : h ∈ st.outs := by simpa [storeA] using hh
    obtain ⟨h1, h2⟩ := g.out h hh' hw
    refine ⟨by simpa [storeA] using h1, ?_⟩
    intro j k' c hc
    rcases mem_storeA _ i k _ j k' c hc with ⟨rfl, rfl, rfl⟩ | hc
    · have := g.prot h (g.outs ▸ hh') hw
      exact fun e => this e.symm
    · exact h2 j k' c hc

theorem GetOK_refl (cols : Nat) (src : Key → List Int) (paths : Key → List (List Xf)) (st : St) (p : List Xf) (k : Key) (a : Arr)
    (i : Nat) (hC : CacheInv cols src st paths) (hO : OutInv st) (hp : (paths k)[i]? = some p)
    (ha : (k, a) ∈ st.caches.getD i []) : GetOK cols src paths st p k st a := by
  obtain ⟨h1, h2, q, h3, h4⟩ := hC i k a ha
  have : q = p := by rw [hp] at h3; exact (Option.some.inj h3).symm
  subst this
  exact ⟨rfl, rfl, ⟨[], by simp⟩, hC, hO, h1, h2, h4, fun h hh hw e => (hO h hh hw).2 i k a ha e.symm⟩

theorem lookupA_mem (c : List (Key × Arr)) (k : Key) (a : Arr) (h : lookupA c k = some a) : (k, a) ∈ c := by
  unfold lookupA at h
  cases hf : c.find? (·.1 = k) with
  | none => simp [hf] at h
  | some e =>
    rw [hf] at h
    have h1 := List.mem_of_find?_eq_some hf
    have h2 := List.find?_some hf
    simp at h h2
    obtain ⟨e1, e2⟩ := e
    simp at h h2
    subst h h2
    exact h1

theorem GetOK_trans (cols : Nat) (src : Key → List Int) (paths : Key → List (List Xf)) (st0 st1 st2 : St) (p q : List Xf)
    (k k' : Key) (a b : Arr) (g1 : GetOK cols src paths st0 p k st1 a) (g2 : GetOK cols src paths st1 q k' st2 b) :
    st2.objs = st0.objs ∧ st2.outs = st0.outs ∧ (∃ e, st2.mem = st0.mem ++ e) ∧
      content st2.mem a = valOf cols src p k ∧ a.buf < st2.mem.length ∧ (∀ h ∈ st0.outs, h.w = true → h.buf ≠ b.buf) := by
  obtain ⟨e1, he1⟩ := g1.ext
  obtain ⟨e2, he2⟩ := g2.ext
  refine ⟨g2.objs.trans g1.objs, g2.outs.trans g1.outs, ⟨e1 ++ e2, by rw [he2, he1, List.append_assoc]⟩, ?_, ?_, ?_⟩
  · rw [he2, content_append _ _ a g1.lt]; exact g1.val
  · rw [he2]; have := g1.lt; simp; omega
  · intro h hh; exact g2.prot h (g1.outs ▸ hh)

theorem valOf_cons (cols : Nat) (src : Key → List Int) (x : Xf) (pp : List Xf) (k : Key) :
    valOf cols src (x :: pp) k = applyV cols k x (valOf cols src pp k) := rfl

theorem getAt_ok (cols : Nat) (src : Key → List Int) (paths : Key → List (List Xf)) (up : St → St × Option Arr) (st : St)
    (i : Nat) (k : Key) (o : Sk) (p : List Xf) (hC : CacheInv cols src st paths) (hO : OutInv st)
    (ho : st.objs[i]? = some o) (hp : (paths k)[i]? = some p) (hroot : o.xf k = none → p = [])
    (hup : ∀ x, o.xf k = some x → ∃ pp, p = x :: pp ∧ ∃ st1 a1, up st = (st1, some a1) ∧ GetOK cols src paths st pp k st1 a1) :
    ∃ st' a, getAt cols src up st i k = (st', some a) ∧ GetOK cols src paths st p k st' a := by
  unfold getAt
  rw [ho]
  simp only
  cases hl : lookupA (st.caches.getD i []) k with
  | some a => exact ⟨st, a, rfl, GetOK_refl cols src paths st p k a i hC hO hp (lookupA_mem _ _ _ hl)⟩
  | none =>
    simp only
    cases hx : o.xf k with
    | none =>
      simp only
      have := hroot hx
      subst this
      exact ⟨_, _, rfl, fresh_ok cols src paths st (src k) i k [] hC hO rfl hp⟩
    | some x =>
      simp only
      obtain ⟨pp, rfl, st1, a1, hu, g⟩ := hup x hx
      rw [hu]
      simp only
      cases x with
      | crop lo hi =>
        refine ⟨_, _, rfl, view_ok cols src paths st st1 i k _ pp a1 _ g ?_ hp⟩
        rw [valOf_cons, ← g.val]
        simp only [content, applyXf, applyV]
        rw [cropL_map]
      | flip =>
        refine ⟨_, _, rfl, view_ok cols src paths st st1 i k _ pp a1 _ g ?_ hp⟩
        rw [valOf_cons, ← g.val]
        simp only [content, applyXf, applyV]
        rw [flipL_map, List.length_map]
      | down f =>
        have hf := fresh_ok cols src paths st1 (downV cols f k (content st1.mem a1)) i k (.down f :: pp) g.cache g.out
          (by rw [valOf_cons, ← g.val]; rfl) hp
        obtain ⟨e1, he1⟩ := g.ext
        obtain ⟨e2, he2⟩ := hf.ext
        refine ⟨_, _, rfl, (?_ : GetOK cols src paths st (.down f :: pp) k
          (storeA { st1 with mem := st1.mem ++ [downV cols f k (content st1.mem a1)] } i k
            ⟨st1.mem.length, List.range (downV cols f k (content st1.mem a1)).length, false⟩)
          ⟨st1.mem.length, List.range (downV cols f k (content st1.mem a1)).length, false⟩)⟩
        exact ⟨hf.objs.trans g.objs, hf.outs.trans g.outs, ⟨e1 ++ e2, by rw [he2, he1, List.append_assoc]⟩, hf.cache, hf.out,
          hf.ro, hf.lt, hf.val, fun h hh => hf.prot h (g.outs ▸ hh)⟩

theorem getArr_ok (cols : Nat) (src : Key → List Int) (paths : Key → List (List Xf)) :
    ∀ (chain : List Nat) (st : St) (i : Nat) (k : Key) (o : Sk) (p : List Xf), PathOK st.objs paths →
      CacheInv cols src st paths → OutInv st → st.objs[i]? = some o → o.chain k = chain → (paths k)[i]? = some p →
      ∃ st' a, getArr cols src chain st i k = (st', some a) ∧ GetOK cols src paths st p k st' a := by
  intro chain
  induction chain with
  | nil =>
    intro st i k o p hP hC hO ho hc hp
    unfold getArr
    apply getAt_ok cols src paths _ st i k o p hC hO ho hp
    · intro hx
      rcases (hP k).2 i o ho with ⟨_, h⟩ | ⟨x, par, rest, op, pp, h1, _⟩
      · rw [hp] at h; exact Option.some.inj h
      · rw [hx] at h1; cases h1
    · intro x hx
      rcases (hP k).2 i o ho with ⟨h, _⟩ | ⟨x, par, rest, op, pp, _, h2, _⟩
      · rw [hx] at h; cases h
      · rw [hc] at h2; cases h2
  | cons par rest ih =>
    intro st i k o p hP hC hO ho hc hp
    unfold getArr
    apply getAt_ok cols src paths _ st i k o p hC hO ho hp
    · intro hx
      rcases (hP k).2 i o ho with ⟨_, h⟩ | ⟨x, par, rest, op, pp, h1, _⟩
      · rw [hp] at h; exact Option.some.inj h
      · rw [hx] at h1; cases h1
    · intro x hx
      rcases (hP k).2 i o ho with ⟨h, _⟩ | ⟨x', par', rest', op, pp, h1, h2, h3, h4, h5, h6⟩
      · rw [hx] at h; cases h
      · rw [hc] at h2
        cases h2
        rw [hx] at h1
        cases h1
        rw [hp] at h6
        cases h6
        exact ⟨pp, rfl, ih st par k op pp hP hC hO h3 h4 h5⟩

theorem getTop_ok (cols : Nat) (src : Key → List Int) (paths : Key → List (List Xf)) (st : St) (i : Nat) (k : Key) (p : List Xf)
    (hP : PathOK st.objs paths) (hC : CacheInv cols src st paths) (hO : OutInv st) (hp : (paths k)[i]? = some p) :
    ∃ st' a, getTop cols src st i k = (st', some a) ∧ GetOK cols src paths st p k st' a := by
  have hi : i < st.objs.length := by
    rw [(hP k).1]
    exact (List.getElem?_eq_some_iff.mp hp).1
  unfold getTop
  rw [List.getElem?_eq_getElem hi]
  exact getArr_ok cols src paths _ st i k _ p hP hC hO (List.getElem?_eq_getElem hi) rfl hp

theorem getTop_none (cols : Nat) (src : Key → List Int) (st : St) (i : Nat) (k : Key) (h : st.objs[i]? = none) :
    getTop cols src st i k = (st, none) := by
  unfold getTop
  rw [h]

/-! ### the refinement -/

structure Inv (cols : Nat) (src : Key → List Int) (st : St) (sp : Sp) : Prop where
  path : PathOK st.objs sp.paths
  cache : CacheInv cols src st sp.paths
  out : OutInv st
  flags : st.outs.map (·.w) = sp.flags

theorem Inv_init (cols : Nat) (src : Key → List Int) : Inv cols src initSt initSp := by
  refine ⟨?_, ?_, ?_, rfl⟩
  · intro k
    refine ⟨by cases k <;> rfl, ?_⟩
    intro i o ho
    cases i with
    | zero => simp [initSt] at ho; subst ho; exact Or.inl ⟨by cases k <;> rfl, by cases k <;> rfl⟩
    | succ n => simp [initSt] at ho
  · intro i k a h
    cases i with
    | zero => simp [initSt] at h
    | succ n => simp [initSt] at h
  · intro h hh
    simp [initSt] at hh

theorem objs_none_iff {k : Key} {objs : List Sk} {paths : List (List Xf)} (hP : PathOKk k objs paths) (i : Nat) :
    objs[i]? = none ↔ paths[i]? = none := by
  simp [hP.1]

/-- handing out a read-only array, or a writeable one on a brand-new buffer -/
theorem hand_ok (cols : Nat) (src : Key → List Int) (st : St) (sp : Sp) (a : Arr) (hP : PathOK st.objs sp.paths)
    (hC : CacheInv cols src st sp.paths) (hO : OutInv st) (hF : st.outs.map (·.w) = sp.flags)
    (ha : a.w = true → a.buf < st.mem.length ∧ ∀ i k c, (k, c) ∈ st.caches.getD i [] → c.buf ≠ a.buf) :
    Inv cols src (hand st a).1 { sp with flags := sp.flags ++ [a.w] } := by
  refine ⟨hP, hC, ?_, by simp [hand, hF]⟩
  intro h hh hw
  simp only [hand, List.mem_append, List.mem_singleton] at hh
  rcases hh with hh | rfl
  · exact hO h hh hw
  · exact ha hw

theorem CacheInv_push (cols : Nat) (src : Key → List Int) (st : St) (paths : Key → List (List Xf)) (v : List Int)
    (hC : CacheInv cols src st paths) : CacheInv cols src { st with mem := st.mem ++ [v] } paths := by
  intro i k a h
  obtain ⟨h1, h2, q, h3, h4⟩ := hC i k a h
  exact ⟨h1, by simp; omega, q, h3, by simpa [content_append _ _ a h2] using h4⟩

theorem OutInv_push (st : St) (v : List Int) (hO : OutInv st) : OutInv { st with mem := st.mem ++ [v] } := by
  intro h hh hw
  obtain ⟨h1, h2⟩ := hO h hh hw
  exact ⟨by simp; omega, h2⟩

theorem PathOK_push (k : Key) (objs : List Sk) (paths : List (List Xf)) (o : Sk) (p : List Xf) (hP : PathOKk k objs paths)
    (hn : (o.xf k = none ∧ p = []) ∨
      (∃ (x : Xf) (par : Nat) (rest : List Nat) (op : Sk) (pp : List Xf), o.xf k = some x ∧ o.chain k = par :: rest ∧
        objs[par]? = some op ∧ op.chain k = rest ∧ paths[par]? = some pp ∧ p = x :: pp)) :
    PathOKk k (objs ++ [o]) (paths ++ [p]) := by
  refine ⟨by simp [hP.1], ?_⟩
  have lift : ∀ {α : Type} (l : List α) (e : α) (j : Nat) (y : α), l[j]? = some y → (l ++ [e])[j]? = some y := by
    intro α l e j y h
    rw [List.getElem?_append_left (List.getElem?_eq_some_iff.mp h).1]; exact h
  intro i o' ho'
  by_cases hi : i < objs.length
  · rw [List.getElem?_append_left hi] at ho'
    rcases hP.2 i o' ho' with ⟨h1, h2⟩ | ⟨x, par, rest, op, pp, h1, h2, h3, h4, h5, h6⟩
    · exact Or.inl ⟨h1, lift _ _ _ _ h2⟩
    · exact Or.inr ⟨x, par, rest, op, pp, h1, h2, lift _ _ _ _ h3, h4, lift _ _ _ _ h5, lift _ _ _ _ h6⟩
  · have hi' : i = objs.length := by
      have := (List.getElem?_eq_some_iff.mp ho').1
      simp at this; omega
    subst hi'
    simp at ho'
    subst ho'
    have hpi : (paths ++ [p])[objs.length]? = some p := by rw [hP.1]; simp
    rcases hn with ⟨h1, h2⟩ | ⟨x, par, rest, op, pp, h1, h2, h3, h4, h5, h6⟩
    · exact Or.inl ⟨h1, by rw [hpi, h2]⟩
    · exact Or.inr ⟨x, par, rest, op, pp, h1, h2, lift _ _ _ _ h3, h4, lift _ _ _ _ h5, by rw [hpi, h6]⟩

theorem derive_ok (cols : Nat) (src : Key → List Int) (st : St) (sp : Sp) (o : Sk) (p q : List Xf)
    (hI : Inv cols src st sp)
    (hP : PathOK (st.objs ++ [o]) ({ sp with ip := sp.ip ++ [p], tp := sp.tp ++ [q] } : Sp).paths) :
    Inv cols src { st with objs := st.objs ++ [o], caches := st.caches ++ [[]] }
      { sp with ip := sp.ip ++ [p], tp := sp.tp ++ [q] } := by
  refine ⟨hP, ?_, ?_, hI.flags⟩
  · intro i k a h
    obtain ⟨h1, h2, r, h3, h4⟩ := hI.cache i k a (mem_caches_append _ _ _ h)
    refine ⟨h1, h2, r, ?_, h4⟩
    cases k with
    | ts =>
      show (sp.tp ++ [q])[i]? = some r
      have h3' : sp.tp[i]? = some r := h3
      rw [List.getElem?_append_left (List.getElem?_eq_some_iff.mp h3').1]; exact h3'
    | img c =>
      show (sp.ip ++ [p])[i]? = some r
      have h3' : sp.ip[i]? = some r := h3
      rw [List.getElem?_append_left (List.getElem?_eq_some_iff.mp h3').1]; exact h3'
  · intro h hh hw
    obtain ⟨h1, h2⟩ := hI.out h hh hw
    exact ⟨h1, fun i k c hc => h2 i k c (mem_caches_append _ _ _ hc)⟩

theorem stepA_sim (cols : Nat) (src : Key → List Int) (st : St) (sp : Sp) (op : AOp) (hI : Inv cols src st sp) :
    Inv cols src (stepA cols src st op).1 (stepS cols src sp op).1 ∧ (stepA cols src st op).2 = (stepS cols src sp op).2 := by
  cases op with
  | get i k =>
    simp only [stepA, stepS]
    cases hp : (sp.paths k)[i]? with
    | none =>
      rw [getTop_none cols src st i k ((objs_none_iff (hI.path k) i).mpr hp)]
      exact ⟨hI, rfl⟩
    | some p =>
      obtain ⟨st1, a, hg, g⟩ := getTop_ok cols src sp.paths st i k p hI.path hI.cache hI.out hp
      rw [hg]
      simp only
      have := hand_ok cols src st1 sp a (g.objs ▸ hI.path) g.cache g.out (by rw [g.outs]; exact hI.flags)
        (by intro hw; rw [g.ro] at hw; cases hw)
      rw [g.ro] at this
      exact ⟨this, by simp [hand, g.val, g.ro]⟩
  | rgb i =>
    simp only [stepA, stepS]
    cases hp : sp.ip[i]? with
    | none =>
      rw [getTop_none cols src st i _ ((objs_none_iff (hI.path (.img .red)) i).mpr hp)]
      exact ⟨hI, rfl⟩
    | some p =>
      obtain ⟨st1, r, hg1, g1⟩ := getTop_ok cols src sp.paths st i (.img .red) p hI.path hI.cache hI.out hp
      obtain ⟨st2, g, hg2, g2⟩ := getTop_ok cols src sp.paths st1 i (.img .green) p (g1.objs ▸ hI.path) g1.cache g1.out hp
      obtain ⟨st3, b, hg3, g3⟩ := getTop_ok cols src sp.paths st2 i (.img .blue) p (g2.objs ▸ g1.objs ▸ hI.path) g2.cache
        g2.out hp
      rw [hg1]; simp only
      rw [hg2]; simp only
      rw [hg3]; simp only
      have t12 := GetOK_trans cols src sp.paths st st1 st2 p p _ _ r g g1 g2
      have t23 := GetOK_trans cols src sp.paths st1 st2 st3 p p _ _ g b g2 g3
      have hr : content st3.mem r = valOf cols src p (.img .red) := by
        obtain ⟨e3, he3⟩ := g3.ext
        rw [he3, content_append _ _ r t12.2.2.2.2.1]; exact t12.2.2.2.1
      have hgv : content st3.mem g = valOf cols src p (.img .green) := t23.2.2.2.1
      have hb := g3.val
      have lr := content_length st3.mem r
      have lg := content_length st3.mem g
      have lb := content_length st3.mem b
      rw [hr] at lr; rw [hgv] at lg; rw [hb] at lb
      rw [hr, hgv, hb, ← lr, ← lg, ← lb]
      split
      · have hP3 : PathOK st3.objs sp.paths := by rw [g3.objs, g2.objs, g1.objs]; exact hI.path
        have hF3 : st3.outs.map (·.w) = sp.flags := by rw [g3.outs, g2.outs, g1.outs]; exact hI.flags
        have := hand_ok cols src { st3 with mem := st3.mem ++ [stack3 (valOf cols src p (.img .red))
            (valOf cols src p (.img .green)) (valOf cols src p (.img .blue))] } sp
          ⟨st3.mem.length, List.range (stack3 (valOf cols src p (.img .red)) (valOf cols src p (.img .green))
            (valOf cols src p (.img .blue))).length, true⟩ hP3 (CacheInv_push cols src st3 sp.paths _ g3.cache)
          (OutInv_push st3 _ g3.out) hF3
          (by
            intro _
            refine ⟨by simp, ?_⟩
            intro j k c hc
            have := (g3.cache j k c hc).2.1
            simp; omega)
        exact ⟨this, by simp only [hand]; rw [content_fresh]⟩
      · exact ⟨⟨by rw [g3.objs, g2.objs, g1.objs]; exact hI.path, g3.cache, g3.out,
          by rw [g3.outs, g2.outs, g1.outs]; exact hI.flags⟩, rfl⟩
  | write h j v =>
    simp only [stepA, stepS]
    have hf : sp.flags[h]? = (st.outs[h]?).map (·.w) := by rw [← hI.flags, List.getElem?_map]
    rw [hf]
    cases ha : st.outs[h]? with
    | none => exact ⟨hI, rfl⟩
    | some a =>
      simp only [Option.map_some]
      cases hw : a.w with
      | false => simp only [Bool.false_eq_true, if_false]; exact ⟨hI, by first | rfl | trivial⟩
      | true =>
        simp only [if_true]
        cases hj : a.idx[j]? with
        | none => exact ⟨hI, rfl⟩
        | some q =>
          refine ⟨⟨hI.path, ?_, ?_, hI.flags⟩, rfl⟩
          · intro i k c hc
            obtain ⟨h1, h2, p, h3, h4⟩ := hI.cache i k c hc
            have hne := (hI.out a (List.mem_of_getElem? ha) hw).2 i k c hc
            exact ⟨h1, by simpa using h2, p, h3, by simpa [content_set_ne _ _ _ c hne] using h4⟩
          · intro h' hh hw'
            obtain ⟨h1, h2⟩ := hI.out h' hh hw'
            exact ⟨by simpa using h1, h2⟩
  | view i x =>
    simp only [stepA, stepS]
    cases hp : sp.ip[i]? with
    | none => rw [(objs_none_iff (hI.path (.img .red)) i).mpr hp]; exact ⟨hI, rfl⟩
    | some p =>
      have hi : i < st.objs.length := by
        have := (hI.path (.img .red)).1; rw [show (sp.paths (.img .red)) = sp.ip from rfl] at this
        have := (List.getElem?_eq_some_iff.mp hp).1; omega
      have hi' : i < sp.tp.length := by have := (hI.path .ts).1; rw [show (sp.paths .ts) = sp.tp from rfl] at this; omega
      rw [List.getElem?_eq_getElem hi, List.getElem?_eq_getElem hi']
      refine ⟨derive_ok cols src st sp _ _ _ hI ?_, rfl⟩
      intro k
      cases k with
      | ts =>
        refine PathOK_push .ts _ _ _ _ (hI.path .ts) ?_
        cases x with
        | flip =>
          rcases (hI.path .ts).2 i _ (List.getElem?_eq_getElem hi) with ⟨h1, h2⟩ | ⟨x, par, rest, op, pp, h1, h2, h3, h4, h5, h6⟩
          · exact Or.inl ⟨h1, by
              have := List.getElem?_eq_getElem hi'
              rw [show (sp.paths .ts) = sp.tp from rfl] at h2
              rw [h2] at this; exact (Option.some.inj this).symm⟩
          · exact Or.inr ⟨x, par, rest, op, pp, h1, h2, h3, h4, h5, by
              have := List.getElem?_eq_getElem hi'
              rw [show (sp.paths .ts) = sp.tp from rfl] at h6
              rw [h6] at this; exact (Option.some.inj this).symm⟩
        | crop lo hi2 =>
          exact Or.inr ⟨_, i, _, st.objs[i], sp.tp[i], rfl, rfl, List.getElem?_eq_getElem hi, rfl,
            List.getElem?_eq_getElem hi', rfl⟩
        | down f =>
          exact Or.inr ⟨_, i, _, st.objs[i], sp.tp[i], rfl, rfl, List.getElem?_eq_getElem hi, rfl,
            List.getElem?_eq_getElem hi', rfl⟩
      | img c =>
        refine PathOK_push (.img c) _ _ _ _ (hI.path (.img c)) ?_
        cases x with
        | flip => exact Or.inr ⟨_, i, _, st.objs[i], p, rfl, rfl, List.getElem?_eq_getElem hi, rfl, hp, rfl⟩
        | crop lo hi2 => exact Or.inr ⟨_, i, _, st.objs[i], p, rfl, rfl, List.getElem?_eq_getElem hi, rfl, hp, rfl⟩
        | down f => exact Or.inr ⟨_, i, _, st.objs[i], p, rfl, rfl, List.getElem?_eq_getElem hi, rfl, hp, rfl⟩
  | copy i =>
    simp only [stepA, stepS]
    cases hp : sp.ip[i]? with
    | none => rw [(objs_none_iff (hI.path (.img .red)) i).mpr hp]; exact ⟨hI, rfl⟩
    | some p =>
      have hi : i < st.objs.length := by
        have := (hI.path (.img .red)).1; rw [show (sp.paths (.img .red)) = sp.ip from rfl] at this
        have := (List.getElem?_eq_some_iff.mp hp).1; omega
      have hi' : i < sp.tp.length := by have := (hI.path .ts).1; rw [show (sp.paths .ts) = sp.tp from rfl] at this; omega
      rw [List.getElem?_eq_getElem hi, List.getElem?_eq_getElem hi']
      refine ⟨derive_ok cols src st sp _ _ _ hI ?_, rfl⟩
      intro k
      cases k with
      | ts =>
        refine PathOK_push .ts _ _ _ _ (hI.path .ts) ?_
        rcases (hI.path .ts).2 i _ (List.getElem?_eq_getElem hi) with ⟨h1, h2⟩ | ⟨x, par, rest, op, pp, h1, h2, h3, h4, h5, h6⟩
        · exact Or.inl ⟨h1, by
            have := List.getElem?_eq_getElem hi'
            rw [show (sp.paths .ts) = sp.tp from rfl] at h2
            rw [h2] at this; exact (Option.some.inj this).symm⟩
        · exact Or.inr ⟨x, par, rest, op, pp, h1, h2, h3, h4, h5, by
            have := List.getElem?_eq_getElem hi'
            rw [show (sp.paths .ts) = sp.tp from rfl] at h6
            rw [h6] at this; exact (Option.some.inj this).symm⟩
      | img c =>
        refine PathOK_push (.img c) _ _ _ _ (hI.path (.img c)) ?_
        rcases (hI.path (.img c)).2 i _ (List.getElem?_eq_getElem hi) with ⟨h1, h2⟩ | ⟨x, par, rest, op, pp, h1, h2, h3, h4, h5, h6⟩
        · exact Or.inl ⟨h1, by
            rw [show (sp.paths (.img c)) = sp.ip from rfl] at h2
            rw [hp] at h2; exact Option.some.inj h2⟩
        · exact Or.inr ⟨x, par, rest, op, pp, h1, h2, h3, h4, h5, by
            rw [show (sp.paths (.img c)) = sp.ip from rfl] at h6
            rw [hp] at h6; exact Option.some.inj h6⟩

theorem runA_sim (cols : Nat) (src : Key → List Int) : ∀ (ops : List AOp) (st : St) (sp : Sp), Inv cols src st sp →
    Inv cols src (runA cols src st ops).1 (runS cols src sp ops).1 ∧ (runA cols src st ops).2 = (runS cols src sp ops).2
  | [], st, sp, hI => ⟨hI, rfl⟩
  | op :: rest, st, sp, hI => by
    obtain ⟨h1, h2⟩ := stepA_sim cols src st sp op hI
    obtain ⟨h3, h4⟩ := runA_sim cols src rest _ _ h1
    simp only [runA, runS]
    exact ⟨h3, by rw [h2, h4]⟩

/-! ### write attacks are invisible (value semantics) -/

def AOp.isWrite : AOp → Bool
  | .write _ _ _ => true
  | _ => false

/-- the answers of the steps that are not write attempts -/
def dropWrites : List AOp → List AAns → List AAns
  | op :: ops, a :: as => if op.isWrite then dropWrites ops as else a :: dropWrites ops as
  | _, _ => []

theorem stepS_write (cols : Nat) (src : Key → List Int) (sp : Sp) (op : AOp) (hw : op.isWrite = true) :
    (stepS cols src sp op).1 = sp := by
  cases op with
  | write h j v =>
    simp only [stepS]
    cases sp.flags[h]? with
    | none => rfl
    | some b => cases b <;> rfl
  | _ => simp [AOp.isWrite] at hw

theorem runS_dropWrites (cols : Nat) (src : Key → List Int) : ∀ (ops : List AOp) (sp : Sp),
    dropWrites ops (runS cols src sp ops).2 = (runS cols src sp (ops.filter fun o => !o.isWrite)).2
  | [], _ => rfl
  | op :: rest, sp => by
    simp only [runS, dropWrites, List.filter_cons]
    cases hw : op.isWrite with
    | true =>
      simp only [Bool.not_true, if_true, Bool.false_eq_true, if_false]
      rw [stepS_write cols src sp op hw]
      exact runS_dropWrites cols src rest sp
    | false =>
      simp only [Bool.not_false, if_true, Bool.false_eq_true, if_false, runS]
      rw [runS_dropWrites cols src rest]

end Alias

end Verif.C19
