/-
  C02 — helper lemmas for the confocal reconstruction model.
-/
import Verif.Model.C02

namespace Verif.C02
open Verif.Py

/-! ### cumulative sums -/

def cumsumFrom (a : Int) : List Int → List Int
  | [] => []
  | x :: xs => (a + x) :: cumsumFrom (a + x) xs

theorem cumsum_foldl (l : List Int) (a : Int) (out : List Int) :
    (l.foldl (fun (acc : Int × List Int) x => (acc.1 + x, (acc.1 + x) :: acc.2)) (a, out)).2.reverse
      = out.reverse ++ cumsumFrom a l := by
  induction l generalizing a out with
  | nil => simp [cumsumFrom]
  | cons x xs ih =>
    simp only [List.foldl_cons, cumsumFrom]
    rw [ih]
    simp

theorem cumsum_eq (l : List Int) : cumsum l = cumsumFrom 0 l := by
  unfold cumsum
  rw [cumsum_foldl]
  simp

/-! ### the code's pixel ends, as a single walk over the zipped stream -/

/-- Cumulative count at each pixel boundary, the running total starting at `a`. -/
def endsFrom (a : Int) : List Sample → List Int
  | [] => []
  | x :: rest =>
    if x.2 = 0 then endsFrom a rest
    else if x.2 = 2 then (a + x.1) :: endsFrom (a + x.1) rest
    else endsFrom (a + x.1) rest

theorem isUsed_zero : isUsed 0 = false := rfl
theorem isUsed_of_ne {c : Nat} (h : c ≠ 0) : isUsed c = true := by
  simp [isUsed, h]
theorem isBoundary_two : isBoundary 2 = true := rfl
theorem isBoundary_of_ne {c : Nat} (h : c ≠ 2) : isBoundary c = false := by
  simp [isBoundary, h]

theorem ends_walk (s : List Sample) (a : Int) :
    ((cumsumFrom a (s.filterMap fun x => if isUsed x.2 then some x.1 else none)).zip
        ((s.map (·.2)).filter isUsed)).filterMap
      (fun x => if isBoundary x.2 then some x.1 else none) = endsFrom a s := by
  induction s generalizing a with
  | nil => simp [cumsumFrom, endsFrom]
  | cons x rest ih =>
    obtain ⟨d, c⟩ := x
    by_cases h0 : c = 0
    · subst h0
      simp only [List.filterMap_cons, isUsed_zero, List.map_cons, List.filter_cons, endsFrom]
      simpa using ih a
    · by_cases h2 : c = 2
      · subst h2
        simp only [List.filterMap_cons, List.map_cons, List.filter_cons, endsFrom,
          isUsed_of_ne h0, cumsumFrom, List.zip_cons_cons, isBoundary_two, if_true]
        rw [ih, if_neg h0]
      · simp only [List.filterMap_cons, List.map_cons, List.filter_cons, endsFrom,
          isUsed_of_ne h0, cumsumFrom, List.zip_cons_cons, isBoundary_of_ne h2, if_true]
        simp only [h0, h2, if_false]
        simpa using ih (a + d)

theorem pixelEnds_eq (data : List Int) (iw : List Nat) (h : data.length = iw.length) :
    pixelEnds data iw = endsFrom 0 (data.zip iw) := by
  unfold pixelEnds usedData subset
  rw [cumsum_eq, ← ends_walk]
  congr 3
  rw [List.map_snd_zip]
  omega

/-! ### differences of the pixel ends are the per-pixel sums -/

/-- `[l₀ - prev, l₁ - l₀, …]`. -/
def diffFrom (prev : Int) : List Int → List Int
  | [] => []
  | x :: xs => (x - prev) :: diffFrom x xs

theorem diff_cons (e : Int) (es : List Int) : diff (e :: es) = diffFrom e es := by
  unfold diff
  induction es generalizing e with
  | nil => simp [diffFrom]
  | cons y ys ih =>
    simp only [List.tail_cons, List.zipWith_cons_cons, diffFrom]
    congr 1
    simpa using ih y

theorem hstack_diff (e : Int) (es : List Int) : e :: diff (e :: es) = diffFrom 0 (e :: es) := by
  rw [diff_cons]; simp [diffFrom]

theorem diffFrom_ends (s : List Sample) (a prev : Int) :
    diffFrom prev (endsFrom a s) = pixelsSpecAux (a - prev) s := by
  induction s generalizing a prev with
  | nil => simp [endsFrom, diffFrom, pixelsSpecAux]
  | cons x rest ih =>
    obtain ⟨d, c⟩ := x
    by_cases h0 : c = 0
    · simp only [endsFrom, pixelsSpecAux, h0, if_true]; exact ih a prev
    · by_cases h2 : c = 2
      · subst h2
        have h20 : ¬ ((2 : Nat) = 0) := by decide
        simp only [endsFrom, pixelsSpecAux, h20, if_false, if_true, diffFrom]
        rw [ih (a + d) (a + d)]
        have e1 : a + d - (a + d) = 0 := by omega
        have e2 : a + d - prev = a - prev + d := by omega
        rw [e1, e2]
      · simp only [endsFrom, pixelsSpecAux, h0, h2, if_false]
        rw [ih (a + d) prev]
        have e2 : a + d - prev = a - prev + d := by omega
        rw [e2]

/-! ### the specification walk: append, carry, balance -/

theorem spec_append (s₁ s₂ : List Sample) (acc : Int) :
    pixelsSpecAux acc (s₁ ++ s₂) = pixelsSpecAux acc s₁ ++ pixelsSpecAux (carry acc s₁) s₂ := by
  induction s₁ generalizing acc with
  | nil => simp [pixelsSpecAux, carry]
  | cons x rest ih =>
    simp only [List.cons_append, pixelsSpecAux, carry]
    split
    · exact ih acc
    · split
      · rw [ih 0]; rfl
      · exact ih _

theorem carry_append (s₁ s₂ : List Sample) (acc : Int) :
    carry acc (s₁ ++ s₂) = carry (carry acc s₁) s₂ := by
  induction s₁ generalizing acc with
  | nil => simp [carry]
  | cons x rest ih =>
    simp only [List.cons_append, carry]
    split
    · exact ih acc
    · split
      · exact ih 0
      · exact ih _

theorem usedSum_cons_zero (x : Sample) (rest : List Sample) (h0 : x.2 = 0) :
    usedSum (x :: rest) = usedSum rest := by
  simp [usedSum, h0]

theorem usedSum_cons_used (x : Sample) (rest : List Sample) (h0 : x.2 ≠ 0) :
    usedSum (x :: rest) = x.1 + usedSum rest := by
  simp [usedSum, h0]

theorem spec_no_boundary (t : List Sample) (acc : Int) (h : ∀ x ∈ t, x.2 ≠ 2) :
    pixelsSpecAux acc t = [] := by
  induction t generalizing acc with
  | nil => rfl
  | cons x rest ih =>
    have hx : x.2 ≠ 2 := h x (by simp)
    have hr : ∀ y ∈ rest, y.2 ≠ 2 := fun y hy => h y (by simp [hy])
    simp only [pixelsSpecAux, hx, if_false]
    split
    · exact ih acc hr
    · exact ih _ hr

theorem carry_no_boundary (t : List Sample) (acc : Int) (h : ∀ x ∈ t, x.2 ≠ 2) :
    carry acc t = acc + usedSum t := by
  induction t generalizing acc with
  | nil => simp [carry, usedSum]
  | cons x rest ih =>
    have hx : x.2 ≠ 2 := h x (by simp)
    have hr : ∀ y ∈ rest, y.2 ≠ 2 := fun y hy => h y (by simp [hy])
    simp only [carry, hx, if_false]
    by_cases h0 : x.2 = 0
    · rw [if_pos h0, ih acc hr, usedSum_cons_zero x rest h0]
    · rw [if_neg h0, ih _ hr, usedSum_cons_used x rest h0]
      omega

theorem carry_boundary_last (init : List Sample) (d acc : Int) :
    carry acc (init ++ [(d, 2)]) = 0 := by
  rw [carry_append]
  simp [carry]

/-- Everything counted so far is either in an emitted pixel or in the unfinished one. -/
theorem spec_balance (s : List Sample) (acc : Int) :
    (pixelsSpecAux acc s).sum + carry acc s = acc + usedSum s := by
  induction s generalizing acc with
  | nil => simp [pixelsSpecAux, carry, usedSum]
  | cons x rest ih =>
    simp only [pixelsSpecAux, carry]
    by_cases h0 : x.2 = 0
    · rw [if_pos h0, if_pos h0, ih acc, usedSum_cons_zero x rest h0]
    · rw [if_neg h0, if_neg h0]
      have hu : usedSum (x :: rest) = x.1 + usedSum rest := usedSum_cons_used x rest h0
      by_cases h2 : x.2 = 2
      · rw [if_pos h2, if_pos h2, List.sum_cons, hu]
        have := ih 0
        omega
      · rw [if_neg h2, if_neg h2, hu, ih (acc + x.1)]
        omega

/-- One pixel emitted per boundary code. -/
theorem spec_length (s : List Sample) (acc : Int) :
    (pixelsSpecAux acc s).length = (s.map (·.2)).count 2 := by
  induction s generalizing acc with
  | nil => rfl
  | cons x rest ih =>
    simp only [pixelsSpecAux, List.map_cons]
    by_cases h0 : x.2 = 0
    · rw [if_pos h0, ih acc, List.count_cons, h0]; simp
    · rw [if_neg h0]
      by_cases h2 : x.2 = 2
      · rw [if_pos h2, List.length_cons, ih 0, List.count_cons, h2]; simp
      · rw [if_neg h2, ih _, List.count_cons]; simp [h2]

theorem usedSum_append (s₁ s₂ : List Sample) : usedSum (s₁ ++ s₂) = usedSum s₁ + usedSum s₂ := by
  simp [usedSum, List.filter_append, List.sum_append]

/-- A segment: samples without boundary code followed by one boundary sample. -/
def IsSegment (seg : List Sample) : Prop :=
  ∃ init d, seg = init ++ [(d, 2)] ∧ ∀ x ∈ init, x.2 ≠ 2

theorem spec_segment (seg : List Sample) (h : IsSegment seg) (acc : Int) :
    pixelsSpecAux acc seg = [acc + usedSum seg] ∧ carry acc seg = 0 := by
  obtain ⟨init, d, rfl, hinit⟩ := h
  refine ⟨?_, carry_boundary_last init d acc⟩
  rw [spec_append, spec_no_boundary init acc hinit, carry_no_boundary init acc hinit, usedSum_append]
  simp [pixelsSpecAux, usedSum]
  omega

theorem spec_segments (segs : List (List Sample)) (tail : List Sample)
    (hs : ∀ seg ∈ segs, IsSegment seg) (ht : ∀ x ∈ tail, x.2 ≠ 2) :
    pixelsSpecAux 0 (segs.flatten ++ tail) = segs.map usedSum := by
  induction segs with
  | nil => simpa using spec_no_boundary tail 0 ht
  | cons seg rest ih =>
    have h1 := spec_segment seg (hs seg (by simp)) 0
    simp only [List.flatten_cons, List.append_assoc, List.map_cons]
    rw [spec_append, h1.1, h1.2, ih (fun s hs' => hs s (by simp [hs']))]
    simp

/-- Every stream is a sequence of segments followed by a boundary-free tail. -/
theorem exists_segments (s : List Sample) :
    ∃ (segs : List (List Sample)) (tail : List Sample), s = segs.flatten ++ tail ∧ (∀ seg ∈ segs, IsSegment seg) ∧ ∀ x ∈ tail, x.2 ≠ 2 := by
  induction s with
  | nil => exact ⟨[], [], by simp, by simp, by simp⟩
  | cons x rest ih =>
    obtain ⟨segs, tail, hrest, hsegs, htail⟩ := ih
    by_cases h2 : x.2 = 2
    · -- `x` is a boundary: it forms a segment of its own
      refine ⟨[x] :: segs, tail, by simp [hrest], ?_, htail⟩
      intro seg hseg
      rcases List.mem_cons.mp hseg with rfl | h
      · exact ⟨[], x.1, by cases x; simp_all, by simp⟩
      · exact hsegs seg h
    · cases segs with
      | nil =>
        refine ⟨[], x :: tail, by simp [hrest], by simp, ?_⟩
        intro y hy
        rcases List.mem_cons.mp hy with rfl | h
        · exact h2
        · exact htail y h
      | cons seg segs' =>
        refine ⟨(x :: seg) :: segs', tail, by simp [hrest], ?_, htail⟩
        intro sg hsg
        rcases List.mem_cons.mp hsg with rfl | h
        · obtain ⟨init, d, rfl, hinit⟩ := hsegs seg (by simp)
          refine ⟨x :: init, d, by simp, ?_⟩
          intro y hy
          rcases List.mem_cons.mp hy with rfl | h'
          · exact h2
          · exact hinit y h'
        · exact hsegs sg (by simp [h])

/-! ### reshape: chunks, padding, transpose -/

theorem chunksAux_fuel' {α} (n : Nat) (hn : 0 < n) (f : Nat) :
    ∀ (l : List α) (g : Nat), l.length ≤ f → l.length ≤ g → chunksAux n f l = chunksAux n g l := by
  induction f with
  | zero =>
    intro l g h _
    have hl : l.length = 0 := by omega
    cases g with
    | zero => rfl
    | succ g => simp [chunksAux, hl]
  | succ f ih =>
    intro l g h hg
    cases g with
    | zero =>
      have hl : l.length = 0 := by omega
      simp [chunksAux, hl]
    | succ g =>
      simp only [chunksAux]
      by_cases hl : l.length = 0
      · simp [hl]
      · simp only [hl, if_false]
        have hd : (l.drop n).length ≤ l.length - 1 := by rw [List.length_drop]; omega
        rw [ih (l.drop n) g (by omega) (by omega)]

theorem chunksAux_fuel {α} (n : Nat) (hn : 0 < n) (f : Nat) (l : List α) (h : l.length ≤ f) :
    chunksAux n f l = chunksAux n l.length l :=
  chunksAux_fuel' n hn f l l.length h (Nat.le_refl _)

theorem chunks_nil {α} (n : Nat) : chunks n ([] : List α) = [] := by
  unfold chunks; split <;> simp [chunksAux]

theorem chunks_cons {α} (n : Nat) (l : List α) (hn : n ≠ 0) (hl : l.length ≠ 0) :
    chunks n l = l.take n :: chunks n (l.drop n) := by
  unfold chunks
  simp only [hn, if_false]
  obtain ⟨k, hk⟩ : ∃ k, l.length = k + 1 := ⟨l.length - 1, by omega⟩
  rw [hk]
  simp only [chunksAux, hl, if_false]
  rw [chunksAux_fuel n (by omega) k (l.drop n) (by rw [List.length_drop]; omega)]

theorem getD_take_drop {α} (l : List α) (n k j : Nat) (d : α) :
    ((l.drop k).take n).getD j d = if j < n then l.getD (k + j) d else d := by
  simp only [List.getD_eq_getElem?_getD, List.getElem?_take, List.getElem?_drop]
  split <;> simp

/-- Entry `j` of chunk `i` is entry `i*n + j` of the flat list (default outside). -/
theorem chunks_getD {α} (n : Nat) (hn : 0 < n) (l : List α) (i j : Nat) (d : α) :
    ((chunks n l).getD i []).getD j d = if j < n then l.getD (i * n + j) d else d := by
  induction i generalizing l with
  | zero =>
    by_cases hl : l.length = 0
    · have : l = [] := List.length_eq_zero_iff.mp hl
      subst this; rw [chunks_nil]; simp
    · rw [chunks_cons n l (by omega) hl]
      have := getD_take_drop l n 0 j d
      simpa using this
  | succ i ih =>
    by_cases hl : l.length = 0
    · have : l = [] := List.length_eq_zero_iff.mp hl
      subst this; rw [chunks_nil]; simp
    · rw [chunks_cons n l (by omega) hl]
      simp only [List.getD_cons_succ]
      rw [ih (l.drop n)]
      split
      · simp only [List.getD_eq_getElem?_getD, List.getElem?_drop]
        have : n + (i * n + j) = (i + 1) * n + j := by rw [Nat.succ_mul]; omega
        rw [this]
      · rfl

/-- A flat list of `q*n` entries has `q` chunks, each of `n` entries. -/
theorem chunks_shape {α} (n : Nat) (hn : 0 < n) (q : Nat) (l : List α) (h : l.length = q * n) :
    (chunks n l).length = q ∧ ∀ c ∈ chunks n l, c.length = n := by
  induction q generalizing l with
  | zero =>
    have : l = [] := List.length_eq_zero_iff.mp (by simpa using h)
    subst this; rw [chunks_nil]; simp
  | succ q ih =>
    have hlen : l.length = q * n + n := by rw [h, Nat.succ_mul]
    rw [chunks_cons n l (by omega) (by omega)]
    have hd : (l.drop n).length = q * n := by rw [List.length_drop]; omega
    obtain ⟨h1, h2⟩ := ih (l.drop n) hd
    refine ⟨by simp [h1], ?_⟩
    intro c hc
    rcases List.mem_cons.mp hc with rfl | hc'
    · rw [List.length_take]; omega
    · exact h2 c hc'

theorem chunks_flatten {α} (n : Nat) (hn : 0 < n) (l : List α) : (chunks n l).flatten = l := by
  generalize hk : l.length = k
  induction k using Nat.strongRecOn generalizing l with
  | _ k ih =>
    by_cases hl : l.length = 0
    · have : l = [] := List.length_eq_zero_iff.mp hl
      subst this; rw [chunks_nil]; rfl
    · rw [chunks_cons n l (by omega) hl, List.flatten_cons,
        ih (l.drop n).length (by rw [List.length_drop]; omega) (l.drop n) rfl]
      exact List.take_append_drop n l

theorem padTo_getD (l : List Int) (m i : Nat) : (padTo l m).getD i 0 = l.getD i 0 := by
  unfold padTo
  simp only [List.getD_eq_getElem?_getD]
  by_cases h : i < l.length
  · rw [List.getElem?_append_left h]
  · rw [List.getElem?_append_right (by omega)]
    have : l[i]? = none := List.getElem?_eq_none (by omega)
    rw [this]
    by_cases h2 : i - l.length < m - l.length
    · rw [List.getElem?_replicate_of_lt h2]; rfl
    · rw [List.getElem?_eq_none (by simp; omega)]

theorem padTo_length (l : List Int) (m : Nat) (h : l.length ≤ m) : (padTo l m).length = m := by
  unfold padTo; simp; omega

theorem sum_replicate_zero (k : Nat) : (List.replicate k (0 : Int)).sum = 0 := by
  induction k with
  | zero => rfl
  | succ k ih => simp [List.replicate_succ, ih]

theorem sum_flatten_int (l : List (List Int)) : l.flatten.sum = (l.map List.sum).sum := by
  induction l with
  | nil => rfl
  | cons x xs ih => simp [List.sum_append, ih]

theorem padTo_sum (l : List Int) (m : Nat) : (padTo l m).sum = l.sum := by
  unfold padTo; simp [List.sum_append]

/-- `roundUp size n = q * n` with `q` the least number of blocks of `n` that hold `size`. -/
theorem roundUp_spec (size n : Nat) (hn : 0 < n) :
    roundUp size n = (size + n - 1) / n * n ∧ size ≤ roundUp size n ∧ roundUp size n < size + n := by
  unfold roundUp
  refine ⟨rfl, ?_, ?_⟩
  · have h1 := Nat.div_add_mod (size + n - 1) n
    have h2 := Nat.mod_lt (size + n - 1) hn
    have h3 : (size + n - 1) / n * n = n * ((size + n - 1) / n) := Nat.mul_comm _ _
    omega
  · have h1 := Nat.div_add_mod (size + n - 1) n
    have h3 : (size + n - 1) / n * n = n * ((size + n - 1) / n) := Nat.mul_comm _ _
    omega

theorem transposeN_at2 (n : Nat) (rows : List (List Int)) (r c : Nat) (hr : r < n) :
    at2 (transposeN n rows) r c = at2 rows c r := by
  unfold at2 transposeN
  simp only [List.getD_eq_getElem?_getD, List.getElem?_map, List.getElem?_range hr, Option.map_some,
    Option.getD_some]
  cases h : rows[c]? with
  | none => simp
  | some row => simp

theorem transposeN_shape (n : Nat) (rows : List (List Int)) :
    (transposeN n rows).length = n ∧ ∀ row ∈ transposeN n rows, row.length = rows.length := by
  unfold transposeN
  refine ⟨by simp, ?_⟩
  intro row hrow
  simp only [List.mem_map] at hrow
  obtain ⟨r, _, rfl⟩ := hrow
  simp

/-! ### sums of images -/

theorem sum_map_add {α} (l : List α) (f g : α → Int) :
    (l.map fun x => f x + g x).sum = (l.map f).sum + (l.map g).sum := by
  induction l with
  | nil => rfl
  | cons x xs ih => simp only [List.map_cons, List.sum_cons, ih]; omega

theorem map_getD_range (row : List Int) : (List.range row.length).map (fun r => row.getD r 0) = row := by
  apply List.ext_getElem
  · simp
  · intro i h1 h2
    simp [List.getD_eq_getElem?_getD, List.getElem?_eq_getElem h2]

theorem sum_map_const_zero {α} (l : List α) : (l.map fun _ => (0 : Int)).sum = 0 := by
  induction l with
  | nil => rfl
  | cons x xs ih => simp [ih]

theorem transposeN_sum (n : Nat) (rows : List (List Int)) (h : ∀ row ∈ rows, row.length = n) :
    (transposeN n rows).flatten.sum = rows.flatten.sum := by
  unfold transposeN
  rw [sum_flatten_int, List.map_map]
  induction rows with
  | nil =>
    have e : (List.sum ∘ fun (_ : Nat) => ([] : List Int)) = fun _ => (0 : Int) := by
      funext r; rfl
    simp only [List.map_nil, e]
    exact sum_map_const_zero _
  | cons row rest ih =>
    have hrow : row.length = n := h row (by simp)
    have hrest : ∀ r ∈ rest, r.length = n := fun r hr => h r (by simp [hr])
    have e : (List.sum ∘ fun r => List.map (fun row => row.getD r 0) (row :: rest))
        = fun r => row.getD r 0 + (List.sum ∘ fun r => List.map (fun row => row.getD r 0) rest) r := by
      funext r; simp
    rw [e, sum_map_add, ih hrest, List.flatten_cons, List.sum_append]
    congr 1
    rw [← hrow, map_getD_range]

theorem sum_flatten_flatten_map (raw : List (List (List Int))) (T : List (List Int) → List (List Int))
    (h : ∀ fr ∈ raw, (T fr).flatten.sum = fr.flatten.sum) :
    (raw.map T).flatten.flatten.sum = raw.flatten.flatten.sum := by
  induction raw with
  | nil => rfl
  | cons fr rest ih =>
    simp only [List.map_cons, List.flatten_cons, List.flatten_append, List.sum_append]
    rw [h fr (by simp), ih (fun f hf => h f (by simp [hf]))]

/-! ### discarded samples -/

theorem usedData_congr (iw : List Nat) : ∀ (d d' : List Int), d.length = iw.length →
    d'.length = iw.length →
    (∀ i (h1 : i < d.length) (h2 : i < d'.length) (h3 : i < iw.length), iw[i] ≠ 0 → d[i] = d'[i]) →
    usedData d iw = usedData d' iw := by
  induction iw with
  | nil =>
    intro d d' h h' _
    have e1 : d = [] := List.length_eq_zero_iff.mp (by simpa using h)
    have e2 : d' = [] := List.length_eq_zero_iff.mp (by simpa using h')
    rw [e1, e2]
  | cons c cs ih =>
    intro d d' h h' hyp
    cases d with
    | nil => simp at h
    | cons x xs =>
      cases d' with
      | nil => simp at h'
      | cons y ys =>
        have htail := ih xs ys (by simpa using h) (by simpa using h')
          (fun i h1 h2 h3 hne => by
            have := hyp (i + 1) (by simp; omega) (by simp; omega) (by simp; omega)
              (by simpa using hne)
            simpa using this)
        unfold usedData at htail ⊢
        simp only [List.zip_cons_cons, List.filterMap_cons]
        by_cases h0 : c = 0
        · subst h0; simp only [isUsed_zero]; exact htail
        · have hxy : x = y := by
            have := hyp 0 (by simp) (by simp) (by simp) (by simpa using h0)
            simpa using this
          simp only [isUsed_of_ne h0, if_true, hxy, htail]

theorem spec_zeros (iw : List Nat) (acc : Int) :
    pixelsSpecAux acc ((List.replicate iw.length (0 : Int)).zip iw)
      = match iw.count 2 with
        | 0 => []
        | k + 1 => acc :: List.replicate k 0 := by
  induction iw generalizing acc with
  | nil => rfl
  | cons c cs ih =>
    simp only [List.length_cons, List.replicate_succ, List.zip_cons_cons, pixelsSpecAux]
    by_cases h0 : c = 0
    · subst h0
      simp only [if_true]
      rw [ih acc, List.count_cons]; simp
    · rw [if_neg h0]
      by_cases h2 : c = 2
      · subst h2
        simp only [if_true]
        rw [ih 0, List.count_cons]
        simp only [beq_self_eq_true, if_true]
        cases List.count 2 cs with
        | zero => simp
        | succ k => simp [List.replicate_succ]
      · rw [if_neg h2, ih, List.count_cons]
        simp [h2]

/-! ### sequences of queries on one object -/

theorem kymoGetImage_eq (P : Nat) (iw : List Nat) (chan : List Int) :
    kymoGetImage P iw chan = imageOfPixels (.kymo P) (channelPixels iw chan) := by
  unfold kymoGetImage
  cases channelPixels iw chan <;> rfl

theorem scanGetImage_eq (axes : Axes) (iw : List Nat) (chan : List Int) :
    scanGetImage axes iw chan = imageOfPixels (.scan axes) (channelPixels iw chan) := by
  unfold scanGetImage
  cases channelPixels iw chan <;> rfl

/-- Every memoised image is the image the default factory builds from the object's CURRENT start. -/
def Coherent (k : Kind) (iw : List Nat) (ss : Streams) (st : ObjState) : Prop :=
  ∀ c im, lookupImage c st.cache = some im → freshImage k iw (streamOf ss c) st.off = .ok im

theorem coherent_fresh (k : Kind) (iw : List Nat) (ss : Streams) : Coherent k iw ss ObjState.fresh := by
  intro c im h
  simp [ObjState.fresh, lookupImage] at h

/-- `_get_photon_count` either leaves the object alone or replaces `_cache` by an empty dict. -/
theorem photonAccess_cases (k : Kind) (iw : List Nat) (s : Stream) (st st' : ObjState)
    (h : photonAccess k iw s st = .ok st') :
    st' = st ∨ (st'.cache = [] ∧ st'.gen = st.gen + 1) := by
  unfold photonAccess at h
  split at h
  · split at h
    · cases h
    · split at h
      · cases h
      · cases h; right; exact ⟨rfl, rfl⟩
  · cases h; left; rfl

theorem lookupImage_cons (c c' : Nat) (im : Image) (cache : List (Nat × Image)) :
    lookupImage c' ((c, im) :: cache) = if c = c' then some im else lookupImage c' cache := by
  unfold lookupImage
  by_cases h : c = c' <;> simp [h]

theorem queryColour_current (k : Kind) (iw : List Nat) (ss : Streams) (c : Nat) (st : ObjState)
    (h : Coherent k iw ss st) :
    Coherent k iw ss (queryColour k iw (streamOf ss c) c st).1 ∧
    ∀ im, (queryColour k iw (streamOf ss c) c st).2 = .ok im →
      freshImage k iw (streamOf ss c) (queryColour k iw (streamOf ss c) c st).1.off = .ok im := by
  unfold queryColour
  split
  · next im hl => exact ⟨h, fun im' he => by cases he; exact h c im hl⟩
  · split
    · exact ⟨h, fun im he => by cases he⟩
    · next st' hp =>
      have hst' : Coherent k iw ss st' := by
        rcases photonAccess_cases k iw _ st st' hp with rfl | ⟨hc, _⟩
        · exact h
        · intro c' im' hl; rw [hc] at hl; simp [lookupImage] at hl
      split
      · exact ⟨hst', fun im he => by cases he⟩
      · next im hf =>
        refine ⟨?_, fun im' he => ?_⟩
        · split
          · intro c' im' hl
            rw [lookupImage_cons] at hl
            by_cases hcc : c = c'
            · subst hcc; simp at hl; subst hl; exact hf
            · simp [hcc] at hl; exact hst' c' im' hl
          · exact hst'
        · cases he
          split <;> exact hf

theorem queryRgb_coherent (k : Kind) (iw : List Nat) (ss : Streams) (st : ObjState)
    (h : Coherent k iw ss st) : Coherent k iw ss (queryRgb k iw ss st).1 := by
  unfold queryRgb
  have h0 := (queryColour_current k iw ss 0 st h).1
  split
  · next st1 e he => rw [he] at h0; exact h0
  · next st1 r he =>
    rw [he] at h0
    have h1 := (queryColour_current k iw ss 1 st1 h0).1
    split
    · next st2 e he => rw [he] at h1; exact h1
    · next st2 g he =>
      rw [he] at h1
      have h2 := (queryColour_current k iw ss 2 st2 h1).1
      split
      · next st3 e he => rw [he] at h2; exact h2
      · next st3 b he => rw [he] at h2; exact h2

theorem queryShape_coherent (k : Kind) (iw : List Nat) (ss : Streams) (cs : List Nat) (st : ObjState)
    (h : Coherent k iw ss st) : Coherent k iw ss (queryShape k iw ss cs st).1 := by
  induction cs generalizing st with
  | nil => exact h
  | cons c cs ih =>
    unfold queryShape
    have h0 := (queryColour_current k iw ss c st h).1
    split
    · next st1 e he => rw [he] at h0; exact h0
    · next st1 im he =>
      rw [he] at h0
      split
      · exact h0
      · exact ih st1 h0

theorem query_coherent (k : Kind) (iw : List Nat) (ss : Streams) (st : ObjState) (q : Nat)
    (h : Coherent k iw ss st) : Coherent k iw ss (query k iw ss st q).1 := by
  unfold query
  split
  · exact (queryColour_current k iw ss q st h).1
  · split
    · exact queryRgb_coherent k iw ss st h
    · exact queryShape_coherent k iw ss _ st h

/-! ### deepening round D: helpers -/

theorem dropWhile_head_false {α} (p : α → Bool) (l : List α) (y : α) (ys : List α)
    (h : l.dropWhile p = y :: ys) : p y = false := by
  induction l with
  | nil => simp at h
  | cons a l ih =>
    rw [List.dropWhile_cons] at h
    by_cases hp : p a = true
    · rw [if_pos hp] at h; exact ih h
    · rw [if_neg hp] at h; cases h; simpa using hp

theorem mem_takeWhile_true {α} (p : α → Bool) (l : List α) (x : α)
    (h : x ∈ l.takeWhile p) : p x = true := by
  induction l with
  | nil => simp at h
  | cons a l ih =>
    rw [List.takeWhile_cons] at h
    by_cases hp : p a = true
    · rw [if_pos hp] at h
      rcases List.mem_cons.mp h with rfl | h
      · exact hp
      · exact ih h
    · rw [if_neg hp] at h; simp at h

theorem uptoLast_split (s : List Sample) :
    ∃ tail, s = uptoLastBoundary s ++ tail ∧ (∀ x ∈ tail, x.2 ≠ 2) ∧
      (uptoLastBoundary s = [] ∨ ∃ init d, uptoLastBoundary s = init ++ [(d, 2)]) := by
  refine ⟨(s.reverse.takeWhile fun x => x.2 != 2).reverse, ?_, ?_, ?_⟩
  · unfold uptoLastBoundary
    rw [← List.reverse_append, List.takeWhile_append_dropWhile, List.reverse_reverse]
  · intro x hx
    have := mem_takeWhile_true _ _ _ (List.mem_reverse.mp hx)
    simpa using this
  · unfold uptoLastBoundary
    cases h : s.reverse.dropWhile (fun x => x.2 != 2) with
    | nil => left; rfl
    | cons y ys =>
      right
      have hy := dropWhile_head_false _ _ _ _ h
      refine ⟨ys.reverse, y.1, ?_⟩
      have : y.2 = 2 := by simpa using hy
      rw [List.reverse_cons, ← this]

theorem zip_take_min (chan : List Int) (iw : List Nat) :
    (chan.take (min chan.length iw.length)).zip (iw.take (min chan.length iw.length)) = chan.zip iw := by
  induction chan generalizing iw with
  | nil => simp
  | cons c cs ih =>
    cases iw with
    | nil => simp
    | cons i is =>
      simp only [List.length_cons, Nat.succ_min_succ, List.take_succ_cons, List.zip_cons_cons]
      rw [ih]

theorem map_snd_zip_min (chan : List Int) (iw : List Nat) :
    (chan.zip iw).map (·.2) = iw.take (min chan.length iw.length) := by
  induction chan generalizing iw with
  | nil => simp
  | cons c cs ih =>
    cases iw with
    | nil => simp
    | cons i is =>
      simp only [List.length_cons, Nat.succ_min_succ, List.take_succ_cons, List.zip_cons_cons, List.map_cons]
      rw [ih]


/-! ### settled objects: answers do not depend on the history of queries -/

/-- No colour's photon stream starts inside the object's current window (nothing to repair). -/
def Settled (k : Kind) (iw : List Nat) (ss : Streams) (st : ObjState) : Prop :=
  Coherent k iw ss st ∧ ∀ c, startsLate iw.length st.off (streamOf ss c) = false

theorem photonAccess_not_late (k : Kind) (iw : List Nat) (s : Stream) (st : ObjState)
    (h : startsLate iw.length st.off s = false) : photonAccess k iw s st = .ok st := by
  unfold photonAccess
  rw [h]; rfl

theorem queryColour_settled (k : Kind) (iw : List Nat) (ss : Streams) (c : Nat) (st : ObjState)
    (h : Settled k iw ss st) :
    (queryColour k iw (streamOf ss c) c st).2 = freshImage k iw (streamOf ss c) st.off ∧
    (queryColour k iw (streamOf ss c) c st).1.off = st.off ∧
    Settled k iw ss (queryColour k iw (streamOf ss c) c st).1 := by
  have hcoh := (queryColour_current k iw ss c st h.1).1
  have key : (queryColour k iw (streamOf ss c) c st).2 = freshImage k iw (streamOf ss c) st.off ∧
      (queryColour k iw (streamOf ss c) c st).1.off = st.off := by
    unfold queryColour
    split
    · next im hl => exact ⟨(h.1 c im hl).symm, rfl⟩
    · rw [photonAccess_not_late k iw _ st (h.2 c)]
      simp only
      split
      · next e he => exact ⟨he.symm, rfl⟩
      · next im he => exact ⟨he.symm, by split <;> rfl⟩
  refine ⟨key.1, key.2, hcoh, ?_⟩
  intro c'
  rw [key.2]
  exact h.2 c'

theorem queryRgb_settled (k : Kind) (iw : List Nat) (ss : Streams) (st : ObjState)
    (h : Settled k iw ss st) :
    (queryRgb k iw ss st).2 = pureRgb (freshImage k iw (streamOf ss 0) st.off)
      (freshImage k iw (streamOf ss 1) st.off) (freshImage k iw (streamOf ss 2) st.off) ∧
    (queryRgb k iw ss st).1.off = st.off ∧ Settled k iw ss (queryRgb k iw ss st).1 := by
  unfold queryRgb
  obtain ⟨a0, o0, s0⟩ := queryColour_settled k iw ss 0 st h
  split
  · next st1 e he =>
    rw [he] at a0 o0 s0
    simp only at a0 o0 s0
    rw [← a0]
    exact ⟨rfl, o0, s0⟩
  · next st1 r he =>
    rw [he] at a0 o0 s0
    simp only at a0 o0 s0
    obtain ⟨a1, o1, s1⟩ := queryColour_settled k iw ss 1 st1 s0
    rw [o0] at a1
    split
    · next st2 e he =>
      rw [he] at a1 o1 s1
      simp only at a1 o1 s1
      rw [← a0, ← a1]
      exact ⟨rfl, (by show st2.off = st.off; omega), s1⟩
    · next st2 g he =>
      rw [he] at a1 o1 s1
      simp only at a1 o1 s1
      obtain ⟨a2, o2, s2⟩ := queryColour_settled k iw ss 2 st2 s1
      rw [o1, o0] at a2
      split
      · next st3 e he =>
        rw [he] at a2 o2 s2
        simp only at a2 o2 s2
        rw [← a0, ← a1, ← a2]
        exact ⟨rfl, (by show st3.off = st.off; omega), s2⟩
      · next st3 b he =>
        rw [he] at a2 o2 s2
        simp only at a2 o2 s2
        rw [← a0, ← a1, ← a2]
        exact ⟨rfl, (by show st3.off = st.off; omega), s2⟩

theorem queryShape_settled (k : Kind) (iw : List Nat) (ss : Streams) (cs : List Nat) (st : ObjState)
    (h : Settled k iw ss st) :
    (queryShape k iw ss cs st).2 = pureShape (fun c => freshImage k iw (streamOf ss c) st.off) cs ∧
    (queryShape k iw ss cs st).1.off = st.off ∧ Settled k iw ss (queryShape k iw ss cs st).1 := by
  induction cs generalizing st with
  | nil => exact ⟨rfl, rfl, h⟩
  | cons c cs ih =>
    unfold queryShape pureShape
    obtain ⟨a0, o0, s0⟩ := queryColour_settled k iw ss c st h
    split
    · next st1 e he =>
      rw [he] at a0 o0 s0
      simp only at a0 o0 s0
      rw [← a0]
      exact ⟨rfl, o0, s0⟩
    · next st1 im he =>
      rw [he] at a0 o0 s0
      simp only at a0 o0 s0
      rw [← a0]
      simp only
      by_cases hc : im.flat.length ≠ 0 ∨ cs.isEmpty
      · rw [if_pos hc, if_pos hc]; exact ⟨rfl, o0, s0⟩
      · rw [if_neg hc, if_neg hc]
        obtain ⟨a, o, s⟩ := ih st1 s0
        rw [o0] at a
        exact ⟨a, by omega, s⟩

theorem query_settled (k : Kind) (iw : List Nat) (ss : Streams) (st : ObjState) (q : Nat)
    (h : Settled k iw ss st) :
    (query k iw ss st q).2 = pureAnswer k iw ss st.off q ∧
    (query k iw ss st q).1.off = st.off ∧ Settled k iw ss (query k iw ss st q).1 := by
  unfold query pureAnswer
  by_cases h3 : q < 3
  · simp only [if_pos h3]
    obtain ⟨a, o, s⟩ := queryColour_settled k iw ss q st h
    refine ⟨?_, o, s⟩
    rw [a]; rfl
  · simp only [if_neg h3]
    by_cases h4 : q = 3
    · simp only [if_pos h4]
      obtain ⟨a, o, s⟩ := queryRgb_settled k iw ss st h
      refine ⟨?_, o, s⟩
      rw [a]; rfl
    · simp only [if_neg h4]
      obtain ⟨a, o, s⟩ := queryShape_settled k iw ss [0, 1, 2] st h
      refine ⟨?_, o, s⟩
      rw [a]

theorem runSeq_settled (k : Kind) (iw : List Nat) (ss : Streams) (qs : List Nat) (st : ObjState)
    (h : Settled k iw ss st) :
    runSeq k iw ss st qs = qs.map (pureAnswer k iw ss st.off) ∧
    (stateAfter k iw ss st qs).off = st.off := by
  induction qs generalizing st with
  | nil => exact ⟨rfl, rfl⟩
  | cons q qs ih =>
    obtain ⟨a, o, s⟩ := query_settled k iw ss st q h
    obtain ⟨ih1, ih2⟩ := ih _ s
    simp only [runSeq, stateAfter, List.map_cons]
    rw [ih1, ih2, a, o]
    exact ⟨rfl, rfl⟩
theorem first_query_lemma (k : Kind) (iw : List Nat) (s : Stream) (c : Nat) :
    (photonCount iw.length s.lead s.data = none ↔ startsLate iw.length 0 s = true) ∧
    ∀ pc, photonCount iw.length s.lead s.data = some pc →
      (queryColour k iw s c ObjState.fresh).2 = imageOfPixels k (channelPixels iw pc) ∧
      (queryColour k iw s c ObjState.fresh).1.off = 0 := by
  have hsl : (chanSlice iw.length 0 s) =
      if s.lead ≥ 0 then (0, (s.data.drop s.lead.toNat).take iw.length)
      else (s.lead.natAbs, s.data.take (iw.length - s.lead.natAbs)) := by
    unfold chanSlice
    simp
  by_cases hl : s.lead ≥ 0
  · have hnl : startsLate iw.length 0 s = false := by
      unfold startsLate; rw [hsl, if_pos hl]; simp
    have hpc : photonCount iw.length s.lead s.data = some ((s.data.drop s.lead.toNat).take iw.length) := by
      unfold photonCount overlap; rw [if_pos hl]
    refine ⟨by rw [hpc, hnl]; simp, ?_⟩
    intro pc hp
    rw [hpc] at hp; cases hp
    unfold queryColour
    simp only [ObjState.fresh, lookupImage, List.find?_nil, Option.map_none]
    rw [photonAccess_not_late k iw s ⟨0, 0, []⟩ hnl]
    simp only
    have hf : freshImage k iw s 0 = imageOfPixels k (channelPixels iw ((s.data.drop s.lead.toNat).take iw.length)) := by
      unfold freshImage channelPixelsAt
      rw [hsl, if_pos hl]
      simp
    rw [hf]
    cases imageOfPixels k (channelPixels iw ((s.data.drop s.lead.toNat).take iw.length)) with
    | err e => exact ⟨rfl, rfl⟩
    | ok im => exact ⟨rfl, rfl⟩
  · by_cases he : (s.data.take (iw.length - s.lead.natAbs)).length = 0
    · have hnl : startsLate iw.length 0 s = false := by
        unfold startsLate; rw [hsl, if_neg hl]; simp [he]
      have hpc : photonCount iw.length s.lead s.data = some [] := by
        unfold photonCount; rw [if_neg hl, if_pos he]
      refine ⟨by rw [hpc, hnl]; simp, ?_⟩
      intro pc hp
      rw [hpc] at hp; cases hp
      unfold queryColour
      simp only [ObjState.fresh, lookupImage, List.find?_nil, Option.map_none]
      rw [photonAccess_not_late k iw s ⟨0, 0, []⟩ hnl]
      simp only
      have hf : freshImage k iw s 0 = imageOfPixels k (channelPixels iw []) := by
        unfold freshImage channelPixelsAt
        rw [hsl, if_neg hl]
        have : s.data.take (iw.length - s.lead.natAbs) = [] := List.length_eq_zero_iff.mp he
        simp [this]
      rw [hf]
      cases imageOfPixels k (channelPixels iw []) with
      | err e => exact ⟨rfl, rfl⟩
      | ok im => exact ⟨rfl, rfl⟩
    · have hl' : startsLate iw.length 0 s = true := by
        unfold startsLate; rw [hsl, if_neg hl]
        have : s.lead.natAbs ≠ 0 := by omega
        simp only [Bool.and_eq_true, bne_iff_ne]
        exact ⟨he, this⟩
      have hpc : photonCount iw.length s.lead s.data = none := by
        unfold photonCount; rw [if_neg hl, if_neg he]
      refine ⟨by rw [hpc, hl']; simp, ?_⟩
      intro pc hp
      rw [hpc] at hp; cases hp

theorem queryColour_idempotent (k : Kind) (iw : List Nat) (s : Stream) (c : Nat) (st : ObjState) (im : Image)
    (h : (queryColour k iw s c st).2 = .ok im) (hg : (queryColour k iw s c st).1.gen = st.gen) :
    queryColour k iw s c (queryColour k iw s c st).1 = ((queryColour k iw s c st).1, .ok im) := by
  cases hl : lookupImage c st.cache with
  | some im' =>
    have hq : queryColour k iw s c st = (st, .ok im') := by unfold queryColour; rw [hl]
    rw [hq] at h ⊢
    cases h
    exact hq
  | none =>
    cases hp : photonAccess k iw s st with
    | error e =>
      have hq : queryColour k iw s c st = (st, .err e) := by unfold queryColour; rw [hl, hp]
      rw [hq] at h; cases h
    | ok st' =>
      cases hf : freshImage k iw s st'.off with
      | err e =>
        have hq : queryColour k iw s c st = (st', .err e) := by
          unfold queryColour; rw [hl, hp]; simp only; rw [hf]
        rw [hq] at h; cases h
      | ok im' =>
        have hq : queryColour k iw s c st =
            (if st'.gen = st.gen then { st' with cache := (c, im') :: st'.cache } else st', .ok im') := by
          unfold queryColour; rw [hl, hp]; simp only; rw [hf]
        rw [hq] at h hg ⊢
        cases h
        have hgen : st'.gen = st.gen := by
          by_cases hh : st'.gen = st.gen
          · exact hh
          · rw [if_neg hh] at hg; exact absurd hg hh
        simp only [if_pos hgen]
        unfold queryColour
        rw [lookupImage_cons]
        simp

/-! ### deepening round D: `seek_timestamp_next_line` on regular info waves -/


def usedFrom (i : Nat) : List Nat → List (Nat × Nat)
  | [] => []
  | c :: cs => if isUsed c then (c, i) :: usedFrom (i + 1) cs else usedFrom (i + 1) cs

theorem usedIdx_eq (iw : List Nat) : usedIdx iw = usedFrom 0 iw := by
  unfold usedIdx
  suffices h : ∀ i, (iw.zipIdx i).filter (fun x => isUsed x.1) = usedFrom i iw from h 0
  induction iw with
  | nil => intro i; rfl
  | cons c cs ih =>
    intro i
    simp only [List.zipIdx_cons, List.filter_cons, usedFrom]
    by_cases h : isUsed c = true
    · simp [h, ih]
    · simp [h, ih]

theorem usedFrom_append (i : Nat) (a b : List Nat) :
    usedFrom i (a ++ b) = usedFrom i a ++ usedFrom (i + a.length) b := by
  induction a generalizing i with
  | nil => simp [usedFrom]
  | cons c cs ih =>
    simp only [List.cons_append, usedFrom, List.length_cons]
    rw [ih]
    have : i + 1 + cs.length = i + (cs.length + 1) := by omega
    by_cases h : isUsed c = true
    · simp [h, this]
    · simp [h, this]

theorem usedFrom_zeros (i z : Nat) : usedFrom i (List.replicate z 0) = [] := by
  induction z generalizing i with
  | zero => rfl
  | succ z ih => simp [List.replicate_succ, usedFrom, isUsed, ih]

/-- the used samples of one pixel that starts at sample `i` -/
def pixelUsed (i k : Nat) : List (Nat × Nat) :=
  (List.range (k - 1)).map (fun j => (1, i + j)) ++ [(2, i + (k - 1))]

theorem usedFrom_ones (i m : Nat) :
    usedFrom i (List.replicate m 1) = (List.range m).map (fun j => (1, i + j)) := by
  induction m generalizing i with
  | zero => rfl
  | succ m ih =>
    rw [List.replicate_succ, usedFrom, List.range_succ_eq_map]
    simp only [isUsed, ih, List.map_cons, List.map_map]
    simp
    intro a _
    omega

theorem usedFrom_pixel (i k : Nat) : usedFrom i (regPixel k) = pixelUsed i k := by
  unfold regPixel pixelUsed
  rw [usedFrom_append, usedFrom_ones]
  simp [usedFrom, isUsed]

theorem regPixel_length (k : Nat) (hk : 1 ≤ k) : (regPixel k).length = k := by
  unfold regPixel; simp; omega

/-- start samples of the pixels of one line that starts at `s` -/
def lineStarts (k : Nat) : Nat → Nat → List Nat
  | _, 0 => []
  | s, P + 1 => s :: lineStarts k (s + k) P

/-- start samples of all pixels of `n` lines, the first line starting at `s` -/
def regStarts (k d P : Nat) : Nat → Nat → List Nat
  | _, 0 => []
  | s, n + 1 => lineStarts k s P ++ regStarts k d P (s + P * k + d) n

def usedOf (k : Nat) (starts : List Nat) : List (Nat × Nat) := (starts.map (pixelUsed · k)).flatten

theorem regLine_length (k : Nat) (hk : 1 ≤ k) (P : Nat) : (regLine k P).length = P * k := by
  induction P with
  | zero => simp [regLine]
  | succ P ih => simp only [regLine, List.length_append, ih, regPixel_length k hk, Nat.succ_mul]; omega

theorem usedFrom_line (k : Nat) (hk : 1 ≤ k) (P s : Nat) :
    usedFrom s (regLine k P) = usedOf k (lineStarts k s P) := by
  induction P generalizing s with
  | zero => rfl
  | succ P ih =>
    simp only [regLine, lineStarts, usedOf, List.map_cons, List.flatten_cons]
    rw [usedFrom_append, usedFrom_pixel, regPixel_length k hk, ih]
    rfl

theorem usedOf_append (k : Nat) (a b : List Nat) : usedOf k (a ++ b) = usedOf k a ++ usedOf k b := by
  simp [usedOf]

theorem usedFrom_lines (k d P : Nat) (hk : 1 ≤ k) (n s : Nat) :
    usedFrom s (regLines k d P n) = usedOf k (regStarts k d P s n) := by
  induction n generalizing s with
  | zero => rfl
  | succ n ih =>
    simp only [regLines, regStarts]
    rw [usedFrom_append, usedFrom_line k hk, usedFrom_append, usedFrom_zeros, List.nil_append,
      regLine_length k hk, List.length_replicate, ih, usedOf_append]

theorem usedIdx_regWave (lead k d P n : Nat) (hk : 1 ≤ k) :
    usedIdx (regWave lead k d P n) = usedOf k (regStarts k d P lead n) := by
  rw [usedIdx_eq]
  unfold regWave
  rw [usedFrom_append, usedFrom_zeros, List.nil_append, List.length_replicate, usedFrom_lines k d P hk]
  simp

/-! afterBoundary on a concatenation of pixels -/

theorem afterBoundary_ones (i m : Nat) (y : Nat × Nat) (rest : List (Nat × Nat)) :
    afterBoundary ((List.range m).map (fun j => (1, i + j)) ++ y :: rest) = afterBoundary (y :: rest) := by
  induction m generalizing i with
  | zero => rfl
  | succ m ih =>
    rw [List.range_succ_eq_map]
    simp only [List.map_cons, List.map_map, List.cons_append]
    have hm : (List.map ((fun j => ((1 : Nat), i + j)) ∘ Nat.succ) (List.range m))
        = (List.range m).map (fun j => (1, (i + 1) + j)) := by
      apply List.map_congr_left; intro a _; simp; omega
    rw [hm]
    cases m with
    | zero => simp [afterBoundary]
    | succ m' =>
      rw [List.range_succ_eq_map]
      simp only [List.map_cons, List.cons_append, afterBoundary]
      simp only [show ((1 : Nat) = 2) = False by simp, if_false]
      have := ih (i + 1)
      rw [List.range_succ_eq_map] at this
      simpa using this

theorem afterBoundary_pixel (i k : Nat) (y : Nat × Nat) (rest : List (Nat × Nat)) :
    afterBoundary (pixelUsed i k ++ y :: rest) = y.2 :: afterBoundary (y :: rest) := by
  unfold pixelUsed
  rw [List.append_assoc, List.singleton_append, afterBoundary_ones]
  simp [afterBoundary]

theorem afterBoundary_pixel_end (i k : Nat) : afterBoundary (pixelUsed i k) = [] := by
  unfold pixelUsed
  have := afterBoundary_ones i (k - 1) (2, i + (k - 1)) []
  rw [this]; rfl

theorem pixelUsed_head (i k : Nat) (_hk : 1 ≤ k) : ∃ c rest, pixelUsed i k = (c, i) :: rest := by
  unfold pixelUsed
  cases hk1 : k - 1 with
  | zero => exact ⟨2, [], by simp⟩
  | succ m => exact ⟨1, _, by rw [List.range_succ_eq_map]; simp; rfl⟩

theorem afterBoundary_usedOf (k : Nat) (hk : 1 ≤ k) (s : Nat) (starts : List Nat) :
    afterBoundary (usedOf k (s :: starts)) = starts := by
  induction starts generalizing s with
  | nil => simp [usedOf, afterBoundary_pixel_end]
  | cons t ts ih =>
    have hu : usedOf k (s :: t :: ts) = pixelUsed s k ++ usedOf k (t :: ts) := by simp [usedOf]
    obtain ⟨c, rest, hc⟩ : ∃ c rest, usedOf k (t :: ts) = (c, t) :: rest := by
      obtain ⟨c, r, h⟩ := pixelUsed_head t k hk
      exact ⟨c, r ++ usedOf k ts, by simp [usedOf, h]⟩
    rw [hu, hc, afterBoundary_pixel, ← hc, ih]

theorem usedOf_getLast (k : Nat) (s : Nat) (starts : List Nat) :
    ∃ j, (usedOf k (s :: starts)).getLast? = some (2, j) := by
  induction starts generalizing s with
  | nil => exact ⟨s + (k - 1), by simp [usedOf, pixelUsed]⟩
  | cons t ts ih =>
    obtain ⟨j, hj⟩ := ih t
    refine ⟨j, ?_⟩
    have hu : usedOf k (s :: t :: ts) = pixelUsed s k ++ usedOf k (t :: ts) := by simp [usedOf]
    rw [hu, List.getLast?_append, hj]
    rfl

theorem pixelStarts_regular (iw : List Nat) (k : Nat) (hk : 1 ≤ k) (s : Nat) (starts : List Nat)
    (h : usedIdx iw = usedOf k (s :: starts)) : pixelStarts iw = starts := by
  unfold pixelStarts
  simp only [h]
  obtain ⟨j, hj⟩ := usedOf_getLast k s starts
  rw [hj, afterBoundary_usedOf k hk]
  rfl

theorem lineStarts_length (k s m : Nat) : (lineStarts k s m).length = m := by
  induction m generalizing s with
  | zero => rfl
  | succ m ih => simp [lineStarts, ih]

theorem diffsI_line (k a m : Nat) : diffsI (lineStarts k a (m + 1)) = List.replicate m (k : Int) := by
  induction m generalizing a with
  | zero => rfl
  | succ m ih =>
    have := ih (a + k)
    simp only [lineStarts] at this ⊢
    simp only [diffsI, this, List.replicate_succ]
    congr 1
    omega

theorem diffsI_line_append (k a m b : Nat) (r : List Nat) :
    diffsI (lineStarts k a (m + 1) ++ b :: r)
      = List.replicate m (k : Int) ++ ((b : Int) - ((a + m * k : Nat) : Int)) :: diffsI (b :: r) := by
  induction m generalizing a with
  | zero => simp [lineStarts, diffsI]
  | succ m ih =>
    have := ih (a + k)
    simp only [lineStarts, List.cons_append] at this ⊢
    simp only [diffsI, this, List.replicate_succ, List.cons_append]
    congr 2
    · omega
    · congr 2
      rw [Nat.succ_mul]; omega

theorem regStarts_head (k d P s n : Nat) :
    ∃ r, regStarts k d (P + 1) s (n + 1) = s :: r := by
  simp [regStarts, lineStarts]

theorem diffsI_reg_mem (k d P : Nat) (n s : Nat) :
    ∀ x ∈ diffsI (regStarts k d (P + 1) s n), x = (k : Int) ∨ x = (k : Int) + d := by
  induction n generalizing s with
  | zero => intro x hx; simp [regStarts, diffsI] at hx
  | succ n ih =>
    intro x hx
    cases n with
    | zero =>
      simp only [regStarts, List.append_nil] at hx
      rw [diffsI_line] at hx
      left; exact (List.mem_replicate.mp hx).2
    | succ n =>
      obtain ⟨r, hr⟩ := regStarts_head k d P (s + (P + 1) * k + d) n
      have ih' := ih (s + (P + 1) * k + d)
      rw [regStarts, hr, diffsI_line_append] at hx
      rw [hr] at ih'
      rcases List.mem_append.mp hx with h | h
      · left; exact (List.mem_replicate.mp h).2
      · rcases List.mem_cons.mp h with h | h
        · right; rw [h, Nat.succ_mul]; omega
        · exact ih' x h

theorem foldl_max_eq (l : List Int) (init M : Int) (hinit : init ≤ M) (hall : ∀ x ∈ l, x ≤ M)
    (hmem : init = M ∨ M ∈ l) : l.foldl max init = M := by
  induction l generalizing init with
  | nil => rcases hmem with h | h; exact h; simp at h
  | cons a l ih =>
    simp only [List.foldl_cons]
    have ha := hall a (by simp)
    apply ih
    · omega
    · exact fun x hx => hall x (by simp [hx])
    · rcases hmem with h | h
      · left; omega
      · rcases List.mem_cons.mp h with h | h
        · left; omega
        · right; exact h

theorem foldl_min_eq (l : List Int) (init m : Int) (hinit : m ≤ init) (hall : ∀ x ∈ l, m ≤ x)
    (hmem : init = m ∨ m ∈ l) : l.foldl min init = m := by
  induction l generalizing init with
  | nil => rcases hmem with h | h; exact h; simp at h
  | cons a l ih =>
    simp only [List.foldl_cons]
    have ha := hall a (by simp)
    apply ih
    · omega
    · exact fun x hx => hall x (by simp [hx])
    · rcases hmem with h | h
      · left; omega
      · rcases List.mem_cons.mp h with h | h
        · left; omega
        · right; exact h

theorem findIdx_replicate (p : Int → Bool) (m : Nat) (x y : Int) (r : List Int) (hx : p x = false)
    (hy : p y = true) : (List.replicate m x ++ y :: r).findIdx? p = some m := by
  induction m with
  | zero => simp [List.findIdx?_cons, hy]
  | succ m ih => simp [List.replicate_succ, List.findIdx?_cons, hx, ih]

/-- the threshold logic of `seek_timestamp_next_line` on a list of pixel starts whose distances are `m` short
    ones, then a long one, then short and long ones with at least one short one -/
theorem seek_threshold (iw : List Nat) (ps : List Nat) (hps : pixelStarts iw = ps) (m : Nat) (k d : Int)
    (hd : 1 ≤ d) (R : List Int) (hds : diffsI ps = List.replicate m k ++ (k + d) :: R)
    (hR : ∀ x ∈ R, x = k ∨ x = k + d) (hk : m ≠ 0 ∨ k ∈ R) :
    seekNextLine iw = ps[m + 1]? := by
  unfold seekNextLine
  simp only [hps, hds]
  have hne : (List.replicate m k ++ (k + d) :: R).isEmpty = false := by
    cases m <;> simp [List.replicate_succ]
  rw [hne]
  simp only [Bool.false_eq_true, if_false]
  have hall : ∀ x ∈ List.replicate m k ++ (k + d) :: R, k ≤ x ∧ x ≤ k + d := by
    intro x hx
    rcases List.mem_append.mp hx with h | h
    · have := (List.mem_replicate.mp h).2; omega
    · rcases List.mem_cons.mp h with h | h
      · omega
      · rcases hR x h with h | h <;> omega
  have hhead : ∀ x, (List.replicate m k ++ (k + d) :: R).headD 0 = x → k ≤ x ∧ x ≤ k + d := by
    intro x hx
    apply hall
    cases m with
    | zero => simp at hx; simp [← hx]
    | succ m => simp [List.replicate_succ] at hx; simp [← hx, List.replicate_succ]
  have hmax : (List.replicate m k ++ (k + d) :: R).foldl max ((List.replicate m k ++ (k + d) :: R).headD 0) = k + d :=
    foldl_max_eq _ _ _ (hhead _ rfl).2 (fun x hx => (hall x hx).2) (Or.inr (by simp))
  have hmin : (List.replicate m k ++ (k + d) :: R).foldl min ((List.replicate m k ++ (k + d) :: R).headD 0) = k := by
    apply foldl_min_eq _ _ _ (hhead _ rfl).1 (fun x hx => (hall x hx).1)
    rcases hk with h | h
    · left
      obtain ⟨m', rfl⟩ : ∃ m', m = m' + 1 := ⟨m - 1, by omega⟩
      simp [List.replicate_succ]
    · right; simp [h]
  rw [hmax, hmin]
  rw [findIdx_replicate _ m k (k + d) R (by simp; omega) (by simp; omega)]
  rfl

theorem seek_regular (lead k d P n : Nat) (hk : 1 ≤ k) (hd : 1 ≤ d) :
    seekNextLine (regWave lead k d (P + 2) (n + 2)) = some (lead + (P + 2) * k + d) := by
  let s' := lead + (P + 2) * k + d
  obtain ⟨r, hr⟩ := regStarts_head k d (P + 1) s' n
  have hstarts : regStarts k d (P + 2) lead (n + 2)
      = lead :: (lineStarts k (lead + k) (P + 1) ++ s' :: r) := by
    rw [regStarts, hr]; rfl
  have hps := pixelStarts_regular (regWave lead k d (P + 2) (n + 2)) k hk lead _
    (by rw [usedIdx_regWave lead k d (P + 2) (n + 2) hk, hstarts])
  have hmem := diffsI_reg_mem k d (P + 1) (n + 1) s'
  rw [hr] at hmem
  -- the second line begins with two pixel starts `k` apart
  have hk_in : (k : Int) ∈ diffsI (s' :: r) := by
    have : ∃ r', r = (s' + k) :: r' := by
      have h2 : regStarts k d (P + 2) s' (n + 1) = s' :: (s' + k) :: (lineStarts k (s' + k + k) P ++
          regStarts k d (P + 2) (s' + (P + 2) * k + d) n) := by
        simp [regStarts, lineStarts]
      rw [h2] at hr
      exact ⟨_, (List.cons.inj hr).2.symm⟩
    obtain ⟨r', rfl⟩ := this
    simp only [diffsI, List.mem_cons]
    left; omega
  have hth := seek_threshold _ _ hps P (k : Int) (d : Int) (by omega) (diffsI (s' :: r))
    (by
      rw [diffsI_line_append]
      congr 2
      show ((s' : Nat) : Int) - _ = _
      simp only [s', Nat.succ_mul]
      omega)
    hmem (Or.inr hk_in)
  rw [hth, List.getElem?_append_right (by rw [lineStarts_length]; omega), lineStarts_length]
  simp [s']

theorem carry_zip_zeros (d : Nat) (D : List Int) (acc : Int) :
    carry acc (D.zip (List.replicate d 0)) = acc := by
  induction d generalizing D with
  | zero => simp [carry]
  | succ d ih =>
    cases D with
    | nil => simp [carry]
    | cons x D => simp [List.replicate_succ, carry, ih]

theorem carry_zip_clean (A1 : List Nat) (d : Nat) (D : List Int) (acc : Int)
    (h : D.length = (A1 ++ 2 :: List.replicate d 0).length) :
    carry acc (D.zip (A1 ++ 2 :: List.replicate d 0)) = 0 := by
  induction A1 generalizing D acc with
  | nil =>
    cases D with
    | nil => simp at h
    | cons x D => simp [carry, carry_zip_zeros]
  | cons c A1 ih =>
    cases D with
    | nil => simp at h
    | cons x D =>
      have h' : D.length = (A1 ++ 2 :: List.replicate d 0).length := by simpa using h
      simp only [List.cons_append, List.zip_cons_cons, carry]
      split
      · exact ih D acc h'
      · split
        · exact ih D 0 h'
        · exact ih D _ h'

theorem regLine_ends (k m : Nat) : ∃ init, regLine k (m + 1) = init ++ [2] := by
  induction m with
  | zero => exact ⟨List.replicate (k - 1) 1, by simp [regLine, regPixel]⟩
  | succ m ih =>
    obtain ⟨init, hi⟩ := ih
    exact ⟨regPixel k ++ init, by rw [regLine, hi, List.append_assoc]⟩

theorem regLine_count (k m : Nat) : (regLine k m).count 2 = m := by
  induction m with
  | zero => rfl
  | succ m ih =>
    rw [regLine, List.count_append, ih]
    unfold regPixel
    rw [List.count_append, List.count_replicate]
    simp
    omega

/-- the first line of a regular wave with its lead-in and the dead time behind it, and the rest -/
theorem regWave_split (lead k d P n : Nat) :
    regWave lead k d P (n + 1) =
      (List.replicate lead 0 ++ regLine k P ++ List.replicate d 0) ++ regLines k d P n := by
  simp [regWave, regLines, List.append_assoc]

theorem pixels_after_first_line_aux (lead k d P n : Nat) (hk : 1 ≤ k) (data : List Int)
    (h : data.length = (regWave lead k d (P + 1) (n + 1)).length) :
    pixelsSpec (data.drop (lead + (P + 1) * k + d)) ((regWave lead k d (P + 1) (n + 1)).drop (lead + (P + 1) * k + d))
      = (pixelsSpec data (regWave lead k d (P + 1) (n + 1))).drop (P + 1) := by
  have hlenA : (List.replicate lead 0 ++ regLine k (P + 1) ++ List.replicate d 0).length = lead + (P + 1) * k + d := by
    simp [regLine_length k hk]; omega
  rw [regWave_split] at h ⊢
  generalize hA : List.replicate lead 0 ++ regLine k (P + 1) ++ List.replicate d 0 = A at hlenA h
  generalize regLines k d (P + 1) n = B at h
  rw [← hlenA, List.drop_left' rfl]
  unfold pixelsSpec
  have hz : data.zip (A ++ B) = (data.take A.length).zip A ++ (data.drop A.length).zip B := by
    conv => lhs; rw [← List.take_append_drop A.length data]
    rw [List.zip_append]
    simp at h ⊢; omega
  rw [hz, spec_append]
  have hDl : (data.take A.length).length = A.length := by simp at h ⊢; omega
  have hcarry : carry 0 ((data.take A.length).zip A) = 0 := by
    obtain ⟨init, hi⟩ := regLine_ends k P
    have hA' : A = (List.replicate lead 0 ++ init) ++ 2 :: List.replicate d 0 := by
      rw [← hA, hi]; simp [List.append_assoc]
    rw [hA'] at hDl ⊢
    exact carry_zip_clean _ d _ 0 hDl
  have hcount : (pixelsSpecAux 0 ((data.take A.length).zip A)).length = P + 1 := by
    rw [spec_length, List.map_snd_zip (by omega), ← hA]
    simp [List.count_append, regLine_count, List.count_replicate]
  rw [hcarry, ← hcount, List.drop_left' rfl]

theorem not_late_of_rel_nonneg (n off : Nat) (s : Stream) (h : 0 ≤ s.lead + (off : Int)) :
    startsLate n off s = false := by
  unfold startsLate chanSlice
  simp [h]

theorem first_line_repair_lemma (Pp lead k d P n : Nat) (hk : 1 ≤ k) (hd : 1 ≤ d) (ss : Streams) (c : Nat)
    (hlate : startsLate (regWave lead k d (P + 2) (n + 2)).length 0 (streamOf ss c) = true)
    (hin : ∀ c', 0 ≤ (streamOf ss c').lead + ((lead + (P + 2) * k + d : Nat) : Int)) :
    (queryColour (.kymo Pp) (regWave lead k d (P + 2) (n + 2)) (streamOf ss c) c ObjState.fresh).1
      = ⟨lead + (P + 2) * k + d, 1, []⟩ ∧
    Settled (.kymo Pp) (regWave lead k d (P + 2) (n + 2)) ss ⟨lead + (P + 2) * k + d, 1, []⟩ := by
  constructor
  · have hpa : photonAccess (.kymo Pp) (regWave lead k d (P + 2) (n + 2)) (streamOf ss c) ObjState.fresh
        = .ok ⟨lead + (P + 2) * k + d, 1, []⟩ := by
      unfold photonAccess
      simp only [ObjState.fresh, hlate, if_true, isScan, List.drop_zero, Bool.false_eq_true, if_false]
      rw [seek_regular lead k d P n hk hd]
      simp
    unfold queryColour
    simp only [ObjState.fresh, lookupImage, List.find?_nil, Option.map_none]
    simp only [ObjState.fresh] at hpa
    rw [hpa]
    simp only
    split
    · rfl
    · simp
  · refine ⟨?_, fun c' => not_late_of_rel_nonneg _ _ _ (hin c')⟩
    intro c' im hl
    simp [lookupImage] at hl

theorem regLines_count_pos (k d P n : Nat) : (regLines k d (P + 1) (n + 1)).count 2 ≠ 0 := by
  rw [regLines, List.count_append, regLine_count]
  omega


/-! ### deepening round D: index form of the sample-to-pixel assignment -/

theorem sum_map_const_zero' {α} (l : List α) (f : α → Int) (h : ∀ a ∈ l, f a = 0) : (l.map f).sum = 0 := by
  induction l with
  | nil => rfl
  | cons a l ih =>
    simp only [List.map_cons, List.sum_cons]
    rw [h a (by simp), ih (fun b hb => h b (by simp [hb]))]
    rfl

theorem assignedRaw_cons (x : Int) (xs : List Int) (c : Nat) (cs : List Nat) (j : Nat) :
    assignedRaw (x :: xs) (c :: cs) j =
      (if c ≠ 0 ∧ j = 0 then x else 0) +
      (if c = 2 then (if j = 0 then 0 else assignedRaw xs cs (j - 1)) else assignedRaw xs cs j) := by
  unfold assignedRaw
  rw [List.length_cons, List.range_succ_eq_map, List.map_cons, List.sum_cons, List.map_map]
  congr 1
  · simp [pixelOfSample, eq_comm]
  · by_cases h2 : c = 2
    · subst h2
      simp only [if_true]
      by_cases hj : j = 0
      · subst hj
        simp only [if_true]
        apply sum_map_const_zero' 
        intro i _
        simp [pixelOfSample]
      · rw [if_neg hj]
        congr 1
        apply List.map_congr_left
        intro i _
        simp only [Function.comp, List.getD_cons_succ, pixelOfSample, List.take_succ_cons, List.count_cons,
          beq_self_eq_true, if_true]
        have : ((cs.take i).count 2 + 1 = j) ↔ ((cs.take i).count 2 = j - 1) := by omega
        simp only [this]
        rfl
    · rw [if_neg h2]
      congr 1
      apply List.map_congr_left
      intro i _
      simp only [Function.comp, List.getD_cons_succ, pixelOfSample, List.take_succ_cons, List.count_cons]
      have : (c == 2) = false := by simp [h2]
      simp [this]

theorem spec_getD_assigned (iw : List Nat) : ∀ (data : List Int) (acc : Int) (j : Nat), data.length = iw.length →
    (pixelsSpecAux acc (data.zip iw)).getD j 0
      = (if j = 0 ∧ 0 < iw.count 2 then acc else 0) + assignedSum data iw j := by
  induction iw with
  | nil =>
    intro data acc j h
    simp [pixelsSpecAux, assignedSum]
  | cons c cs ih =>
    intro data acc j h
    cases data with
    | nil => simp at h
    | cons x xs =>
      have h' : xs.length = cs.length := by simpa using h
      unfold assignedSum
      rw [assignedRaw_cons, List.zip_cons_cons, pixelsSpecAux, List.count_cons]
      by_cases h0 : c = 0
      · subst h0
        simp only [if_true]
        rw [ih xs acc j h']
        unfold assignedSum
        simp
      · simp only [h0, if_false]
        by_cases h2 : c = 2
        · subst h2
          simp only [if_true, beq_self_eq_true]
          cases j with
          | zero => simp
          | succ j' =>
            rw [List.getD_cons_succ, ih xs 0 j' h']
            unfold assignedSum
            simp
        · simp only [h2, if_false]
          rw [ih xs (acc + x) j h']
          unfold assignedSum
          have : (c == 2) = false := by simp [h2]
          simp only [this, Bool.false_eq_true, if_false, Nat.add_zero]
          by_cases hj : j = 0
          · subst hj
            by_cases hc : 0 < cs.count 2
            · simp only [hc, and_self, if_true, h0, ne_eq, not_false_eq_true]; omega
            · simp [hc]
          · simp [hj]

/-! ### scans: the memoised metadata frame count (round H) -/

theorem numFrames_idem (mf : Nat) (iw : List Nat) (P L : Nat) :
    numFrames (numFrames mf iw P L) iw P L = numFrames mf iw P L := by
  unfold numFrames
  by_cases h : mf = 0
  · subst h; simp
  · simp [h]

theorem queryNumFrames_eq (axes : Axes) (iw : List Nat) (mf : Nat) :
    queryNumFrames axes iw mf = (numFrames mf iw (pixelsPerLine axes) (linesPerFrame axes),
      numFrames mf iw (pixelsPerLine axes) (linesPerFrame axes)) := by
  unfold queryNumFrames numFrames
  split <;> rfl

theorem queryScanShape_eq (axes : Axes) (iw : List Nat) (mf : Nat) :
    queryScanShape axes iw mf = (numFrames mf iw (pixelsPerLine axes) (linesPerFrame axes), scanShape axes mf iw) := by
  unfold queryScanShape scanShape
  rw [queryNumFrames_eq]

/-- the metadata value changes only from 0 to the reconstructed count: what `num_frames` returns stays the same -/
theorem scanQuery_numFrames (axes : Axes) (iw : List Nat) (ss : Streams) (st : ScanState) (q : Nat) :
    numFrames (scanQuery axes iw ss st q).1.mf iw (pixelsPerLine axes) (linesPerFrame axes)
      = numFrames st.mf iw (pixelsPerLine axes) (linesPerFrame axes) := by
  unfold scanQuery
  split
  · simp only [queryScanShape_eq, numFrames_idem]
  · split
    · simp only [queryNumFrames_eq, numFrames_idem]
    · rfl

theorem scanStateAfter_numFrames (axes : Axes) (iw : List Nat) (ss : Streams) (qs : List Nat) (st : ScanState) :
    numFrames (scanStateAfter axes iw ss st qs).mf iw (pixelsPerLine axes) (linesPerFrame axes)
      = numFrames st.mf iw (pixelsPerLine axes) (linesPerFrame axes) := by
  induction qs generalizing st with
  | nil => rfl
  | cons q qs ih =>
    simp only [scanStateAfter]
    rw [ih, scanQuery_numFrames]

theorem scanShape_congr (axes : Axes) (iw : List Nat) (a b : Nat)
    (h : numFrames a iw (pixelsPerLine axes) (linesPerFrame axes) = numFrames b iw (pixelsPerLine axes) (linesPerFrame axes)) :
    scanShape axes a iw = scanShape axes b iw := by
  unfold scanShape
  simp only [h]

end Verif.C02
