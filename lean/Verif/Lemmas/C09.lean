/-
  C09 — helper lemmas for the MSD / diffusion-estimator model (`Verif.Model.C09`).
-/
import Verif.Model.C09
import Mathlib.Tactic.Ring
import Mathlib.Tactic.FieldSimp
import Mathlib.Tactic.Linarith
import Mathlib.Tactic.LinearCombination
import Mathlib.Algebra.Order.Field.Rat

namespace Verif.C09
open Verif.Py

/-! ### list sums over `Rat` -/

theorem sum_map_mul_left (c : Rat) (l : List Rat) : (l.map (c * ·)).sum = c * l.sum := by
  induction l with
  | nil => simp
  | cons x t ih => simp only [List.map_cons, List.sum_cons, ih]; ring

theorem sum_map_mul_left' {α} (c : Rat) (f : α → Rat) (l : List α) :
    (l.map fun x => c * f x).sum = c * (l.map f).sum := by
  induction l with
  | nil => simp
  | cons x t ih => simp only [List.map_cons, List.sum_cons, ih]; ring

theorem sum_map_add {α} (f g : α → Rat) (l : List α) :
    (l.map fun x => f x + g x).sum = (l.map f).sum + (l.map g).sum := by
  induction l with
  | nil => simp
  | cons x t ih => simp only [List.map_cons, List.sum_cons, ih]; ring

theorem sum_map_const {α} (c : Rat) (l : List α) : (l.map fun _ => c).sum = (l.length : Rat) * c := by
  induction l with
  | nil => simp
  | cons x t ih => simp only [List.map_cons, List.sum_cons, ih, List.length_cons]; push_cast; ring

theorem sum_nonneg_of {α} (f : α → Rat) (l : List α) (h : ∀ x ∈ l, 0 ≤ f x) : 0 ≤ (l.map f).sum := by
  induction l with
  | nil => simp
  | cons x t ih =>
    simp only [List.map_cons, List.sum_cons]
    have h1 := h x (by simp)
    have h2 := ih (fun y hy => h y (by simp [hy]))
    linarith

theorem mean_map_mul_left (c : Rat) (l : List Rat) : mean (l.map (c * ·)) = c * mean l := by
  unfold mean; rw [sum_map_mul_left, List.length_map]; ring

/-! ### `np.unique` -/

theorem mem_insertU (x y : Int) (l : List Int) : y ∈ insertU x l ↔ y = x ∨ y ∈ l := by
  induction l with
  | nil => simp [insertU]
  | cons z zs ih =>
    unfold insertU
    split
    · simp
    · split
      · rename_i h; subst h; simp
      · simp only [List.mem_cons, ih]
        constructor
        · rintro (h | h | h) <;> simp [h]
        · rintro (h | h | h) <;> simp [h]

theorem mem_uniqueSorted (y : Int) (l : List Int) : y ∈ uniqueSorted l ↔ y ∈ l := by
  induction l with
  | nil => simp [uniqueSorted]
  | cons x t ih =>
    have : uniqueSorted (x :: t) = insertU x (uniqueSorted t) := rfl
    rw [this, mem_insertU, ih]; simp

theorem insertU_sorted (x : Int) (l : List Int) (h : l.Pairwise (· < ·)) :
    (insertU x l).Pairwise (· < ·) := by
  induction l with
  | nil => simp [insertU]
  | cons z zs ih =>
    rw [List.pairwise_cons] at h
    unfold insertU
    split
    · rename_i hxz
      rw [List.pairwise_cons]
      refine ⟨?_, List.pairwise_cons.mpr h⟩
      intro a ha
      rcases List.mem_cons.mp ha with rfl | ha
      · exact hxz
      · have := h.1 a ha; omega
    · split
      · exact List.pairwise_cons.mpr h
      · rename_i h1 h2
        rw [List.pairwise_cons]
        refine ⟨?_, ih h.2⟩
        intro a ha
        rcases (mem_insertU x a zs).mp ha with rfl | ha
        · omega
        · exact h.1 a ha

theorem uniqueSorted_sorted (l : List Int) : (uniqueSorted l).Pairwise (· < ·) := by
  induction l with
  | nil => simp [uniqueSorted]
  | cons x t ih => exact insertU_sorted x _ ih

/-- two strictly increasing lists with the same members are equal -/
theorem sorted_ext : ∀ (l₁ l₂ : List Int), l₁.Pairwise (· < ·) → l₂.Pairwise (· < ·) →
    (∀ x, x ∈ l₁ ↔ x ∈ l₂) → l₁ = l₂
  | [], [], _, _, _ => rfl
  | [], b :: _, _, _, h => by have := (h b).mpr (by simp); simp at this
  | a :: _, [], _, _, h => by have := (h a).mp (by simp); simp at this
  | a :: l₁, b :: l₂, h₁, h₂, h => by
    rw [List.pairwise_cons] at h₁ h₂
    have hab : a = b := by
      have ha := (h a).mp (by simp)
      have hb := (h b).mpr (by simp)
      rcases List.mem_cons.mp ha with e | ha'
      · exact e
      · rcases List.mem_cons.mp hb with e | hb'
        · exact e.symm
        · have := h₂.1 a ha'; have := h₁.1 b hb'; omega
    subst hab
    congr 1
    apply sorted_ext l₁ l₂ h₁.2 h₂.2
    intro x
    constructor
    · intro hx
      have := (h x).mp (by simp [hx])
      rcases List.mem_cons.mp this with e | h'
      · have := h₁.1 x hx; omega
      · exact h'
    · intro hx
      have := (h x).mpr (by simp [hx])
      rcases List.mem_cons.mp this with e | h'
      · have := h₂.1 x hx; omega
      · exact h'

theorem uniqueSorted_of_sorted (l₁ l₂ : List Int) (h : l₂.Pairwise (· < ·))
    (hm : ∀ x, x ∈ l₁ ↔ x ∈ l₂) : uniqueSorted l₁ = l₂ :=
  sorted_ext _ _ (uniqueSorted_sorted l₁) h (fun x => by rw [mem_uniqueSorted, hm])

/-! ### the mesh of ordered pairs -/

/-- SPECIFICATION side: the pairs (earlier point, later point), each unordered pair once. -/
def meshUp : List Pt → List (Int × Rat)
  | [] => []
  | a :: r => r.map (pair a) ++ meshUp r

theorem mesh_cons (a : Pt) (r : List Pt) :
    mesh (a :: r) = (pair a a :: r.map (pair a)) ++ r.flatMap fun b => pair b a :: r.map (pair b) := by
  simp [mesh, List.flatMap_cons]

theorem filter_rows_drop_head (p : Int × Rat → Bool) (a : Pt) (s r : List Pt)
    (h : ∀ b ∈ r, p (pair b a) = false) :
    (r.flatMap fun b => pair b a :: s.map (pair b)).filter p
      = (r.flatMap fun b => s.map (pair b)).filter p := by
  induction r with
  | nil => simp
  | cons b r ih =>
    simp only [List.flatMap_cons, List.filter_append]
    rw [ih (fun c hc => h c (by simp [hc])), List.filter_cons]
    simp [h b (by simp)]

/-- For strictly increasing frames and a positive lag the boolean selection on the full `N × N` mesh
    picks exactly the (earlier, later) pairs with that frame difference, in the same order. -/
theorem filter_mesh_eq_meshUp (t : List Pt) (h : t.Pairwise fun a b => a.1 < b.1) (δ : Int) (hδ : 0 < δ) :
    (mesh t).filter (fun p => p.1 == δ) = (meshUp t).filter (fun p => p.1 == δ) := by
  induction t with
  | nil => rfl
  | cons a r ih =>
    rw [List.pairwise_cons] at h
    rw [mesh_cons, List.filter_append, meshUp, List.filter_append]
    have h0 : ((pair a a).1 == δ) = false := by
      simp [pair]; omega
    rw [List.filter_cons]
    simp only [h0, Bool.false_eq_true, if_false]
    congr 1
    rw [filter_rows_drop_head _ a r r]
    · exact ih h.2
    · intro b hb
      have := h.1 b hb
      simp [pair]; omega

theorem mem_mesh (t : List Pt) (p : Int × Rat) :
    p ∈ mesh t ↔ ∃ a ∈ t, ∃ b ∈ t, pair a b = p := by
  simp [mesh, List.mem_flatMap, List.mem_map]

theorem mem_lagsAll (t : List Pt) (δ : Int) :
    δ ∈ lagsAll t ↔ 0 < δ ∧ ∃ a ∈ t, ∃ b ∈ t, b.1 - a.1 = δ := by
  unfold lagsAll
  rw [List.mem_filter, mem_uniqueSorted, List.mem_map]
  constructor
  · rintro ⟨⟨p, hp, rfl⟩, hpos⟩
    obtain ⟨a, ha, b, hb, rfl⟩ := (mem_mesh t p).mp hp
    exact ⟨by simpa using hpos, a, ha, b, hb, rfl⟩
  · rintro ⟨hpos, a, ha, b, hb, rfl⟩
    exact ⟨⟨pair a b, (mem_mesh t _).mpr ⟨a, ha, b, hb, rfl⟩, rfl⟩, by simpa using hpos⟩

theorem lagsAll_sorted (t : List Pt) : (lagsAll t).Pairwise (· < ·) :=
  (uniqueSorted_sorted _).filter _

theorem pySliceOpt_sublist {α} (l : List α) (j : Option Int) : (pySliceOpt l none j).Sublist l := by
  unfold pySliceOpt pySlice
  exact (List.drop_sublist _ _).trans (List.take_sublist _ _)

theorem mem_lagsAll_of_mem_lagsOf (t : List Pt) (L : Option Int) (δ : Int) (h : δ ∈ lagsOf t L) :
    δ ∈ lagsAll t := (pySliceOpt_sublist _ _).subset h

/-- `[:L]` for `0 ≤ L` is `take L`. -/
theorem pySliceOpt_nonneg {α} (l : List α) (L : Int) (h : 0 ≤ L) :
    pySliceOpt l none (some L) = l.take L.toNat := by
  unfold pySliceOpt pySlice pyNorm
  simp only [Option.getD_none, Option.getD_some]
  have h1 : ¬ L < 0 := by omega
  have h2 : ¬ ((0 : Int) < 0) := by omega
  simp only [h1, h2, if_false]
  simp

theorem sel_ne_nil_of_mem_lagsAll (t : List Pt) (δ : Int) (h : δ ∈ lagsAll t) :
    0 < (sel (mesh t) δ).length := by
  obtain ⟨_, a, ha, b, hb, hd⟩ := (mem_lagsAll t δ).mp h
  unfold sel
  rw [List.length_map, List.length_pos_iff_exists_mem]
  exact ⟨pair a b, List.mem_filter.mpr ⟨(mem_mesh t _).mpr ⟨a, ha, b, hb, rfl⟩, by simp [pair, hd]⟩⟩

/-! ### behaviour of the mesh under a map of the points -/

theorem mesh_map (f : Pt → Pt) (t : List Pt) :
    mesh (t.map f) = t.flatMap fun a => t.map fun b => pair (f a) (f b) := by
  unfold mesh
  rw [List.flatMap_map]
  congr 1; funext a
  rw [List.map_map]; rfl

theorem mesh_map_of_pair (f : Pt → Pt) (g : Int × Rat → Int × Rat)
    (h : ∀ a b, pair (f a) (f b) = g (pair a b)) (t : List Pt) : mesh (t.map f) = (mesh t).map g := by
  rw [mesh_map]
  unfold mesh
  rw [List.map_flatMap]
  congr 1; funext a
  rw [List.map_map]
  congr 1; funext b
  exact h a b

theorem mesh_map_eq (f : Pt → Pt) (h : ∀ a b, pair (f a) (f b) = pair a b) (t : List Pt) :
    mesh (t.map f) = mesh t := by
  rw [mesh_map_of_pair f id (by simpa using h)]; simp

theorem msdCounts_of_mesh_eq (t t' : List Pt) (h : mesh t' = mesh t) (L : Option Int) :
    msdCounts t' L = msdCounts t L := by
  unfold msdCounts lagsOf lagsAll
  rw [h]

/-- scaling every squared displacement by `c` -/
def scaleSnd (c : Rat) (p : Int × Rat) : Int × Rat := (p.1, c * p.2)

theorem sel_map_scaleSnd (c : Rat) (m : List (Int × Rat)) (δ : Int) :
    sel (m.map (scaleSnd c)) δ = (sel m δ).map (c * ·) := by
  unfold sel
  rw [List.filter_map, List.map_map, List.map_map]
  rfl

theorem msdCounts_of_mesh_scale (t t' : List Pt) (c : Rat) (h : mesh t' = (mesh t).map (scaleSnd c))
    (L : Option Int) :
    msdCounts t' L = (msdCounts t L).map fun r => ⟨r.lag, c * r.msd, r.count⟩ := by
  unfold msdCounts lagsOf lagsAll
  rw [h, List.map_map]
  have : ((fun x : Int × Rat => x.1) ∘ scaleSnd c) = fun x => x.1 := by funext x; rfl
  rw [this, List.map_map]
  apply List.map_congr_left
  intro δ _
  simp only [Function.comp, sel_map_scaleSnd, mean_map_mul_left, List.length_map]

/-! ### `np.diff` and the CVE summary statistics under maps of the points -/

theorem diffR_map (f k : Rat → Rat) (h : ∀ a b, f b - f a = k (b - a)) (l : List Rat) :
    diffR (l.map f) = (diffR l).map k := by
  unfold diffR
  rw [← List.map_tail, List.zipWith_map, List.map_zipWith]
  congr 1; funext a b; exact h a b

theorem diffI_map (f : Int → Int) (h : ∀ a b, f b - f a = b - a) (l : List Int) :
    diffI (l.map f) = diffI l := by
  unfold diffI
  rw [← List.map_tail, List.zipWith_map]
  congr 1; funext a b; exact h a b

theorem consec_map_mul (c : Rat) (d : List Rat) :
    consec (d.map (c * ·)) = (consec d).map (c * c * ·) := by
  unfold consec
  rw [← List.map_tail, List.zipWith_map, List.map_zipWith]
  congr 1; funext a b; ring

theorem map_sqr_map_mul (c : Rat) (d : List Rat) :
    (d.map (c * ·)).map sqr = (d.map sqr).map (c * c * ·) := by
  rw [List.map_map, List.map_map]; congr 1; funext x; simp only [Function.comp, sqr]; ring

/-- a map of the points that acts on frames by `fi` and on positions by `fx` -/
theorem map_fst_map (g : Pt → Pt) (fi : Int → Int) (h : ∀ p, (g p).1 = fi p.1) (t : List Pt) :
    (t.map g).map (·.1) = (t.map (·.1)).map fi := by
  rw [List.map_map, List.map_map]; congr 1; funext p; exact h p

theorem map_snd_map (g : Pt → Pt) (fx : Rat → Rat) (h : ∀ p, (g p).2 = fx p.2) (t : List Pt) :
    (t.map g).map (·.2) = (t.map (·.2)).map fx := by
  rw [List.map_map, List.map_map]; congr 1; funext p; exact h p

theorem avgStep_map (g : Pt → Pt) (fi : Int → Int) (h : ∀ p, (g p).1 = fi p.1)
    (hf : ∀ a b, fi b - fi a = b - a) (t : List Pt) : avgStep (t.map g) = avgStep t := by
  unfold avgStep
  rw [map_fst_map g fi h, diffI_map fi hf]

theorem dxs_map (g : Pt → Pt) (fx k : Rat → Rat) (h : ∀ p, (g p).2 = fx p.2)
    (hk : ∀ a b, fx b - fx a = k (b - a)) (t : List Pt) : dxs (t.map g) = (dxs t).map k := by
  unfold dxs
  rw [map_snd_map g fx h, diffR_map fx k hk]

theorem m2_of_dxs_scale (t t' : List Pt) (c : Rat) (h : dxs t' = (dxs t).map (c * ·)) :
    m2 t' = c * c * m2 t := by
  unfold m2; rw [h, map_sqr_map_mul, mean_map_mul_left]

theorem mc_of_dxs_scale (t t' : List Pt) (c : Rat) (h : dxs t' = (dxs t).map (c * ·)) :
    mc t' = c * c * mc t := by
  unfold mc; rw [h, consec_map_mul, mean_map_mul_left]

theorem map_id' {α} (l : List α) : l.map (fun x => x) = l := List.map_id' l

/-- the summary statistics only: if `n`, the average step and `dx` agree, so does `_cve`. -/
theorem cve_congr (t t' : List Pt) (hn : t'.length = t.length) (hs : avgStep t' = avgStep t)
    (h2 : m2 t' = m2 t) (hc : mc t' = mc t) (dt R : Rat) (lv vlv : Option Rat) :
    cve t' dt R lv vlv = cve t dt R lv vlv := by
  unfold cve; rw [hn, hs, h2, hc]

/-- the sum of `np.diff` telescopes: last − first -/
theorem sum_diffI_telescope (a z : Int) : ∀ (mid : List Int), (diffI (a :: (mid ++ [z]))).sum = z - a
  | [] => by simp [diffI]
  | b :: mid => by
    have ih := sum_diffI_telescope b z mid
    have e : diffI (a :: ((b :: mid) ++ [z])) = (b - a) :: diffI (b :: (mid ++ [z])) := by simp [diffI]
    rw [e, List.sum_cons, ih]
    omega

theorem length_diffI (l : List Int) : (diffI l).length = l.length - 1 := by
  unfold diffI; simp [List.length_zipWith]

/-! ### closed forms of the CVE branches under scaling -/

theorem Cve.ext' (x y : Cve) (h1 : x.D = y.D) (h2 : x.var = y.var) (h3 : x.lv = y.lv) : x = y := by
  cases x; cases y; simp_all

theorem cveUnknown_scale (n : Nat) (s m2 mc dt R c : Rat) :
    cveUnknown n s (c * c * m2) (c * c * mc) dt R =
      ⟨c * c * (cveUnknown n s m2 mc dt R).D, c * c * (c * c) * (cveUnknown n s m2 mc dt R).var,
       c * c * (cveUnknown n s m2 mc dt R).lv⟩ := by
  apply Cve.ext' <;> simp only [cveUnknown, varUnknown, sqr] <;> ring

theorem cveKnown_scale (n : Nat) (s m2 dt R l v c : Rat) :
    cveKnown n s (c * c * m2) dt R (c * c * l) (c * c * (c * c) * v) =
      ⟨c * c * (cveKnown n s m2 dt R l v).D, c * c * (c * c) * (cveKnown n s m2 dt R l v).var,
       c * c * (cveKnown n s m2 dt R l v).lv⟩ := by
  apply Cve.ext'
  · simp only [cveKnown]; ring
  · simp only [cveKnown, varKnown, sqr]
    generalize (s - 2 * R) * (s - 2 * R) = bt
    generalize (2 * (s * dt - 2 * R * dt)) = X
    ring
  · simp only [cveKnown]

theorem cveUnknown_time (n : Nat) (s m2 mc dt R c : Rat) :
    cveUnknown n s m2 mc (c * dt) R =
      ⟨(cveUnknown n s m2 mc dt R).D / c, (cveUnknown n s m2 mc dt R).var / (c * c),
       (cveUnknown n s m2 mc dt R).lv⟩ := by
  apply Cve.ext'
  · simp only [cveUnknown]; ring
  · simp only [cveUnknown, varUnknown, sqr]; ring
  · simp only [cveUnknown]

theorem cveKnown_time (n : Nat) (s m2 dt R l v c : Rat) :
    cveKnown n s m2 (c * dt) R l v =
      ⟨(cveKnown n s m2 dt R l v).D / c, (cveKnown n s m2 dt R l v).var / (c * c),
       (cveKnown n s m2 dt R l v).lv⟩ := by
  have hD : (m2 - 2 * l) / (2 * (s * (c * dt) - 2 * R * (c * dt)))
      = (m2 - 2 * l) / (2 * (s * dt - 2 * R * dt)) / c := by
    rw [show 2 * (s * (c * dt) - 2 * R * (c * dt)) = c * (2 * (s * dt - 2 * R * dt)) by ring,
      div_mul_eq_div_div_swap]
  simp only [cveKnown, Cve.mk.injEq, and_true]
  rw [hD]
  generalize (m2 - 2 * l) / (2 * (s * dt - 2 * R * dt)) = D
  refine ⟨rfl, ?_⟩
  simp only [varKnown, sqr]
  generalize (s - 2 * R) * (s - 2 * R) = bt
  ring

/-! ### ordinary least squares -/

/-- residual sums of the line `y = a + b·l` through the points `(l, y)` -/
def resSum (pts : List (Rat × Rat)) (a b : Rat) : Rat := (pts.map fun p => p.2 - a - b * p.1).sum
def resLagSum (pts : List (Rat × Rat)) (a b : Rat) : Rat := (pts.map fun p => p.1 * (p.2 - a - b * p.1)).sum
def sse (pts : List (Rat × Rat)) (a b : Rat) : Rat := (pts.map fun p => sqr (p.2 - a - b * p.1)).sum

theorem resSum_eq (pts : List (Rat × Rat)) (a b : Rat) :
    resSum pts a b = (pts.map (·.2)).sum - (pts.length : Rat) * a - b * (pts.map (·.1)).sum := by
  unfold resSum
  induction pts with
  | nil => simp
  | cons p t ih => simp only [List.map_cons, List.sum_cons, ih, List.length_cons]; push_cast; ring

theorem resLagSum_eq (pts : List (Rat × Rat)) (a b : Rat) :
    resLagSum pts a b = (pts.map fun p => p.1 * p.2).sum - a * (pts.map (·.1)).sum
      - b * (pts.map fun p => p.1 * p.1).sum := by
  unfold resLagSum
  induction pts with
  | nil => simp
  | cons p t ih => simp only [List.map_cons, List.sum_cons, ih]; ring

theorem sse_expand (pts : List (Rat × Rat)) (a b a' b' : Rat) :
    sse pts a' b' = sse pts a b - 2 * (a' - a) * resSum pts a b - 2 * (b' - b) * resLagSum pts a b
      + (pts.map fun p => sqr ((a' - a) + (b' - b) * p.1)).sum := by
  unfold sse resSum resLagSum
  induction pts with
  | nil => simp
  | cons p t ih =>
    simp only [List.map_cons, List.sum_cons]
    rw [ih]
    simp only [sqr]
    ring

theorem olsLine_normal (pts : List (Rat × Rat)) (h : olsDen pts ≠ 0) :
    resSum pts (olsLine pts).1 (olsLine pts).2 = 0 ∧ resLagSum pts (olsLine pts).1 (olsLine pts).2 = 0 := by
  rw [resSum_eq, resLagSum_eq]
  unfold olsDen at h
  simp only [sqr] at h
  simp only [olsLine, sqr]
  generalize (pts.length : Rat) = K at *
  generalize (pts.map (·.1)).sum = α at *
  generalize (pts.map fun p => p.1 * p.1).sum = β at *
  generalize (pts.map (·.2)).sum = γ at *
  generalize (pts.map fun p => p.1 * p.2).sum = δ at *
  have hd : (K * β - α * α) * (1 / (K * β - α * α)) = 1 := mul_one_div_cancel h
  constructor
  · linear_combination (-γ) * hd
  · linear_combination (-δ) * hd

/-! ### weighted statistics -/

theorem sum_replicate_rat (k : Nat) (x : Rat) : (List.replicate k x).sum = (k : Rat) * x := by
  induction k with
  | zero => simp
  | succ n ih => simp only [List.replicate_succ, List.sum_cons, ih]; push_cast; ring

theorem weightedMeanSd_ok (mc : List (Rat × Rat)) (h : 2 ≤ mc.length) :
    ∃ w, weightedMeanSd mc = .ok w ∧
      w.countSum = (mc.map (·.2)).sum ∧
      w.mean = (mc.map fun p => p.1 * p.2).sum / (mc.map (·.2)).sum ∧
      w.var = (mc.map fun p => p.2 * sqr (p.1 - w.mean)).sum *
        ((mc.map (·.2)).sum / (sqr (mc.map (·.2)).sum - (mc.map fun p => sqr p.2).sum)) ∧
      w.ess = sqr (mc.map (·.2)).sum / (mc.map fun p => sqr p.2).sum := by
  unfold weightedMeanSd
  rw [if_neg (by omega)]
  exact ⟨_, rfl, rfl, rfl, rfl, rfl⟩

/-! ### ensembles of identical tracks; OLS under scaling -/

theorem mapM_ok {α β ε} (f : α → Except ε β) (g : α → β) :
    ∀ (l : List α), (∀ x ∈ l, f x = .ok (g x)) → l.mapM f = .ok (l.map g)
  | [], _ => by simp [pure, Except.pure]
  | x :: l, h => by
    rw [List.mapM_cons, h x (by simp), mapM_ok f g l (fun y hy => h y (by simp [hy]))]
    rfl

theorem filter_lag_singleton : ∀ (rows : List MsdRow), (rows.map (·.lag)).Pairwise (· < ·) →
    ∀ r ∈ rows, rows.filter (fun x => x.lag == r.lag) = [r]
  | [], _, r, hr => by simp at hr
  | a :: rows, hs, r, hr => by
    rw [List.map_cons, List.pairwise_cons] at hs
    rcases List.mem_cons.mp hr with rfl | hr'
    · rw [List.filter_cons]
      simp only [beq_self_eq_true, if_true]
      congr 1
      rw [List.filter_eq_nil_iff]
      intro x hx
      have := hs.1 x.lag (List.mem_map.mpr ⟨x, hx, rfl⟩)
      simp; omega
    · rw [List.filter_cons]
      have := hs.1 r.lag (List.mem_map.mpr ⟨r, hr', rfl⟩)
      have hne : (a.lag == r.lag) = false := by simp; omega
      simp only [hne, Bool.false_eq_true, if_false]
      exact filter_lag_singleton rows hs.2 r hr'

theorem flat_filter_replicate (rows : List MsdRow) (hs : (rows.map (·.lag)).Pairwise (· < ·)) (k : Nat)
    (r : MsdRow) (hr : r ∈ rows) :
    (List.replicate k rows).flatten.filter (fun x => x.lag == r.lag) = List.replicate k r := by
  rw [List.filter_flatten, List.map_replicate, filter_lag_singleton rows hs r hr,
    List.flatten_replicate_singleton]

theorem mem_flat_replicate (rows : List MsdRow) (k : Nat) (hk : 0 < k) (x : MsdRow) :
    x ∈ (List.replicate k rows).flatten ↔ x ∈ rows := by
  rw [List.mem_flatten]
  constructor
  · rintro ⟨l, hl, hx⟩
    rw [(List.mem_replicate.mp hl).2] at hx; exact hx
  · intro hx
    exact ⟨rows, List.mem_replicate.mpr ⟨by omega, rfl⟩, hx⟩

theorem meanVar_replicate (x c : Rat) (k : Nat) (hk : 2 ≤ k) (hc : c ≠ 0) :
    meanVar (List.replicate k (x, c)) = (x, 0) := by
  have hk0 : (k : Rat) ≠ 0 := by
    have : (0 : Rat) < k := by exact_mod_cast (by omega : 0 < k)
    exact ne_of_gt this
  unfold meanVar
  simp only [List.map_replicate, sum_replicate_rat, sqr, List.length_replicate]
  have hm : (k : Rat) * (x * c) / (k * c) = x := by field_simp
  rw [hm]
  simp

theorem covEntry_scale (n a b c : Rat) (i j : Nat) :
    covEntry n (c * a) (c * b) i j = c * c * covEntry n a b i j := by
  simp only [covEntry, sqr]
  split_ifs <;> ring

theorem olsVarSlope_scale (lags : List Rat) (n a b c : Rat) :
    olsVarSlope lags n (c * a) (c * b) = c * c * olsVarSlope lags n a b := by
  unfold olsVarSlope
  simp only [covEntry_scale]
  rw [← sum_map_mul_left (c * c), List.map_flatMap]
  congr 1
  congr 1; funext r
  rw [List.map_map]
  congr 1; funext x
  simp only [Function.comp]; ring

theorem rabs_mul_sq (c v : Rat) : rabs (c * c * v) = c * c * rabs v := by
  unfold rabs
  have h : 0 ≤ c * c := mul_self_nonneg c
  by_cases hv : v < 0
  · by_cases hc : c * c = 0
    · simp [hc]
    · have : 0 < c * c := lt_of_le_of_ne h (Ne.symm hc)
      rw [if_pos (by nlinarith), if_pos hv]; ring
  · rw [if_neg (by nlinarith), if_neg hv]

theorem olsLine_scale (pts : List (Rat × Rat)) (c : Rat) :
    olsLine (pts.map fun p => (p.1, c * p.2)) = (c * (olsLine pts).1, c * (olsLine pts).2) := by
  simp only [olsLine, List.map_map, List.length_map, Function.comp_def]
  have h1 : (pts.map fun p => c * p.2).sum = c * (pts.map (·.2)).sum := sum_map_mul_left' c _ pts
  have h2 : (pts.map fun p => p.1 * (c * p.2)).sum = c * (pts.map fun p => p.1 * p.2).sum := by
    rw [← sum_map_mul_left']; congr 1; apply List.map_congr_left; intro p _; ring
  rw [h1, h2]
  simp only [Prod.mk.injEq]
  constructor <;> ring

theorem olsDen_scale (pts : List (Rat × Rat)) (c : Rat) :
    olsDen (pts.map fun p => (p.1, c * p.2)) = olsDen pts := by
  simp only [olsDen, List.map_map, List.length_map, Function.comp_def]

theorem ptsOf_scale (rows : List MsdRow) (c : Rat) :
    ptsOf (rows.map fun r => ⟨r.lag, c * r.msd, r.count⟩) = (ptsOf rows).map fun p => (p.1, c * p.2) := by
  simp only [ptsOf, List.map_map, Function.comp_def]

theorem olsFromRows_scale (rows : List MsdRow) (n : Nat) (dt c : Rat) :
    olsFromRows (rows.map fun r => ⟨r.lag, c * c * r.msd, r.count⟩) n dt true 1 =
      (olsFromRows rows n dt true 1).map fun e =>
        ⟨c * c * e.value, c * c * (c * c) * e.var, c * c * e.lv, e.varDefined⟩ := by
  unfold olsFromRows
  simp only [ptsOf_scale, olsDen_scale, olsLine_scale, List.length_map, List.map_map, Function.comp_def]
  split
  · rfl
  · simp only [Except.map, olsVarSlope_scale, rabs_mul_sq, if_true, Except.ok.injEq, Est.mk.injEq, and_true]
    refine ⟨by ring, by ring, by ring⟩

/-! ### automatic number of lags -/

theorem pySliceOpt_none {α} (l : List α) : pySliceOpt l none none = l := by
  have := pySliceOpt_nonneg l (l.length : Int) (by omega)
  unfold pySliceOpt at this ⊢
  simp only [Option.getD_none, Option.getD_some] at this ⊢
  rw [this]; simp

theorem msdCounts_some_eq_take (t : List Pt) (k : Nat) :
    msdCounts t (some (k : Int)) = (msdCounts t none).take k := by
  unfold msdCounts lagsOf
  rw [pySliceOpt_nonneg _ _ (by omega), pySliceOpt_none, ← List.map_take]
  simp

theorem msdCounts_take (t : List Pt) (k m : Nat) (h : k ≤ m) :
    (msdCounts t (some (m : Int))).take k = msdCounts t (some (k : Int)) := by
  rw [msdCounts_some_eq_take, msdCounts_some_eq_take, List.take_take, Nat.min_eq_left h]

/-- the invariant of the cache of `determine_optimal_points` -/
def OptInv (t : List Pt) (s : OptState) : Prop := s.rows = msdCounts t (some (s.numberComputed : Int))

theorem refresh_numSlope (t : List Pt) (s : OptState) : (refresh t s).numSlope = s.numSlope := by
  unfold refresh; simp only; split <;> rfl
theorem refresh_numIntercept (t : List Pt) (s : OptState) : (refresh t s).numIntercept = s.numIntercept := by
  unfold refresh; simp only; split <;> rfl
theorem refresh_seen (t : List Pt) (s : OptState) : (refresh t s).seen = s.seen := by
  unfold refresh; simp only; split <;> rfl
theorem refresh_inv (t : List Pt) (s : OptState) (h : OptInv t s) : OptInv t (refresh t s) := by
  unfold refresh OptInv; simp only; split
  · rfl
  · exact h
theorem refresh_le (t : List Pt) (s : OptState) : s.numSlope ≤ (refresh t s).numberComputed := by
  unfold refresh; simp only; split
  · simp only; omega
  · omega

theorem refresh_take (t : List Pt) (s : OptState) (h : OptInv t s) :
    (refresh t s).rows.take s.numSlope = msdCounts t (some (s.numSlope : Int)) := by
  rw [refresh_inv t s h, msdCounts_take _ _ _ (refresh_le t s)]


/-- SPECIFICATION of the lag search: no cache, no bookkeeping of `num_intercept` / `number_computed` — every iteration
    computes the MSD curve afresh for exactly the `cur.1` lags it fits. -/
def optSpec (op : OptPts) (t : List Pt) : Nat → Nat × Nat → List Nat → Except String (Nat × Nat)
  | 0, cur, _ => .ok cur
  | fuel + 1, cur, seen =>
    if t.length ≤ 4 then .error "RuntimeError"
    else match op (locErr (ptsOf (msdCounts t (some (cur.1 : Int))))) t.length with
      | .error e => .error e
      | .ok nxt => if nxt.1 ∈ cur.1 :: seen then .ok nxt else optSpec op t fuel nxt (cur.1 :: seen)

theorem optLoop_eq_spec (op : OptPts) (t : List Pt) : ∀ (fuel : Nat) (s : OptState), OptInv t s →
    optLoop op t fuel s = optSpec op t fuel (s.numSlope, s.numIntercept) s.seen
  | 0, _, _ => rfl
  | fuel + 1, s, h => by
    have hi := refresh_inv t s h
    simp only [optLoop, optSpec, refresh_numSlope, refresh_seen, refresh_take t s h]
    by_cases h4 : t.length ≤ 4
    · simp only [h4, if_true]
    · simp only [h4, if_false]
      generalize op (locErr (ptsOf (msdCounts t (some (s.numSlope : Int))))) t.length = r
      cases r with
      | error e => rfl
      | ok nxt =>
        simp only
        by_cases hm : nxt.1 ∈ s.numSlope :: s.seen
        · simp only [hm, if_true]
        · simp only [hm, if_false]
          exact optLoop_eq_spec op t fuel _ hi

theorem optInit_inv (t : List Pt) (n : Nat) : OptInv t (optInit n) := by
  unfold OptInv optInit
  simp only [Nat.cast_zero]; rfl

/-- the spec depends on the track only through its MSD curve and its number of points -/
theorem optSpec_congr (op : OptPts) (t t' : List Pt) (hl : t'.length = t.length)
    (hm : ∀ L, msdCounts t' L = msdCounts t L) : ∀ (fuel : Nat) (cur : Nat × Nat) (seen : List Nat),
    optSpec op t' fuel cur seen = optSpec op t fuel cur seen
  | 0, _, _ => rfl
  | fuel + 1, cur, seen => by
    simp only [optSpec, hl, hm]
    by_cases h4 : t.length ≤ 4
    · simp only [h4, if_true]
    · simp only [h4, if_false]
      generalize op (locErr (ptsOf (msdCounts t (some (cur.1 : Int))))) t.length = r
      cases r with
      | error e => rfl
      | ok nxt =>
        simp only
        by_cases hm' : nxt.1 ∈ cur.1 :: seen
        · simp only [hm', if_true]
        · simp only [hm', if_false]
          exact optSpec_congr op t t' hl hm fuel _ _

theorem locErr_scale (pts : List (Rat × Rat)) (c : Rat) (hc : 0 < c) :
    locErr (pts.map fun p => (p.1, c * p.2)) = locErr pts := by
  unfold locErr
  rw [olsLine_scale]
  generalize olsLine pts = ab
  obtain ⟨a, b⟩ := ab
  have h1 : c * a < 0 ↔ a < 0 := by
    constructor
    · intro h; by_contra hn; have : 0 ≤ c * a := mul_nonneg hc.le (not_lt.mp hn); linarith
    · intro h; exact mul_neg_of_pos_of_neg hc h
  have h2 : c * b < 0 ↔ b < 0 := by
    constructor
    · intro h; by_contra hn; have : 0 ≤ c * b := mul_nonneg hc.le (not_lt.mp hn); linarith
    · intro h; exact mul_neg_of_pos_of_neg hc h
  have h3 : c * b = 0 ↔ b = 0 := by simp [hc.ne']
  have h4 : c * a = 0 ↔ a = 0 := by simp [hc.ne']
  simp only [h1, h2, h3, h4]
  congr 3
  rw [mul_div_mul_left _ _ hc.ne']

theorem optSpec_scale (op : OptPts) (t t' : List Pt) (c : Rat) (hc : 0 < c) (hl : t'.length = t.length)
    (hm : ∀ L, msdCounts t' L = (msdCounts t L).map fun r => ⟨r.lag, c * r.msd, r.count⟩) :
    ∀ (fuel : Nat) (cur : Nat × Nat) (seen : List Nat), optSpec op t' fuel cur seen = optSpec op t fuel cur seen
  | 0, _, _ => rfl
  | fuel + 1, cur, seen => by
    simp only [optSpec, hl, hm, ptsOf_scale, locErr_scale _ c hc]
    by_cases h4 : t.length ≤ 4
    · simp only [h4, if_true]
    · simp only [h4, if_false]
      generalize op (locErr (ptsOf (msdCounts t (some (cur.1 : Int))))) t.length = r
      cases r with
      | error e => rfl
      | ok nxt =>
        simp only
        by_cases hm' : nxt.1 ∈ cur.1 :: seen
        · simp only [hm', if_true]
        · simp only [hm', if_false]
          exact optSpec_scale op t t' c hc hl hm fuel _ _

/-! ### GLS update step -/
theorem sum_map_lin3 {α} (k1 k2 : Rat) (f g h : α → Rat) (l : List α) :
    (l.map fun x => f x - k1 * g x - k2 * h x).sum = (l.map f).sum - k1 * (l.map g).sum - k2 * (l.map h).sum := by
  induction l with
  | nil => simp
  | cons x t ih => simp only [List.map_cons, List.sum_cons, ih]; ring

theorem sum2_lin3 (W : List (List Rat)) (k1 k2 : Rat) (f g h : Nat → Nat → Rat → Rat) :
    sum2 W (fun r c w => f r c w - k1 * g r c w - k2 * h r c w) = sum2 W f - k1 * sum2 W g - k2 * sum2 W h := by
  unfold sum2
  simp only [sum_map_lin3]

theorem sum2_congr (W : List (List Rat)) (f g : Nat → Nat → Rat → Rat) (h : ∀ r c w, f r c w = g r c w) :
    sum2 W f = sum2 W g := by
  have : f = g := by funext r c w; exact h r c w
  rw [this]

/-- the weighted residual sums of a line `a + b·(c+1)` through the points `(c + 1, msd[c])` under the weight matrix `W` -/
def glsRes (W : List (List Rat)) (msd : List Rat) (a b : Rat) : Rat :=
  sum2 W fun _ c w => w * (msd.getD c 0 - a - b * ((c : Rat) + 1))
def glsResLag (W : List (List Rat)) (msd : List Rat) (a b : Rat) : Rat :=
  sum2 W fun r c w => ((r : Rat) + 1) * w * (msd.getD c 0 - a - b * ((c : Rat) + 1))

/-- `Σ (c+1) W[r,c]` — equals `lam` when `W` is symmetric -/
def glsLamT (W : List (List Rat)) : Rat := sum2 W fun _ c w => ((c : Rat) + 1) * w

theorem glsRes_eq (W : List (List Rat)) (msd : List Rat) (a b : Rat) :
    glsRes W msd a b = glsNu W msd - a * glsKappa W - b * glsLamT W := by
  unfold glsRes glsNu glsKappa glsLamT
  rw [← sum2_lin3]
  apply sum2_congr; intro r c w; ring

theorem glsResLag_eq (W : List (List Rat)) (msd : List Rat) (a b : Rat) :
    glsResLag W msd a b = glsXi W msd - a * glsLam W - b * glsMu W := by
  unfold glsResLag glsXi glsLam glsMu
  rw [← sum2_lin3]
  apply sum2_congr; intro r c w; ring


/-! ### ensemble of identical tracks, automatic number of lags -/

theorem ptsOf_take (rows : List MsdRow) (k : Nat) : (ptsOf rows).take k = ptsOf (rows.take k) := by
  unfold ptsOf; rw [List.map_take]

theorem optLoopEns_eq_spec (op : OptPts) (t : List Pt) (h5 : ¬ t.length ≤ 4) :
    ∀ (fuel : Nat) (cur : Nat × Nat) (seen : List Nat),
    optLoopEns op (ptsOf (msdCounts t none)) t.length fuel cur.1 seen = (optSpec op t fuel cur seen).map (·.1)
  | 0, _, _ => rfl
  | fuel + 1, cur, seen => by
    simp only [optLoopEns, optSpec, h5, if_false, ptsOf_take, ← msdCounts_some_eq_take]
    generalize op (locErr (ptsOf (msdCounts t (some (cur.1 : Int))))) t.length = r
    cases r with
    | error e => rfl
    | ok nxt =>
      simp only
      by_cases hm : nxt.1 ∈ cur.1 :: seen
      · simp only [hm, if_true]; rfl
      · simp only [hm, if_false]
        exact optLoopEns_eq_spec op t h5 fuel nxt _

/-- value and localisation variance of an OLS estimate depend on the fitted points only -/
theorem olsFromRows_value (rows rows' : List MsdRow) (n n' : Nat) (dt em em' : Rat) (av av' : Bool)
    (h : ptsOf rows' = ptsOf rows) :
    (olsFromRows rows' n' dt av' em').map (fun e => (e.value, e.lv)) =
      (olsFromRows rows n dt av em).map (fun e => (e.value, e.lv)) := by
  unfold olsFromRows
  simp only [h]
  split <;> rfl

/-- an `optimal_points` function that never answers fewer than two lags for the slope (as the code's: `max(2, …)`) -/
def AtLeastTwo (op : OptPts) : Prop := ∀ le n r, op le n = .ok r → 2 ≤ r.1

theorem optSpec_ge_two (op : OptPts) (hop : AtLeastTwo op) (t : List Pt) :
    ∀ (fuel : Nat) (cur : Nat × Nat) (seen : List Nat) (r : Nat × Nat), 2 ≤ cur.1 →
    optSpec op t fuel cur seen = .ok r → 2 ≤ r.1
  | 0, cur, _, r, hc, h => by
    simp only [optSpec, Except.ok.injEq] at h; subst h; exact hc
  | fuel + 1, cur, seen, r, hc, h => by
    simp only [optSpec] at h
    split at h
    · cases h
    · split at h
      · cases h
      · rename_i nxt hn
        have h2 := hop _ _ _ hn
        split at h
        · simp only [Except.ok.injEq] at h; subst h; exact h2
        · exact optSpec_ge_two op hop t fuel nxt _ r h2 h

theorem optimalPointsF_atLeastTwo : AtLeastTwo optimalPointsF := by
  intro le n r h
  unfold optimalPointsF at h
  split at h
  · cases h
  · split at h
    · cases h
    · simp only [Except.ok.injEq] at h; subst h; exact Nat.le_max_left _ _
    · simp only [Except.ok.injEq] at h; subst h; exact Nat.le_max_left _ _



/-! ### tracks without missing frames -/

/-- no missing frames: the frame indices are `f0, f0 + 1, …` -/
def Contiguous (t : List Pt) : Prop :=
  ∃ f0 : Int, t.map (·.1) = (List.range t.length).map fun (i : Nat) => f0 + (i : Int)


theorem mem_frames_contiguous (t : List Pt) (f0 : Int)
    (h : t.map (·.1) = (List.range t.length).map fun (i : Nat) => f0 + (i : Int)) (x : Int) :
    (∃ a ∈ t, a.1 = x) ↔ ∃ i : Nat, i < t.length ∧ x = f0 + i := by
  have : x ∈ t.map (·.1) ↔ x ∈ (List.range t.length).map fun (i : Nat) => f0 + (i : Int) := by rw [h]
  simp only [List.mem_map, List.mem_range] at this
  constructor
  · rintro ⟨a, ha, rfl⟩
    obtain ⟨i, hi, he⟩ := this.mp ⟨a, ha, rfl⟩
    exact ⟨i, hi, he.symm⟩
  · rintro ⟨i, hi, rfl⟩
    obtain ⟨a, ha, he⟩ := this.mpr ⟨i, hi, rfl⟩
    exact ⟨a, ha, he⟩

theorem lagsAll_contiguous (t : List Pt) (h : Contiguous t) :
    lagsAll t = (List.range (t.length - 1)).map fun (i : Nat) => ((i : Int) + 1) := by
  obtain ⟨f0, hf⟩ := h
  apply sorted_ext _ _ (lagsAll_sorted t)
  · rw [List.pairwise_map]
    exact (List.pairwise_lt_range).imp (by intro a b hab; omega)
  · intro δ
    rw [mem_lagsAll]
    simp only [List.mem_map, List.mem_range]
    constructor
    · rintro ⟨hpos, a, ha, b, hb, hd⟩
      obtain ⟨i, hi, hai⟩ := (mem_frames_contiguous t f0 hf a.1).mp ⟨a, ha, rfl⟩
      obtain ⟨j, hj, hbj⟩ := (mem_frames_contiguous t f0 hf b.1).mp ⟨b, hb, rfl⟩
      refine ⟨j - i - 1, by omega, by omega⟩
    · rintro ⟨i, hi, rfl⟩
      obtain ⟨a, ha, hae⟩ := (mem_frames_contiguous t f0 hf (f0 + (0 : Nat))).mpr ⟨0, by omega, rfl⟩
      obtain ⟨b, hb, hbe⟩ := (mem_frames_contiguous t f0 hf (f0 + ((i + 1 : Nat) : Int))).mpr ⟨i + 1, by omega, rfl⟩
      exact ⟨by omega, a, ha, b, hb, by rw [hae, hbe]; push_cast; omega⟩


/-! ### dispatcher -/

theorem hasGap_map (g : Pt → Pt) (fi : Int → Int) (h : ∀ p, (g p).1 = fi p.1) (hf : ∀ a b, fi b - fi a = b - a)
    (t : List Pt) : hasGap (t.map g) = hasGap t := by
  unfold hasGap
  rw [map_fst_map g fi h, diffI_map fi hf]


end Verif.C09
